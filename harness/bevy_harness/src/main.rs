//! Drives the real bevy plugin (`bevy_mina`) in a headless `App` with a hand-driven `Time`.
mod rng;

use bevy::prelude::*;
use bevy::utils::{Duration, Instant};
use bevy_mina::prelude::*;
use mina::prelude::*;
use mina::{Easing, EasingFunction, MergedTimeline, Repeat};
use rng::Rng;
use std::collections::HashMap;
use std::io::{BufRead, BufWriter, Write};
use std::panic::{catch_unwind, AssertUnwindSafe};

#[derive(Animate, Clone, Component, Debug, Default, PartialEq)]
struct P {
    a: f32,
    b: f32,
}
#[derive(Animate, Clone, Component, Debug, Default, PartialEq)]
struct Q {
    z: f32,
}

/// The key type's `Hash` is deliberately coarser than its `Eq` (K0/K1 collide, K2/K3 collide) — lawful (equal keys
/// hash equally) and harmless to a `HashMap`, but it exposes code that takes "same hash" for "same key".
#[derive(Clone, Copy, Debug, Default, Eq, PartialEq)]
enum Key {
    #[default]
    K0,
    K1,
    K2,
    K3,
}
impl std::hash::Hash for Key {
    fn hash<H: std::hash::Hasher>(&self, h: &mut H) { (key_idx(*self) / 2).hash(h) }
}
fn key_of(i: usize) -> Key {
    [Key::K0, Key::K1, Key::K2, Key::K3][i]
}
fn key_idx(k: Key) -> usize {
    match k { Key::K0 => 0, Key::K1 => 1, Key::K2 => 2, Key::K3 => 3 }
}

// zero-sized custom easing types (all boxed at the same dangling address; see core_harness)
#[derive(Clone)] struct C0;
#[derive(Clone)] struct C1;
#[derive(Clone)] struct C2;
macro_rules! same_debug { ($($t:ty),*) => { $( impl std::fmt::Debug for $t { fn fmt(&self, f: &mut std::fmt::Formatter<'_>) -> std::fmt::Result { f.write_str("CustomEasing") } } )* } }
same_debug!(C0, C1, C2);
impl EasingFunction for C0 { fn calc(&self, x: f32) -> f32 { x * x } }
impl EasingFunction for C1 { fn calc(&self, x: f32) -> f32 { 1.0 - (1.0 - x) * (1.0 - x) } }
impl EasingFunction for C2 { fn calc(&self, x: f32) -> f32 { x * 0.5 + 0.25 } }

const EASING_NAMES: [&str; 29] = [
    "Linear", "Ease", "In", "Out", "InOut", "InSine", "OutSine", "InOutSine", "InQuad", "OutQuad", "InOutQuad",
    "InCubic", "OutCubic", "InOutCubic", "InQuart", "OutQuart", "InOutQuart", "InQuint", "OutQuint", "InOutQuint",
    "InExpo", "OutExpo", "InOutExpo", "InCirc", "OutCirc", "InOutCirc", "InBack", "OutBack", "InOutBack",
];
fn parse_easing(s: &str) -> Easing {
    if let Some(n) = s.strip_prefix('c') {
        if let Ok(k) = n.parse::<u32>() { return match k { 0 => Easing::Custom(Box::new(C0)), 1 => Easing::Custom(Box::new(C1)), _ => Easing::Custom(Box::new(C2)) }; }
    }
    match s {
        "Linear" => Easing::Linear, "Ease" => Easing::Ease, "In" => Easing::In, "Out" => Easing::Out,
        "InOut" => Easing::InOut, "InSine" => Easing::InSine, "OutSine" => Easing::OutSine,
        "InOutSine" => Easing::InOutSine, "InQuad" => Easing::InQuad, "OutQuad" => Easing::OutQuad,
        "InOutQuad" => Easing::InOutQuad, "InCubic" => Easing::InCubic, "OutCubic" => Easing::OutCubic,
        "InOutCubic" => Easing::InOutCubic, "InQuart" => Easing::InQuart, "OutQuart" => Easing::OutQuart,
        "InOutQuart" => Easing::InOutQuart, "InQuint" => Easing::InQuint, "OutQuint" => Easing::OutQuint,
        "InOutQuint" => Easing::InOutQuint, "InExpo" => Easing::InExpo, "OutExpo" => Easing::OutExpo,
        "InOutExpo" => Easing::InOutExpo, "InCirc" => Easing::InCirc, "OutCirc" => Easing::OutCirc,
        "InOutCirc" => Easing::InOutCirc, "InBack" => Easing::InBack, "OutBack" => Easing::OutBack,
        "InOutBack" => Easing::InOutBack,
        _ => Easing::default(),
    }
}
fn parse_repeat(s: &str) -> Repeat {
    match s { "n" => Repeat::None, "i" => Repeat::Infinite, k => Repeat::Times(k.parse().unwrap()) }
}
fn fb(s: &str) -> f32 { f32::from_bits(s.parse().unwrap()) }
fn b(x: f32) -> String { x.to_bits().to_string() }

enum TlObj {
    P(MergedTimeline<<P as Animate>::Timeline>),
    Q(MergedTimeline<<Q as Animate>::Timeline>),
}

/// `tl <slot> <P|Q> dur delay rep rev easing nkf { pos easing vals.. }`
fn build_tl(w: &[&str]) -> TlObj {
    let opt = |s: &str| if s == "-" { None } else { Some(s.to_string()) };
    let nkf: usize = w[8].parse().unwrap();
    macro_rules! common { ($b:expr) => {{
        let mut bb = $b;
        if let Some(d) = opt(w[3]) { bb = bb.duration_seconds(fb(&d)); }
        if let Some(d) = opt(w[4]) { bb = bb.delay_seconds(fb(&d)); }
        if let Some(r) = opt(w[5]) { bb = bb.repeat(parse_repeat(&r)); }
        if let Some(r) = opt(w[6]) { bb = bb.reverse(r == "1"); }
        if let Some(e) = opt(w[7]) { bb = bb.default_easing(parse_easing(&e)); }
        bb
    }} }
    if w[2] == "P" {
        let mut bb = common!(P::timeline());
        let mut q = 9;
        for _ in 0..nkf {
            let mut k = P::keyframe(fb(w[q]));
            if w[q + 2] != "-" { k = k.a(fb(w[q + 2])); }
            if w[q + 3] != "-" { k = k.b(fb(w[q + 3])); }
            if w[q + 1] != "-" { k = k.easing(parse_easing(w[q + 1])); }
            bb = bb.keyframe(k);
            q += 4;
        }
        TlObj::P(MergedTimeline::of([mina::TimelineBuilder::build(bb)]))
    } else {
        let mut bb = common!(Q::timeline());
        let mut q = 9;
        for _ in 0..nkf {
            let mut k = Q::keyframe(fb(w[q]));
            if w[q + 2] != "-" { k = k.z(fb(w[q + 2])); }
            if w[q + 1] != "-" { k = k.easing(parse_easing(w[q + 1])); }
            bb = bb.keyframe(k);
            q += 3;
        }
        TlObj::Q(MergedTimeline::of([mina::TimelineBuilder::build(bb)]))
    }
}

fn state_idx(s: AnimationState) -> usize {
    match s { AnimationState::None => 0, AnimationState::Waiting => 1, AnimationState::Playing => 2, AnimationState::Ended => 3 }
}

struct Ent {
    entity: Entity,
    has_sel: bool,
    has_q: bool,
}

struct Sim {
    app: App,
    ents: Vec<Ent>,          // entity 0 is the one spawned by `bapp`; `bent` adds more to the same App
    now: Instant,
    reader: bevy::ecs::event::ManualEventReader<AnimationStateChanged>,
}

struct Runner {
    tls: HashMap<usize, TlObj>,
    sim: Option<Sim>,
}

impl Runner {
    fn clone_p(&self, tok: &str) -> Option<MergedTimeline<<P as Animate>::Timeline>> {
        if tok == "-" { return None; }
        match self.tls.get(&tok.parse().unwrap()) { Some(TlObj::P(t)) => Some(t.clone()), _ => None }
    }
    fn clone_q(&self, tok: &str) -> Option<MergedTimeline<<Q as Animate>::Timeline>> {
        if tok == "-" { return None; }
        match self.tls.get(&tok.parse().unwrap()) { Some(TlObj::Q(t)) => Some(t.clone()), _ => None }
    }

    /// `bapp <a> <b> <tlslot|-> <enabled> <sel: none | s0,s1,s2,s3> <key> <chain: none | a>b,c>d> <q: none | z,tlslot|->`
    fn bapp(&mut self, w: &[&str]) -> String {
        // w[9]: plugin insertion order variant ("q0": Q's plugin first, "q1": last).  The Update schedule runs on
        // the single-threaded executor so that the order of the systems bevy leaves unordered
        // (chain vs select, animate<Q> vs chain) is fixed per variant; the model takes that order as a parameter.
        let mut app = App::new();
        app.init_resource::<Time>();
        let q_first_plugin = w.get(9).map(|s| *s == "q0").unwrap_or(false);
        if q_first_plugin { app.add_plugins(AnimationPlugin::<Q>::new()); }
        app.add_plugins(AnimationPlugin::<P>::new());
        app.register_animation_key::<P, Key>();
        if !q_first_plugin { app.add_plugins(AnimationPlugin::<Q>::new()); }
        app.edit_schedule(Update, |s| { s.set_executor_kind(bevy::ecs::schedule::ExecutorKind::SingleThreaded); });
        let now = Instant::now();
        app.world.resource_mut::<Time>().update_with_instant(now);
        self.sim = Some(Sim { app, ents: Vec::new(), now, reader: Default::default() });
        self.spawn(w, q_first_plugin);
        self.observe(vec![])
    }

    /// `bent <same arguments as bapp, 1..8>`: one more entity in the same App
    fn bent(&mut self, w: &[&str]) -> String {
        self.spawn(w, false);
        self.observe(vec![])
    }

    fn spawn(&mut self, w: &[&str], via_default: bool) {
        let comp = P { a: fb(w[1]), b: fb(w[2]) };
        // without a timeline: `Animator::new()` or `Animator::default()` (documented as the same)
        let mut anim = match self.clone_p(w[3]) { Some(t) => Animator::<P>::with_timeline(t), None => if via_default { Animator::<P>::default() } else { Animator::<P>::new() } };
        if w[4] == "0" { anim = anim.as_disabled(); }
        let has_sel = w[5] != "none";
        let sel = if has_sel {
            let mut sb = AnimationSelectorBuilder::<Key, P>::new().initial_key(key_of(w[6].parse().unwrap()));
            for (i, tok) in w[5].split(',').enumerate() {
                if let Some(t) = self.clone_p(tok) { sb = sb.add(key_of(i), t); }
            }
            Some(sb.build())
        } else { None };
        let single_to_default = w[7] != "none" && !w[7].contains(',') && w[7].ends_with(">0");
        let chain = if single_to_default {
            // a single entry that reverts to the default key: the documented shortcut `AnimationChain::reset_after`
            Some(AnimationChain::<Key>::reset_after(key_of(w[7].split_once('>').unwrap().0.parse().unwrap())))
        } else if w[7] != "none" {
            let mut cb = AnimationChainBuilder::<Key>::new();
            for pair in w[7].split(',') {
                let (x, y) = pair.split_once('>').unwrap();
                cb = cb.add(key_of(x.parse().unwrap()), key_of(y.parse().unwrap()));
            }
            Some(cb.build())
        } else { None };
        let has_q = w[8] != "none";
        let qparts = if has_q {
            let (z, t) = w[8].split_once(',').unwrap();
            let aq = match self.clone_q(t) { Some(t) => Animator::<Q>::with_timeline(t), None => Animator::<Q>::new() };
            Some((Q { z: fb(z) }, aq))
        } else { None };
        let sim = self.sim.as_mut().unwrap();
        let mut e = sim.app.world.spawn((comp, anim));
        if let Some(sel) = sel { e.insert(sel); }
        if let Some(chain) = chain { e.insert(chain); }
        if let Some(q) = qparts { e.insert(q); }
        let entity = e.id();
        sim.ents.push(Ent { entity, has_sel, has_q });
    }

    fn observe(&mut self, evs: Vec<(Entity, usize)>) -> String {
        let sim = self.sim.as_mut().unwrap();
        let w = &sim.app.world;
        let mut parts = Vec::new();
        for ent in &sim.ents {
            let a = w.get::<Animator<P>>(ent.entity).unwrap();
            let p = w.get::<P>(ent.entity).unwrap();
            let mut s = format!("{} {} {} {} {}", state_idx(a.state()), a.timeline_position.as_nanos(), a.enabled as u8, b(p.a), b(p.b));
            if ent.has_sel {
                let sel = w.get::<AnimationSelector<Key, P>>(ent.entity).unwrap();
                s.push_str(&format!(" | key={}", key_idx(sel.timeline_key)));
            } else {
                s.push_str(" | key=-");
            }
            let mut mine: Vec<usize> = evs.iter().filter(|(e, _)| *e == ent.entity).map(|(_, st)| *st).collect();
            mine.sort();
            s.push_str(&format!(" | ev={}", mine.iter().map(|e| e.to_string()).collect::<Vec<_>>().join(",")));
            if ent.has_q {
                let aq = w.get::<Animator<Q>>(ent.entity).unwrap();
                let q = w.get::<Q>(ent.entity).unwrap();
                s.push_str(&format!(" | {} {} {}", state_idx(aq.state()), aq.timeline_position.as_nanos(), b(q.z)));
            } else {
                s.push_str(" | -");
            }
            parts.push(s);
        }
        parts.join(" ## ")
    }

    fn frame(&mut self, delta_ns: u64) -> String {
        {
            let sim = self.sim.as_mut().unwrap();
            sim.now += Duration::from_nanos(delta_ns);
            let now = sim.now;
            sim.app.world.resource_mut::<Time>().update_with_instant(now);
            sim.app.update();
        }
        let evs: Vec<(Entity, usize)> = {
            let sim = self.sim.as_mut().unwrap();
            let events = sim.app.world.resource::<Events<AnimationStateChanged>>();
            sim.reader.iter(events).map(|e| (e.entity, state_idx(e.state))).collect()
        };
        self.observe(evs)
    }

    fn dispatch(&mut self, w0: &[&str]) -> String {
        // a trailing `@k` selects entity k of the App (default 0)
        let (w, ek): (&[&str], usize) = match w0.last() { Some(t) if t.starts_with('@') => (&w0[..w0.len() - 1], t[1..].parse().unwrap()), _ => (w0, 0) };
        let target = self.sim.as_ref().and_then(|s| s.ents.get(ek)).map(|e| e.entity);
        match w[0] {
            "bent" => self.bent(w),
            "#" => "#".into(),
            "shape" | "border" => "ok".into(),
            "reset" => { self.tls.clear(); self.sim = None; "ok".into() }
            "tl" => { let t = build_tl(w); self.tls.insert(w[1].parse().unwrap(), t); "ok".into() }
            "bapp" => self.bapp(w),
            "frame" => self.frame(w[1].parse().unwrap()),
            "setkey" => {
                let sim = self.sim.as_mut().unwrap();
                if let Some(mut sel) = sim.app.world.get_mut::<AnimationSelector<Key, P>>(target.unwrap()) {
                    sel.timeline_key = key_of(w[1].parse().unwrap());
                }
                self.observe(vec![])
            }
            "enable" => {
                let sim = self.sim.as_mut().unwrap();
                sim.app.world.get_mut::<Animator<P>>(target.unwrap()).unwrap().enabled = w[1] == "1";
                self.observe(vec![])
            }
            "breset" => {
                let sim = self.sim.as_mut().unwrap();
                sim.app.world.get_mut::<Animator<P>>(target.unwrap()).unwrap().reset();
                self.observe(vec![])
            }
            "settl" => {
                let t = self.clone_p(w[1]);
                let sim = self.sim.as_mut().unwrap();
                if let Some(t) = t { sim.app.world.get_mut::<Animator<P>>(target.unwrap()).unwrap().set_timeline(t); }
                self.observe(vec![])
            }
            "terminal" => {
                // what the timeline in `slot` shows long after its end, applied to a copy of the component
                let t = self.clone_p(w[1]);
                let sim = self.sim.as_mut().unwrap();
                let mut c = sim.app.world.get::<P>(target.unwrap()).unwrap().clone();
                if let Some(t) = t { t.update(&mut c, 1.0e9); }
                format!("{} {}", b(c.a), b(c.b))
            }
            "setcomp" => {
                // something other than the animator writes the target component
                let sim = self.sim.as_mut().unwrap();
                if let Some(mut c) = sim.app.world.get_mut::<P>(target.unwrap()) { c.a = fb(w[1]); c.b = fb(w[2]); }
                self.observe(vec![])
            }
            "reinsel" => {
                // a new AnimationSelector inserted over the existing one (`entity.insert(selector)` replaces the component)
                let mut sb = AnimationSelectorBuilder::<Key, P>::new().initial_key(key_of(w[2].parse().unwrap()));
                for (i, tok) in w[1].split(',').enumerate() {
                    if let Some(t) = self.clone_p(tok) { sb = sb.add(key_of(i), t); }
                }
                let sim = self.sim.as_mut().unwrap();
                let had = sim.ents.iter().any(|e| e.entity == target.unwrap() && e.has_sel);
                if had { sim.app.world.entity_mut(target.unwrap()).insert(sb.build()); }
                self.observe(vec![])
            }
            "tpause" => {
                // the App's clock: a paused `Time` reports zero-length frames (`Time::delta()`), whatever the wall clock does
                let sim = self.sim.as_mut().unwrap();
                if w[1] == "1" { sim.app.world.resource_mut::<Time>().pause(); } else { sim.app.world.resource_mut::<Time>().unpause(); }
                self.observe(vec![])
            }
            "tspeed" => {
                // relative speed of the App's clock (f64 bits): `Time::delta()` is the raw delta scaled by it
                let sim = self.sim.as_mut().unwrap();
                sim.app.world.resource_mut::<Time>().set_relative_speed_f64(f64::from_bits(w[1].parse().unwrap()));
                self.observe(vec![])
            }
            "evalat" => {
                // the timeline in `slot` evaluated at a position given in nanoseconds, applied to a copy of the component
                let t = self.clone_p(w[1]);
                let sim = self.sim.as_mut().unwrap();
                let mut c = sim.app.world.get::<P>(target.unwrap()).unwrap().clone();
                if let Some(t) = t { t.update(&mut c, Duration::from_nanos(w[2].parse().unwrap()).as_secs_f32()); }
                format!("{} {}", b(c.a), b(c.b))
            }
            "setpos" => {
                let sim = self.sim.as_mut().unwrap();
                sim.app.world.get_mut::<Animator<P>>(target.unwrap()).unwrap().timeline_position = Duration::from_nanos(w[1].parse().unwrap());
                self.observe(vec![])
            }
            _ => "bad-op".into(),
        }
    }

    fn run_line(&mut self, line: &str) -> String {
        let w: Vec<&str> = line.split(' ').filter(|s| !s.is_empty()).collect();
        if w.is_empty() { return String::new(); }
        match catch_unwind(AssertUnwindSafe(|| self.dispatch(&w))) {
            Ok(s) => s,
            Err(e) => {
                let msg = if let Some(s) = e.downcast_ref::<&str>() { s.to_string() } else if let Some(s) = e.downcast_ref::<String>() { s.clone() } else { "?".into() };
                self.sim = None;
                format!("panic:{}", msg.replace(' ', "_"))
            }
        }
    }
}

/// Which of `chain_animations` / `select_animation` does this bevy schedule run first?  Probe: key K0's
/// timeline ends at once and the chain maps K0 -> K1 (a long timeline).  With chain first, the frame that
/// reads the Ended event also installs K1's timeline.
fn probe_chain_first(variant: &str) -> bool {
    let mut r = Runner { tls: HashMap::new(), sim: None };
    let short = format!("tl 1 P {} {} n 0 Linear 2 0 - 0 - {} - {} -", b(0.001), b(0.0), b(1.0), b(1.0));
    let long = format!("tl 2 P {} {} n 0 Linear 2 0 - 0 - {} - {} -", b(100.0), b(0.0), b(1.0), b(9.0));
    r.run_line(&short);
    r.run_line(&long);
    r.run_line(&format!("bapp 0 0 - 1 1,2,-,- 0 0>1 none {}", variant));
    // frames of 10 ms: f1 installs K0's timeline, f2 Waiting->Playing, f3 evaluates+Ended (event), f4 chain reads it
    let mut first_key1 = 0;
    let mut first_reset = 0;
    let mut last_pos = 0u128;
    for i in 1..=8 {
        let o = r.run_line("frame 10000000");
        let f: Vec<&str> = o.split(' ').collect();
        let pos: u128 = f[1].parse().unwrap();
        if o.contains("key=1") && first_key1 == 0 { first_key1 = i; }
        if first_key1 != 0 && first_reset == 0 && pos <= 10_000_000 && last_pos > 10_000_000 { first_reset = i; }
        last_pos = pos;
    }
    // chain first: the animator is reset in the same frame the key changes
    first_reset != 0 && first_reset == first_key1
}

/// Does `animate::<Q>` (unordered w.r.t. the P systems) run before `chain_animations::<Key, P>`?  Probe: Q's
/// timeline ends quickly; the chain maps K0 -> K1.  If the key changes in the very frame Q's Ended event is
/// sent, animate<Q> ran first.
fn probe_q_first(variant: &str) -> bool {
    let mut r = Runner { tls: HashMap::new(), sim: None };
    let long = format!("tl 1 P {} {} n 0 Linear 2 0 - 0 - {} - {} -", b(100.0), b(0.0), b(1.0), b(9.0));
    let shortq = format!("tl 5 Q {} {} n 0 Linear 2 0 - 0 {} - {}", b(0.001), b(0.0), b(1.0), b(1.0));
    r.run_line(&long);
    r.run_line(&shortq);
    r.run_line(&format!("bapp 0 0 - 1 1,1,-,- 0 0>1 0,5 {}", variant));
    for _ in 1..=8 {
        let o = r.run_line("frame 10000000");
        let ev = o.split(" | ").nth(2).unwrap_or("");
        let has_q_end = ev.contains('3');
        if has_q_end { return o.contains("key=1"); }
    }
    false
}

const LATTICE: [f32; 5] = [0.0, 0.25, 0.5, 0.75, 1.0];
fn gen_tl(r: &mut Rng, slot: usize, shape: &str, short: bool) -> String {
    let durs: &[f32] = if short { &[0.001, 0.01, 0.016, 0.05] } else { &[0.25, 0.5, 1.0, 2.0, 0.3, 0.1] };
    let dur = r.pick(durs);
    let delay = r.pick(&[0.0f32, 0.0, 0.1, 0.5, 1.0, 0.016]);
    let rep = r.pick(&["n", "n", "n", "0", "1", "2", "i"]);
    let rev = r.chance(1, 3);
    let e = EASING_NAMES[r.below(29) as usize];
    let nkf = r.pick(&[0usize, 1, 2, 2, 3, 3]);
    let nf = if shape == "P" { 2 } else { 1 };
    let mut s = format!("tl {} {} {} {} {} {} {} {}", slot, shape, b(dur), b(delay), rep, rev as u8, e, nkf);
    let mut pool = LATTICE.to_vec();
    r.shuffle(&mut pool);
    for i in 0..nkf {
        s.push_str(&format!(" {} {}", b(pool[i]), if r.chance(1, 4) { EASING_NAMES[r.below(29) as usize] } else { "-" }));
        for _ in 0..nf {
            if r.chance(3, 4) { s.push_str(&format!(" {}", b((r.below(401) as f32 - 200.0) * 0.25))); } else { s.push_str(" -"); }
        }
    }
    s
}

fn generate(seed: u64, n: usize, out: &mut dyn Write) {
    let mut r = Rng(seed ^ 0xbe57);
    let orders: Vec<(bool, bool)> = ["q0", "q1"].iter().map(|v| (probe_chain_first(v), probe_q_first(v))).collect();
    writeln!(out, "border {} {}", orders[0].0 as u8, orders[0].1 as u8).unwrap();
    writeln!(out, "shape P f32:a f32:a").unwrap();
    writeln!(out, "shape Q f32:a").unwrap();
    let deltas: [u64; 8] = [0, 1_000_000, 16_000_000, 16_666_667, 100_000_000, 250_000_000, 1_000_000_000, 60_000_000_000];
    for _ in 0..n {
        writeln!(out, "reset").unwrap();
        let variant = r.below(2) as usize;
        writeln!(out, "border {} {}", orders[variant].0 as u8, orders[variant].1 as u8).unwrap();
        writeln!(out, "shape P f32:a f32:a").unwrap();
        writeln!(out, "shape Q f32:a").unwrap();
        for s in 1..=4 { let short = r.chance(1, 3); writeln!(out, "{}", gen_tl(&mut r, s, "P", short)).unwrap(); }
        let short = r.chance(1, 2);
        writeln!(out, "{}", gen_tl(&mut r, 5, "Q", short)).unwrap();
        // one entity's configuration: component values, timeline slot, enabled, selector, key, chain, second animator
        let gen_ent = |r: &mut Rng| -> (String, bool, String, bool, u64) {
            let a0 = (r.below(41) as f32 - 20.0) * 0.5;
            let b0 = (r.below(41) as f32 - 20.0) * 0.5;
            let with_sel = r.chance(1, 2);
            let tl0 = if with_sel || r.chance(1, 6) { "-".to_string() } else { (1 + r.below(4)).to_string() };
            let enabled = !r.chance(1, 8);
            let sel = if with_sel { (0..4).map(|i| if r.chance(3, 4) { (i + 1).to_string() } else { "-".into() }).collect::<Vec<_>>().join(",") } else { "none".into() };
            let key = r.below(4);
            let chain = if with_sel && r.chance(2, 3) {
                let k = 1 + r.below(3);
                (0..k).map(|_| format!("{}>{}", r.below(4), r.below(4))).collect::<Vec<_>>().join(",")
            } else { "none".into() };
            let q = if r.chance(1, 3) { format!("{},{}", b(1.5), if r.chance(4, 5) { "5" } else { "-" }) } else { "none".into() };
            (format!("{} {} {} {} {} {} {} {}", b(a0), b(b0), tl0, enabled as u8, sel, key, chain, q), with_sel, tl0, enabled, key)
        };
        let (line0, with_sel, tl0, enabled, key) = gen_ent(&mut r);
        writeln!(out, "bapp {} q{}", line0, variant).unwrap();
        // a quarter of the Apps hold two or three animated entities: the systems iterate over all of them and the events
        // of all of them travel through one queue
        let mut ent_sel: Vec<bool> = vec![with_sel];
        if r.chance(1, 4) {
            for _ in 0..(1 + r.below(2)) {
                let (line, ws, _, _, _) = gen_ent(&mut r);
                writeln!(out, "bent {}", line).unwrap();
                ent_sel.push(ws);
            }
        }
        let frames = 6 + r.below(30);
        let mut cur_slot = tl0.clone();
        // the generator's own idea of the animator position (exact while the animator has not ended): lets the oracle
        // ask for "the timeline evaluated at the position of one frame ago"
        let mut gpos: u64 = 0;
        let mut gen_enabled = enabled;
        // one App in six plays with its clock: pauses, and relative speeds other than 1
        let clocky = r.chance(1, 6);
        let (mut paused, mut speed) = (false, 1.0f64);
        // "busy" blocks assign the selector key often, and mostly to the key assigned last (a re-assignment that
        // changes nothing but still takes the selector mutably) — in particular right after the frame that ended
        let busy = with_sel && r.chance(1, 3);
        let mut last_key = key;
        for _ in 0..frames {
            if busy && r.chance(1, 3) {
                let k = if r.chance(2, 3) { last_key } else { r.below(4) };
                last_key = k;
                writeln!(out, "setkey {}", k).unwrap();
                if r.chance(1, 4) { writeln!(out, "setkey {}", k).unwrap(); }
            }
            if ent_sel.len() > 1 && r.chance(1, 3) {
                let e = 1 + r.below(ent_sel.len() as u64 - 1) as usize;
                match r.below(4) {
                    0 if ent_sel[e] => writeln!(out, "setkey {} @{}", r.below(4), e).unwrap(),
                    1 => writeln!(out, "enable {} @{}", r.below(2), e).unwrap(),
                    2 => writeln!(out, "breset @{}", e).unwrap(),
                    _ => writeln!(out, "settl {} @{}", 1 + r.below(4), e).unwrap(),
                }
            }
            if r.chance(1, 25) {
                // a foreign write to the target, often followed by a zero-length frame
                writeln!(out, "setcomp {} {}", b((r.below(41) as f32 - 20.0) * 0.5), b((r.below(41) as f32 - 20.0) * 0.5)).unwrap();
                if r.chance(1, 2) { writeln!(out, "frame 0").unwrap(); if !with_sel && cur_slot != "-" { writeln!(out, "evalat {} {}", cur_slot, gpos).unwrap(); } }
            }
            if with_sel && r.chance(1, 30) {
                let sel2 = (0..4).map(|i| if r.chance(3, 4) { (i + 1).to_string() } else { "-".into() }).collect::<Vec<_>>().join(",");
                last_key = r.below(4);
                writeln!(out, "reinsel {} {}", sel2, last_key).unwrap();
            }
            match r.below(20) {
                0 if with_sel => { last_key = r.below(4); writeln!(out, "setkey {}", last_key).unwrap() }
                1 => { let e = r.below(2); gen_enabled = e == 1; writeln!(out, "enable {}", e).unwrap() }
                2 => { gpos = 0; writeln!(out, "breset").unwrap() }
                3 => { let s = 1 + r.below(4); cur_slot = s.to_string(); writeln!(out, "settl {}", s).unwrap() }
                _ => {}
            }
            if clocky && r.chance(1, 5) {
                if r.chance(1, 2) { paused = !paused; writeln!(out, "tpause {}", paused as u8).unwrap(); }
                else { speed = r.pick(&[0.5f64, 2.0, 0.25, 1.0, 1.5, 0.1, 3.0]); writeln!(out, "tspeed {}", speed.to_bits()).unwrap(); }
            }
            let raw = r.pick(&deltas);
            writeln!(out, "frame {}", raw).unwrap();
            // what `Time::delta()` reports for this frame (bevy_time 0.11 `update_with_instant`)
            let delta: u64 = if paused { 0 } else if speed != 1.0 { Duration::from_nanos(raw).mul_f64(speed).as_nanos() as u64 } else { raw };
            if !with_sel && cur_slot != "-" {
                writeln!(out, "terminal {}", cur_slot).unwrap();
                writeln!(out, "evalat {} {}", cur_slot, gpos).unwrap();
            }
            if gen_enabled && cur_slot != "-" { gpos = gpos.saturating_add(delta); }
        }
        // one App in ten is a marathon: an endlessly repeating timeline kept running for about a day of animation time
        // (600 s frames, or one 65 535 s frame followed by ordinary ones) — the position keeps growing by each frame's delta
        if r.chance(1, 10) {
            writeln!(out, "reset").unwrap();
            writeln!(out, "border {} {}", orders[variant].0 as u8, orders[variant].1 as u8).unwrap();
            writeln!(out, "shape P f32:a f32:a").unwrap();
            writeln!(out, "shape Q f32:a").unwrap();
            let (dur, delay) = (r.pick(&[1.0f32, 2.5, 600.0, 0.75]), r.pick(&[0.0f32, 0.5, 3.0]));
            writeln!(out, "tl 1 P {} {} i {} {} 2 {} - {} {} {} - {} {}", b(dur), b(delay), r.below(2), EASING_NAMES[r.below(29) as usize],
                b(0.0), b(-4.0), b(2.0), b(1.0), b(8.0), b(-6.0)).unwrap();
            writeln!(out, "bapp {} {} 1 1 none 0 none none q{}", b(1.0), b(1.0), variant).unwrap();
            let mut gpos: u64 = 0;
            let plan: Vec<u64> = if r.chance(1, 2) { (0..(112 + r.below(30))).map(|_| 600_000_000_000u64).collect() }
                else { let mut v = vec![65_535_000_000_000u64]; for _ in 0..(60 + r.below(60)) { v.push(16_666_667); } v };
            for raw in plan {
                writeln!(out, "frame {}", raw).unwrap();
                writeln!(out, "evalat 1 {}", gpos).unwrap();
                gpos = gpos.saturating_add(raw);
            }
        }
    }
}

fn main() {
    let args: Vec<String> = std::env::args().collect();
    std::panic::set_hook(Box::new(|_| {}));
    match args.get(1).map(|s| s.as_str()) {
        Some("run") => {
            let stdin = std::io::stdin();
            let out = std::io::stdout();
            let mut out = BufWriter::new(out.lock());
            let mut r = Runner { tls: HashMap::new(), sim: None };
            for line in stdin.lock().lines() {
                writeln!(out, "{}", r.run_line(line.unwrap().trim())).unwrap();
            }
        }
        Some("gen") => {
            let seed: u64 = args[3].parse().unwrap();
            let n: usize = args[4].parse().unwrap();
            let out = std::io::stdout();
            let mut out = BufWriter::new(out.lock());
            generate(seed, n, &mut out);
        }
        Some("probe") => for v in ["q0", "q1"] { println!("{}: chain_first={} q_first={}", v, probe_chain_first(v), probe_q_first(v)) },
        _ => std::process::exit(2),
    }
}
