//! SplitMix64: every random choice in a run derives from one seed.
pub struct Rng(pub u64);
impl Rng {
    pub fn next(&mut self) -> u64 {
        self.0 = self.0.wrapping_add(0x9E3779B97F4A7C15);
        let mut z = self.0;
        z = (z ^ (z >> 30)).wrapping_mul(0xBF58476D1CE4E5B9);
        z = (z ^ (z >> 27)).wrapping_mul(0x94D049BB133111EB);
        z ^ (z >> 31)
    }
    pub fn below(&mut self, n: u64) -> u64 {
        self.next() % n
    }
    pub fn chance(&mut self, num: u64, den: u64) -> bool {
        self.below(den) < num
    }
    pub fn pick<T: Clone>(&mut self, xs: &[T]) -> T {
        xs[self.below(xs.len() as u64) as usize].clone()
    }
    pub fn unit_f32(&mut self) -> f32 {
        (self.below(1 << 24) as f32) / (1u32 << 24) as f32
    }
    pub fn shuffle<T>(&mut self, xs: &mut [T]) {
        for i in (1..xs.len()).rev() {
            let j = self.below(i as u64 + 1) as usize;
            xs.swap(i, j);
        }
    }
}
