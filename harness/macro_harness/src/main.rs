//! Drives the real macro expansion code (`macros/src/*.rs`, included by path with the `verif-hooks`
//! entries) in-process: generated sentences are rendered to source text, tokenised and parsed by the real
//! `syn` parser, expanded by the real `expand_*` functions, and the emitted token stream is interpreted
//! into a normalised record that the Lean model must reproduce.
extern crate proc_macro;

#[path = "/repo/macros/src/derive_animate.rs"]
#[allow(dead_code, unused_imports)]
mod derive_animate;
#[path = "/repo/macros/src/fn_animator.rs"]
#[allow(dead_code, unused_imports)]
mod fn_animator;
#[path = "/repo/macros/src/fn_timeline.rs"]
#[allow(dead_code, unused_imports)]
mod fn_timeline;
mod rng;

use proc_macro2::TokenStream as TokenStream2;
use quote::ToTokens;
use rng::Rng;
use std::io::{BufRead, BufWriter, Write};
use std::panic::{catch_unwind, AssertUnwindSafe};
use std::str::FromStr;
use syn::{Expr, ExprMethodCall, Item, Stmt};

fn nospace(s: &str) -> String {
    s.chars().filter(|c| !c.is_whitespace()).collect()
}

// ------------------------------------------------------------------------------------------------
// rendering the token encoding to source text

fn render_tok(t: &str) -> String {
    if let Some(x) = t.strip_prefix("L:") { return x.to_string(); }
    if let Some(x) = t.strip_prefix("P:") { return x.to_string(); }
    if let Some(x) = t.strip_prefix("O:") { return x.to_string(); }
    if let Some(x) = t.strip_prefix("B:") {
        let fields: Vec<String> = x.split(';').filter(|f| !f.is_empty()).map(|f| match f.split_once('=') { Some((n, e)) => format!("{}: {}", n, e), None => f.to_string() /* field shorthand: `{ x }` */ }).collect();
        return format!("{{ {} }}", fields.join(", "));
    }
    t.to_string()
}

fn render(toks: &[&str]) -> String {
    toks.iter().map(|t| render_tok(t)).collect::<Vec<_>>().join(" ")
}

// ------------------------------------------------------------------------------------------------
// interpreting an emitted builder chain

fn f32_bits(e: &Expr) -> String {
    if let Expr::Unary(u) = e {
        if matches!(u.op, syn::UnOp::Neg(_)) {
            // a negative literal: `-5s` is a single `syn::Lit`; the macro emits `- 5f32`
            return match f32_bits(&u.expr).parse::<u32>() { Ok(b) => (-f32::from_bits(b)).to_bits().to_string(), Err(_) => "?".into() };
        }
    }
    match e {
        Expr::Lit(l) => match &l.lit {
            syn::Lit::Float(f) => f.base10_parse::<f32>().map(|x| x.to_bits().to_string()).unwrap_or("?".into()),
            syn::Lit::Int(i) => i.base10_parse::<f32>().map(|x| x.to_bits().to_string()).unwrap_or("?".into()),
            _ => "?".into(),
        },
        _ => "?".into(),
    }
}

/// unwinds `recv.m1(a).m2(b)…` into (innermost receiver, [(method, args)] outermost last)
fn unwind(e: &Expr) -> (Expr, Vec<(String, Vec<Expr>)>) {
    let mut calls = Vec::new();
    let mut cur = e.clone();
    loop {
        match cur {
            Expr::MethodCall(ExprMethodCall { receiver, method, args, .. }) => {
                calls.push((method.to_string(), args.into_iter().collect::<Vec<_>>()));
                cur = *receiver;
            }
            other => {
                calls.reverse();
                return (other, calls);
            }
        }
    }
}

fn interp_keyframe(e: &Expr) -> String {
    let (base, calls) = unwind(e);
    // base: `Name::keyframe(<pos>)`
    let pos = match &base {
        Expr::Call(c) if nospace(&c.func.to_token_stream().to_string()).ends_with("::keyframe") && c.args.len() == 1 => f32_bits(&c.args[0]),
        _ => return format!("?kf:{}", nospace(&base.to_token_stream().to_string())),
    };
    let mut spec: Vec<String> = Vec::new();
    for (m, args) in calls {
        if m == "values_from" {
            let ok = args.len() == 2 && f32_bits(&args[0]) == pos && nospace(&args[1].to_token_stream().to_string()) == "&default_values";
            spec.push(if ok { "D".into() } else { "?D".into() });
        } else if args.len() == 1 {
            spec.push(format!("{}={}", m, nospace(&args[0].to_token_stream().to_string())));
        } else {
            spec.push(format!("?{}", m));
        }
    }
    format!("{}:{}", pos, spec.join("&"))
}

fn interp_timeline(e: &Expr) -> String {
    // merged?
    if let Expr::Call(c) = e {
        if nospace(&c.func.to_token_stream().to_string()) == "::mina::MergedTimeline::of" && c.args.len() == 1 {
            if let Expr::Array(a) = &c.args[0] {
                return format!("merged[{}]", a.elems.iter().map(interp_timeline).collect::<Vec<_>>().join("|"));
            }
        }
    }
    let (base, calls) = unwind(e);
    match &base {
        Expr::Call(c) if nospace(&c.func.to_token_stream().to_string()).ends_with("::timeline") && c.args.is_empty() => {}
        _ => return format!("?tl:{}", nospace(&base.to_token_stream().to_string())),
    }
    let (mut dur, mut delay, mut ease, mut rep, mut rev) = ("-".to_string(), "-".to_string(), "-".to_string(), "-".to_string(), "0".to_string());
    let mut kfs: Vec<String> = Vec::new();
    let mut built = false;
    for (m, args) in calls {
        match (m.as_str(), args.len()) {
            ("duration_seconds", 1) => dur = f32_bits(&args[0]),
            ("delay_seconds", 1) => delay = f32_bits(&args[0]),
            ("default_easing", 1) => ease = nospace(&args[0].to_token_stream().to_string()),
            ("repeat", 1) => {
                let t = nospace(&args[0].to_token_stream().to_string());
                rep = if t == "::mina::Repeat::Infinite" { "i".into() }
                      else if let Some(n) = t.strip_prefix("::mina::Repeat::Times(").and_then(|x| x.strip_suffix(")")) { n.trim_end_matches("u32").to_string() }
                      else { format!("?{}", t) };
            }
            ("reverse", 1) => rev = if nospace(&args[0].to_token_stream().to_string()) == "true" { "1".into() } else { "?".into() },
            ("keyframe", 1) => kfs.push(interp_keyframe(&args[0])),
            ("build", 0) => built = true,
            _ => kfs.push(format!("?{}", m)),
        }
    }
    format!("tl[dur={};delay={};ease={};rep={};rev={};kf={}]{}", dur, delay, ease, rep, rev, kfs.join(","), if built { "" } else { "?nobuild" })
}

fn expand_tl(toks: &[&str]) -> String {
    let src = format!("Style {}", render(toks));
    let ts = match TokenStream2::from_str(&src) { Ok(t) => t, Err(_) => return "lex-error".into() };
    match fn_timeline::verif_expand_timeline(ts) {
        Err(_) => "reject".into(),
        Ok(out) => match syn::parse2::<Expr>(out.clone()) {
            Ok(e) => interp_timeline(&e),
            Err(_) => format!("?unparsed:{}", nospace(&out.to_string())),
        },
    }
}

// ------------------------------------------------------------------------------------------------
// animator!

/// `manim <D:none | D:<state> | D:<state>:E:<expr> | D:<state>:I:<f=e;..>> (ARM <S|S> => toks…)*`
fn render_anim(w: &[&str]) -> String {
    let mut parts: Vec<String> = Vec::new();
    let d = w[0];
    if d != "D:none" {
        let body = &d[2..];
        let (state, rest) = match body.split_once(":E:") {
            Some((s, e)) => (s.to_string(), format!(", {}", e)),
            None => match body.split_once(":I:") {
                Some((s, fs)) => (s.to_string(), format!(", {}", render_tok(&format!("B:{}", fs)))),
                None => (body.to_string(), String::new()),
            },
        };
        parts.push(format!("default({}{})", state, rest));
    }
    let mut i = 1;
    while i < w.len() {
        assert_eq!(w[i], "ARM");
        let states = w[i + 1].replace('|', " | ");
        let mut j = i + 3; // skip "=>"
        while j < w.len() && w[j] != "ARM" { j += 1; }
        parts.push(format!("{} => {}", states, render(&w[i + 3..j])));
        i = j;
    }
    // `default(..)` must be followed by a comma (`_terminator: Token![,]`), arms are comma separated
    let (head, arms) = if d != "D:none" { (format!("{}, ", parts[0]), parts[1..].to_vec()) } else { (String::new(), parts) };
    format!("Style {{ {}{} }}", head, arms.join(", "))
}

fn interp_anim(out: TokenStream2) -> String {
    let block = match syn::parse2::<syn::ExprBlock>(out.clone()) { Ok(b) => b, Err(_) => return format!("?unparsed:{}", nospace(&out.to_string())) };
    let stmts = &block.block.stmts;
    if stmts.len() != 2 { return "?shape".into(); }
    let defaults = match &stmts[0] {
        Stmt::Local(l) if nospace(&l.pat.to_token_stream().to_string()) == "default_values" => {
            let init = &l.init.as_ref().unwrap().expr;
            match &**init {
                Expr::Block(b) => {
                    // { let mut default_values = Name::default(); default_values.f = e; …; default_values }
                    let mut fs: Vec<String> = Vec::new();
                    let mut ok = true;
                    for (k, s) in b.block.stmts.iter().enumerate() {
                        if nospace(&s.to_token_stream().to_string()) == ";" { continue; } // `#(#assignments);*;` with no assignments
                        match s {
                            Stmt::Local(l2) if k == 0 => { ok &= nospace(&l2.to_token_stream().to_string()) == "letmutdefault_values=Style::default();"; }
                            Stmt::Expr(Expr::Assign(a), _) => {
                                let lhs = nospace(&a.left.to_token_stream().to_string());
                                match lhs.strip_prefix("default_values.") { Some(f) => fs.push(format!("{}={}", f, nospace(&a.right.to_token_stream().to_string()))), None => ok = false }
                            }
                            Stmt::Expr(e, None) => { ok &= nospace(&e.to_token_stream().to_string()) == "default_values"; }
                            _ => ok = false,
                        }
                    }
                    if ok { format!("inline:{}", fs.join("&")) } else { format!("?inline:{}", nospace(&b.to_token_stream().to_string())) }
                }
                e => {
                    let t = nospace(&e.to_token_stream().to_string());
                    if t == "Style::default()" { "none".into() } else { format!("expr:{}", t) }
                }
            }
        }
        _ => return "?nolet".into(),
    };
    let chain = match &stmts[1] { Stmt::Expr(e, None) => e.clone(), _ => return "?nochain".into() };
    let (base, calls) = unwind(&chain);
    if nospace(&base.to_token_stream().to_string()) != "::mina::StateAnimatorBuilder::new()" { return "?base".into(); }
    let mut state = "-".to_string();
    let mut ons: Vec<String> = Vec::new();
    let (mut fv, mut built) = (false, false);
    for (m, args) in calls {
        match (m.as_str(), args.len()) {
            ("from_state", 1) => state = nospace(&args[0].to_token_stream().to_string()),
            ("from_values", 1) => fv = nospace(&args[0].to_token_stream().to_string()) == "default_values.clone()",
            ("on", 2) => ons.push(format!("{}:{}", nospace(&args[0].to_token_stream().to_string()), interp_timeline(&args[1]))),
            ("build", 0) => built = true,
            _ => ons.push(format!("?{}", m)),
        }
    }
    format!("anim[state={};defaults={};on={}]{}", state, defaults, ons.join(","), if fv && built { "" } else { "?chain" })
}

fn expand_anim(w: &[&str]) -> String {
    let src = render_anim(w);
    let ts = match TokenStream2::from_str(&src) { Ok(t) => t, Err(_) => return "lex-error".into() };
    match fn_animator::verif_expand_animator(ts) {
        Err(_) => "reject".into(),
        Ok(out) => interp_anim(out),
    }
}

// ------------------------------------------------------------------------------------------------
// derive(Animate)

/// `mderive <vis> <kind> <Name> <attrs: none | name=S:text | name=N:text …(comma separated)> <field:type:a|n>…`
fn render_derive(w: &[&str]) -> String {
    let vis = match w[0] { "pub" => "pub ", "crate" => "pub(crate) ", _ => "" };
    let mut attrs = String::new();
    if w[3] != "none" {
        for a in w[3].split(',') {
            let (n, v) = a.split_once('=').unwrap();
            let (k, text) = v.split_once(':').unwrap();
            let val = if k == "S" { format!("\"{}\"", text) } else { text.to_string() };
            attrs.push_str(&format!("#[animate({} = {})] ", n, val));
        }
    }
    let fields: Vec<(String, String, bool, bool)> = w[4..].iter().map(|f| { let p: Vec<&str> = f.split(':').collect(); (p[0].to_string(), p[1].replace('~', "::"), p[2] == "a" || p[2] == "A", p[2] == "A" || p[2] == "N") }).collect();
    match w[1] {
        "named" => format!("{}#[derive(Clone)] {}struct {} {{ {} }}", attrs, vis, w[2],
            // marks `A` / `N`: the field also carries attributes that are not `#[animate]` (doc comment, lint attribute, a
            // path attribute of another name, a list-form attribute) before and after the mark
            fields.iter().enumerate().map(|(k, (n, t, a, noise))| {
                let (pre, post) = if !*noise { ("", "") } else { match k % 4 { 0 => ("#[doc = \"the field\"] ", ""), 1 => ("", "#[allow(dead_code)] "), 2 => ("#[deprecated] ", "#[doc = \"x\"] "), _ => ("#[allow(unused)] #[doc(hidden)] ", "") } };
                format!("{}{}{}{}{}: {}", pre, if *a { "#[animate] " } else { "" }, post, vis, n, t) }).collect::<Vec<_>>().join(", ")),
        "tuple" => format!("{}{}struct {}({});", attrs, vis, w[2], fields.iter().map(|(_, t, _, _)| t.clone()).collect::<Vec<_>>().join(", ")),
        "unit" => format!("{}{}struct {};", attrs, vis, w[2]),
        _ => format!("{}{}enum {} {{ A, B }}", attrs, vis, w[2]),
    }
}

fn flat(ts: TokenStream2, out: &mut Vec<String>) {
    for t in ts {
        match t {
            proc_macro2::TokenTree::Group(g) => {
                let (o, c) = match g.delimiter() { proc_macro2::Delimiter::Parenthesis => ("(", ")"), proc_macro2::Delimiter::Brace => ("{", "}"), proc_macro2::Delimiter::Bracket => ("[", "]"), _ => ("", "") };
                out.push(o.into()); flat(g.stream(), out); out.push(c.into());
            }
            other => out.push(other.to_string()),
        }
    }
}

fn find_fn<'a>(items: &'a [syn::ImplItem], name: &str) -> Option<&'a syn::ImplItemFn> {
    items.iter().find_map(|i| match i { syn::ImplItem::Fn(f) if f.sig.ident == name => Some(f), _ => None })
}

fn windows_after(toks: &[String], pat: &[&str], take: usize) -> Vec<String> {
    // every occurrence of `pat` (with "_" wildcards) yields the token at offset `take`
    let mut out = Vec::new();
    if toks.len() < pat.len() { return out; }
    for i in 0..=toks.len() - pat.len() {
        if pat.iter().enumerate().all(|(k, p)| *p == "_" || toks[i + k] == *p) { out.push(toks[i + take].clone()); }
    }
    out
}

fn interp_derive(out: TokenStream2) -> String {
    let file = match syn::parse2::<syn::File>(out.clone()) { Ok(f) => f, Err(_) => return format!("?unparsed:{}", nospace(&out.to_string())) };
    let (mut target, mut remote, mut tl, mut data, mut builder, mut vis) = (String::new(), String::new(), String::new(), String::new(), String::new(), String::new());
    let mut anim: Vec<String> = Vec::new();
    let mut data_fields: Vec<String> = Vec::new();
    let (mut setters, mut kfrom, mut vfrom, mut upd, mut start): (Vec<String>, Vec<String>, Vec<String>, Vec<String>, Vec<String>) = Default::default();
    let mut fake = false;
    let mut init: Vec<String> = Vec::new();
    let mut remote_vfrom = String::new();
    for item in &file.items {
        match item {
            Item::Struct(s) => {
                let name = s.ident.to_string();
                let fields: Vec<(String, String)> = s.fields.iter().map(|f| (f.ident.as_ref().unwrap().to_string(), nospace(&f.ty.to_token_stream().to_string()))).collect();
                if name.ends_with("Timeline") {
                    tl = name;
                    vis = nospace(&s.vis.to_token_stream().to_string());
                    for (n, t) in &fields {
                        if let Some(f) = n.strip_prefix("t_") {
                            let inner = t.strip_prefix("::mina::SubTimeline<").and_then(|x| x.strip_suffix(">")).unwrap_or("?");
                            anim.push(format!("{}:{}", f, inner));
                        }
                    }
                } else if name.ends_with("KeyframeData") {
                    data = name;
                    for (n, t) in &fields {
                        let inner = t.strip_prefix("std::option::Option<").and_then(|x| x.strip_suffix(">")).unwrap_or("?");
                        data_fields.push(format!("{}:{}", n, inner));
                    }
                } else if name.ends_with("KeyframeBuilder") {
                    builder = name;
                }
            }
            Item::Impl(im) => {
                let self_ty = nospace(&im.self_ty.to_token_stream().to_string());
                let tr = im.trait_.as_ref().map(|(_, p, _)| nospace(&p.to_token_stream().to_string())).unwrap_or_default();
                if tr == "Animate" {
                    target = self_ty.clone();
                    if let Some(f) = find_fn(&im.items, "keyframe_from") {
                        let mut t = Vec::new(); flat(f.block.to_token_stream(), &mut t);
                        kfrom = windows_after(&t, &["keyframe", "=", "keyframe", ".", "_", "(", "target", ".", "_", ")"], 4);
                        let src = windows_after(&t, &["keyframe", "=", "keyframe", ".", "_", "(", "target", ".", "_", ")"], 8);
                        if src != kfrom { kfrom.push("?mismatch".into()); }
                        if let syn::FnArg::Typed(p) = &f.sig.inputs[0] { remote = nospace(&p.ty.to_token_stream().to_string()).trim_start_matches('&').to_string(); }
                    }
                    if let Some(f) = find_fn(&im.items, "timeline") {
                        let mut t = Vec::new(); flat(f.block.to_token_stream(), &mut t);
                        fake = t.iter().any(|x| x == "match");
                    }
                } else if tr.starts_with("::mina::TimelineBuilder<") {
                    // the wiring of every sub-timeline: `t_<n>: SubTimeline::from_keyframes(&args.keyframes, Default::default(),
                    // |keyframe| keyframe.<m>, args.default_easing.clone())` is recorded as `<n><<m>` (`?…` if an argument differs)
                    if let Some(f) = find_fn(&im.items, "build") {
                        let tail = f.block.stmts.iter().rev().find_map(|st| match st { Stmt::Expr(Expr::Struct(es), _) => Some(es.clone()), _ => None });
                        if let Some(es) = tail {
                            for fv in &es.fields {
                                let m = match &fv.member { syn::Member::Named(i) => i.to_string(), _ => "?".into() };
                                if !m.starts_with("t_") { continue; }
                                let mut item = format!("?{}", m);
                                if let Expr::Call(c) = &fv.expr {
                                    let args: Vec<String> = c.args.iter().map(|a| nospace(&a.to_token_stream().to_string())).collect();
                                    if nospace(&c.func.to_token_stream().to_string()) == "::mina::SubTimeline::from_keyframes" && args.len() == 4
                                        && args[0] == "&args.keyframes" && args[1] == "std::default::Default::default()" && args[3] == "args.default_easing.clone()" {
                                        if let Some(src) = args[2].strip_prefix("|keyframe|keyframe.") { item = format!("{}<{}", &m[2..], src); }
                                    }
                                }
                                init.push(item);
                            }
                        }
                    }
                } else if tr == "::mina::Timeline" {
                    if let Some(f) = find_fn(&im.items, "update") {
                        let mut t = Vec::new(); flat(f.block.to_token_stream(), &mut t);
                        upd = windows_after(&t, &["target", ".", "_", "=", "_", ";"], 2);
                        let subs = windows_after(&t, &["self", ".", "_", ".", "value_at"], 2);
                        if subs != upd.iter().map(|f| format!("t_{}", f)).collect::<Vec<_>>() { upd.push("?mismatch".into()); }
                    }
                    if let Some(f) = find_fn(&im.items, "start_with") {
                        let mut t = Vec::new(); flat(f.block.to_token_stream(), &mut t);
                        start = windows_after(&t, &["override_start_value", "(", "values", ".", "_", ")"], 4);
                    }
                    for it in &im.items {
                        if let syn::ImplItem::Type(ty) = it { if ty.ident == "Target" { let r = nospace(&ty.ty.to_token_stream().to_string()); if !remote.ends_with(&r) { remote = format!("{}?target={}", remote, r); } } }
                    }
                } else if tr.is_empty() && self_ty.ends_with("KeyframeBuilder") {
                    for it in &im.items {
                        if let syn::ImplItem::Fn(f) = it {
                            let n = f.sig.ident.to_string();
                            if n == "values_from" {
                                let mut t = Vec::new(); flat(f.block.to_token_stream(), &mut t);
                                vfrom = windows_after(&t, &["self", ".", "data", ".", "_", "=", "std", ":", ":", "option", ":", ":", "Option", ":", ":", "Some", "(", "values", ".", "_", ")"], 4);
                                if let syn::FnArg::Typed(p) = &f.sig.inputs[2] { remote_vfrom = nospace(&p.ty.to_token_stream().to_string()).trim_start_matches('&').to_string(); }
                            } else if n != "new" {
                                setters.push(n);
                            }
                        }
                    }
                }
            }
            _ => {}
        }
    }
    if data_fields != anim { anim.push(format!("?data={}", data_fields.join(","))); }
    format!("derive[target={};remote={};vfromty={};tl={};data={};builder={};vis={};anim={};setters={};kfrom={};vfrom={};upd={};start={};fake={};init={}]",
        target, remote, remote_vfrom, tl, data, builder, vis, anim.join(","), setters.join(","), kfrom.join(","), vfrom.join(","), upd.join(","), start.join(","), fake as u8, init.join(","))
}

fn expand_derive(w: &[&str]) -> String {
    let src = render_derive(w);
    let ts = match TokenStream2::from_str(&src) { Ok(t) => t, Err(_) => return "lex-error".into() };
    match derive_animate::verif_expand_animate(ts) {
        Err(_) => "reject".into(),
        Ok(out) => interp_derive(out),
    }
}

// ------------------------------------------------------------------------------------------------
// generators (grammar-directed, plus a malformed stream)

/// `mtlc` / `manimc`: only inputs that type-check when really compiled against
/// `struct Style { x: f32, y: f32, alpha: f32, size: f32 }` (see harness/macro_compiled)
static COMPILABLE: std::sync::atomic::AtomicBool = std::sync::atomic::AtomicBool::new(false);
fn compilable() -> bool { COMPILABLE.load(std::sync::atomic::Ordering::Relaxed) }

// paths as a user writes them: enum variants, constants, and *bare identifiers* — a local, const or static holding an
// `Easing` (the only way to hand the macro an `Easing::Custom`), whatever its name: the macro passes the path through
const EASINGS: [&str; 17] = ["P:Easing::OutQuad", "P:Easing::Linear", "P:Easing::InOutBack", "P:Easing::Ease", "P:my::easing::CUSTOM", "P:Linear",
    "P:ease", "P:linear", "P:ease_in", "P:ease_out", "P:ease_in_out", "P:my_ease", "P:r#ease", "P:self::ease", "P:EASE", "P:step_end",
    "P:bounce"];

fn gen_num(r: &mut Rng) -> String {
    if !compilable() && r.chance(1, 14) {
        // other spellings of the same numbers: radix prefixes (hex digits a–d only, so that a unit `s`/`ms`/`x` or an `e`
        // cannot be mistaken for a digit), upper-case exponent, leading zeros, many digits, integers beyond 2^24
        return match r.below(9) {
            8 => {
                // a hair above the midpoint of two adjacent binary32 values, the lower one with an even mantissa: correct
                // rounding goes up, rounding through binary64 first lands on the tie and goes down to even
                let x = f32::from_bits((((r.below(1 << 22) as u32) << 1) | 0x3F00_0000) + ((r.below(8) as u32) << 23));
                let y = f32::from_bits(x.to_bits() + 1);
                let m = (x as f64 + y as f64) / 2.0;
                let mut t = format!("{:.80}", m);
                while t.ends_with('0') { t.pop(); }
                format!("{}{}1", t, "0".repeat(1 + r.below(6) as usize))
            }
            0 => format!("0x{:x}", r.below(14)),
            1 => format!("0x{}{}", ["a", "1b", "c0", "2d", "10", "ff"][r.below(5) as usize], ""),
            2 => format!("0b{}", ["0", "1", "11", "101", "1_0000"][r.below(5) as usize]),
            3 => format!("0o{}", ["0", "7", "17", "100"][r.below(4) as usize]),
            4 => format!("{}E{}", 1 + r.below(9), r.below(3)),
            5 => format!("000{}", r.below(100)),
            6 => ["16777217", "33554433", "4294967297", "0.30000001192092896", "1.00000011920928955"][r.below(5) as usize].to_string(),
            _ => format!("{}.{:09}", r.below(3), r.below(1_000_000_000)),
        };
    }
    match r.below(8) {
        0 => r.below(20).to_string(),
        1 => format!("{}.{}", r.below(10), r.below(1000)),
        2 => format!("{}_{:03}", 1 + r.below(9), r.below(1000)),
        3 => format!("0.{:02}", r.below(100)),
        4 => format!("{}.{}e-{}", r.below(10), r.below(10), 1 + r.below(3)),
        5 => format!("{}e{}", 1 + r.below(9), r.below(3)),
        6 => format!("{}.0", r.below(300)),
        _ => r.below(1000).to_string(),
    }
}

fn gen_braces(r: &mut Rng) -> String {
    let names = ["x", "y", "alpha", "size"];
    let n = r.below(4) as usize;
    let fs: Vec<String> = (0..n).map(|i| {
        let num = |r: &mut Rng| {
            let n = gen_num(r);
            // integer literals do not type-check as f32 values: give them a suffix or a fraction
            if compilable() && !n.contains('.') && !n.contains('e') { if r.chance(1, 2) { format!("{}f32", n) } else { format!("{}.0", n) } } else { n }
        };
        let e = match r.below(6) { 0 => format!("-{}", num(r)), 1 => if compilable() { "1.0+2.0".into() } else { "1+2".into() }, 2 => "foo(3)".into(), _ => num(r) };
        // one field in seven is written in Rust's field-init shorthand, `{ x }`: the value is the local variable `x`
        if r.chance(1, 7) { names[i].to_string() } else { format!("{}={}", names[i], e) }
    }).collect();
    format!("B:{}", fs.join(";"))
}

fn gen_kf(r: &mut Rng, allow_default: bool) -> Vec<String> {
    let mut v = Vec::new();
    match r.below(5) {
        0 => v.push("from".into()),
        1 => v.push("to".into()),
        _ => { v.push(format!("L:{}", match r.below(5) { 0 => "0".into(), 1 => "100".into(), 2 => "50".into(), 3 => format!("{}.5", r.below(100)), _ => r.below(101).to_string() })); v.push("%".into()); }
    }
    v.push(if allow_default && r.chance(1, 4) { "default".into() } else { gen_braces(r) });
    v
}

fn gen_cfg(r: &mut Rng, allow_default: bool, malformed: bool) -> Vec<String> {
    let mut args: Vec<Vec<String>> = Vec::new();
    let n = r.below(7);
    for _ in 0..n {
        let a: Vec<String> = match r.below(12) {
            0 => vec!["for".into(), format!("L:{}{}", gen_num(r), r.pick(&["s", "ms"]))],
            1 | 2 => vec![if r.chance(1, 12) && !compilable() {
                // a byte literal is a numeric literal to the macro (`NumericLit::Byte`): its value is the byte
                format!("L:{}{}", r.pick(&["b'a'", "b'2'", "b'\\x05'", "b'Z'"]), r.pick(&["s", "ms"]))
            } else { format!("L:{}{}", gen_num(r), r.pick(&["s", "ms"])) }],
            3 => vec!["after".into(), format!("L:{}{}", gen_num(r), r.pick(&["s", "ms"]))],
            4 => vec!["reverse".into()],
            5 => vec!["infinite".into()],
            6 => vec![format!("L:{}x", r.pick(&["00", "1", "2", "3", "10", "4294967295", "1_000"]))],   // `0x` would lex as a hex prefix
            7 => vec![r.pick(&EASINGS).to_string()],
            _ => gen_kf(r, allow_default),
        };
        args.push(a);
    }
    if malformed {
        let bad: Vec<String> = match r.below(20) {
            14 => vec!["from".into(), "B:0=1.0".into()],                 // unnamed (tuple-index) member in the keyframe body
            15 => vec![format!("L:{}", r.below(100)), "%".into(), format!("B:x=1;{}=2", r.below(3))],
            16 => vec![format!("L:'a'{}", r.pick(&["s", "ms", "x", ""]))], // char literal where a number is expected
            17 => vec![format!("L:\"7\"{}", r.pick(&["s", "ms", "x"]))], // string literal with a unit suffix
            18 => vec!["L:b'3'x".into()],                                // byte literal as a repeat count (not an integer literal)
            19 => vec![r.pick(&["for", "after"]).to_string(), r.pick(&["L:true", "L:'s'", "L:\"2s\""]).to_string()],
            0 => vec![format!("L:{}m", gen_num(r))],                    // unknown suffix
            1 => vec![format!("L:{}", r.below(100)), gen_braces(r)],     // missing %
            2 => vec![format!("L:{}.5x", r.below(9))],                   // non-integer repeat
            3 => vec!["from".into(), format!("L:{}", r.below(9))],       // keyframe without braces
            4 => vec!["after".into(), format!("L:{}", r.below(9))],      // missing unit
            5 => vec!["for".into(), format!("L:{}x", 1 + r.below(8))],   // wrong unit after `for`
            6 => vec!["O:-".into(), format!("L:{}s", r.below(9))],       // negative literal
            7 => vec!["O:\"text\"".into()],
            8 => vec![format!("L:{}", r.below(9)), "%".into()],          // percent without values
            9 => vec!["L:4294967296x".into()],                           // repeat beyond u32
            10 => vec!["after".into(), "reverse".into()],
            11 => vec![format!("L:{}sec", r.below(9))],
            12 => vec!["to".into(), "O:(1)".into()],
            _ => vec!["O:=>".into()],
        };
        let at = r.below(args.len() as u64 + 1) as usize;
        args.insert(at, bad);
    }
    r.shuffle(&mut args);
    args.into_iter().flatten().collect()
}

fn gen_sentence(r: &mut Rng, allow_default: bool, malformed: bool) -> Vec<String> {
    if r.chance(1, 4) {
        let k = 1 + r.below(3);
        let mut v = vec!["[".to_string()];
        let bad_at = if malformed { r.below(k) } else { k };
        for i in 0..k {
            if i > 0 { v.push(",".into()); }
            v.extend(gen_cfg(r, allow_default, i == bad_at));
        }
        v.push("]".into());
        v
    } else {
        gen_cfg(r, allow_default, malformed)
    }
}

fn generate(suite: &str, seed: u64, n: usize, out: &mut dyn Write) {
    let mut r = Rng(seed ^ suite.bytes().fold(7u64, |h, c| h.wrapping_mul(131).wrapping_add(c as u64)));
    if suite.ends_with('c') && suite != "mderive" { COMPILABLE.store(true, std::sync::atomic::Ordering::Relaxed); }
    let suite = if compilable() { &suite[..suite.len() - 1] } else { suite };
    for i in 0..n {
        match suite {
            "mtl" => {
                let malformed = i % 5 == 4 && !compilable();
                writeln!(out, "mtl {}", gen_sentence(&mut r, false, malformed).join(" ")).unwrap();
            }
            "manim" => {
                let states = ["State::A", "State::B", "State::C", "S::Idle"];   // (`S` is an alias of `State` in the compiled family)
                let d = match r.below(5) {
                    0 => "D:none".to_string(),
                    1 => format!("D:{}", r.pick(&states)),
                    2 => format!("D:{}:E:{}", r.pick(&states), r.pick(&["Style::new(1,2)", "base_style", if compilable() { "Style{x:1.5,..Default::default()}" } else { "Style{x:1,..Default::default()}" }])),
                    _ => format!("D:{}:I:{}", r.pick(&states), gen_braces(&mut r)[2..].to_string()),
                };
                let mut line = format!("manim {}", d);
                let narms = r.below(4);
                let malformed = i % 6 == 5 && !compilable();
                for a in 0..narms {
                    let k = 1 + r.below(3) as usize;
                    let ss: Vec<&str> = (0..k).map(|_| r.pick(&states)).collect();
                    line.push_str(&format!(" ARM {} => {}", ss.join("|"), gen_sentence(&mut r, true, malformed && a == 0).join(" ")));
                }
                writeln!(out, "{}", line).unwrap();
            }
            _ => {
                let vis = r.pick(&["pub", "priv", "crate"]);
                let kind = match r.below(12) { 0 => "tuple", 1 => "unit", 2 => "enum", _ => "named" };
                let name = r.pick(&["Style", "Shape", "Foo"]);
                let attrs = match r.below(8) {
                    0 => "remote=S:other~module~Remote".to_string(),
                    1 => "remote=S:Remote".to_string(),
                    2 => "remote=N:5".to_string(),
                    3 => "rename=S:x".to_string(),
                    4 => "remote=S:A,remote=S:b~B".to_string(),
                    _ => "none".to_string(),
                };
                // (the last three are other spellings a type can reach the macro in: parenthesised, a qualified primitive path,
                // a type macro — all transparent to rustc, none of them a reason to reject or to treat the field differently)
                let types = ["f32", "f64", "u8", "i16", "i32", "u32", "glam~Vec2", "Option<f32>", "(f32)", "core~primitive~u8", "my_ty!()"];
                let nf = 1 + r.below(6) as usize;
                let mark_mode = r.below(3);
                // field names: mostly f0..f5; sometimes names that collide with what the derive generates (`t_<field>`
                // members, the `easing` / `timescale` / `boundary_times` / `data` members, the `new` / `values_from` methods)
                let odd_names = r.chance(1, 5);
                let underscore_names = !odd_names && r.chance(1, 6);
                let name_of = |r: &mut Rng, k: usize| -> String {
                    // one struct in six has some field names starting with an underscore (`_w`, `_pad`, `__x`, `_`-prefixed
                    // next to plain ones): a name is a name, the derive's "no field marked ⇒ all animated" rule does not read it
                    if underscore_names && (k % 2 == 1 || r.chance(1, 3)) { return ["_w", "_pad", "__x", "_f", "_0", "_marker"][k % 6].to_string(); }
                    if !odd_names { return format!("f{}", k); }
                    match (k, r.below(3)) {
                        (0, _) => "x".to_string(),
                        (1, _) => "t_x".to_string(),
                        (2, 0) => "t_t_x".to_string(),
                        (2, _) => "easing".to_string(),
                        (3, 0) => "timescale".to_string(),
                        (3, _) => "t_".to_string(),
                        (4, _) => "boundary_times".to_string(),
                        _ => "data".to_string(),
                    }
                };
                let same_type = if odd_names && r.chance(1, 2) { Some(r.pick(&types[..6])) } else { None };
                let types = if r.chance(1, 6) { &types[..] } else { &types[..8] };
                let fields: Vec<String> = (0..nf).map(|k| format!("{}:{}:{}", name_of(&mut r, k), same_type.unwrap_or_else(|| r.pick(&types)), { let m = if mark_mode == 0 { "n" } else if mark_mode == 1 { "a" } else if r.chance(1, 2) { "a" } else { "n" };
                    if r.chance(1, 4) { if m == "a" { "A" } else { "N" } } else { m } })).collect();
                writeln!(out, "mderive {} {} {} {} {}", vis, kind, name, attrs.replace("~", "::"), fields.join(" ")).unwrap();
            }
        }
    }
}

fn dispatch(w: &[&str]) -> String {
    match w[0] {
        "#" => "#".into(),
        "reset" | "shape" => "ok".into(),
        "mtl" => expand_tl(&w[1..]),
        "manim" => expand_anim(&w[1..]),
        "mderive" => expand_derive(&w[1..]),
        _ => "bad-op".into(),
    }
}

fn main() {
    let args: Vec<String> = std::env::args().collect();
    std::panic::set_hook(Box::new(|_| {}));
    match args.get(1).map(|s| s.as_str()) {
        Some("run") => {
            let stdin = std::io::stdin();
            let out = std::io::stdout();
            let mut out = BufWriter::new(out.lock());
            for line in stdin.lock().lines() {
                let line = line.unwrap();
                let w: Vec<&str> = line.trim().split(' ').filter(|s| !s.is_empty()).collect();
                if w.is_empty() { writeln!(out).unwrap(); continue; }
                let r = match catch_unwind(AssertUnwindSafe(|| dispatch(&w))) { Ok(s) => s, Err(_) => "panic".into() };
                writeln!(out, "{}", r).unwrap();
            }
        }
        Some("gen") => {
            let out = std::io::stdout();
            let mut out = BufWriter::new(out.lock());
            generate(&args[2], args[3].parse().unwrap(), args[4].parse().unwrap(), &mut out);
        }
        Some("render") => {
            // the macro input (source text) of every `mtl` / `manim` op on stdin, one per line
            let stdin = std::io::stdin();
            for line in stdin.lock().lines() {
                let line = line.unwrap();
                let w: Vec<&str> = line.trim().split(' ').filter(|s| !s.is_empty()).collect();
                println!("{}", match w.first().copied() { Some("mtl") => format!("Style {}", render(&w[1..])), Some("manim") => render_anim(&w[1..]), _ => "#".into() });
            }
        }
        Some("show") => {
            // debugging aid: print the rendered source of an encoded op
            let w: Vec<&str> = args[2..].iter().map(|s| s.as_str()).collect();
            println!("{}", match w[0] { "mtl" => format!("Style {}", render(&w[1..])), "manim" => render_anim(&w[1..]), _ => render_derive(&w[1..]) });
        }
        _ => std::process::exit(2),
    }
}
