//! Executes an ops file against the real crates; one canonical output line per op.
use crate::shapes::*;

use mina::prelude::*;
use mina::{Easing, EasingFunction, Lerp, MergedTimeline, Repeat, TimeScale};
use mina_core::easing::CubicBezierEasing;
use mina_core::time_scale::TimeScalePosition;
use mina_core::timeline::Keyframe;
use mina_core::timeline_helpers::SubTimeline;
use std::collections::HashMap;
use std::panic::{catch_unwind, AssertUnwindSafe};
use std::time::Duration;

/// The custom easings are four distinct **zero-sized** types: a `Box<dyn EasingFunction>` of a ZST does not allocate,
/// so all of them live at the same (dangling) address — anything that identifies an easing by the address of its
/// function object confuses them.  `Cust(k)` is the same menu called directly (op `easeraw`).
/// They also all print the same under `Debug` (nothing says a Debug string identifies a function), so anything that
/// compares easings by their Debug output confuses them as well.
#[derive(Clone)] pub struct C0;
#[derive(Clone)] pub struct C1;
#[derive(Clone)] pub struct C2;
#[derive(Clone)] pub struct C3;
#[derive(Clone)] pub struct C4;
macro_rules! same_debug { ($($t:ty),*) => { $( impl std::fmt::Debug for $t { fn fmt(&self, f: &mut std::fmt::Formatter<'_>) -> std::fmt::Result { f.write_str("CustomEasing") } } )* } }
same_debug!(C0, C1, C2, C3, C4);
fn cust(k: u32, x: f32) -> f32 {
    match k {
        0 => x * x,
        1 => 1.0 - (1.0 - x) * (1.0 - x),
        2 => x * 0.5 + 0.25,
        4 => 1.0 / (x - 0.5),            // a pole at x = 0.5: the easing's own output is ±inf there and huge next to it
        // a *parameterised* easing (a struct with a field, not a zero-sized type): x, x², x³.  Boxes of these have addresses
        // that are handed out again after a drop, and one vtable for all exponents
        11 => x,
        12 => x * x,
        13 => x * x * x,
        _ => CubicBezierEasing::new(0.3, 0.1, 0.6, 0.9).calc(x),
    }
}
impl EasingFunction for C0 { fn calc(&self, x: f32) -> f32 { cust(0, x) } }
impl EasingFunction for C1 { fn calc(&self, x: f32) -> f32 { cust(1, x) } }
impl EasingFunction for C2 { fn calc(&self, x: f32) -> f32 { cust(2, x) } }
impl EasingFunction for C3 { fn calc(&self, x: f32) -> f32 { cust(3, x) } }
impl EasingFunction for C4 { fn calc(&self, x: f32) -> f32 { cust(4, x) } }
#[derive(Clone)]
pub struct Cust(pub u32);
impl std::fmt::Debug for Cust { fn fmt(&self, f: &mut std::fmt::Formatter<'_>) -> std::fmt::Result { write!(f, "CustomEasing") } }
impl EasingFunction for Cust {
    fn calc(&self, x: f32) -> f32 { cust(self.0, x) }
}
pub fn custom_easing(k: u32) -> Easing {
    match k { 0 => Easing::Custom(Box::new(C0)), 1 => Easing::Custom(Box::new(C1)), 2 => Easing::Custom(Box::new(C2)), 4 => Easing::Custom(Box::new(C4)), 11..=13 => Easing::Custom(Box::new(Cust(k))), _ => Easing::Custom(Box::new(C3)) }
}

pub const EASING_NAMES: [&str; 29] = [
    "Linear", "Ease", "In", "Out", "InOut", "InSine", "OutSine", "InOutSine", "InQuad", "OutQuad", "InOutQuad",
    "InCubic", "OutCubic", "InOutCubic", "InQuart", "OutQuart", "InOutQuart", "InQuint", "OutQuint", "InOutQuint",
    "InExpo", "OutExpo", "InOutExpo", "InCirc", "OutCirc", "InOutCirc", "InBack", "OutBack", "InOutBack",
];

pub fn parse_easing(s: &str) -> Easing {
    if let Some(n) = s.strip_prefix('c') {
        if let Ok(k) = n.parse::<u32>() {
            return custom_easing(k);
        }
    }
    match s {
        "Linear" => Easing::Linear, "Ease" => Easing::Ease, "In" => Easing::In, "Out" => Easing::Out,
        "InOut" => Easing::InOut, "InSine" => Easing::InSine, "OutSine" => Easing::OutSine,
        "InOutSine" => Easing::InOutSine, "InQuad" => Easing::InQuad, "OutQuad" => Easing::OutQuad,
        "InOutQuad" => Easing::InOutQuad, "InCubic" => Easing::InCubic, "OutCubic" => Easing::OutCubic,
        "InOutCubic" => Easing::InOutCubic, "InQuart" => Easing::InQuart, "OutQuart" => Easing::OutQuart,
        "InOutQuart" => Easing::InOutQuart, "InQuint" => Easing::InQuint, "OutQuint" => Easing::OutQuint,
        "InOutQuint" => Easing::InOutQuint, "InExpo" => Easing::InExpo, "OutExpo" => Easing::OutExpo,
        "InOutExpo" => Easing::InOutExpo, "InCirc" => Easing::InCirc, "OutCirc" => Easing::OutCirc,
        "InOutCirc" => Easing::InOutCirc, "InBack" => Easing::InBack, "OutBack" => Easing::OutBack,
        "InOutBack" => Easing::InOutBack,
        _ => Easing::default(),
    }
}

pub fn parse_repeat(s: &str) -> Repeat {
    match s {
        "n" => Repeat::None,
        "i" => Repeat::Infinite,
        k => Repeat::Times(k.parse().unwrap()),
    }
}
pub fn show_repeat(r: Repeat) -> String {
    match r {
        Repeat::None => "n".into(),
        Repeat::Infinite => "i".into(),
        Repeat::Times(k) => k.to_string(),
    }
}
fn fb(s: &str) -> f32 {
    f32::from_bits(s.parse().unwrap())
}
fn show_dur(d: f32) -> String {
    if d == f32::INFINITY { "inf".into() } else { d.to_bits().to_string() }
}

/// The animator's state type: five states, three of which are the same enum variant with different payloads (so they share
/// a discriminant while being unequal) — a state is identified by `PartialEq`, not by its variant.
#[derive(Clone, Copy, Debug, Default, Eq, PartialEq, State)]
pub enum Sub {
    #[default]
    A,
    B,
    C,
}
#[derive(Clone, Copy, Debug, Default, Eq, PartialEq, State)]
pub enum St {
    #[default]
    S0,
    S1,
    G(Sub),
}
fn st_of(i: usize) -> St {
    match i { 0 => St::S0, 1 => St::S1, 2 => St::G(Sub::A), 3 => St::G(Sub::B), _ => St::G(Sub::C) }
}
fn st_idx(s: &St) -> usize {
    match s { St::S0 => 0, St::S1 => 1, St::G(Sub::A) => 2, St::G(Sub::B) => 3, St::G(Sub::C) => 4 }
}

/// A hand-written `Timeline`: a derive-generated one whose *reported* total duration can be changed from outside after it
/// has been put into a merge or an animator (think of a global animation-speed setting).  Used by the harness-only `x…` ops,
/// which have no counterpart in the model: what they check is judged on the implementation alone.
#[derive(Clone)]
pub struct DynTl<T: Timeline + Clone> {
    inner: T,
    extra: std::sync::Arc<std::sync::atomic::AtomicU32>,     // f32 bits, seconds added to the reported duration and delay
}
impl<T: Timeline + Clone> Timeline for DynTl<T> {
    type Target = T::Target;
    fn cycle_duration(&self) -> Option<f32> { self.inner.cycle_duration() }
    fn delay(&self) -> f32 { self.inner.delay() }
    fn duration(&self) -> f32 { self.inner.duration() + f32::from_bits(self.extra.load(std::sync::atomic::Ordering::Relaxed)) }
    fn repeat(&self) -> Repeat { self.inner.repeat() }
    fn start_with(&mut self, values: &Self::Target) { self.inner.start_with(values) }
    fn update(&self, values: &mut Self::Target, time: f32) { self.inner.update(values, time) }
}

enum Slot<S: ShapeOps> {
    Dy(MergedTimeline<DynTl<S::Tl>>, Vec<DynTl<S::Tl>>),
    AnD(EnumStateAnimator<St, DynTl<S::Tl>>),
    Tl(S::Tl),
    Mg(MergedTimeline<S::Tl>),
    Mg2(MergedTimeline<MergedTimeline<S::Tl>>),     // a merge whose components are themselves merges
    An(EnumStateAnimator<St, S::Tl>),
}

trait AnySession {
    fn op(&mut self, w: &[&str]) -> String;
}

struct Sess<S: ShapeOps> {
    slots: HashMap<usize, Slot<S>>,
    /// the configuration a `Slot::Tl` was built from, as long as nothing (start_with) has changed the built timeline since
    cfgs: HashMap<usize, Cfg>,
    /// running target for `updchain` (set by every `upd` to its input target)
    chain: Option<S::Target>,
}

fn show_vals(vs: &[V]) -> String {
    vs.iter().map(show_val).collect::<Vec<_>>().join(" ")
}

fn parse_vals<S: ShapeOps>(toks: &[&str]) -> Vec<V> {
    S::fields().iter().zip(toks.iter()).map(|((k, _), t)| parse_val(k, t)).collect()
}

fn parse_cfg<S: ShapeOps>(w: &[&str], p: usize) -> Cfg {
    let opt = |s: &str| if s == "-" { None } else { Some(s.to_string()) };
    let mut cfg = Cfg::default();
    cfg.dur = opt(w[p]).map(|s| fb(&s));
    cfg.delay = opt(w[p + 1]).map(|s| fb(&s));
    cfg.repeat = opt(w[p + 2]).map(|s| parse_repeat(&s));
    cfg.reverse = opt(w[p + 3]).map(|s| s == "1");
    cfg.easing = opt(w[p + 4]).map(|s| parse_easing(&s));
    let nkf: usize = w[p + 5].parse().unwrap();
    let kinds: Vec<&str> = S::fields().iter().filter(|f| f.1).map(|f| f.0).collect();
    let mut q = p + 6;
    for _ in 0..nkf {
        let pos = fb(w[q]);
        let easing = opt(w[q + 1]).map(|s| parse_easing(&s));
        let mut vals = Vec::new();
        let mut r = q + 2;
        for k in &kinds {
            vals.push(if w[r] == "-" { None } else { Some(parse_val(k, w[r])) });
            r += 1;
        }
        cfg.kfs.push(KfCfg { pos, easing, vals });
        q = r;
    }
    cfg
}

fn show_anim<S: ShapeOps>(a: &EnumStateAnimator<St, S::Tl>) -> String {
    let (ns, paused) = a.verif_snapshot();
    let p = match paused {
        Some((s, d)) => format!("{}@{}", st_idx(&s), d.as_nanos()),
        None => "-".into(),
    };
    format!(
        "{} | {} {} {} {}",
        show_vals(&S::to_vals(a.current_values())),
        st_idx(a.current_state()),
        a.is_ended() as u8,
        ns.as_nanos(),
        p
    )
}

fn show_anim_dyn<S: ShapeOps>(a: &EnumStateAnimator<St, DynTl<S::Tl>>) -> String {
    let (ns, _) = a.verif_snapshot();
    format!("{} | {} {} {}", show_vals(&S::to_vals(a.current_values())), st_idx(a.current_state()), a.is_ended() as u8, ns.as_nanos())
}

fn meta<T: Timeline>(t: &T) -> String {
    format!(
        "{} {} {} {}",
        t.delay().to_bits(),
        t.cycle_duration().map(|c| c.to_bits().to_string()).unwrap_or("-".into()),
        show_dur(t.duration()),
        show_repeat(t.repeat())
    )
}

impl<S: ShapeOps> AnySession for Sess<S> {
    fn op(&mut self, w: &[&str]) -> String {
        match w[0] {
            "tl" => {
                let slot: usize = w[1].parse().unwrap();
                let cfg = parse_cfg::<S>(w, 3);
                // most timelines are built on a thread of their own and handed over (timelines are `Send`: built by a loader
                // thread, evaluated on the main one); every fourth slot is built right here
                let tl = if slot % 4 == 3 { S::build(&cfg) } else { std::thread::scope(|sc| sc.spawn(|| S::build(&cfg)).join().unwrap()) };
                self.slots.insert(slot, Slot::Tl(tl));
                self.cfgs.insert(slot, cfg);
                "ok".into()
            }
            "meta" => match self.slots.get(&w[1].parse().unwrap()) {
                Some(Slot::Tl(t)) => meta(t),
                Some(Slot::Mg(m)) => meta(m),
                Some(Slot::Mg2(m)) => meta(m),
                _ => "bad-slot".into(),
            },
            "start" => {
                let vs = S::from_vals(&parse_vals::<S>(&w[2..]));
                self.cfgs.remove(&w[1].parse().unwrap());
                match self.slots.get_mut(&w[1].parse().unwrap()) {
                    Some(Slot::Tl(t)) => { t.start_with(&vs); "ok".into() }
                    Some(Slot::Mg(m)) => { m.start_with(&vs); "ok".into() }
                    Some(Slot::Mg2(m)) => { m.start_with(&vs); "ok".into() }
                    _ => "bad-slot".into(),
                }
            }
            "drop" => {
                // the object in the slot is dropped now (its allocations go back to the allocator before anything else is built)
                self.cfgs.remove(&w[1].parse().unwrap());
                match self.slots.remove(&w[1].parse().unwrap()) { Some(_) => "ok".into(), None => "bad-slot".into() }
            }
            "clone" => {
                let c = match self.slots.get(&w[1].parse().unwrap()) {
                    Some(Slot::Tl(t)) => Slot::Tl(t.clone()),
                    Some(Slot::Mg(m)) => Slot::Mg(m.clone()),
                    Some(Slot::Mg2(m)) => Slot::Mg2(m.clone()),
                    _ => return "bad-slot".into(),
                };
                self.slots.insert(w[2].parse().unwrap(), c);
                match self.cfgs.get(&w[1].parse().unwrap()).cloned() { Some(c) => { self.cfgs.insert(w[2].parse().unwrap(), c); } None => { self.cfgs.remove(&w[2].parse().unwrap()); } }
                "ok".into()
            }
            "updchain" => {
                let t = fb(w[2]);
                let mut vs = match self.chain.take() { Some(v) => v, None => return "no-chain".into() };
                match self.slots.get(&w[1].parse().unwrap()) {
                    Some(Slot::Tl(tl)) => tl.update(&mut vs, t),
                    Some(Slot::Mg(m)) => m.update(&mut vs, t),
                    Some(Slot::Mg2(m)) => m.update(&mut vs, t),
                    _ => return "bad-slot".into(),
                }
                let out = show_vals(&S::to_vals(&vs));
                self.chain = Some(vs);
                out
            }
            "upd" => {
                let mut vs = S::from_vals(&parse_vals::<S>(&w[3..]));
                self.chain = Some(vs.clone());
                let t = fb(w[2]);
                match self.slots.get(&w[1].parse().unwrap()) {
                    Some(Slot::Tl(tl)) => tl.update(&mut vs, t),
                    Some(Slot::Mg(m)) => m.update(&mut vs, t),
                    Some(Slot::Mg2(m)) => m.update(&mut vs, t),
                    _ => return "bad-slot".into(),
                }
                show_vals(&S::to_vals(&vs))
            }
            "merge" => {
                let slot: usize = w[1].parse().unwrap();
                let n: usize = w[2].parse().unwrap();
                let mut tls = Vec::new();
                for i in 0..n {
                    if let Some(Slot::Tl(t)) = self.slots.get(&w[3 + i].parse().unwrap()) {
                        tls.push(t.clone());
                    }
                }
                // a single component goes through `impl From<T> for MergedTimeline<T>` (documented as the same thing)
                let merged = if tls.len() == 1 && slot % 2 == 1 { MergedTimeline::from(tls.pop().unwrap()) } else { MergedTimeline::of(tls) };
                self.slots.insert(slot, Slot::Mg(merged));
                "ok".into()
            }
            "xdyn" => {
                // `xdyn <slot> <n> <timeline slot>…`: a merge of hand-written timelines wrapping the given ones
                let slot: usize = w[1].parse().unwrap();
                let n: usize = w[2].parse().unwrap();
                let mut comps = Vec::new();
                for i in 0..n {
                    if let Some(Slot::Tl(t)) = self.slots.get(&w[3 + i].parse().unwrap()) {
                        comps.push(DynTl { inner: t.clone(), extra: std::sync::Arc::new(std::sync::atomic::AtomicU32::new(0)) });
                    }
                }
                self.slots.insert(slot, Slot::Dy(MergedTimeline::of(comps.clone()), comps));
                "ok".into()
            }
            "xextra" => match self.slots.get(&w[1].parse().unwrap()) {
                Some(Slot::Dy(_, comps)) => {
                    if let Some(c) = comps.get(w[2].parse::<usize>().unwrap()) { c.extra.store(w[3].parse().unwrap(), std::sync::atomic::Ordering::Relaxed); }
                    "ok".into()
                }
                _ => "bad-slot".into(),
            },
            "xmeta" => match self.slots.get(&w[1].parse().unwrap()) {
                Some(Slot::Dy(m, _)) => meta(m),
                _ => "bad-slot".into(),
            },
            "xmetac" => match self.slots.get(&w[1].parse().unwrap()) {
                Some(Slot::Dy(_, comps)) => comps.get(w[2].parse::<usize>().unwrap()).map(meta).unwrap_or("bad-slot".into()),
                _ => "bad-slot".into(),
            },
            "xanim" => {
                // `xanim <slot> <dyn slot> <values…>`: state S0 plays the dyn merge, every other state has no timeline
                let vs = S::from_vals(&parse_vals::<S>(&w[3..]));
                let m = match self.slots.get(&w[2].parse().unwrap()) { Some(Slot::Dy(m, _)) => m.clone(), _ => return "bad-slot".into() };
                let a = StateAnimatorBuilder::<St, DynTl<S::Tl>>::new().from_state(st_of(0)).from_values(vs).on(st_of(0), m).build();
                let out = show_anim_dyn::<S>(&a);
                self.slots.insert(w[1].parse().unwrap(), Slot::AnD(a));
                out
            }
            "xadv" => match self.slots.get_mut(&w[1].parse().unwrap()) {
                Some(Slot::AnD(a)) => { in_animator_call(|| a.advance(fb(w[2]))); show_anim_dyn::<S>(a) }
                _ => "bad-slot".into(),
            },
            "merge2" => {
                // `merge2 <slot> <n> <slot of a merge or of a timeline>… <shape>`: MergedTimeline::of over merged timelines
                let slot: usize = w[1].parse().unwrap();
                let n: usize = w[2].parse().unwrap();
                let mut parts = Vec::new();
                for i in 0..n {
                    match self.slots.get(&w[3 + i].parse().unwrap()) {
                        Some(Slot::Mg(m)) => parts.push(m.clone()),
                        Some(Slot::Tl(t)) => parts.push(MergedTimeline::from(t.clone())),
                        _ => {}
                    }
                }
                self.slots.insert(slot, Slot::Mg2(MergedTimeline::of(parts)));
                "ok".into()
            }
            "anim" => {
                let slot: usize = w[1].parse().unwrap();
                let ns: usize = w[3].parse().unwrap();
                let s0: usize = w[4].parse().unwrap();
                let nf = S::fields().len();
                let v0 = S::from_vals(&parse_vals::<S>(&w[5..5 + nf]));
                let mut b = StateAnimatorBuilder::<St, S::Tl>::new().from_state(st_of(s0)).from_values(v0);
                for i in 0..ns {
                    let tok = w[5 + nf + i];
                    if tok == "-" { continue; }
                    match self.slots.get(&tok.parse().unwrap()) {
                        // four ways a timeline reaches `on`: an explicit merge, `Into<MergedTimeline>`, the timeline itself and the
                        // un-built configuration (the two derive-generated `TimelineOrBuilder` impls)
                        Some(Slot::Tl(t)) => b = match { if (i + slot) % 3 == 0 { b = b.on(st_of(i), MergedTimeline::of([t.clone(), t.clone()])); if let Some(Slot::Tl(o)) = self.slots.get(&(tok.parse::<usize>().unwrap() + 1)) { b = b.on(st_of(i), o.clone()); } } (i + slot) % 4 } {
                            0 => b.on(st_of(i), MergedTimeline::of([t.clone()])),
                            1 => b.on(st_of(i), { let m: MergedTimeline<S::Tl> = t.clone().into(); m }),
                            2 => b.on(st_of(i), t.clone()),
                            _ => match self.cfgs.get(&tok.parse().unwrap()) { Some(c) => b.on(st_of(i), S::conf_merged(c)), None => b.on(st_of(i), MergedTimeline::of([t.clone()])) },
                        },
                        Some(Slot::Mg(m)) => b = b.on(st_of(i), m.clone()),
                        _ => {}
                    }
                }
                let a = b.build();
                let out = show_anim::<S>(&a);
                self.slots.insert(slot, Slot::An(a));
                out
            }
            "adv" => {
                let slot: usize = w[1].parse().unwrap();
                match self.slots.get_mut(&slot) {
                    Some(Slot::An(a)) => { in_animator_call(|| a.advance(fb(w[2]))); show_anim::<S>(a) }
                    _ => "bad-slot".into(),
                }
            }
            "set" => {
                let slot: usize = w[1].parse().unwrap();
                match self.slots.get_mut(&slot) {
                    Some(Slot::An(a)) => {
                        // every other call goes through the `StateAnimator` trait explicitly (as generic code or a `dyn` user would)
                        let st = st_of(w[2].parse().unwrap());
                        if CALLS.fetch_add(1, std::sync::atomic::Ordering::Relaxed) % 2 == 0 { in_animator_call(|| a.set_state(&st)); }
                        else { let d: &mut dyn StateAnimator<State = St, Values = S::Target> = a; in_animator_call(|| d.set_state(&st)); }
                        show_anim::<S>(a)
                    }
                    _ => "bad-slot".into(),
                }
            }
            _ => "bad-op".into(),
        }
    }
}

fn show_pos(p: TimeScalePosition) -> String {
    match p {
        TimeScalePosition::NotStarted => "N".into(),
        TimeScalePosition::Active(t, ls) => format!("A{}:{}{}", t.to_bits(), ls.is_repeating as u8, ls.is_reversing as u8),
        TimeScalePosition::Ended(t) => format!("E{}", t.to_bits()),
    }
}

fn fnv(mut h: u64, s: &str) -> u64 {
    for c in s.chars() {
        h = (h ^ (c as u64)).wrapping_mul(1099511628211);
    }
    h
}

fn lerp_kind(kind: &str, a: &str, b: &str, x: f32) -> String {
    macro_rules! go { ($t:ty) => {{ let a: $t = a.parse().unwrap(); let b: $t = b.parse().unwrap(); a.lerp(&b, x).to_string() }} }
    match kind {
        "f32" => fbits(fb(a).lerp(&fb(b), x)).to_string(),
        "i8" => go!(i8), "i16" => go!(i16), "i32" => go!(i32), "i64" => go!(i64),
        "u8" => go!(u8), "u16" => go!(u16), "u32" => go!(u32), "u64" => go!(u64), "usize" => go!(usize),
        _ => "bad-kind".into(),
    }
}

fn vec_lerp(name: &str, kind: &str, n: usize, a: &[&str], b: &[&str], x: f32) -> String {
    use glam::*;
    macro_rules! f { ($s:expr) => { f32::from_bits($s.parse().unwrap()) } }
    macro_rules! d { ($s:expr) => { f32::from_bits($s.parse().unwrap()) as f64 } }
    macro_rules! i { ($s:expr, $t:ty) => { $s.parse::<$t>().unwrap() } }
    let sf = |v: &[f32]| v.iter().map(|c| c.to_bits().to_string()).collect::<Vec<_>>().join(" ");
    let sd = |v: &[f64]| v.iter().map(|c| show_val(&V::F64(*c))).collect::<Vec<_>>().join(" ");
    macro_rules! si { ($v:expr) => { $v.iter().map(|c| c.to_string()).collect::<Vec<_>>().join(" ") } }
    match (name, kind, n) {
        ("Vec2", _, 2) => sf(&Lerp::lerp(&Vec2::new(f!(a[0]), f!(a[1])), &Vec2::new(f!(b[0]), f!(b[1])), x).to_array()),
        ("Vec3", _, 3) => sf(&Lerp::lerp(&Vec3::new(f!(a[0]), f!(a[1]), f!(a[2])), &Vec3::new(f!(b[0]), f!(b[1]), f!(b[2])), x).to_array()),
        ("Vec3A", _, 3) => sf(&Lerp::lerp(&Vec3A::new(f!(a[0]), f!(a[1]), f!(a[2])), &Vec3A::new(f!(b[0]), f!(b[1]), f!(b[2])), x).to_array()),
        ("Vec4", _, 4) => sf(&Lerp::lerp(&Vec4::new(f!(a[0]), f!(a[1]), f!(a[2]), f!(a[3])), &Vec4::new(f!(b[0]), f!(b[1]), f!(b[2]), f!(b[3])), x).to_array()),
        ("DVec2", _, 2) => sd(&Lerp::lerp(&DVec2::new(d!(a[0]), d!(a[1])), &DVec2::new(d!(b[0]), d!(b[1])), x).to_array()),
        ("DVec3", _, 3) => sd(&Lerp::lerp(&DVec3::new(d!(a[0]), d!(a[1]), d!(a[2])), &DVec3::new(d!(b[0]), d!(b[1]), d!(b[2])), x).to_array()),
        ("DVec4", _, 4) => sd(&Lerp::lerp(&DVec4::new(d!(a[0]), d!(a[1]), d!(a[2]), d!(a[3])), &DVec4::new(d!(b[0]), d!(b[1]), d!(b[2]), d!(b[3])), x).to_array()),
        ("IVec2", _, 2) => si!(Lerp::lerp(&IVec2::new(i!(a[0], i32), i!(a[1], i32)), &IVec2::new(i!(b[0], i32), i!(b[1], i32)), x).to_array()),
        ("IVec3", _, 3) => si!(Lerp::lerp(&IVec3::new(i!(a[0], i32), i!(a[1], i32), i!(a[2], i32)), &IVec3::new(i!(b[0], i32), i!(b[1], i32), i!(b[2], i32)), x).to_array()),
        ("IVec4", _, 4) => si!(Lerp::lerp(&IVec4::new(i!(a[0], i32), i!(a[1], i32), i!(a[2], i32), i!(a[3], i32)), &IVec4::new(i!(b[0], i32), i!(b[1], i32), i!(b[2], i32), i!(b[3], i32)), x).to_array()),
        ("UVec2", _, 2) => si!(Lerp::lerp(&UVec2::new(i!(a[0], u32), i!(a[1], u32)), &UVec2::new(i!(b[0], u32), i!(b[1], u32)), x).to_array()),
        ("UVec3", _, 3) => si!(Lerp::lerp(&UVec3::new(i!(a[0], u32), i!(a[1], u32), i!(a[2], u32)), &UVec3::new(i!(b[0], u32), i!(b[1], u32), i!(b[2], u32)), x).to_array()),
        ("UVec4", _, 4) => si!(Lerp::lerp(&UVec4::new(i!(a[0], u32), i!(a[1], u32), i!(a[2], u32), i!(a[3], u32)), &UVec4::new(i!(b[0], u32), i!(b[1], u32), i!(b[2], u32), i!(b[3], u32)), x).to_array()),
        ("I64Vec2", _, 2) => si!(Lerp::lerp(&I64Vec2::new(i!(a[0], i64), i!(a[1], i64)), &I64Vec2::new(i!(b[0], i64), i!(b[1], i64)), x).to_array()),
        ("I64Vec3", _, 3) => si!(Lerp::lerp(&I64Vec3::new(i!(a[0], i64), i!(a[1], i64), i!(a[2], i64)), &I64Vec3::new(i!(b[0], i64), i!(b[1], i64), i!(b[2], i64)), x).to_array()),
        ("I64Vec4", _, 4) => si!(Lerp::lerp(&I64Vec4::new(i!(a[0], i64), i!(a[1], i64), i!(a[2], i64), i!(a[3], i64)), &I64Vec4::new(i!(b[0], i64), i!(b[1], i64), i!(b[2], i64), i!(b[3], i64)), x).to_array()),
        ("U64Vec2", _, 2) => si!(Lerp::lerp(&U64Vec2::new(i!(a[0], u64), i!(a[1], u64)), &U64Vec2::new(i!(b[0], u64), i!(b[1], u64)), x).to_array()),
        ("U64Vec3", _, 3) => si!(Lerp::lerp(&U64Vec3::new(i!(a[0], u64), i!(a[1], u64), i!(a[2], u64)), &U64Vec3::new(i!(b[0], u64), i!(b[1], u64), i!(b[2], u64)), x).to_array()),
        ("U64Vec4", _, 4) => si!(Lerp::lerp(&U64Vec4::new(i!(a[0], u64), i!(a[1], u64), i!(a[2], u64), i!(a[3], u64)), &U64Vec4::new(i!(b[0], u64), i!(b[1], u64), i!(b[2], u64), i!(b[3], u64)), x).to_array()),
        _ => "bad-vec".into(),
    }
}

pub fn panic_tag(msg: &str) -> String {
    if msg.contains("outside the valid range") {
        "int-range".into()
    } else if msg.contains("attempt to add with overflow") || msg.contains("attempt to multiply with overflow") {
        "add-overflow".into()
    } else if msg.contains("Duration") || msg.contains("duration") {
        "duration".into()
    } else if msg.contains("index out of bounds") || msg.contains("out of range") {
        "index".into()
    } else {
        format!("other:{}", msg.replace(' ', "_"))
    }
}

static CALLS: std::sync::atomic::AtomicUsize = std::sync::atomic::AtomicUsize::new(0);

pub struct Runner {
    sessions: HashMap<String, Box<dyn AnySession>>,
    slot_shape: HashMap<String, String>,
    /// stand-alone `SubTimeline<f32>` / `SubTimeline<i16>` objects (ops sub / subov / subat): the public single-property API
    subs: HashMap<usize, SubTimeline<f32>>,
    subs_i: HashMap<usize, SubTimeline<i16>>,
}

impl Runner {
    pub fn new() -> Self {
        let mut sessions: HashMap<String, Box<dyn AnySession>> = HashMap::new();
        sessions.insert("S8".into(), Box::new(Sess::<S8Ops> { slots: HashMap::new(), cfgs: HashMap::new(), chain: None }));
        sessions.insert("Q5".into(), Box::new(Sess::<Q5Ops> { slots: HashMap::new(), cfgs: HashMap::new(), chain: None }));
        sessions.insert("R4".into(), Box::new(Sess::<R4Ops> { slots: HashMap::new(), cfgs: HashMap::new(), chain: None }));
        sessions.insert("W20".into(), Box::new(Sess::<W20Ops> { slots: HashMap::new(), cfgs: HashMap::new(), chain: None }));
        sessions.insert("W72".into(), Box::new(Sess::<W72Ops> { slots: HashMap::new(), cfgs: HashMap::new(), chain: None }));
        sessions.insert("N5".into(), Box::new(Sess::<N5Ops> { slots: HashMap::new(), cfgs: HashMap::new(), chain: None }));
        Runner { sessions, slot_shape: HashMap::new(), subs: HashMap::new(), subs_i: HashMap::new() }
    }

    fn check_shape(name: &str, toks: &[&str]) -> String {
        let want: Vec<(&str, bool)> = match name {
            "S8" => S8Ops::fields(),
            "Q5" => Q5Ops::fields(),
            "R4" => R4Ops::fields(),
            "W20" => W20Ops::fields(),
            "W72" => W72Ops::fields(),
            "N5" => N5Ops::fields(),
            _ => return "bad-shape".into(),
        };
        let got: Vec<String> = want.iter().map(|(k, a)| format!("{}:{}", k, if *a { "a" } else { "n" })).collect();
        if got.iter().map(|s| s.as_str()).collect::<Vec<_>>() == toks { "ok".into() } else { format!("shape-mismatch {}", got.join(" ")) }
    }

    fn stateless(&mut self, w: &[&str]) -> Option<String> {
        Some(match w[0] {
            "#" => "#".into(),
            "fmod" => (fb(w[1]) % fb(w[2])).to_bits().to_string(),
            "round" => fb(w[1]).round().to_bits().to_string(),
            "ofint" => {
                let n: i128 = w[1].parse().unwrap();
                let f = if n < 0 { (n as i64) as f32 } else { (n as u64) as f32 };
                f.to_bits().to_string()
            }
            "dec" => format!("{}e-{}", w[1], w[2]).parse::<f32>().unwrap().to_bits().to_string(),
            "mul" => (fb(w[1]) * fb(w[2])).to_bits().to_string(),
            "n2s" => {
                let n: u128 = w[1].parse().unwrap();
                let d = Duration::new((n / 1_000_000_000) as u64, (n % 1_000_000_000) as u32);
                d.as_secs_f32().to_bits().to_string()
            }
            "s2n" => Duration::from_secs_f32(fb(w[1])).as_nanos().to_string(),
            "lerp" => lerp_kind(w[1], w[2], w[3], fb(w[4])),
            "lerp64" => {
                let a = f64::from_bits(w[1].parse().unwrap());
                let b = f64::from_bits(w[2].parse().unwrap());
                a.lerp(&b, fb(w[3])).to_bits().to_string()
            }
            "vec" => {
                let n: usize = w[3].parse().unwrap();
                vec_lerp(w[1], w[2], n, &w[4..4 + n], &w[4 + n..4 + 2 * n], fb(w[4 + 2 * n]))
            }
            "quat" => {
                // `impl Lerp for Quat` (delegates to glam's Quat::lerp)
                let g = |i: usize| fb(w[i]);
                let a = glam::Quat::from_xyzw(g(1), g(2), g(3), g(4));
                let c = glam::Quat::from_xyzw(g(5), g(6), g(7), g(8));
                let r = Lerp::lerp(&a, &c, g(9));
                r.to_array().iter().map(|v| fbits(*v).to_string()).collect::<Vec<_>>().join(" ")
            }
            "dquat" => {
                let g = |i: usize| f64::from_bits(w[i].parse().unwrap());
                let a = glam::DQuat::from_xyzw(g(1), g(2), g(3), g(4));
                let c = glam::DQuat::from_xyzw(g(5), g(6), g(7), g(8));
                let r = Lerp::lerp(&a, &c, fb(w[9]));
                r.to_array().iter().map(|v| (if v.is_nan() { f64::NAN.to_bits() & !(1u64 << 63) } else { v.to_bits() }).to_string()).collect::<Vec<_>>().join(" ")
            }
            "sub" => {
                // sub <slot> <f|i> <default> <default easing> <n> {<pos> <easing|-> <value|->}*
                let slot: usize = w[1].parse().unwrap();
                let e0 = parse_easing(w[4]);
                let n: usize = w[5].parse().unwrap();
                let e_of = |t: &str| if t == "-" { None } else { Some(parse_easing(t)) };
                if w[2] == "f" {
                    let kfs: Vec<Keyframe<Option<f32>>> = (0..n).map(|k| Keyframe::new(fb(w[6 + 3 * k]), if w[8 + 3 * k] == "-" { None } else { Some(fb(w[8 + 3 * k])) }, e_of(w[7 + 3 * k]))).collect();
                    // odd slots hand the keyframes over as a lazily filtered iterator (no exact size hint), even slots as a slice
                    let st = if slot % 2 == 1 { SubTimeline::from_keyframes(kfs.iter().filter(|k| !std::ptr::eq(*k, std::ptr::null())), fb(w[3]), |d| *d, e0) }
                        else { SubTimeline::from_keyframes(&kfs, fb(w[3]), |d| *d, e0) };
                    self.subs.insert(slot, st);
                    self.subs_i.remove(&slot);
                } else {
                    let kfs: Vec<Keyframe<Option<i16>>> = (0..n).map(|k| Keyframe::new(fb(w[6 + 3 * k]), if w[8 + 3 * k] == "-" { None } else { Some(w[8 + 3 * k].parse().unwrap()) }, e_of(w[7 + 3 * k]))).collect();
                    self.subs_i.insert(slot, SubTimeline::from_keyframes(&kfs, w[3].parse().unwrap(), |d| *d, e0));
                    self.subs.remove(&slot);
                }
                "ok".into()
            }
            "subcf" => {
                // subcf <dst> <src>: dst.clone_from(&src)
                let (d, sl): (usize, usize) = (w[1].parse().unwrap(), w[2].parse().unwrap());
                if let Some(src) = self.subs.get(&sl).cloned() {
                    match self.subs.get_mut(&d) { Some(dst) => dst.clone_from(&src), None => { self.subs.insert(d, src); } }
                    self.subs_i.remove(&d);
                    "ok".into()
                } else if let Some(src) = self.subs_i.get(&sl).cloned() {
                    match self.subs_i.get_mut(&d) { Some(dst) => dst.clone_from(&src), None => { self.subs_i.insert(d, src); } }
                    self.subs.remove(&d);
                    "ok".into()
                } else { "bad-slot".into() }
            }
            "subov" => {
                let slot: usize = w[1].parse().unwrap();
                if let Some(s) = self.subs.get_mut(&slot) { s.override_start_value(fb(w[2])); "ok".into() }
                else if let Some(s) = self.subs_i.get_mut(&slot) { s.override_start_value(w[2].parse().unwrap()); "ok".into() }
                else { "bad-slot".into() }
            }
            "subat" => {
                // subat <slot> <time> <index hint> <enable_start_override>
                let slot: usize = w[1].parse().unwrap();
                let (t, hint, ovr) = (fb(w[2]), w[3].parse::<usize>().unwrap(), w[4] == "1");
                if let Some(s) = self.subs.get(&slot) { s.value_at(t, hint, ovr).map(|v| fbits(v).to_string()).unwrap_or("-".into()) }
                else if let Some(s) = self.subs_i.get(&slot) { s.value_at(t, hint, ovr).map(|v| v.to_string()).unwrap_or("-".into()) }
                else { "bad-slot".into() }
            }
            "ease" => {
                let e = parse_easing(w[1]);
                w[2..].iter().map(|t| fbits(e.calc(fb(t))).to_string()).collect::<Vec<_>>().join(" ")
            }
            "repcmp" => {
                // Ord / PartialOrd / PartialEq of Repeat: `n`, `i`, or a count
                let (a, b) = (parse_repeat(w[1]), parse_repeat(w[2]));
                let pc = match a.partial_cmp(&b) { Some(std::cmp::Ordering::Less) => "lt", Some(std::cmp::Ordering::Equal) => "eq", Some(std::cmp::Ordering::Greater) => "gt", None => "?" };
                let c = match a.cmp(&b) { std::cmp::Ordering::Less => "lt", std::cmp::Ordering::Equal => "eq", std::cmp::Ordering::Greater => "gt" };
                format!("{} {} {} {} {}", pc, c, (a < b) as u8, (a == b) as u8, show_repeat(a.max(b)))
            }
            "posdef" => {
                // `TimeScale::default()`
                let ts = TimeScale::default();
                let outs: Vec<String> = w[1..].iter().map(|t| show_pos(ts.get_position(fb(t)))).collect();
                format!("{} {} {} {} {}", ts.get_delay().to_bits(), ts.get_cycle_duration().to_bits(), show_repeat(ts.get_repeat()), show_dur(ts.get_duration()), outs.join(" "))
            }
            "easepar" => {
                // `easepar <easing> <x>…`: the easing evaluated from eight threads at once (each owns its own clone and runs through
                // the xs in its own rotation, 2000 rounds), against the single-threaded results: prints those and the number of
                // concurrent evaluations that differed from them
                let e = parse_easing(w[1]);
                let xs: Vec<f32> = w[2..].iter().map(|t| fb(t)).collect();
                let want: Vec<u32> = xs.iter().map(|x| fbits(e.calc(*x))).collect();
                let bad = std::sync::atomic::AtomicU64::new(0);
                std::thread::scope(|sc| {
                    for th in 0..8usize {
                        let e = e.clone();
                        let (xs, want, bad) = (&xs, &want, &bad);
                        sc.spawn(move || {
                            let n = xs.len();
                            for round in 0..2000usize {
                                for k in 0..n {
                                    let i = (k + th + round) % n;
                                    if fbits(e.calc(xs[i])) != want[i] { bad.fetch_add(1, std::sync::atomic::Ordering::Relaxed); }
                                }
                            }
                        });
                    }
                });
                format!("{} {}", want.iter().map(|v| v.to_string()).collect::<Vec<_>>().join(" "), bad.load(std::sync::atomic::Ordering::Relaxed))
            }
            "easeraw" => {
                // the custom function itself, not wrapped in `Easing::Custom` ("a custom easing is used as given")
                let c = Cust(w[1][1..].parse().unwrap());
                w[2..].iter().map(|t| fbits(c.calc(fb(t))).to_string()).collect::<Vec<_>>().join(" ")
            }
            "easesweep" => {
                let e = parse_easing(w[1]);
                let (start, count, stride): (u64, u64, u64) = (w[2].parse().unwrap(), w[3].parse().unwrap(), w[4].parse().unwrap());
                let mut h = 14695981039346656037u64;
                for i in 0..count {
                    let x = f32::from_bits((start + i * stride) as u32);
                    h = fnv(h, &e.calc(x).to_bits().to_string());
                }
                h.to_string()
            }
            "pos" => {
                let ts = TimeScale::new(fb(w[1]), fb(w[2]), parse_repeat(w[3]), w[4] == "1");
                let outs: Vec<String> = w[5..].iter().map(|t| show_pos(ts.get_position(fb(t)))).collect();
                format!("{} {}", show_dur(ts.get_duration()), outs.join(" "))
            }
            "prep" => {
                // the public helper every generated `update` starts with: prep <dur> <delay> <rep> <rev> <time> <n> <boundary times…>
                let ts = TimeScale::new(fb(w[1]), fb(w[2]), parse_repeat(w[3]), w[4] == "1");
                let n: usize = w[6].parse().unwrap();
                let bt: Vec<f32> = (0..n).map(|k| fb(w[7 + k])).collect();
                match mina_core::timeline::prepare_frame(fb(w[5]), &bt, &ts) {
                    None => "-".into(),
                    Some((t, i, o)) => format!("{} {} {}", fbits(t), i, o as u8),
                }
            }
            "possweep" => {
                let ts = TimeScale::new(fb(w[1]), fb(w[2]), parse_repeat(w[3]), w[4] == "1");
                let (start, count, stride): (u64, u64, u64) = (w[5].parse().unwrap(), w[6].parse().unwrap(), w[7].parse().unwrap());
                let mut h = 14695981039346656037u64;
                for i in 0..count {
                    let x = f32::from_bits((start + i * stride) as u32);
                    h = fnv(h, &show_pos(ts.get_position(x)));
                }
                h.to_string()
            }
            "shape" => Self::check_shape(w[1], &w[2..]),
            "reset" => {
                *self = Runner::new();
                "ok".into()
            }
            _ => return None,
        })
    }

    fn dispatch(&mut self, w: &[&str]) -> String {
        if let Some(out) = self.stateless(w) {
            return out;
        }
        // stateful ops: the slot's shape is fixed by the op that created it
        let shape = match w[0] {
            "tl" | "anim" => { self.slot_shape.insert(w[1].to_string(), w[2].to_string()); w[2].to_string() }
            "xdyn" => {
                let n: usize = w[2].parse().unwrap();
                match self.slot_shape.get(w[3]).cloned() { Some(sh) if n > 0 => { self.slot_shape.insert(w[1].to_string(), sh.clone()); sh } _ => return "bad-slot".into() }
            }
            "xanim" => match self.slot_shape.get(w[2]).cloned() { Some(sh) => { self.slot_shape.insert(w[1].to_string(), sh.clone()); sh } None => return "bad-slot".into() },
            "merge" | "merge2" => {
                let n: usize = w[2].parse().unwrap();
                let sh = w[3 + n].to_string();
                self.slot_shape.insert(w[1].to_string(), sh.clone());
                sh
            }
            "clone" => match self.slot_shape.get(w[1]).cloned() {
                Some(sh) => { self.slot_shape.insert(w[2].to_string(), sh.clone()); sh }
                None => return "bad-slot".into(),
            },
            _ => match self.slot_shape.get(w[1]) { Some(s) => s.clone(), None => return "bad-slot".into() },
        };
        match self.sessions.get_mut(&shape) {
            Some(s) => s.op(w),
            None => "bad-shape".into(),
        }
    }

    pub fn run_line(&mut self, line: &str) -> String {
        let w: Vec<&str> = line.split(' ').filter(|s| !s.is_empty()).collect();
        if w.is_empty() {
            return String::new();
        }
        match catch_unwind(AssertUnwindSafe(|| self.dispatch(&w))) {
            Ok(s) => s,
            Err(e) => {
                let msg = if let Some(s) = e.downcast_ref::<&str>() { s.to_string() } else if let Some(s) = e.downcast_ref::<String>() { s.clone() } else { "?".into() };
                // a panic may leave the object half-updated: both sides forget it
                if matches!(w[0], "adv" | "set") {
                    let sh = self.slot_shape.remove(w[1]);
                    let _ = sh;
                }
                format!("panic:{}", panic_tag(&msg))
            }
        }
    }
}
