//! Generators: structured, mostly-valid, boundary-directed inputs; one SplitMix64 stream.
//!
//! Besides ops, a generator emits *oracle directives* as comment ops (both sides answer `#`):
//!   `# eq  <P> <i> <j>`         outputs of the lines i and j lines back must be identical
//!   `# eqv <P> <i> <j>`         same, comparing only the values part (before ` | `)
//!   `# expect <P> <i> k=tok ..` field k of the output i lines back must be exactly `tok`
//! They are evaluated on the implementation's output alone (relational / exact oracles).
use crate::rng::Rng;
use crate::run::EASING_NAMES;
use crate::shapes::*;
use std::io::Write;

pub fn nudge(x: f32, k: i32) -> f32 {
    if !x.is_finite() {
        return x;
    }
    if x == 0.0 {
        return if k > 0 { f32::from_bits(k as u32) } else { 0.0 };
    }
    if x < 0.0 {
        return -nudge(-x, -k);
    }
    let b = x.to_bits() as i64 + k as i64;
    if b < 0 { 0.0 } else { f32::from_bits(b as u32) }
}

const LATTICE: [f32; 9] = [0.0, 0.1, 0.25, 1.0 / 3.0, 0.5, 0.6, 0.75, 0.9, 1.0];
const DYADIC: [f32; 5] = [0.0, 0.25, 0.5, 0.75, 1.0];
const DURS: [f32; 10] = [1.0, 0.5, 2.0, 3.0, 0.3, 10.0, 0.7, 1e-3, 123.456, 0.1];
const DELAYS: [f32; 7] = [0.0, 0.0, 1.0, 0.1, 2.5, 0.333, 1e-3];
const DY_DURS: [f32; 5] = [1.0, 0.5, 2.0, 4.0, 0.25];
const DY_DELAYS: [f32; 5] = [0.0, 0.0, 1.0, 0.5, 2.0];

fn b(x: f32) -> String {
    x.to_bits().to_string()
}

pub fn easing_tok(r: &mut Rng, allow_c2: bool) -> String {
    let k = r.below(if allow_c2 { 36 } else { 35 });
    match k {
        0..=28 => EASING_NAMES[k as usize].to_string(),
        29 | 30 => "Linear".into(),
        31 => "c0".into(),
        32 => "c1".into(),
        33 | 34 => "c3".into(),
        _ => "c2".into(),
    }
}

pub fn repeat_tok(r: &mut Rng) -> String {
    match r.below(12) {
        0..=3 => "n".into(),
        4 | 5 => "i".into(),
        6 => "0".into(),
        7 => "1".into(),
        8 => "2".into(),
        9 => "3".into(),
        10 => (r.below(6) + 4).to_string(),
        _ => r.pick(&["16777215", "16777216", "16777217", "2147483648", "4294967294", "4294967295"]).to_string(),
    }
}

fn int_bounds(kind: &str) -> (i128, i128) {
    match kind {
        "i8" => (i8::MIN as i128, i8::MAX as i128),
        "i16" => (i16::MIN as i128, i16::MAX as i128),
        "i32" => (i32::MIN as i128, i32::MAX as i128),
        "i64" => (i64::MIN as i128, i64::MAX as i128),
        "u8" => (0, u8::MAX as i128),
        "u16" => (0, u16::MAX as i128),
        "u32" => (0, u32::MAX as i128),
        _ => (0, u64::MAX as i128),
    }
}

/// a value token of the given kind; `tame` keeps integers well inside the type and exactly
/// representable in f32 (|n| <= 2^24) so that overshooting easings do not leave the range
pub fn val_tok(r: &mut Rng, kind: &str, tame: bool) -> String {
    match kind {
        "f32" | "f64" => {
            let v = match r.below(10) {
                0 => 0.0,
                1 => 1.0,
                2 => -1.0,
                3..=7 => (r.below(2001) as f32 - 1000.0) * 0.25,
                8 => (r.below(200001) as f32 - 100000.0) * 0.001,
                _ => (r.unit_f32() - 0.5) * 1.0e6,
            };
            b(v)
        }
        k => {
            let (lo, hi) = int_bounds(k);
            let (tlo, thi) = (lo.max(-100).max(lo / 2), hi.min(100).min(hi / 2).max(1));
            if hi >= (1 << 24) && r.chance(1, 12) {
                // the edge of exact integer arithmetic in binary32: odd values between 2^23 and 2^24 (spacing 1, so x + 0.5
                // is a tie that rounds to even), 2^24 itself and its neighbours — all exactly representable
                let m: i128 = match r.below(6) {
                    0 => (1 << 23) + 1,
                    1 => (1 << 24) - 1,
                    2 => (1 << 24),
                    3 => (1 << 24) - 2,
                    _ => (1 << 23) + 1 + 2 * (r.below((1 << 22) - 1) as i128),
                };
                let v = if lo < 0 && r.chance(1, 2) { -m } else { m };
                return v.to_string();
            }
            if tame || r.chance(3, 4) {
                let span = (thi - tlo + 1) as u64;
                (tlo + r.below(span) as i128).to_string()
            } else {
                match r.below(6) {
                    0 => lo.to_string(),
                    1 => hi.to_string(),
                    2 => (lo + 1).to_string(),
                    3 => (hi - 1).to_string(),
                    _ => {
                        // anywhere in range, exactly representable in f32 (24 significant bits)
                        let span = (hi - lo) as u128;
                        let x = ((r.next() as u128) << 64 | r.next() as u128) % (span + 1);
                        let v = lo + x as i128;
                        let a = v.unsigned_abs();
                        let keep = if a == 0 { 0 } else { let sh = (128 - a.leading_zeros()).saturating_sub(24); (a >> sh) << sh };
                        (if v < 0 { -(keep as i128) } else { keep as i128 }).max(lo).min(hi).to_string()
                    }
                }
            }
        }
    }
}

fn shape_fields(name: &str) -> Vec<(&'static str, bool)> {
    match name {
        "S8" => S8Ops::fields(),
        "Q5" => Q5Ops::fields(),
        "W20" => W20Ops::fields(),
        "W72" => W72Ops::fields(),
        "N5" => N5Ops::fields(),
        _ => R4Ops::fields(),
    }
}

fn shape_line(name: &str) -> String {
    let f = shape_fields(name);
    format!("shape {} {}", name, f.iter().map(|(k, a)| format!("{}:{}", k, if *a { "a" } else { "n" })).collect::<Vec<_>>().join(" "))
}

#[derive(Clone)]
pub struct GenKf {
    pub pos: f32,
    pub easing: Option<String>,
    pub vals: Vec<Option<String>>,
}

#[derive(Clone)]
pub struct GenTl {
    pub shape: String,
    pub dur: Option<f32>,
    pub delay: Option<f32>,
    pub rep: Option<String>,
    pub rev: Option<bool>,
    pub easing: Option<String>,
    pub kfs: Vec<GenKf>,
    pub exact: bool,
}

impl GenTl {
    pub fn line(&self, slot: usize) -> String {
        let o = |x: &Option<String>| x.clone().unwrap_or("-".into());
        let mut s = format!(
            "tl {} {} {} {} {} {} {} {}",
            slot,
            self.shape,
            self.dur.map(b).unwrap_or("-".into()),
            self.delay.map(b).unwrap_or("-".into()),
            o(&self.rep),
            self.rev.map(|r| (r as u8).to_string()).unwrap_or("-".into()),
            o(&self.easing),
            self.kfs.len()
        );
        for k in &self.kfs {
            s.push_str(&format!(" {} {}", b(k.pos), o(&k.easing)));
            for v in &k.vals {
                s.push_str(&format!(" {}", o(v)));
            }
        }
        s
    }
    pub fn dur_v(&self) -> f32 { self.dur.unwrap_or(1.0) }
    pub fn delay_v(&self) -> f32 { self.delay.unwrap_or(0.0) }
    pub fn rev_v(&self) -> bool { self.rev.unwrap_or(false) }
    /// number of cycles, None = infinite
    pub fn cycles(&self) -> Option<u64> {
        match self.rep.as_deref() {
            None | Some("n") => Some(1),
            Some("i") => None,
            Some(k) => Some(k.parse::<u64>().unwrap() + 1),
        }
    }
    pub fn distinct_positions(&self) -> bool {
        for i in 0..self.kfs.len() {
            for j in 0..i {
                if self.kfs[i].pos == self.kfs[j].pos {
                    return false;
                }
            }
        }
        true
    }
}

/// keyframe positions to draw from: the coarse lattice, and (half of the time) clusters of positions that
/// are closer together than one percent, one ulp apart, or uniformly random — positions are arbitrary reals
/// in [0,1], not whole percents
fn pos_pool(r: &mut Rng, exact: bool) -> Vec<f32> {
    let base: &[f32] = if exact { &DYADIC } else { &LATTICE };
    let mut pool = base.to_vec();
    if r.chance(1, 2) {
        for _ in 0..2 {
            let p = base[r.below(base.len() as u64 - 1) as usize];
            if exact {
                for d in [1.0f32 / 256.0, 1.0 / 128.0, 3.0 / 256.0] { if r.chance(2, 3) { pool.push(p + d); } }
            } else {
                for d in [0.001f32, 0.004, 0.0075] { if r.chance(2, 3) { pool.push(p + d); } }
                if r.chance(1, 2) { pool.push(nudge(p, 1)); }
            }
        }
        if !exact {
            pool.push(r.unit_f32());
            pool.push(r.unit_f32());
        }
        pool.retain(|x| *x >= 0.0 && *x <= 1.0);
        pool.dedup();
        let mut seen: Vec<f32> = Vec::new();
        pool.retain(|x| if seen.contains(x) { false } else { seen.push(*x); true });
    }
    // one timeline in ten spells its 0% position as -0.0: numerically the same position (so every rule about "0%" applies),
    // but a different bit pattern — ordering or equality on the bits goes wrong there
    if r.chance(1, 10) { for x in pool.iter_mut() { if *x == 0.0 { *x = -0.0; } } }
    pool
}

pub fn gen_timeline(r: &mut Rng, shape: &str, exact: bool, tame: bool) -> GenTl {
    let fields = shape_fields(shape);
    let anim: Vec<&str> = fields.iter().filter(|f| f.1).map(|f| f.0).collect();
    let dur = if r.chance(1, 8) { None } else { Some(if exact { r.pick(&DY_DURS) } else { r.pick(&DURS) }) };
    let delay = if r.chance(1, 4) { None } else { Some(if exact { r.pick(&DY_DELAYS) } else { r.pick(&DELAYS) }) };
    let rep = if r.chance(1, 8) { None } else { Some(repeat_tok(r)) };
    let rev = if r.chance(1, 4) { None } else { Some(r.chance(1, 2)) };
    let easing = if r.chance(1, 4) { None } else { Some(easing_tok(r, !exact)) };
    let mut nkf = match r.below(10) { 0 => 0, 1 => 1, 2 | 3 => 2, 4 | 5 => 3, 6 => 4, 7 => 5, 8 => 6, _ => 8 } as usize;
    let mut lattice: Vec<f32> = pos_pool(r, exact);
    // one timeline in sixteen is long (up to 100 keyframes, none guaranteed at 0% or 100%): size-dependent code paths
    // (a different search above some length, small-vector spill-over, counters) only show there
    if r.chance(1, 16) {
        nkf = r.pick(&[9usize, 12, 16, 17, 24, 32, 33, 40, 64, 65, 100]);
        while lattice.len() < nkf + 4 {
            let p = if exact { r.below(1025) as f32 / 1024.0 } else { r.unit_f32() };
            if p > 0.0 && p < 1.0 && !lattice.contains(&p) { lattice.push(p); }
        }
        if r.chance(1, 2) { lattice.retain(|p| *p != 0.0); }
        if r.chance(1, 2) { lattice.retain(|p| *p != 1.0); }
    }
    // per-field presence probability (some fields never present: sentinels)
    let presence: Vec<u64> = anim.iter().map(|_| r.pick(&[0u64, 0, 1, 2, 3, 4, 4])).collect();
    let distinct = r.chance(1, 2);
    let mut kfs = Vec::new();
    let mut pool: Vec<f32> = lattice.clone();
    r.shuffle(&mut pool);
    for i in 0..nkf {
        let pos = if distinct { if i < pool.len() { pool[i] } else { break } } else { r.pick(&lattice) };
        let e = if r.chance(1, 3) { Some(easing_tok(r, !exact)) } else { None };
        let vals = anim.iter().zip(presence.iter()).map(|(k, p)| if r.below(4) < *p { Some(val_tok(r, k, tame)) } else { None }).collect();
        kfs.push(GenKf { pos, easing: e, vals });
    }
    if r.chance(1, 3) {
        kfs.sort_by(|a, b| a.pos.total_cmp(&b.pos));
    }
    GenTl { shape: shape.into(), dur, delay, rep, rev, easing, kfs, exact }
}

pub fn vals_line(r: &mut Rng, shape: &str, tame: bool) -> Vec<String> {
    shape_fields(shape).iter().map(|(k, _)| val_tok(r, k, tame)).collect()
}

/// boundary-directed times for a timeline
pub fn times_for(r: &mut Rng, tl: &GenTl, n_random: usize) -> Vec<f32> {
    let (delay, dur) = (tl.delay_v(), tl.dur_v());
    let mut ts = vec![0.0f32, delay, nudge(delay, -1), nudge(delay, 1)];
    let lattice: &[f32] = if tl.exact { &DYADIC } else { &LATTICE };
    let maxk = tl.cycles().unwrap_or(3).min(3) as u32;
    for k in 0..=maxk {
        for p in lattice {
            let t = delay + dur * (k as f32 + *p);
            ts.push(t);
            if r.chance(1, 2) { ts.push(nudge(t, 1)); }
            if r.chance(1, 2) { ts.push(nudge(t, -1)); }
            if tl.rev_v() {
                ts.push(delay + dur * (k as f32 + *p * 0.5));
            }
        }
    }
    // keyframe-directed: every keyframe position that is off the lattice, and the midpoints between neighbours
    let mut ps: Vec<f32> = tl.kfs.iter().map(|k| k.pos).collect();
    ps.sort_by(|a, b| a.total_cmp(b));
    ps.dedup();
    let mids: Vec<f32> = ps.windows(2).map(|w| (w[0] + w[1]) * 0.5).collect();
    for p in ps.iter().chain(mids.iter()) {
        if lattice.contains(p) { continue; }
        for k in 0..=maxk.min(1) {
            ts.push(delay + dur * (k as f32 + *p));
            if tl.rev_v() { ts.push(delay + dur * (k as f32 + *p * 0.5)); ts.push(delay + dur * (k as f32 + 1.0 - *p * 0.5)); }
        }
    }
    if let Some(c) = tl.cycles() {
        let total = delay + dur * c as f32;
        for t in [total, nudge(total, 1), nudge(total, -1), total * 2.0 + 1.0] {
            ts.push(t);
        }
        let last = delay + dur * (c as f32 - 0.5);
        ts.push(last);
    }
    for _ in 0..n_random {
        ts.push(r.unit_f32() * (dur * 5.0 + delay * 1.5));
    }
    ts.push(1e9);
    ts.push(3.0e38);
    ts
}

fn gen_num(r: &mut Rng, n: usize, out: &mut dyn Write) {
    for _ in 0..n {
        let a = f32::from_bits((r.next() % 0x7f80_0000) as u32);
        let bb = f32::from_bits((r.below(0x7f00_0000) + 1) as u32);
        let a = if r.chance(1, 8) { -a } else { a };
        writeln!(out, "fmod {} {}", b(a), b(bb)).unwrap();
        // fmod as used by the time scale: time in a few cycles
        let d = r.pick(&DURS);
        let t = r.unit_f32() * d * 6.0;
        writeln!(out, "fmod {} {}", b(t), b(d)).unwrap();
        let k = r.below(5) as f32;
        writeln!(out, "fmod {} {}", b(d * k), b(d)).unwrap();
        let x = match r.below(4) {
            0 => (r.below(4000) as f32 - 2000.0) * 0.5,
            1 => (r.unit_f32() - 0.5) * 600.0,
            2 => f32::from_bits(r.next() as u32 & 0x7fff_ffff),
            _ => (r.unit_f32() - 0.5) * 4.0e7,
        };
        if x.is_finite() {
            writeln!(out, "round {}", b(x)).unwrap();
        }
        let i: i128 = match r.below(6) {
            0 => i64::MIN as i128 + r.below(3) as i128,
            1 => u64::MAX as i128 - r.below(3) as i128,
            2 => (1i128 << (24 + r.below(40))) + r.below(5) as i128 - 2,
            3 => -((1i128 << (24 + r.below(39))) + r.below(5) as i128 - 2),
            4 => r.below(1 << 26) as i128 - (1 << 25),
            _ => (r.next() >> r.below(40)) as i128,
        };
        writeln!(out, "ofint {}", i).unwrap();
        writeln!(out, "dec {} {}", r.below(10_000_000), r.below(12)).unwrap();
        let ns: u128 = match r.below(4) {
            0 => r.below(5_000_000_000) as u128,
            1 => r.below(1000) as u128 * 1_000_000_000 + r.below(3) as u128,
            2 => r.next() as u128,
            _ => (r.next() as u128) * (r.below(1000) as u128 + 1),
        };
        writeln!(out, "n2s {}", ns).unwrap();
        let s = match r.below(6) {
            0 => r.unit_f32() * 10.0,
            1 => (r.below(10000) as f32) * 0.001,
            2 => r.below(1000) as f32 / 64.0,
            3 => f32::from_bits((r.next() % 0x6000_0000) as u32),
            4 => r.pick(&[0.0f32, -0.0, 1e-9, 5e-10, 4.9e-10, 1.5e-9, 2.5e-9, 0.016, 0.0166667, 1.8446744e19, 1.8446743e19, 3e38, -1.0, -1e-20]),
            _ => r.unit_f32() * 1e-6,
        };
        writeln!(out, "s2n {}", b(s)).unwrap();
    }
}

const INT_KINDS: [&str; 9] = ["i8", "i16", "i32", "i64", "u8", "u16", "u32", "u64", "usize"];

fn x_tok(r: &mut Rng) -> f32 {
    if r.chance(1, 12) {
        // the immediate neighbourhoods of 0 and 1 and the smallest magnitudes: "close enough to the end" shortcuts live here
        return r.pick(&[f32::from_bits(0x3F7F_FFFF), f32::from_bits(0x3F7F_FFFE), f32::from_bits(0x3F80_0001), f32::from_bits(0x3380_0000) /* 2^-24 */,
                        f32::from_bits(0x3400_0000) /* 2^-23 */, f32::from_bits(1), f32::from_bits(0x0080_0000), -0.0, f32::EPSILON, 1.0 - f32::EPSILON,
                        0.999_999, 1e-7, 0.5 + f32::EPSILON, 0.49999997]);
    }
    match r.below(10) {
        0 => 0.0,
        1 => 1.0,
        2 => 0.5,
        3..=5 => r.below(257) as f32 / 256.0,
        6..=8 => r.unit_f32(),
        _ => r.pick(&[-0.25f32, 1.25, -1e-3, 1.001, 2.0]),
    }
}

/// is the integer token exactly representable in f32? (the lerp laws are stated for such values)
fn tok_f32_exact(kind: &str, tok: &str) -> bool {
    if kind == "f32" || kind == "f64" { return true; }
    let v: i128 = tok.parse().unwrap();
    (v as f32) as i128 == v && ((v as f32) as f64) == v as f64
}

/// The nearest-integer law, judged strictly where binary32 cannot blur it: if `1-x`, `a·(1-x)`, `c·x` and their sum are
/// all exactly representable in binary32 (24 significant bits), the code's f32 computation *is* the real interpolation and
/// the integer result must be that value rounded to nearest (ties away from zero).  Returns the expected integer then.
fn exact_lerp_expect(a: i128, c: i128, x: f32) -> Option<i128> {
    if !(x > 0.0 && x < 1.0) { return None; }
    let bits = x.to_bits();
    let (ex, fr) = ((bits >> 23) & 0xFF, bits & 0x7F_FFFF);
    let (mut m, mut k): (i128, i32) = if ex == 0 { (fr as i128, 149) } else { ((fr | 0x80_0000) as i128, 150 - ex as i32) };   // x = m / 2^k
    while m % 2 == 0 && k > 0 { m /= 2; k -= 1; }
    if k > 40 || k < 0 { return None; }
    let fits = |n: i128| -> bool { let mut v = n.unsigned_abs(); if v == 0 { return true; } while v % 2 == 0 { v /= 2; } v < (1 << 24) };
    let one_minus = (1i128 << k) - m;                 // (1 - x) · 2^k
    let p1 = a.checked_mul(one_minus)?;               // a·(1-x) · 2^k
    let p2 = c.checked_mul(m)?;                       // c·x · 2^k
    let sum = p1.checked_add(p2)?;
    // (with a = 0 the first product is an exact zero whatever the rounding of 1 − x)
    if !((a == 0 || fits(one_minus)) && fits(p1) && fits(p2) && fits(sum) && fits(a) && fits(c)) { return None; }
    // round half away from zero of sum / 2^k
    let d = 1i128 << k;
    let q = sum.div_euclid(d);
    let rem = sum.rem_euclid(d);
    let r = if sum >= 0 { if 2 * rem >= d { q + 1 } else { q } } else { if 2 * rem > d { q + 1 } else { q } };
    Some(r)
}

fn gen_lerp(r: &mut Rng, n: usize, out: &mut dyn Write, exhaustive8: bool) {
    if exhaustive8 {
        for kind in ["u8", "i8"] {
            let (lo, hi) = int_bounds(kind);
            for a in lo..=hi {
                for bb in lo..=hi {
                    let x = r.below(257) as f32 / 256.0;
                    writeln!(out, "lerp {} {} {} {}", kind, a, bb, b(0.0)).unwrap();
                    writeln!(out, "# expect C14 1 0={}", a).unwrap();
                    writeln!(out, "lerp {} {} {} {}", kind, a, bb, b(1.0)).unwrap();
                    writeln!(out, "# expect C14 1 0={}", bb).unwrap();
                    writeln!(out, "lerp {} {} {} {}", kind, a, bb, b(x)).unwrap();
                }
            }
        }
    }
    // directed: results next to a rounding tie — 0 → 2^j at x within two ulps of (k + ½) / 2^j: the product is exact, so the
    // integer result is the real interpolation rounded to nearest with no room for float noise (0.49999997 → 0, 0.5 → 1)
    for kind in ["u8", "u16", "i8", "i16", "i32", "u32", "i64", "u64", "usize"] {
        let (lo, hi) = int_bounds(kind);
        for j in [0u32, 1, 2, 3, 4, 6] {
            let c: i128 = 1 << j;
            for k in [0i128, 1, 2, 5, 20] {
                if 2 * k + 1 >= 2 * c { continue; }
                let x0 = (k as f32 + 0.5) / c as f32;
                for dk in [-2i32, -1, 0, 1, 2] {
                    let x = nudge(x0, dk);
                    for (a, cc) in [(0i128, c), (0, -c)] {
                        if cc < lo || cc > hi { continue; }
                        writeln!(out, "lerp {} {} {} {}", kind, a, cc, b(x)).unwrap();
                        if let Some(e) = exact_lerp_expect(a, cc, x) { writeln!(out, "# expect C14 1 0={}", e).unwrap(); }
                    }
                }
            }
        }
    }
    // directed: wide integer ranges (powers of two and their small multiples) at x next to 0 and 1 and at dyadic x
    for kind in ["i32", "u32", "i64", "u64", "usize", "i16", "u16"] {
        let (lo, hi) = int_bounds(kind);
        for sh in [10u32, 15, 20, 24, 28, 30, 31, 40, 62] {
            let big: i128 = 1i128 << sh;
            if big > hi { continue; }
            for (a, c) in [(0i128, big), (big, 0), (if lo < 0 { -big.min(-lo) } else { 0 }, big), (3 * (big >> 2), big)] {
                for x in [f32::from_bits(0x3F7F_FFFF), f32::from_bits(0x3380_0000), 0.5f32, 0.25, 0.75, f32::from_bits(0x3F7F_FFFE), 1.0 / 1024.0] {
                    writeln!(out, "lerp {} {} {} {}", kind, a, c, b(x)).unwrap();
                    if let Some(e) = exact_lerp_expect(a, c, x) { if e >= lo && e <= hi { writeln!(out, "# expect C14 1 0={}", e).unwrap(); } }
                }
            }
        }
    }
    for _ in 0..n {
        let kind = if r.chance(1, 4) { "f32" } else { r.pick(&INT_KINDS) };
        let a = val_tok(r, kind, false);
        let c = if r.chance(1, 8) { a.clone() } else { val_tok(r, kind, false) };
        let x = x_tok(r);
        writeln!(out, "lerp {} {} {} {}", kind, a, c, b(x)).unwrap();
        let inrange = (0.0..=1.0).contains(&x);
        let exact = tok_f32_exact(kind, &a) && tok_f32_exact(kind, &c);
        if !exact { continue; }
        if x == 0.0 { writeln!(out, "# expect C14 1 0={}", a).unwrap(); }
        else if x == 1.0 { writeln!(out, "# expect C14 1 0={}", c).unwrap(); }
        else if a == c && inrange { writeln!(out, "# expect C14 1 0={}", a).unwrap(); }
        else if kind != "f32" {
            if let Some(e) = exact_lerp_expect(a.parse().unwrap(), c.parse().unwrap(), x) {
                let (lo, hi) = int_bounds(kind);
                if e >= lo && e <= hi { writeln!(out, "# expect C14 1 0={}", e).unwrap(); }
            }
        }
        if r.chance(1, 4) {
            // f64: arbitrary doubles
            let fa = (r.unit_f32() as f64 - 0.5) * 10f64.powi(r.below(20) as i32 - 10);
            let fc = (r.unit_f32() as f64 - 0.5) * 10f64.powi(r.below(20) as i32 - 10) + r.unit_f32() as f64 * 1e-9;
            writeln!(out, "lerp64 {} {} {}", fa.to_bits(), fc.to_bits(), b(x)).unwrap();
        }
        if r.chance(1, 4) {
            // Quat / DQuat: normalised linear interpolation the short way round (delegated to glam)
            let mut q = |r: &mut Rng| -> [f64; 4] {
                let mut v = [0f64; 4];
                match r.below(8) {
                    0 => { v[r.below(4) as usize] = if r.chance(1, 2) { 1.0 } else { -1.0 }; }
                    _ => {
                        for c in v.iter_mut() { *c = r.unit_f32() as f64 - 0.5; }
                        if r.chance(1, 5) { v[r.below(4) as usize] = 0.0; }
                        let n = v.iter().map(|c| c * c).sum::<f64>().sqrt();
                        if n > 1e-3 { for c in v.iter_mut() { *c /= n; } } else { v = [0.0, 0.0, 0.0, 1.0]; }
                        if r.chance(1, 8) { let k = 10f64.powi(r.below(13) as i32 - 6); for c in v.iter_mut() { *c *= k; } }
                    }
                }
                v
            };
            let a = q(r);
            let c = match r.below(8) {
                0 => a,
                1 => [-a[0], -a[1], -a[2], -a[3]],
                2 => [-a[1], a[0], -a[3], a[2]],          // orthogonal: the dot product is ±0
                3 => { let mut c = a; c[r.below(4) as usize] += 1e-3; c }
                _ => q(r),
            };
            let x = match r.below(6) { 0 => 0.0, 1 => 1.0, 2 => 0.5, 3 => r.below(1025) as f32 / 1024.0, 4 => x, _ => r.unit_f32() };
            if r.chance(1, 2) {
                let t = |v: &[f64; 4]| v.iter().map(|c| b(*c as f32)).collect::<Vec<_>>().join(" ");
                writeln!(out, "quat {} {} {}", t(&a), t(&c), b(x)).unwrap();
            } else {
                // half of the doubles are exact f32 values, half use the full 53 bits
                let full = r.chance(1, 2);
                let t = |v: &[f64; 4]| v.iter().map(|c| (if full { *c } else { *c as f32 as f64 }).to_bits().to_string()).collect::<Vec<_>>().join(" ");
                writeln!(out, "dquat {} {} {}", t(&a), t(&c), b(x)).unwrap();
            }
            writeln!(out, "# quatspec C14 1").unwrap();
        }
        if r.chance(1, 4) {
            let vecs = [("Vec2", "f32", 2), ("Vec3", "f32", 3), ("Vec3A", "f32", 3), ("Vec4", "f32", 4), ("DVec2", "f64", 2), ("DVec3", "f64", 3),
                ("DVec4", "f64", 4), ("IVec2", "i32", 2), ("IVec3", "i32", 3), ("IVec4", "i32", 4), ("UVec2", "u32", 2), ("UVec3", "u32", 3),
                ("UVec4", "u32", 4), ("I64Vec2", "i64", 2), ("I64Vec3", "i64", 3), ("I64Vec4", "i64", 4), ("U64Vec2", "u64", 2),
                ("U64Vec3", "u64", 3), ("U64Vec4", "u64", 4)];
            let (name, k, n) = r.pick(&vecs);
            let av: Vec<String> = (0..n).map(|_| val_tok(r, k, false)).collect();
            let bv: Vec<String> = (0..n).map(|_| val_tok(r, k, false)).collect();
            let x = if r.chance(7, 8) { x.clamp(0.0, 1.0) } else { x };
            writeln!(out, "vec {} {} {} {} {} {}", name, k, n, av.join(" "), bv.join(" "), b(x)).unwrap();
            // component-wise oracle: each component equals the scalar lerp
            let sk = if k == "f64" { "f32" } else { k };
            if k != "f64" {
                for i in 0..n {
                    writeln!(out, "lerp {} {} {} {}", sk, av[i], bv[i], b(x)).unwrap();
                    writeln!(out, "# component C14 {} {}", 2 * (i + 1), i).unwrap();
                }
            }
        }
    }
}

fn gen_ease(r: &mut Rng, n: usize, out: &mut dyn Write) {
    let all: Vec<String> = EASING_NAMES.iter().map(|s| s.to_string()).chain(["c0", "c1", "c2", "c3"].iter().map(|s| s.to_string())).collect();
    for name in &all {
        // endpoints and their neighbourhoods
        let mut xs: Vec<f32> = vec![0.0, 1.0];
        for k in 1..8 { xs.push(nudge(0.0, k)); xs.push(nudge(1.0, -k)); }
        writeln!(out, "ease {} {}", name, xs.iter().map(|x| b(*x)).collect::<Vec<_>>().join(" ")).unwrap();
        if !name.starts_with('c') || name != "c2" {
            if name != "c2" {
                writeln!(out, "# expect C13 1 0={} 1={}", b(0.0), b(1.0)).unwrap();
            }
        }
    }
    // every easing from eight threads at once: an easing is a pure function of x, whoever else is evaluating it
    for name in &all {
        let xs: Vec<f32> = (0..8).map(|k| if k < 2 { r.unit_f32() } else { r.below(1025) as f32 / 1024.0 }).collect();
        writeln!(out, "easepar {} {}", name, xs.iter().map(|x| b(*x)).collect::<Vec<_>>().join(" ")).unwrap();
        writeln!(out, "# expect C13 1 8=0").unwrap();
    }
    // parameterised custom easings, created and dropped op by op: the next one starts at the x the last one ended with
    for k in 0..12 {
        let xs: Vec<f32> = (0..4).map(|_| r.below(1025) as f32 / 1024.0).collect();
        let (e1, e2) = [("c12", "c13"), ("c13", "c11"), ("c11", "c12")][k % 3];
        writeln!(out, "ease {} {}", e1, xs.iter().map(|x| b(*x)).collect::<Vec<_>>().join(" ")).unwrap();
        let mut ys = xs.clone(); ys.reverse();
        writeln!(out, "ease {} {}", e2, ys.iter().map(|x| b(*x)).collect::<Vec<_>>().join(" ")).unwrap();
        writeln!(out, "easeraw {} {}", e2, ys.iter().map(|x| b(*x)).collect::<Vec<_>>().join(" ")).unwrap();
        writeln!(out, "# eq C13 1 2").unwrap();
    }
    for _ in 0..n {
        let name = r.pick(&all);
        let xs: Vec<f32> = (0..32).map(|_| match r.below(4) { 0 => r.below(1025) as f32 / 1024.0, _ => r.unit_f32() }).collect();
        writeln!(out, "ease {} {}", name, xs.iter().map(|x| b(*x)).collect::<Vec<_>>().join(" ")).unwrap();
    }
    // "a custom easing is used as given": `Easing::Custom(f).calc(x)` against `f.calc(x)` called directly, with other
    // easings (custom and built-in) evaluated at the very same x immediately before — any state shared between
    // calls (a memo keyed on the variant, a per-thread cache) shows up as a difference
    let customs = ["c0", "c1", "c2", "c3"];
    for i in 0..(n / 4).max(60) {
        let x = if i % 3 == 0 { r.below(1025) as f32 / 1024.0 } else { r.unit_f32() };
        let a = r.pick(&customs);
        let mut c = r.pick(&customs);
        while c == a { c = r.pick(&customs); }
        let first = if r.chance(1, 3) { r.pick(&all) } else { a.to_string() };
        writeln!(out, "ease {} {}", first, b(x)).unwrap();
        writeln!(out, "ease {} {}", c, b(x)).unwrap();
        writeln!(out, "easeraw {} {}", c, b(x)).unwrap();
        writeln!(out, "# eq C13 1 2").unwrap();
    }
    // a custom easing whose own output is not finite (a pole) is still "used as given": the value a two-keyframe timeline
    // produces for its float property is `lerp(v0, v1, y)` with y the easing's output — NaN / ±inf included
    for i in 0..(n / 20).max(20) {
        let mut tl = gen_timeline(r, "S8", true, true);
        tl.kfs.truncate(0);
        let nanim = shape_fields("S8").iter().filter(|f| f.1).count();
        let (v0, v1) = ((r.below(41) as f32 - 20.0) * 0.5, (r.below(41) as f32 - 20.0) * 0.5 + 0.25);
        for (pos, v) in [(0.0f32, v0), (1.0, v1)] {
            let mut vals: Vec<Option<String>> = vec![None; nanim];
            vals[0] = Some(b(v));
            tl.kfs.push(GenKf { pos, easing: None, vals });
        }
        tl.rep = Some("n".into()); tl.rev = Some(false); tl.delay = Some(0.0); tl.dur = Some(1.0); tl.easing = Some("c4".into());
        writeln!(out, "reset").unwrap();
        writeln!(out, "{}", shape_line("S8")).unwrap();
        writeln!(out, "{}", tl.line(0)).unwrap();
        let t = [0.5f32, 0.25, 0.75, f32::from_bits(0x3F00_0001), 0.125, f32::from_bits(0x3EFF_FFFF)][i % 6];
        let y = 1.0f32 / (t - 0.5);
        let target = vals_line(r, "S8", true);
        writeln!(out, "upd 0 {} {}", b(t), target.join(" ")).unwrap();
        writeln!(out, "lerp f32 {} {} {}", b(v0), b(v1), b(y)).unwrap();
        writeln!(out, "# component C13 2 0").unwrap();
    }
    // "a custom easing is used as given", inside timelines: the segment from a keyframe that names custom easing B is eased
    // with B whatever the timeline's default easing is — another custom easing A (twin 0), Linear (twin 1) — and it is the
    // same as making B the default and naming no easing on the keyframe (twin 2)
    for _ in 0..(n / 10).max(30) {
        let a = r.pick(&customs);
        let mut c = r.pick(&customs);
        while c == a { c = r.pick(&customs); }
        let mut tl = gen_timeline(r, "S8", true, true);
        tl.kfs.truncate(0);
        let nanim = shape_fields("S8").iter().filter(|f| f.1).count();
        let kinds: Vec<&str> = shape_fields("S8").iter().filter(|f| f.1).map(|f| f.0).collect();
        for pos in [0.0f32, 1.0] {
            let vals: Vec<Option<String>> = (0..nanim).map(|j| Some(val_tok(r, kinds[j], true))).collect();
            tl.kfs.push(GenKf { pos, easing: None, vals });
        }
        tl.rep = Some("n".into()); tl.rev = Some(false); tl.delay = Some(0.0); tl.dur = Some(1.0);
        let mut t0 = tl.clone(); t0.easing = Some(a.to_string()); t0.kfs[0].easing = Some(c.to_string());
        let mut t1 = tl.clone(); t1.easing = Some("Linear".into()); t1.kfs[0].easing = Some(c.to_string());
        let mut t2 = tl.clone(); t2.easing = Some(c.to_string());
        writeln!(out, "reset").unwrap();
        writeln!(out, "{}", shape_line("S8")).unwrap();
        writeln!(out, "{}", t0.line(0)).unwrap();
        writeln!(out, "{}", t1.line(1)).unwrap();
        writeln!(out, "{}", t2.line(2)).unwrap();
        for _ in 0..4 {
            let t = if r.chance(1, 2) { r.below(1025) as f32 / 1024.0 } else { r.unit_f32() };
            let target = vals_line(r, "S8", true);
            for k in 0..3 { writeln!(out, "upd {} {} {}", k, b(t), target.join(" ")).unwrap(); }
            writeln!(out, "# eq C13 1 2").unwrap();
            writeln!(out, "# eq C13 2 4").unwrap();
        }
    }
}

fn gen_pos(r: &mut Rng, n: usize, out: &mut dyn Write) {
    // the helper's own Default, and the ordering of Repeat (Ord, PartialOrd, PartialEq, max)
    writeln!(out, "posdef {}", [0.0f32, 0.25, 0.5, 1.0, 1.0000001, 2.0, -1.0, 1e9].iter().map(|t| b(*t)).collect::<Vec<_>>().join(" ")).unwrap();
    // documented: no delay, a one-second cycle, no repeat (the defaults of a TimelineConfiguration), hence a total of 1 s;
    // position t for t in [0,1], NotStarted before 0, terminal after 1
    writeln!(out, "# expect C03 1 0={} 1={} 2=n 3={} 4=A{}:00 5=A{}:00 6=A{}:00 7=A{}:00 8=E{} 9=E{} 10=N 11=E{}", b(0.0), b(1.0), b(1.0), b(0.0), b(0.25), b(0.5), b(1.0), b(1.0), b(1.0), b(1.0)).unwrap();
    let reps = ["n", "i", "0", "1", "2", "7", "4294967294", "4294967295"];
    // the documented order of Repeat: Infinite above every count, counts by size, None as zero repetitions
    let key = |t: &str| -> (u8, u64) { match t { "n" => (0, 0), "i" => (1, 0), k => (0, k.parse().unwrap()) } };
    let mut cmp_line = |out: &mut dyn Write, a: &str, c: &str| {
        let (ka, kc) = (key(a), key(c));
        let sym = if ka < kc { "lt" } else if ka > kc { "gt" } else { "eq" };
        writeln!(out, "repcmp {} {}", a, c).unwrap();
        // (when the two compare equal — None and Times(0) — either is "the larger")
        if sym == "eq" { writeln!(out, "# expect C12 1 0={} 1={} 2=0", sym, sym).unwrap(); }
        else { writeln!(out, "# expect C12 1 0={} 1={} 2={} 4={}", sym, sym, (sym == "lt") as u8, if sym == "lt" { c } else { a }).unwrap(); }
    };
    for a in reps { for c in reps { cmp_line(out, a, c); } }
    for _ in 0..(n / 20) { let (a, c) = (repeat_tok(r), repeat_tok(r)); cmp_line(out, &a, &c); }
    for i in 0..n {
        let exact = i % 3 == 0;
        let dur = if exact { r.pick(&DY_DURS) } else if r.chance(1, 5) { r.unit_f32() * 10.0 + 1e-3 } else { r.pick(&DURS) };
        let mut delay = if exact { r.pick(&DY_DELAYS) } else if r.chance(1, 5) { r.unit_f32() * 5.0 } else { r.pick(&DELAYS) };
        // "any delay": one time scale in twelve has a negative delay (the animation counts as started before time 0)
        if r.chance(1, 12) { delay = if exact { -r.pick(&[0.25f32, 0.5, 1.0, 3.0]) } else { -(r.unit_f32() * 3.0 + 0.01) }; }
        let rep = repeat_tok(r);
        let rev = r.chance(1, 2);
        let tl = GenTl { shape: "S8".into(), dur: Some(dur), delay: Some(delay), rep: Some(rep.clone()), rev: Some(rev), easing: None, kfs: vec![], exact };
        let ts = times_for(r, &tl, 6);
        writeln!(out, "pos {} {} {} {} {}", b(dur), b(delay), rep, rev as u8, ts.iter().map(|t| b(*t)).collect::<Vec<_>>().join(" ")).unwrap();
        // `prepare_frame` called directly (public; every generated `update` starts with it): boundary lists of 0…40 sorted
        // positions with repeats, queried at a few of the same times
        if i % 4 == 0 {
            let nb = r.pick(&[0usize, 1, 2, 3, 4, 5, 7, 8, 9, 16, 17, 33, 40]);
            let mut bt: Vec<f32> = (0..nb).map(|_| match r.below(6) { 0 => 0.0, 1 => 1.0, 2 => r.unit_f32(), _ => r.below(17) as f32 / 16.0 }).collect();
            bt.sort_by(|a, c| a.total_cmp(c));
            let bts = bt.iter().map(|t| b(*t)).collect::<Vec<_>>().join(" ");
            for t in ts.iter().take(6) {
                writeln!(out, "prep {} {} {} {} {} {} {}", b(dur), b(delay), rep, rev as u8, b(*t), nb, bts).unwrap();
            }
        }
    }
}

/// permutation twins over keyframe positions the library does not forbid but ordinary use never has: beyond 100 %, below
/// 0 %, -0.0 — "the order in which keyframes are added does not matter" speaks of distinct positions, not of [0,1]
fn gen_tlw(r: &mut Rng, n: usize, out: &mut dyn Write) {
    let wild = [-0.5f32, -0.25, -0.0, 0.25, 0.5, 0.75, 1.0, 1.0000001, 1.25, 1.5, 2.0, 3.0];
    for _ in 0..n {
        writeln!(out, "reset").unwrap();
        writeln!(out, "{}", shape_line("S8")).unwrap();
        let mut tl = gen_timeline(r, "S8", false, true);
        let nkf = 2 + r.below(5) as usize;
        let mut pool = wild.to_vec();
        r.shuffle(&mut pool);
        let proto = tl.kfs.clone();
        tl.kfs.clear();
        for i in 0..nkf {
            let nanim = shape_fields("S8").iter().filter(|f| f.1).count();
            let mut k = if !proto.is_empty() { proto[i % proto.len()].clone() } else { GenKf { pos: 0.0, easing: None, vals: vec![None; nanim] } };
            k.pos = pool[i];
            if k.vals.iter().all(|v| v.is_none()) { k.vals[0] = Some(val_tok(r, "f32", true)); }
            tl.kfs.push(k);
        }
        writeln!(out, "{}", tl.line(0)).unwrap();
        let mut perm = tl.clone();
        r.shuffle(&mut perm.kfs);
        writeln!(out, "{}", perm.line(1)).unwrap();
        writeln!(out, "meta 0").unwrap();
        writeln!(out, "meta 1").unwrap();
        writeln!(out, "# eq C11 1 2").unwrap();
        let (delay, dur) = (tl.delay_v(), tl.dur_v());
        let mut times: Vec<f32> = vec![0.0, delay, delay + dur, delay + dur * 0.5];
        for p in [0.1f32, 0.25, 0.3, 0.5, 0.6, 0.75, 0.9, 1.0] { times.push(delay + dur * p); }
        for _ in 0..4 { times.push(delay + dur * r.unit_f32() * 2.0); }
        for t in times {
            let target = vals_line(r, "S8", true);
            writeln!(out, "upd 0 {} {}", b(t), target.join(" ")).unwrap();
            writeln!(out, "upd 1 {} {}", b(t), target.join(" ")).unwrap();
            writeln!(out, "# eq C11 1 2").unwrap();
        }
    }
}

fn gen_tl(r: &mut Rng, n: usize, out: &mut dyn Write) {
    for s in ["S8", "Q5", "R4", "W20", "W72", "N5"] {
        writeln!(out, "{}", shape_line(s)).unwrap();
    }
    for i in 0..n {
        let shape = if r.chance(1, 12) { "N5" } else if r.chance(1, 40) { "W72" } else if r.chance(1, 14) { "W20" } else { match r.below(10) { 0..=6 => "S8", 7 | 8 => "Q5", _ => "R4" } };
        let exact = i % 2 == 0;
        let tame = r.chance(3, 4);
        let tl = gen_timeline(r, shape, exact, tame);
        let fields = shape_fields(shape);
        let anim_idx: Vec<usize> = fields.iter().enumerate().filter(|(_, f)| f.1).map(|(i, _)| i).collect();
        writeln!(out, "reset").unwrap();
        for s in ["S8", "Q5", "R4", "W20", "W72", "N5"] {
            writeln!(out, "{}", shape_line(s)).unwrap();
        }
        if exact { writeln!(out, "# exactcfg").unwrap(); }
        writeln!(out, "{}", tl.line(0)).unwrap();
        writeln!(out, "meta 0").unwrap();
        {
            // reported metadata = configured (total = delay + cycle * (repeats + 1), computed here from the spec)
            let total = match tl.cycles() { None => "inf".to_string(), Some(c) => b(tl.delay_v() + tl.dur_v() * c as f32) };
            let rep = tl.rep.clone().unwrap_or("n".into());
            writeln!(out, "# expect C03 1 0={} 1={} 2={} 3={}", b(tl.delay_v()), b(tl.dur_v()), total, rep).unwrap();
        }
        // permuted twin (C11) and un-substituted twin (C10)
        let mut perm = tl.clone();
        r.shuffle(&mut perm.kfs);
        writeln!(out, "{}", perm.line(1)).unwrap();
        writeln!(out, "{}", tl.line(2)).unwrap();
        writeln!(out, "{}", tl.line(4)).unwrap();
        let distinct = tl.distinct_positions();
        let mut start: Option<Vec<String>> = if r.chance(1, 2) { Some(vals_line(r, shape, tame)) } else { None };
        if start.is_some() && r.chance(1, 4) {
            // value coincidence: the latest start_with carries, for every animated property, exactly the value its own 0%
            // frame has (the explicit 0% keyframe's value, else the type's default) — "nothing to override" shortcuts
            let fields = shape_fields(shape);
            let mut sv = start.clone().unwrap();
            let mut j = 0;
            for (i, (kind, animated)) in fields.iter().enumerate() {
                if !*animated { continue; }
                let at0 = tl.kfs.iter().filter(|k| k.pos == 0.0).filter_map(|k| k.vals[j].clone()).last();
                sv[i] = at0.unwrap_or_else(|| if *kind == "f32" || *kind == "f64" { b(0.0) } else { "0".to_string() });
                j += 1;
            }
            start = Some(sv);
        }
        if let Some(sv) = &start {
            // an earlier start_with that must be fully replaced (C09)
            // (twin 4 only ever sees the latest one)
            for _ in 0..r.below(3) {
                let junk = vals_line(r, shape, tame);
                writeln!(out, "start 0 {}", junk.join(" ")).unwrap();
                writeln!(out, "start 1 {}", junk.join(" ")).unwrap();
            }
            writeln!(out, "start 0 {}", sv.join(" ")).unwrap();
            writeln!(out, "start 1 {}", sv.join(" ")).unwrap();
            writeln!(out, "start 4 {}", sv.join(" ")).unwrap();
            writeln!(out, "meta 0").unwrap();
            // start_with leaves delay / duration / repeat untouched (C09)
            writeln!(out, "meta 2").unwrap();
            writeln!(out, "# eq C09 1 2").unwrap();
        }
        writeln!(out, "clone 0 3").unwrap();
        // which animated fields have a keyframe at all
        let defined: Vec<bool> = (0..anim_idx.len()).map(|j| tl.kfs.iter().any(|k| k.vals[j].is_some())).collect();
        let untouched: Vec<usize> = (0..fields.len()).filter(|fi| match anim_idx.iter().position(|a| a == fi) { Some(j) => !defined[j], None => true }).collect();
        let times = times_for(r, &tl, 4);
        let (delay, dur) = (tl.delay_v(), tl.dur_v());
        for t in times {
            let target = vals_line(r, shape, tame);
            let tgt = target.join(" ");
            writeln!(out, "upd 0 {} {}", b(t), tgt).unwrap();
            if !untouched.is_empty() {
                writeln!(out, "# expect C08 1 {}", untouched.iter().map(|i| format!("{}={}", i, target[*i])).collect::<Vec<_>>().join(" ")).unwrap();
            }
            if tl.kfs.is_empty() {
                writeln!(out, "# expect C08 2 {}", (0..fields.len()).map(|i| format!("{}={}", i, target[i])).collect::<Vec<_>>().join(" ")).unwrap();
            }
            match r.below(5) {
                4 => {
                    // the twin that saw only the latest start_with (C09: it fully replaces earlier ones)
                    writeln!(out, "upd 4 {} {}", b(t), tgt).unwrap();
                    writeln!(out, "# eq C09 1 {}", 2 + (!untouched.is_empty()) as usize + tl.kfs.is_empty() as usize).unwrap();
                }
                0 => {
                    // permutation twin
                    writeln!(out, "upd 1 {} {}", b(t), tgt).unwrap();
                    if distinct { writeln!(out, "# eq C11 1 {}", 2 + (!untouched.is_empty()) as usize + tl.kfs.is_empty() as usize).unwrap(); }
                }
                1 => {
                    // clone, and idempotence / independence of prior animated contents
                    writeln!(out, "upd 3 {} {}", b(t), tgt).unwrap();
                    writeln!(out, "# eq C09 1 {}", 2 + (!untouched.is_empty()) as usize + tl.kfs.is_empty() as usize).unwrap();
                }
                2 => {
                    // a different prior target: animated+defined fields must come out the same
                    let other = vals_line(r, shape, tame);
                    let mixed: Vec<String> = (0..fields.len()).map(|i| if untouched.contains(&i) { target[i].clone() } else { other[i].clone() }).collect();
                    writeln!(out, "upd 0 {} {}", b(t), mixed.join(" ")).unwrap();
                    writeln!(out, "# eq C09 1 {}", 2 + (!untouched.is_empty()) as usize + tl.kfs.is_empty() as usize).unwrap();
                }
                _ => {
                    // un-substituted twin: identical outside the first forward pass (with margins)
                    if start.is_some() {
                        let c = ((t as f64) - delay as f64) / dur as f64;
                        let rev = tl.rev_v();
                        let safe_later = c > 1.001 || (rev && c > 0.501 && c < 0.999);
                        writeln!(out, "upd 2 {} {}", b(t), tgt).unwrap();
                        if safe_later && c.is_finite() {
                            writeln!(out, "# eq C10 1 {}", 2 + (!untouched.is_empty()) as usize + tl.kfs.is_empty() as usize).unwrap();
                        }
                    }
                }
            }
            if let Some(sv) = &start {
                let fixes0 = tl.easing.as_deref() != Some("c2") && tl.kfs.iter().all(|k| k.easing.as_deref() != Some("c2"));
                if t <= delay && !tl.kfs.is_empty() && fixes0 {
                    // up to the delay every animated+defined field shows exactly the start value
                    let dup0 = |j: usize| tl.kfs.iter().filter(|k| k.pos == 0.0 && k.vals[j].is_some()).count() > 1;
                    let ok = |j: usize, fi: usize| defined[j] && tok_f32_exact(fields[fi].0, &sv[fi]);
                    let exp: Vec<String> = anim_idx.iter().enumerate().filter(|(j, fi)| ok(*j, **fi) && !dup0(*j)).map(|(_, fi)| format!("{}={}", fi, sv[*fi])).collect();
                    let expd: Vec<String> = anim_idx.iter().enumerate().filter(|(j, fi)| ok(*j, **fi) && dup0(*j)).map(|(_, fi)| format!("{}={}", fi, sv[*fi])).collect();
                    if !exp.is_empty() || !expd.is_empty() {
                        writeln!(out, "upd 0 {} {}", b(t), tgt).unwrap();
                        let mut off = 1;
                        if !exp.is_empty() { writeln!(out, "# expect C10 {} {}", off, exp.join(" ")).unwrap(); off += 1; }
                        // known finding F-C10: two 0% keyframes defining the same property
                        if !expd.is_empty() { writeln!(out, "# expectdup0 C10 {} {}", off, expd.join(" ")).unwrap(); }
                    }
                }
            }
        }
        // C01 with a *parameterised* custom easing (a struct with a field, boxed): a timeline is previewed, dropped, and
        // rebuilt with another exponent, then evaluated at the same time — each property is eased by the easing its own
        // timeline was built with, not by whatever object lived at that address before.  The twin in slot 7 is built while
        // slot 6 is alive (so it cannot share addresses with it).
        if r.chance(1, 5) {
            let nan = anim_idx.len();
            let j = r.below(nan as u64) as usize;
            let only = |v: String| -> Vec<Option<String>> { (0..nan).map(|k| if k == j { Some(v.clone()) } else { None }).collect() };
            let kind = fields[anim_idx[j]].0;
            let (v0, v1) = if kind == "f32" || kind == "f64" { (b(0.0), b(64.0)) } else { ("0".to_string(), "64".to_string()) };
            let mk = |e: &str| GenTl { shape: shape.into(), dur: Some(1.0), delay: None, rep: None, rev: None, easing: Some(e.into()),
                kfs: vec![GenKf { pos: 0.0, easing: None, vals: only(v0.clone()) }, GenKf { pos: 1.0, easing: None, vals: only(v1.clone()) }], exact: true };
            let (e1, e2) = match r.below(3) { 0 => ("c12", "c13"), 1 => ("c13", "c11"), _ => ("c11", "c12") };
            let t = r.pick(&[0.5f32, 0.25, 0.75, 0.125]);
            let target = vals_line(r, shape, tame).join(" ");
            // (slots 7 and 11 are built on the main thread, like the object they replace: same allocator arena)
            writeln!(out, "{}", mk(e1).line(7)).unwrap();
            writeln!(out, "upd 7 {} {}", b(t), target).unwrap();
            writeln!(out, "drop 7").unwrap();
            writeln!(out, "{}", mk(e2).line(7)).unwrap();
            writeln!(out, "upd 7 {} {}", b(t), target).unwrap();
            writeln!(out, "{}", mk(e2).line(11)).unwrap();
            writeln!(out, "upd 11 {} {}", b(t), target).unwrap();
            writeln!(out, "# eq C01 1 3").unwrap();
        }
        // C03 at the level of a built timeline (dyadic configurations): what `reverse` means.  F = the forward timeline
        // of cycle d, R = the same keyframes reversing with cycle 2d.  At delay + d·x (x < 1) both are at position x on
        // their first forward pass, so they show the same values; on R's way back, delay + 2d·(1 − x/2) is position x again.
        if tl.exact && !tl.kfs.is_empty() && dur * 2.0 < 1e6 && r.chance(1, 2) {
            let mut twin = tl.clone();
            let (fslot, rslot, d) = if tl.rev_v() {
                twin.dur = Some(dur * 0.5); twin.rev = Some(false); (5, 2, dur * 0.5)
            } else {
                twin.dur = Some(dur * 2.0); twin.rev = Some(true); (2, 5, dur)
            };
            writeln!(out, "{}", twin.line(5)).unwrap();
            let target = vals_line(r, shape, tame);
            let tgt = target.join(" ");
            for x in [0.125f32, 0.25, 0.375, 0.5, 0.75, 0.875] {
                writeln!(out, "upd {} {} {}", fslot, b(delay + d * x), tgt).unwrap();
                writeln!(out, "upd {} {} {}", rslot, b(delay + d * x), tgt).unwrap();
                writeln!(out, "# eq C03 1 2").unwrap();
                writeln!(out, "upd {} {} {}", rslot, b(delay + 2.0 * d * (1.0 - x * 0.5)), tgt).unwrap();
                writeln!(out, "# eq C03 1 3").unwrap();
            }
            // C09 on the same pair: evaluating another timeline at the same instant in between changes nothing — a timeline
            // evaluated twice at one time gives one result (the two have different positions at delay + 1.25 d)
            let (t1, t2) = (delay + d * 1.25, delay + d * 0.5);
            writeln!(out, "upd {} {} {}", rslot, b(t1), tgt).unwrap();
            writeln!(out, "upd {} {} {}", fslot, b(t1), tgt).unwrap();
            writeln!(out, "upd {} {} {}", fslot, b(t2), tgt).unwrap();
            writeln!(out, "upd {} {} {}", fslot, b(t1), tgt).unwrap();
            writeln!(out, "# eq C09 1 3").unwrap();
        }
        // C02 exact keyframe hits (dyadic configurations only; built-in/endpoint-fixing easings only)
        if tl.exact && !tl.kfs.is_empty() {
            let cycles = tl.cycles();
            let rev = tl.rev_v();
            for kfi in 0..tl.kfs.len() {
                let p = tl.kfs[kfi].pos;
                for k in 0..3u64 {
                    if let Some(c) = cycles { if k >= c { continue; } }
                    // forward pass position p in cycle k: time offset (k + p) * dur, or (k + p/2) when reversing
                    let off = if rev { k as f32 + p * 0.5 } else { k as f32 + p };
                    let t = delay + dur * off;
                    if !rev && p == 0.0 && k > 0 { continue; } // exact multiples hold the end value
                    let first_pass = k == 0;
                    let exp: Vec<String> = anim_idx.iter().enumerate().filter_map(|(j, fi)| {
                        let v = tl.kfs[kfi].vals[j].clone()?;
                        if !tok_f32_exact(fields[*fi].0, &v) { return None; }
                        // no other keyframe defines this field at this position
                        if tl.kfs.iter().enumerate().any(|(o, k2)| o != kfi && k2.pos == p && k2.vals[j].is_some()) { return None; }
                        // the start override replaces frame 0 on the first forward pass
                        if first_pass && start.is_some() && p == 0.0 { return None; }
                        Some(format!("{}={}", fi, v))
                    }).collect();
                    if exp.is_empty() { continue; }
                    let target = vals_line(r, shape, tame);
                    writeln!(out, "upd 0 {} {}", b(t), target.join(" ")).unwrap();
                    writeln!(out, "# expect C02 1 {}", exp.join(" ")).unwrap();
                    // the same on the shapes that only exist to exercise the derive (field names, width): the derived timeline of
                    // *this* struct reaches its keyframes (C17)
                    if shape == "N5" || shape == "W72" || shape == "W20" { writeln!(out, "# expect C17 2 {}", exp.join(" ")).unwrap(); }
                }
            }
            // at and after the end: terminal value held
            if let Some(c) = cycles {
                if c < 1_000_000 {
                    let total = delay + dur * c as f32;
                    let target = vals_line(r, shape, tame).join(" ");
                    writeln!(out, "upd 0 {} {}", b(total), target).unwrap();
                    for (n, t) in [total + dur * 0.5, total * 2.0 + 1.0, 1e9, 3e38].iter().enumerate() {
                        writeln!(out, "upd 0 {} {}", b(*t), target).unwrap();
                        writeln!(out, "# eq C02 1 {}", 2 + 2 * n).unwrap();
                    }
                }
            }
        }
    }
}

/// components with overlapping or disjoint property sets and heterogeneous timing
fn gen_merged(r: &mut Rng, n: usize, out: &mut dyn Write) {
    for i in 0..n {
        writeln!(out, "reset").unwrap();
        let shape = match r.below(10) { 0..=6 => "S8", 7 | 8 => "Q5", _ => "R4" };
        writeln!(out, "{}", shape_line(shape)).unwrap();
        let fields = shape_fields(shape);
        let nf = fields.len();
        let anim_idx: Vec<usize> = fields.iter().enumerate().filter(|(_, f)| f.1).map(|(i, _)| i).collect();
        let ncomp = r.pick(&[0usize, 1, 1, 2, 2, 2, 3, 3, 4]);
        let exact = i % 2 == 0;
        let disjoint = r.chance(1, 2);
        let mut comps: Vec<GenTl> = Vec::new();
        let mut owner: Vec<usize> = anim_idx.iter().map(|_| r.below(ncomp.max(1) as u64) as usize).collect();
        if !disjoint { owner.clear(); }
        for c in 0..ncomp {
            let mut tl = gen_timeline(r, shape, exact, true);
            if disjoint {
                for k in tl.kfs.iter_mut() {
                    for (j, v) in k.vals.iter_mut().enumerate() {
                        if owner[j] != c { *v = None; }
                    }
                }
            }
            if r.chance(1, 3) && c > 0 { tl.dur = comps[0].dur; }
            // … or a cycle duration one or two ulps away from the first component's: "agree" means equal, not close
            else if r.chance(1, 4) && c > 0 { tl.dur = Some(nudge(comps[0].dur_v(), r.pick(&[1i32, -1, 2, -2]))); }
            writeln!(out, "{}", tl.line(10 + c)).unwrap();
            comps.push(tl);
        }
        let slots: Vec<String> = (0..ncomp).map(|c| (10 + c).to_string()).collect();
        writeln!(out, "merge 0 {} {} {}", ncomp, slots.join(" "), shape).unwrap();
        writeln!(out, "meta 0").unwrap();
        // aggregate timing oracles, computed from the components' own reported metadata
        for c in 0..ncomp { writeln!(out, "meta {}", 10 + c).unwrap(); }
        writeln!(out, "# merged-meta C12 {} {}", ncomp + 1, ncomp).unwrap();
        if ncomp == 1 {
            // wrapping a single timeline changes nothing
            writeln!(out, "# eq C12 2 {}", 3).unwrap();
        }
        // a merge of merges (`MergedTimeline<MergedTimeline<T>>`): the components split into consecutive groups, some of
        // them possibly empty; it must evaluate like the flat merge, and its metadata follows the same rules applied to
        // what the inner merges report (an inner merge without a common cycle duration reports none)
        if r.chance(1, 2) {
            let ngroups = 1 + r.below(3) as usize;
            let mut cuts: Vec<usize> = (0..ngroups.saturating_sub(1)).map(|_| r.below(ncomp as u64 + 1) as usize).collect();
            cuts.sort();
            let mut bounds = vec![0usize]; bounds.extend(cuts); bounds.push(ncomp);
            let mut inner_slots: Vec<String> = Vec::new();
            for g in 0..ngroups {
                let members: Vec<String> = (bounds[g]..bounds[g + 1]).map(|c| (10 + c).to_string()).collect();
                let sl = 40 + 2 * g;     // even slots: plain `MergedTimeline::of`
                writeln!(out, "merge {} {} {} {}", sl, members.len(), members.join(" "), shape).unwrap();
                inner_slots.push(sl.to_string());
            }
            writeln!(out, "merge2 30 {} {} {}", ngroups, inner_slots.join(" "), shape).unwrap();
            writeln!(out, "meta 30").unwrap();
            for sl in &inner_slots { writeln!(out, "meta {}", sl).unwrap(); }
            writeln!(out, "# merged-meta C12 {} {}", ngroups + 1, ngroups).unwrap();
            let sv = if r.chance(1, 2) { Some(vals_line(r, shape, true)) } else { None };
            if let Some(sv) = &sv {
                writeln!(out, "clone 0 31").unwrap();
                writeln!(out, "start 30 {}", sv.join(" ")).unwrap();
                writeln!(out, "start 31 {}", sv.join(" ")).unwrap();
            }
            for _ in 0..4 {
                let t = if let Some(tl) = comps.first() { let ts = times_for(r, tl, 1); r.pick(&ts) } else { r.unit_f32() * 4.0 };
                let target = vals_line(r, shape, true);
                writeln!(out, "upd 30 {} {}", b(t), target.join(" ")).unwrap();
                writeln!(out, "upd {} {} {}", if sv.is_some() { 31 } else { 0 }, b(t), target.join(" ")).unwrap();
                writeln!(out, "# eq C12 1 2").unwrap();
            }
        }
        // hand-written timelines whose reported total duration changes after they were merged / handed to an animator (harness-only
        // `x…` ops): the merge's aggregate timing and the animator's is_ended must follow what the components report *now*
        if ncomp > 0 && r.chance(1, 3) {
            let cs: Vec<String> = (0..ncomp).map(|c| (10 + c).to_string()).collect();
            writeln!(out, "xdyn 60 {} {}", ncomp, cs.join(" ")).unwrap();
            let report = |out: &mut dyn Write| {
                writeln!(out, "xmeta 60").unwrap();
                for c in 0..ncomp { writeln!(out, "xmetac 60 {}", c).unwrap(); }
                writeln!(out, "# merged-meta C12 {} {}", ncomp + 1, ncomp).unwrap();
            };
            report(out);
            let v0 = vals_line(r, shape, true).join(" ");
            writeln!(out, "xanim 61 60 {}", v0).unwrap();
            // the same animator over the plain merge of the same components (slot 0): what a timeline *reports* as its duration
            // (longer or shorter than the stretch over which its values move) has no say in the values — they are the
            // timeline evaluated at the time spent in the state (C05)
            writeln!(out, "anim 62 {} 2 0 {} 0 -", shape, v0).unwrap();
            for round in 0..4 {
                let which = r.below(ncomp as u64);
                let extra = if round == 2 { 0.0 } else { r.pick(&[0.5f32, 2.0, 8.0, 64.0, 1024.0, -0.5, -2.0, -8.0, -1024.0]) };
                writeln!(out, "xextra 60 {} {}", which, b(extra)).unwrap();
                // a shortened report on every component: the merge as a whole claims to be over before its values stop moving
                if extra < 0.0 { for c in 0..ncomp { writeln!(out, "xextra 60 {} {}", c, b(extra)).unwrap(); } }
                report(out);
                let steps: Vec<f32> = if extra < 0.0 { vec![0.0, 0.125, 0.25, r.pick(&[0.5f32, 1.0, 4.0])] } else { vec![0.0, r.pick(&[0.25f32, 1.0, 4.0, 16.0, 128.0, 0.125, 0.5])] };
                for dt in steps {
                    writeln!(out, "xadv 61 {}", b(dt)).unwrap();
                    for c in 0..ncomp { writeln!(out, "xmetac 60 {}", c).unwrap(); }
                    writeln!(out, "# endediff C07 {} {}", ncomp + 1, ncomp).unwrap();
                    writeln!(out, "adv 62 {}", b(dt)).unwrap();
                    writeln!(out, "# eqv C05 1 {}", ncomp + 3).unwrap();
                }
            }
        }
        // a reordered merge (disjoint property sets => same results)
        let mut perm: Vec<usize> = (0..ncomp).collect();
        r.shuffle(&mut perm);
        writeln!(out, "merge 1 {} {} {}", ncomp, perm.iter().map(|c| (10 + c).to_string()).collect::<Vec<_>>().join(" "), shape).unwrap();
        let start: Option<Vec<String>> = if r.chance(1, 2) { Some(vals_line(r, shape, true)) } else { None };
        if let Some(sv) = &start {
            writeln!(out, "start 0 {}", sv.join(" ")).unwrap();
            writeln!(out, "start 1 {}", sv.join(" ")).unwrap();
            for c in 0..ncomp { writeln!(out, "start {} {}", 10 + c, sv.join(" ")).unwrap(); }
        }
        let mut times: Vec<f32> = vec![0.0];
        for tl in &comps { let mut ts = times_for(r, tl, 1); r.shuffle(&mut ts); times.extend(ts.into_iter().take(10)); }
        for _ in 0..4 { times.push(r.unit_f32() * 8.0); }
        // a merge has no say of its own about the time it is handed — negative times go to the components as they are
        // (NaN and ±inf are left out: the model is not validated at non-finite times, where the code's comparison order decides — DESIGN §0.6, S12-C12)
        if r.chance(1, 3) { times.push(r.pick(&[-1.0f32, -0.5, -1e9])); }
        for t in times {
            let target = vals_line(r, shape, true);
            writeln!(out, "upd 0 {} {}", b(t), target.join(" ")).unwrap();
            // sequential application of the components, in order, to the same target
            if ncomp > 0 {
                writeln!(out, "# seq C12 1 {} {}", ncomp, nf).unwrap();
                for c in 0..ncomp {
                    writeln!(out, "updchain {} {}", 10 + c, b(t)).unwrap();
                }
                writeln!(out, "# eq C12 1 {}", ncomp + 2).unwrap();
            } else {
                writeln!(out, "# expect C12 1 {}", (0..nf).map(|i| format!("{}={}", i, target[i])).collect::<Vec<_>>().join(" ")).unwrap();
            }
            if disjoint && ncomp > 1 {
                writeln!(out, "upd 1 {} {}", b(t), target.join(" ")).unwrap();
                writeln!(out, "# eq C12 1 {}", 2 + if ncomp > 0 { ncomp + 2 } else { 1 }).unwrap();
            }
        }
    }
}

/// animator histories over a pool of timeline shapes
fn gen_anim(r: &mut Rng, n: usize, out: &mut dyn Write) {
    for i in 0..n {
        writeln!(out, "reset").unwrap();
        let shape = match r.below(10) { 0..=7 => "S8", 8 => "Q5", _ => "R4" };
        writeln!(out, "{}", shape_line(shape)).unwrap();
        let nstates = 2 + r.below(4) as usize; // 2..5
        let exact = i % 2 == 0;
        if exact { writeln!(out, "# exactcfg").unwrap(); }
        let mut toks: Vec<String> = Vec::new();
        let mut tls: Vec<Option<GenTl>> = Vec::new();
        let mut plain: Vec<bool> = Vec::new();     // the state's timeline is a single built timeline (not a merge)
        let mut next_slot = 10;
        let mut c04_ok = true;
        let tl_ok = |t: &GenTl| -> bool {
            t.distinct_positions() && t.easing.as_deref() != Some("c2") && t.kfs.iter().all(|k| k.easing.as_deref() != Some("c2"))
        };
        for _ in 0..nstates {
            match r.below(6) {
                0 | 1 => { toks.push("-".into()); tls.push(None); plain.push(false); }
                2 => {
                    // merged of two
                    let a = gen_timeline(r, shape, exact, true);
                    let c = gen_timeline(r, shape, exact, true);
                    writeln!(out, "{}", a.line(next_slot)).unwrap();
                    writeln!(out, "{}", c.line(next_slot + 1)).unwrap();
                    writeln!(out, "merge {} 2 {} {} {}", next_slot + 2, next_slot, next_slot + 1, shape).unwrap();
                    c04_ok = c04_ok && tl_ok(&a) && tl_ok(&c);
                    toks.push((next_slot + 2).to_string());
                    tls.push(Some(a)); plain.push(false);
                    next_slot += 3;
                }
                _ => {
                    let mut a = gen_timeline(r, shape, exact, true);
                    // C04 scope: per-property distinct keyframe positions, endpoint-fixing easings
                    if r.chance(3, 4) {
                        let mut seen: Vec<f32> = Vec::new();
                        a.kfs.retain(|k| if seen.contains(&k.pos) { false } else { seen.push(k.pos); true });
                    }
                    writeln!(out, "{}", a.line(next_slot)).unwrap();
                    c04_ok = c04_ok && tl_ok(&a);
                    toks.push(next_slot.to_string());
                    tls.push(Some(a)); plain.push(true);
                    next_slot += 1;
                }
            }
        }
        let s0 = r.below(nstates as u64) as usize;
        let v0 = vals_line(r, shape, true);
        writeln!(out, "anim 0 {} {} {} {} {}", shape, nstates, s0, v0.join(" "), toks.join(" ")).unwrap();
        // C08 through the animator: a property no timeline animates keeps the value the caller gave it, whatever the history
        let excluded: Vec<String> = shape_fields(shape).iter().enumerate().filter(|(_, f)| !f.1).map(|(k, _)| format!("{}={}", k, v0[k])).collect();
        let c08 = if excluded.is_empty() { None } else { Some(format!("# expect C08 1 {}", excluded.join(" "))) };
        if let Some(l) = &c08 { writeln!(out, "{}", l).unwrap(); }
        let steps = if r.chance(1, 6) { 60 } else { 4 + r.below(14) as usize };
        let mut cur = s0;
        let dts_exact = [0.0f32, 0.25, 0.5, 1.0, 0.125, 2.0, 8.0, 64.0];
        let dts_any = [0.0f32, 0.016, 0.0166667, 0.1, 0.3, 1.0, 0.001, 7.3, 100.0, 1e-9];
        for _ in 0..steps {
            match r.below(10) {
                0..=5 => {
                    let dt = if exact { r.pick(&dts_exact) } else if r.chance(1, 4) { r.unit_f32() * 3.0 } else { r.pick(&dts_any) };
                    writeln!(out, "adv 0 {}", b(dt)).unwrap();
                    if let Some(l) = &c08 { writeln!(out, "{}", l).unwrap(); }
                    // C08 inside a state: a property the state's own timeline has no keyframe for is not moved by advancing
                    if plain[cur] {
                        if let Some(Some(tl)) = tls.get(cur) {
                            let fields = shape_fields(shape);
                            let anim_idx: Vec<usize> = fields.iter().enumerate().filter(|(_, f)| f.1).map(|(k, _)| k).collect();
                            let keep: Vec<String> = anim_idx.iter().enumerate().filter(|(j, _)| !tl.kfs.iter().any(|k| k.vals[*j].is_some())).map(|(_, fi)| fi.to_string()).collect();
                            if !keep.is_empty() { writeln!(out, "# keepprev C08 {}", keep.join(" ")).unwrap(); }
                        }
                    }
                    if dt == 0.0 && c04_ok { writeln!(out, "# eqprev C06").unwrap(); }
                }
                6 => {
                    // land exactly on / next to the end instant of the current state's timeline
                    if let Some(Some(tl)) = tls.get(cur) {
                        if let Some(c) = tl.cycles() {
                            let total = tl.delay_v() + tl.dur_v() * c as f32;
                            if total < 1e6 { writeln!(out, "adv 0 {}", b(total)).unwrap(); if let Some(l) = &c08 { writeln!(out, "{}", l).unwrap(); } }
                        }
                    }
                }
                7 => {
                    // same state: nothing at all changes
                    writeln!(out, "set 0 {}", cur).unwrap();
                    if let Some(l) = &c08 { writeln!(out, "{}", l).unwrap(); }
                    writeln!(out, "# eqprev C04").unwrap();
                }
                _ => {
                    let s = r.below(nstates as u64) as usize;
                    writeln!(out, "set 0 {}", s).unwrap();
                    if let Some(l) = &c08 { writeln!(out, "{}", l).unwrap(); }
                    // no jump: values before == values after (within the C04 hypotheses; checked by the oracle hook)
                    if c04_ok { writeln!(out, "# eqvprev C04").unwrap(); }
                    cur = s;
                }
            }
        }
        // one history in five ends with a negative step: time does not run backwards — the call is rejected (it panics, as
        // documented for `Duration::from_secs_f32`) and nothing it could have undone (an animation that had ended) is undone
        if r.chance(1, 5) {
            if let Some(Some(tl)) = tls.get(cur) { if let Some(c) = tl.cycles() { let total = tl.delay_v() + tl.dur_v() * c as f32; if total < 1e6 { writeln!(out, "adv 0 {}", b(total + 1.0)).unwrap(); } } }
            writeln!(out, "adv 0 {}", b(-r.pick(&[0.25f32, 1.0, 2.0, 1e-3, 64.0]))).unwrap();
            writeln!(out, "adv 0 {}", b(0.25)).unwrap();
        }
        // one block in twenty-five ends with a very long run of transitions between *animated* states after a pause
        // (254…258 or 511…513 entries, around the wrap-around points of 8- and 9-bit counters), then returns to the
        // paused state: anything that counts blends / transitions in a narrow integer shows up only here
        let animated: Vec<usize> = (0..nstates).filter(|k| toks[*k] != "-").collect();
        let resting: Vec<usize> = (0..nstates).filter(|k| toks[*k] == "-").collect();
        if animated.len() >= 2 && !resting.is_empty() && r.chance(1, 25) {
            let a = animated[0];
            let u = resting[0];
            let others: Vec<usize> = animated[1..].to_vec();
            writeln!(out, "set 0 {}", a).unwrap();
            if let Some(l) = &c08 { writeln!(out, "{}", l).unwrap(); }
            writeln!(out, "adv 0 {}", b(0.25)).unwrap();
            if let Some(l) = &c08 { writeln!(out, "{}", l).unwrap(); }
            writeln!(out, "set 0 {}", u).unwrap();
            if let Some(l) = &c08 { writeln!(out, "{}", l).unwrap(); }
            writeln!(out, "adv 0 {}", b(0.5)).unwrap();
            if let Some(l) = &c08 { writeln!(out, "{}", l).unwrap(); }
            let n = r.pick(&[254usize, 255, 256, 257, 258, 511, 512, 513]);
            // with a single other animated state the run alternates other/A, which also enters an animated state each time
            let mut prev = u;
            for k in 0..n {
                let mut s = if others.len() >= 2 { others[k % others.len()] } else if k % 2 == 0 { others[0] } else { a };
                if s == prev { s = a; }
                if k + 1 == n && s == a { s = others[0]; }     // the run must not end in A itself
                writeln!(out, "set 0 {}", s).unwrap();
                if let Some(l) = &c08 { writeln!(out, "{}", l).unwrap(); }
                if c04_ok { writeln!(out, "# eqvprev C04").unwrap(); }
                if k % 16 == 7 { writeln!(out, "adv 0 {}", b(0.125)).unwrap(); if let Some(l) = &c08 { writeln!(out, "{}", l).unwrap(); } }
                prev = s;
            }
            writeln!(out, "set 0 {}", a).unwrap();
            if let Some(l) = &c08 { writeln!(out, "{}", l).unwrap(); }
            if c04_ok { writeln!(out, "# eqvprev C04").unwrap(); }
            writeln!(out, "adv 0 {}", b(0.25)).unwrap();
            if let Some(l) = &c08 { writeln!(out, "{}", l).unwrap(); }
            writeln!(out, "adv 0 {}", b(1.0)).unwrap();
            if let Some(l) = &c08 { writeln!(out, "{}", l).unwrap(); }
        }
    }
}

/// very long timelines: one property defined by more keyframes than an 8- or a 16-bit index can count (a baked curve).
/// Keyframes are emitted in ascending order (the model's insertion sort is linear on sorted input), positions i/(n-1);
/// every exact keyframe time must show exactly that keyframe's values (C02), the end must hold the last keyframe, and
/// no time may panic or overflow (C20: judged on every op).
fn gen_big(r: &mut Rng, n: usize, out: &mut dyn Write) {
    // a user-made cubic Bézier easing (`CubicBezierEasing::new`, the custom easing c3) at times within an ulp or two of every
    // phase boundary, and at the smallest positive times: valid configuration, valid time — it returns, finite
    {
        writeln!(out, "reset").unwrap();
        writeln!(out, "{}", shape_line("R4")).unwrap();
        for (dur, delay) in [(2.0f32, 0.0f32), (1.0, 0.5), (0.75, 0.0)] {
            writeln!(out, "tl 10 R4 {} {} 1 0 c3 3 {} - {} 0 0 {} - {} 100 1000 {} - {} -100 0", b(dur), b(delay), b(0.0), b(0.0), b(0.5), b(50.0), b(1.0), b(-25.0)).unwrap();
            let target = vals_line(r, "R4", true).join(" ");
            let mut ts = vec![f32::MIN_POSITIVE, 1e-20, 1e-9, 1e-7];
            for c in [0.0f32, 0.5, 1.0, 1.5, 2.0] { for k in [-2i32, -1, 1, 2] { ts.push(nudge(delay + dur * c, k)); } }
            for t in ts {
                writeln!(out, "upd 10 {} {}", b(delay + t.max(0.0) - if t > 1e-6 { delay } else { 0.0 }), target).unwrap();
                writeln!(out, "# nopanic C20 1 0").unwrap();
            }
        }
    }
    for case in 0..n {
        writeln!(out, "reset").unwrap();
        let shape = if r.chance(1, 2) { "Q5" } else { "R4" };
        writeln!(out, "{}", shape_line(shape)).unwrap();
        writeln!(out, "# exactcfg").unwrap();
        let fields = shape_fields(shape);
        let anim_idx: Vec<usize> = fields.iter().enumerate().filter(|(_, f)| f.1).map(|(i, _)| i).collect();
        // the first case of every run crosses the 16-bit line, the others are spread over both lines
        let nkf: usize = if case == 0 { 65_537 } else if case == 1 { r.pick(&[256usize, 257, 258, 300]) } else { r.pick(&[255usize, 256, 257, 258, 300, 1025, 65_535, 65_536, 65_537, 65_538, 66_000, 70_001]) };
        let dyadic = (nkf - 1).is_power_of_two();
        let (dur, delay) = if dyadic { (r.pick(&[1.0f32, 2.0, 4.0, 0.5]), r.pick(&[0.0f32, 1.0, 0.25])) } else { (1.0, 0.0) };
        // which animated field is the sparse one (present in every 1000th keyframe only)
        let sparse = r.below(anim_idx.len() as u64) as usize;
        let val = |j: usize, i: usize| -> String {
            match fields[anim_idx[j]].0 {
                "f32" | "f64" => b(((i * 37 + j * 11) % 1001) as f32),
                "u8" => ((i * 7 + j) % 256).to_string(),
                "i16" => (((i * 13 + j) % 2001) as i64 - 1000).to_string(),
                "u16" => ((i * 17 + j) % 60_001).to_string(),
                _ => ((i * 5 + j) % 101).to_string(),
            }
        };
        let pos = |i: usize| i as f32 / (nkf - 1) as f32;
        let mut toks: Vec<String> = Vec::with_capacity(nkf * (anim_idx.len() + 2));
        for i in 0..nkf {
            toks.push(b(pos(i)));
            toks.push("-".into());
            for j in 0..anim_idx.len() {
                if j == sparse && i % 1000 != 0 && i + 1 != nkf { toks.push("-".into()); } else { toks.push(val(j, i)); }
            }
        }
        let easing = if r.chance(1, 2) { "-".to_string() } else { r.pick(&["Linear", "InOutQuad", "OutCubic"]).to_string() };
        writeln!(out, "tl 10 {} {} {} - 0 {} {} {}", shape, b(dur), b(delay), easing, nkf, toks.join(" ")).unwrap();
        writeln!(out, "meta 10").unwrap();
        let target = vals_line(r, shape, true).join(" ");
        // C20: every one of these is a valid configuration at a valid time — no panic, finite f32 fields
        let nopanic = format!("# nopanic C20 1 {}", anim_idx.iter().filter(|i| fields[**i].0 == "f32").map(|i| i.to_string()).collect::<Vec<_>>().join(" "));
        let mut idx: Vec<usize> = vec![0, 1, 2, nkf / 2, nkf - 2, nkf - 1];
        for k in [255usize, 256, 257, 65_535, 65_536, 65_537] { if k < nkf { idx.push(k); } }
        for _ in 0..24 { idx.push(r.below(nkf as u64) as usize); }
        for _ in 0..8 { idx.push(nkf - 1 - r.below((nkf / 8) as u64) as usize); }
        for i in idx {
            let t = delay + dur * pos(i);
            writeln!(out, "upd 10 {} {}", b(t), target).unwrap();
            writeln!(out, "{}", nopanic).unwrap();
            if dyadic || (dur == 1.0 && delay == 0.0) {
                let exp: Vec<String> = (0..anim_idx.len()).filter(|j| *j != sparse || i % 1000 == 0 || i + 1 == nkf)
                    .map(|j| format!("{}={}", anim_idx[j], val(j, i))).collect();
                writeln!(out, "# expect C02 2 {}", exp.join(" ")).unwrap();
            }
            if i + 1 < nkf {
                // between two keyframes: a value between theirs (model agreement; totality)
                let t2 = delay + dur * ((pos(i) + pos(i + 1)) * 0.5);
                writeln!(out, "upd 10 {} {}", b(t2), target).unwrap();
                writeln!(out, "{}", nopanic).unwrap();
            }
        }
        // at and after the end: the last keyframe's values, held
        let last: Vec<String> = (0..anim_idx.len()).map(|j| format!("{}={}", anim_idx[j], val(j, nkf - 1))).collect();
        for t in [delay + dur, nudge(delay + dur, 1), (delay + dur) * 2.0 + 1.0, 1e9] {
            writeln!(out, "upd 10 {} {}", b(t), target).unwrap();
            writeln!(out, "{}", nopanic).unwrap();
            writeln!(out, "# expect C02 2 {}", last.join(" ")).unwrap();
        }
        // and through an animator resting on it
        let v0 = vals_line(r, shape, true);
        writeln!(out, "anim 0 {} 2 0 {} 10 -", shape, v0.join(" ")).unwrap();
        for dt in [0.0f32, delay + dur * 0.96875, dur * 0.03125, 1.0, 100.0] {
            writeln!(out, "adv 0 {}", b(dt)).unwrap();
            writeln!(out, "{}", nopanic).unwrap();
        }
        writeln!(out, "# expect C02 2 {}", last.join(" ")).unwrap();
    }
}

/// `SubTimeline` driven directly (the public single-property API the derive's output is built on): arbitrary index
/// hints — exact, one ahead, stale, out of range —, times outside [0,1], keyframes past 100 %, start override on and off.
/// C10 at this level: a substituted start value shows only while the first frame bounds the evaluation — with the
/// override disabled never, and from the property's second frame on never, whatever hint (exact or one ahead) is given.
fn gen_sub(r: &mut Rng, n: usize, out: &mut dyn Write) {
    for _ in 0..n {
        let int = r.chance(1, 4);
        let nkf = 1 + r.below(7) as usize;
        let mut ps: Vec<f32> = Vec::new();
        while ps.len() < nkf {
            let p = match r.below(8) { 0 => 0.0, 1 => 1.0, 2 => 1.5, 3 => r.unit_f32(), _ => r.below(17) as f32 / 16.0 };
            if !ps.contains(&p) { ps.push(p); }
        }
        ps.sort_by(|a, c| a.total_cmp(c));
        let vt = |r: &mut Rng| if int { (r.below(2001) as i64 - 1000).to_string() } else { b((r.below(4001) as f32 - 2000.0) * 0.25) };
        let present: Vec<bool> = (0..nkf).map(|_| r.chance(3, 4)).collect();
        let mut toks = Vec::new();
        for i in 0..nkf {
            toks.push(b(ps[i]));
            toks.push(if r.chance(1, 3) { easing_tok(r, false) } else { "-".into() });
            toks.push(if present[i] { vt(r) } else { "-".into() });
        }
        let dflt = vt(r);
        let e0 = easing_tok(r, false);
        let body = format!("{} {} {} {} {}", if int { "i" } else { "f" }, dflt, e0, nkf, toks.join(" "));
        writeln!(out, "sub 1 {}", body).unwrap();
        writeln!(out, "sub 2 {}", body).unwrap();
        let ov = vt(r);
        writeln!(out, "subov 1 {}", ov).unwrap();
        // slot 3: another sub-timeline with another override, then overwritten by `clone_from(slot 1)`: a copy is a copy
        writeln!(out, "sub 3 {} {} {} 1 {} - {}", if int { "i" } else { "f" }, vt(r), e0, b(0.5), vt(r)).unwrap();
        if r.chance(2, 3) { writeln!(out, "subov 3 {}", vt(r)).unwrap(); }
        writeln!(out, "subcf 3 1").unwrap();
        // the property's own frames: a synthetic 0 % frame if its first keyframe is later
        let data: Vec<f32> = (0..nkf).filter(|i| present[*i]).map(|i| ps[i]).collect();
        let f1: Option<f32> = if data.is_empty() { None } else if data[0] > 0.0 { Some(data[0]) } else if data.len() > 1 { Some(data[1]) } else if data[0] < 1.0 { Some(1.0) } else { None };
        for _ in 0..16 {
            let t = match r.below(8) { 0 => -0.25, 1 => 1.7, 2 => 1.0, 3 => 0.0, 4 => r.pick(&ps), 5 => r.unit_f32() * 1.5, _ => r.below(33) as f32 / 32.0 };
            let tc = t.clamp(0.0, 1.0);
            let exact_of = |x: f32| -> usize { (0..nkf).filter(|i| ps[*i] <= x).last().unwrap_or(0) };
            let (he, hc) = (exact_of(t), exact_of(tc));
            let hint = match r.below(8) { 0 | 1 | 2 => hc, 3 => he, 4 => hc + 1, 5 => he + 1, 6 => r.below(nkf as u64 + 1) as usize, _ => hc.saturating_sub(1) };
            let ovr = r.chance(2, 3);
            writeln!(out, "subat 1 {} {} {}", b(t), hint, ovr as u8).unwrap();
            writeln!(out, "subat 2 {} {} {}", b(t), hint, ovr as u8).unwrap();
            let truthful = (hint == hc || hint == hc + 1 || hint == he || hint == he + 1) && hint < nkf;
            let c10 = !ovr || (truthful && f1.map(|f| tc >= f).unwrap_or(false));
            if c10 { writeln!(out, "# eq C10 1 2").unwrap(); }
            // slots 1 and 2 hold the same keyframes, one handed over as a slice, one as a lazily filtered iterator (C01: the
            // values do not depend on how the keyframes were passed)
            if !ovr { writeln!(out, "# eq C01 {} {}", 1 + c10 as usize, 2 + c10 as usize).unwrap(); }
            writeln!(out, "subat 3 {} {} {}", b(t), hint, ovr as u8).unwrap();
            writeln!(out, "subat 1 {} {} {}", b(t), hint, ovr as u8).unwrap();
            writeln!(out, "# eq C10 1 2").unwrap();
        }
    }
}

/// frame-rate independence: the same animator driven by a partition of an interval and by the whole
/// interval at once (exact binary step sizes), interleaved with state changes
fn gen_anim6(r: &mut Rng, n: usize, out: &mut dyn Write) {
    for _ in 0..n {
        writeln!(out, "reset").unwrap();
        let shape = match r.below(10) { 0..=7 => "S8", 8 => "Q5", _ => "R4" };
        writeln!(out, "{}", shape_line(shape)).unwrap();
        let nstates = 2 + r.below(3) as usize;
        let mut toks: Vec<String> = Vec::new();
        let mut slot = 10;
        for _ in 0..nstates {
            if r.chance(1, 4) { toks.push("-".into()); continue; }
            let mut a = gen_timeline(r, shape, true, true);
            let mut seen: Vec<f32> = Vec::new();
            a.kfs.retain(|k| if seen.contains(&k.pos) { false } else { seen.push(k.pos); true });
            writeln!(out, "{}", a.line(slot)).unwrap();
            toks.push(slot.to_string());
            slot += 1;
        }
        let s0 = r.below(nstates as u64) as usize;
        let v0 = vals_line(r, shape, true);
        writeln!(out, "anim 0 {} {} {} {} {}", shape, nstates, s0, v0.join(" "), toks.join(" ")).unwrap();
        writeln!(out, "anim 1 {} {} {} {} {}", shape, nstates, s0, v0.join(" "), toks.join(" ")).unwrap();
        let parts_pool = [0.0f32, 0.0625, 0.125, 0.25, 0.5, 1.0, 2.0, 0.375, 4.0];
        // directed pause / rest / resume pattern: an animated state A is left at position P for a state without a
        // timeline, the animator rests there for R = P + d, returns to A, and the twins then cover d in one step
        // resp. in two halves — so the clock of one twin passes through values it has shown before (R) while the
        // other's does not.  Anything keyed on "the position did not change" shows up as a difference.
        let animated: Vec<usize> = (0..nstates).filter(|i| toks[*i] != "-").collect();
        let resting: Vec<usize> = (0..nstates).filter(|i| toks[*i] == "-").collect();
        if !animated.is_empty() && !resting.is_empty() && r.chance(2, 3) {
            let a = animated[r.below(animated.len() as u64) as usize];
            let u = resting[r.below(resting.len() as u64) as usize];
            for rounds in 0..(1 + r.below(2)) {
                let _ = rounds;
                for id in 0..2 { writeln!(out, "set {} {}", id, a).unwrap(); }
                writeln!(out, "# eq C06 1 2").unwrap();
                let p1 = r.pick(&parts_pool[1..]); let p2 = r.pick(&parts_pool);
                writeln!(out, "adv 0 {}", b(p1)).unwrap(); writeln!(out, "adv 0 {}", b(p2)).unwrap();
                writeln!(out, "adv 1 {}", b(p1 + p2)).unwrap();
                writeln!(out, "# eq C06 1 2").unwrap();
                for id in 0..2 { writeln!(out, "set {} {}", id, u).unwrap(); }
                writeln!(out, "# eq C06 1 2").unwrap();
                let d = r.pick(&parts_pool[1..]);
                let rest = p1 + p2 + d;
                writeln!(out, "adv 0 {}", b(p1 + p2)).unwrap(); writeln!(out, "adv 0 {}", b(d)).unwrap();
                writeln!(out, "adv 1 {}", b(rest)).unwrap();
                writeln!(out, "# eq C06 1 2").unwrap();
                for id in 0..2 { writeln!(out, "set {} {}", id, a).unwrap(); }
                writeln!(out, "# eq C06 1 2").unwrap();
                let single = r.below(2);     // which twin covers d in one step
                writeln!(out, "adv {} {}", single, b(d)).unwrap();
                writeln!(out, "adv {} {}", 1 - single, b(d * 0.5)).unwrap();
                writeln!(out, "adv {} {}", 1 - single, b(d * 0.5)).unwrap();
                writeln!(out, "# eq C06 1 3").unwrap();
                if r.chance(1, 2) {
                    writeln!(out, "adv 0 0").unwrap();
                    writeln!(out, "# eqprev C06").unwrap();
                }
            }
        }
        // sub-nanosecond and few-nanosecond steps: `Duration::from_secs_f32` rounds each step to whole nanoseconds, so N steps just
        // under 1 ns (or of 0.6 / 1.4 ns) are N ns — the twin covers the same N ns in one step
        if r.chance(1, 8) {
            let (tiny, per) = r.pick(&[(nudge(1e-9, -1), 1u32), (0.6e-9f32, 1), (1.4e-9, 1), (1.6e-9, 2), (nudge(1e-9, 1), 1)]);
            let n = r.pick(&[64u32, 1000]);
            for _ in 0..n { writeln!(out, "adv 0 {}", b(tiny)).unwrap(); }
            writeln!(out, "adv 1 {}", b((n * per) as f32 * 1e-9)).unwrap();
            writeln!(out, "# eq C06 1 2").unwrap();
        }
        // many small steps against one big one: 257 / 1025 advances of 1/64 s (rarely 65 537 of 1/512 s) in one state —
        // call counters and narrow accumulators wrap only there; and one very long step (2 h) against two halves
        if r.chance(1, 20) || r.chance(1, 2000) {
            let (n, dt) = if r.chance(1, 40) { (65_537usize, 1.0f32 / 512.0)     /* 1/512 s = 1 953 125 ns exactly; 1/1024 s is not a whole number of nanoseconds */ } else { (r.pick(&[257usize, 1025]), 1.0f32 / 64.0) };
            for _ in 0..n { writeln!(out, "adv 0 {}", b(dt)).unwrap(); }
            writeln!(out, "adv 1 {}", b(n as f32 * dt)).unwrap();
            writeln!(out, "# eq C06 1 2").unwrap();
            writeln!(out, "adv 0 {}", b(7200.0)).unwrap();
            writeln!(out, "adv 1 {}", b(3600.0)).unwrap();
            writeln!(out, "adv 1 {}", b(3600.0)).unwrap();
            writeln!(out, "# eq C06 1 3").unwrap();
        }
        // very long times in one state (hours … months), crossed at different points by the two twins: big + small in one
        // step against big, then small (all sums exact in binary32)
        if r.chance(1, 10) {
            let big = r.pick(&[4096.0f32, 65536.0, 1048576.0, 16777216.0]);
            let small = r.pick(&[8.0f32, 0.5, 2.0, 16.0, 1.0]);
            let small = if big >= 16777216.0 { small.max(2.0).round() * 2.0 } else if big >= 1048576.0 { small.max(1.0) } else { small };
            let single = r.below(2);
            writeln!(out, "adv {} {}", single, b(big + small)).unwrap();
            writeln!(out, "adv {} {}", 1 - single, b(big)).unwrap();
            writeln!(out, "adv {} {}", 1 - single, b(small)).unwrap();
            writeln!(out, "# eq C06 1 3").unwrap();
        }
        for _ in 0..(3 + r.below(5)) {
            let k = 1 + r.below(6) as usize;
            let parts: Vec<f32> = (0..k).map(|_| r.pick(&parts_pool)).collect();
            let total: f32 = parts.iter().sum();
            for p in &parts { writeln!(out, "adv 0 {}", b(*p)).unwrap(); }
            writeln!(out, "adv 1 {}", b(total)).unwrap();
            writeln!(out, "# eq C06 1 2").unwrap();
            if r.chance(2, 3) {
                let s = r.below(nstates as u64) as usize;
                writeln!(out, "set 0 {}", s).unwrap();
                writeln!(out, "set 1 {}", s).unwrap();
                writeln!(out, "# eq C06 1 2").unwrap();
            }
        }
    }
}

/// valid but extreme configurations: boundary repeat counts, subnormal/huge durations and delays,
/// astronomically large times, one ulp either side of every phase boundary (C20)
fn gen_ext(r: &mut Rng, n: usize, out: &mut dyn Write) {
    let durs = [1.0f32, 1e-45, 1.1754944e-38, 1e-30, 1e-10, 1e-3, 0.1, 3.0, 1e10, 1e25, 1e30];
    let delays = [0.0f32, 1e-45, 1e-38, 1e-10, 0.5, 1.0, 1e10, 1e25, 1e30];
    let reps = ["n", "i", "0", "1", "2", "16777215", "16777216", "16777217", "2147483647", "2147483648", "4294967294", "4294967295"];
    for i in 0..n {
        let dur = r.pick(&durs);
        let delay = r.pick(&delays);
        let rep = r.pick(&reps);
        let rev = r.chance(1, 2);
        // keep the total duration representable (the property's "valid configuration")
        let cycles: f64 = match rep { "n" => 1.0, "i" => 1.0, k => k.parse::<f64>().unwrap() + 1.0 };
        if (dur as f64) * cycles + delay as f64 > 1e37 { continue; }
        let tl = GenTl { shape: "S8".into(), dur: Some(dur), delay: Some(delay), rep: Some(rep.to_string()), rev: Some(rev), easing: None, kfs: vec![], exact: false };
        let mut ts = times_for(r, &tl, 3);
        for t in [0.0f32, 1e-45, 1e-38, 1.0, 1e10, 1e20, 1e30, 3.0e38, 3.4028235e38] { ts.push(t); }
        let total = delay + dur * cycles as f32;
        for k in -2..=2 { ts.push(nudge(total, k)); ts.push(nudge(delay, k)); ts.push(nudge(delay + dur, k)); ts.push(nudge(delay + dur * 0.5, k)); }
        writeln!(out, "pos {} {} {} {} {}", b(dur), b(delay), rep, rev as u8, ts.iter().map(|t| b(*t)).collect::<Vec<_>>().join(" ")).unwrap();
        if i % 4 == 0 {
            // through the public API: a float property with large but finite values, non-overshooting easings
            writeln!(out, "reset").unwrap();
            writeln!(out, "{}", shape_line("S8")).unwrap();
            let big = [0.0f32, 1e-45, -1e-38, 1.0, -1e10, 1e20, 1e30, -1e30];
            let e = EASING_NAMES[r.below(26) as usize];
            let mut kfs = Vec::new();
            for p in [0.0f32, 0.25, 1.0] {
                if r.chance(3, 4) {
                    let mut vals: Vec<Option<String>> = vec![None; 8];
                    vals[0] = Some(b(r.pick(&big)));
                    vals[6] = Some(b(r.pick(&big)));
                    vals[2] = Some(r.below(256).to_string());
                    vals[7] = Some(val_tok(r, "i64", true));
                    kfs.push(GenKf { pos: p, easing: None, vals });
                }
            }
            let t2 = GenTl { shape: "S8".into(), dur: Some(dur), delay: Some(delay), rep: Some(rep.to_string()), rev: Some(rev), easing: Some(e.to_string()), kfs, exact: false };
            writeln!(out, "{}", t2.line(0)).unwrap();
            writeln!(out, "meta 0").unwrap();
            writeln!(out, "anim 1 S8 2 0 {} 0 -", vals_line(r, "S8", true).join(" ")).unwrap();
            for t in ts.iter().take(24) {
                writeln!(out, "upd 0 {} {}", b(*t), vals_line(r, "S8", true).join(" ")).unwrap();
            }
            for dt in [0.0f32, 1e-10, 0.016, 1e5, 1e15, 1e19] {
                writeln!(out, "adv 1 {}", b(dt)).unwrap();
            }
        }
    }
    // F-C20b: an overshooting easing on an integer property at the type's bounds (documented panic)
    writeln!(out, "reset").unwrap();
    writeln!(out, "{}", shape_line("S8")).unwrap();
    writeln!(out, "tl 0 S8 {} {} n 0 OutBack 2 0 - - - 0 - - - - - {} - - - 255 - - - - -", b(1.0), b(0.0), b(1.0)).unwrap();
    writeln!(out, "upd 0 {} 0 0 0 0 0 0 0 0", b(0.7)).unwrap();
}

pub fn generate(suite: &str, seed: u64, n: usize, out: &mut dyn Write) {
    let mut r = Rng(seed ^ suite.bytes().fold(0u64, |h, c| h.wrapping_mul(131).wrapping_add(c as u64)));
    match suite {
        "num" => gen_num(&mut r, n, out),
        "lerp" => gen_lerp(&mut r, n, out, false),
        "lerp8" => gen_lerp(&mut r, n, out, true),
        "ease" => gen_ease(&mut r, n, out),
        "pos" => gen_pos(&mut r, n, out),
        "tl" => gen_tl(&mut r, n, out),
        "tlw" => gen_tlw(&mut r, n, out),
        "big" => gen_big(&mut r, n, out),
        "sub" => gen_sub(&mut r, n, out),
        "merged" => gen_merged(&mut r, n, out),
        "anim" => gen_anim(&mut r, n, out),
        "anim6" => gen_anim6(&mut r, n, out),
        "ext" => gen_ext(&mut r, n, out),
        _ => {
            eprintln!("unknown suite {}", suite);
            std::process::exit(2);
        }
    }
}
