mod gen;
mod rng;
mod run;
mod shapes;

use std::io::{BufRead, BufWriter, Write};

fn main() {
    let args: Vec<String> = std::env::args().collect();
    std::panic::set_hook(Box::new(|_| {}));
    match args.get(1).map(|s| s.as_str()) {
        Some("run") => {
            let stdin = std::io::stdin();
            let out = std::io::stdout();
            let mut out = BufWriter::new(out.lock());
            let mut r = run::Runner::new();
            for line in stdin.lock().lines() {
                let line = line.unwrap();
                writeln!(out, "{}", r.run_line(line.trim())).unwrap();
            }
        }
        Some("gen") => {
            let suite = &args[2];
            let seed: u64 = args[3].parse().unwrap();
            let n: usize = args[4].parse().unwrap();
            let out = std::io::stdout();
            let mut out = BufWriter::new(out.lock());
            gen::generate(suite, seed, n, &mut out);
        }
        _ => {
            eprintln!("usage: core_harness run < ops | core_harness gen <suite> <seed> <n>");
            std::process::exit(2);
        }
    }
}
