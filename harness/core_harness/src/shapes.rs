//! The animated struct shapes the harness drives through the *derived* API.
use mina::prelude::*;
use mina::{Easing, Repeat};

#[derive(Clone, Copy, Debug, PartialEq)]
pub enum V {
    F32(f32),
    F64(f64),
    Int(i128),
}

pub fn parse_val(kind: &str, tok: &str) -> V {
    match kind {
        "f32" => V::F32(f32::from_bits(tok.parse().unwrap())),
        "f64" => V::F64(f32::from_bits(tok.parse().unwrap()) as f64),
        _ => V::Int(tok.parse().unwrap()),
    }
}

/// bits of a float with every NaN shown as the canonical quiet NaN (sign and payload of a NaN are not part of any property,
/// and the model driver prints NaNs canonically)
pub fn fbits(x: f32) -> u32 { if x.is_nan() { 0x7FC0_0000 } else { x.to_bits() } }

pub fn show_val(v: &V) -> String {
    match v {
        V::F32(x) => fbits(*x).to_string(),
        V::F64(x) => {
            let n = *x as f32;
            if (n as f64) == *x || x.is_nan() {
                fbits(n).to_string()
            } else {
                format!("{}!inexact", n.to_bits())
            }
        }
        V::Int(n) => n.to_string(),
    }
}

pub trait FromV {
    fn from_v(v: V) -> Self;
    fn to_v(&self) -> V;
}
impl FromV for f32 {
    fn from_v(v: V) -> Self {
        match v {
            V::F32(x) => x,
            V::F64(x) => x as f32,
            V::Int(n) => n as f32,
        }
    }
    fn to_v(&self) -> V {
        V::F32(*self)
    }
}
impl FromV for f64 {
    fn from_v(v: V) -> Self {
        match v {
            V::F32(x) => x as f64,
            V::F64(x) => x,
            V::Int(n) => n as f64,
        }
    }
    fn to_v(&self) -> V {
        V::F64(*self)
    }
}
macro_rules! int_from_v {
    ($($t:ty),*) => { $(
        impl FromV for $t {
            fn from_v(v: V) -> Self { match v { V::Int(n) => n as $t, V::F32(x) => x as $t, V::F64(x) => x as $t } }
            fn to_v(&self) -> V { V::Int(*self as i128) }
        }
    )* }
}
int_from_v!(i8, i16, i32, i64, u8, u16, u32, u64, usize);

#[derive(Clone, Debug)]
pub struct KfCfg {
    pub pos: f32,
    pub easing: Option<Easing>,
    pub vals: Vec<Option<V>>, // per animated field
}

#[derive(Clone, Debug, Default)]
pub struct Cfg {
    pub dur: Option<f32>,
    pub delay: Option<f32>,
    pub repeat: Option<Repeat>,
    pub reverse: Option<bool>,
    pub easing: Option<Easing>,
    pub kfs: Vec<KfCfg>,
}

pub trait ShapeOps: 'static {
    type Target: Clone + Default + 'static;
    type Tl: Timeline<Target = Self::Target> + Clone + Send + mina::TimelineOrBuilder<Self::Tl> + 'static;
    const NAME: &'static str;
    /// (kind, animated?) for every field of the target struct, in declaration order
    fn fields() -> Vec<(&'static str, bool)>;
    fn build(cfg: &Cfg) -> Self::Tl;
    /// the un-built configuration handed to `TimelineOrBuilder::build` (what `StateAnimatorBuilder::on(state, builder)` calls)
    fn conf_merged(cfg: &Cfg) -> mina::MergedTimeline<Self::Tl>;
    fn to_vals(t: &Self::Target) -> Vec<V>;
    fn from_vals(v: &[V]) -> Self::Target;
}

macro_rules! shape_ops {
    ($marker:ident, $anim:ty, $target:ty, $name:literal, all: [$($f:ident : $k:literal : $t:ty),*], anim: [$($af:ident),*]) => {
        pub struct $marker;
        impl $marker {
            fn conf(cfg: &Cfg) -> (<$anim as Animate>::TimelineBuilder, u64) {
                // The builder calls come in an order derived from the configuration itself (one of the 6! orders of the five
                // setters and the keyframe block; a setter is sometimes called twice, first with a junk value): the result
                // of a builder chain must not depend on the order of its calls, nor on values that were overwritten.
                let mut h: u64 = cfg.dur.map(|d| d.to_bits() as u64).unwrap_or(7) * 31 + cfg.delay.map(|d| d.to_bits() as u64).unwrap_or(3);
                h = h.wrapping_mul(0x9E37_79B9_7F4A_7C15) ^ (cfg.kfs.len() as u64 * 977) ^ cfg.kfs.first().map(|k| k.pos.to_bits() as u64).unwrap_or(1);
                h ^= h >> 29;
                let mut order: Vec<usize> = (0..6).collect();
                for i in (1..6).rev() { h = h.wrapping_mul(6364136223846793005).wrapping_add(1442695040888963407); order.swap(i, ((h >> 33) % (i as u64 + 1)) as usize); }
                let twice = (h >> 7) % 3 == 0;
                let mut b = <$anim>::timeline();
                for step in order {
                    match step {
                        0 => if let Some(d) = cfg.dur { if twice { b = b.duration_seconds(d * 3.0 + 1.0); } b = b.duration_seconds(d); },
                        1 => if let Some(d) = cfg.delay { if twice { b = b.delay_seconds(d + 2.0); } b = b.delay_seconds(d); },
                        2 => if let Some(r) = cfg.repeat { if twice { b = b.repeat(mina::Repeat::Times(5)); } b = b.repeat(r); },
                        3 => if let Some(r) = cfg.reverse { if twice { b = b.reverse(!r); } b = b.reverse(r); },
                        4 => if let Some(e) = &cfg.easing { b = b.default_easing(e.clone()); },
                        _ => for kf in &cfg.kfs {
                            // a keyframe that defines every animated property is, every other time, captured from a struct with
                            // `keyframe_from` instead of being spelled out setter by setter
                            let captured = kf.vals.iter().all(|v| v.is_some()) && !kf.vals.is_empty() && (h >> 17) % 2 == 0;
                            let mut k = if captured {
                                let mut t = <$target>::default();
                                let mut _j = 0usize;
                                $( t.$af = FromV::from_v(kf.vals[_j].unwrap()); _j += 1; )*
                                <$anim>::keyframe_from(&t, kf.pos)
                            } else { <$anim>::keyframe(kf.pos) };
                            let mut _i = 0usize;
                            $( if !captured { if let Some(v) = kf.vals[_i] { k = k.$af(FromV::from_v(v)); } } _i += 1; )*
                            if let Some(e) = &kf.easing { k = k.easing(e.clone()); }
                            b = b.keyframe(k);
                        },
                    }
                }
                // one configuration in four reaches `build` through `Clone::clone_from` into an existing builder whose every
                // setting differs, one built timeline in four through `clone_from` into another timeline: a copy is a copy
                if (h >> 11) % 4 == 0 {
                    let mut dst = <$anim>::timeline().reverse(!cfg.reverse.unwrap_or(false)).delay_seconds(9.0).duration_seconds(7.0)
                        .repeat(mina::Repeat::Times(2)).default_easing(Easing::InBack).keyframe(<$anim>::keyframe(0.375));
                    dst.clone_from(&b);
                    b = dst;
                }
                (b, h)
            }
        }
        impl ShapeOps for $marker {
            type Target = $target;
            type Tl = <$anim as Animate>::Timeline;
            const NAME: &'static str = $name;
            fn fields() -> Vec<(&'static str, bool)> {
                let animated: &[&str] = &[$(stringify!($af)),*];
                vec![$(($k, animated.contains(&stringify!($f)))),*]
            }
            fn conf_merged(cfg: &Cfg) -> mina::MergedTimeline<Self::Tl> {
                mina::TimelineOrBuilder::build(Self::conf(cfg).0)
            }
            fn build(cfg: &Cfg) -> Self::Tl {
                let (b, h) = Self::conf(cfg);
                let built = mina::TimelineBuilder::build(b);
                if (h >> 13) % 4 == 0 {
                    let mut other = mina::TimelineBuilder::build(<$anim>::timeline().reverse(!cfg.reverse.unwrap_or(false)).delay_seconds(3.0)
                        .duration_seconds(5.0).repeat(mina::Repeat::Infinite).keyframe(<$anim>::keyframe(0.625)));
                    other.clone_from(&built);
                    return other;
                }
                built
            }
            fn to_vals(t: &Self::Target) -> Vec<V> { vec![$(t.$f.to_v()),*] }
            fn from_vals(v: &[V]) -> Self::Target {
                let mut _i = 0usize;
                let mut t = <$target>::default();
                $( t.$f = <$t as FromV>::from_v(v[_i]); _i += 1; )*
                t
            }
        }
    }
}

/// every field animated, no attribute at all ("none marked => all")
#[derive(Animate, Clone, Debug, Default, PartialEq)]
pub struct S8 {
    pub a: f32,
    pub b: f32,
    pub c: u8,
    pub d: i8,
    pub e: i32,
    pub f: u32,
    pub g: f64,
    pub h: i64,
}
shape_ops!(S8Ops, S8, S8, "S8",
    all: [a:"f32":f32, b:"f32":f32, c:"u8":u8, d:"i8":i8, e:"i32":i32, f:"u32":u32, g:"f64":f64, h:"i64":i64],
    anim: [a, b, c, d, e, f, g, h]);

/// a wide struct: twenty animated fields, its keyframe data alone is several hundred bytes (size-dependent code paths)
#[derive(Animate, Clone, Debug, Default, PartialEq)]
pub struct W20 {
    pub a: f64, pub b: f64, pub c: f64, pub d: f64, pub e: f64, pub f: f64, pub g: f64, pub h: f64, pub i: f64, pub j: f64,
    pub k: i64, pub l: i64, pub m: i64, pub n: i64, pub o: i64, pub p: i64,
    pub q: f32, pub r: f32, pub s: f32, pub t: f32,
}
shape_ops!(W20Ops, W20, W20, "W20",
    all: [a:"f64":f64, b:"f64":f64, c:"f64":f64, d:"f64":f64, e:"f64":f64, f:"f64":f64, g:"f64":f64, h:"f64":f64, i:"f64":f64, j:"f64":f64,
          k:"i64":i64, l:"i64":i64, m:"i64":i64, n:"i64":i64, o:"i64":i64, p:"i64":i64, q:"f32":f32, r:"f32":f32, s:"f32":f32, t:"f32":f32],
    anim: [a, b, c, d, e, f, g, h, i, j, k, l, m, n, o, p, q, r, s, t]);

/// a very wide struct: 72 animated f64 fields — its keyframe data (72 × Option<f64>) is larger than 1 KiB
#[derive(Animate, Clone, Debug, Default, PartialEq)]
pub struct W72 {
    pub a00: f64, pub a01: f64, pub a02: f64, pub a03: f64, pub a04: f64, pub a05: f64, pub a06: f64, pub a07: f64, pub a08: f64, pub a09: f64, pub a10: f64, pub a11: f64, pub a12: f64, pub a13: f64, pub a14: f64, pub a15: f64, pub a16: f64, pub a17: f64, pub a18: f64, pub a19: f64, pub a20: f64, pub a21: f64, pub a22: f64, pub a23: f64, pub a24: f64, pub a25: f64, pub a26: f64, pub a27: f64, pub a28: f64, pub a29: f64, pub a30: f64, pub a31: f64, pub a32: f64, pub a33: f64, pub a34: f64, pub a35: f64, pub a36: f64, pub a37: f64, pub a38: f64, pub a39: f64, pub a40: f64, pub a41: f64, pub a42: f64, pub a43: f64, pub a44: f64, pub a45: f64, pub a46: f64, pub a47: f64, pub a48: f64, pub a49: f64, pub a50: f64, pub a51: f64, pub a52: f64, pub a53: f64, pub a54: f64, pub a55: f64, pub a56: f64, pub a57: f64, pub a58: f64, pub a59: f64, pub a60: f64, pub a61: f64, pub a62: f64, pub a63: f64, pub a64: f64, pub a65: f64, pub a66: f64, pub a67: f64, pub a68: f64, pub a69: f64, pub a70: f64, pub a71: f64,
}
shape_ops!(W72Ops, W72, W72, "W72",
    all: [a00:"f64":f64, a01:"f64":f64, a02:"f64":f64, a03:"f64":f64, a04:"f64":f64, a05:"f64":f64, a06:"f64":f64, a07:"f64":f64, a08:"f64":f64, a09:"f64":f64, a10:"f64":f64, a11:"f64":f64, a12:"f64":f64, a13:"f64":f64, a14:"f64":f64, a15:"f64":f64, a16:"f64":f64, a17:"f64":f64, a18:"f64":f64, a19:"f64":f64, a20:"f64":f64, a21:"f64":f64, a22:"f64":f64, a23:"f64":f64, a24:"f64":f64, a25:"f64":f64, a26:"f64":f64, a27:"f64":f64, a28:"f64":f64, a29:"f64":f64, a30:"f64":f64, a31:"f64":f64, a32:"f64":f64, a33:"f64":f64, a34:"f64":f64, a35:"f64":f64, a36:"f64":f64, a37:"f64":f64, a38:"f64":f64, a39:"f64":f64, a40:"f64":f64, a41:"f64":f64, a42:"f64":f64, a43:"f64":f64, a44:"f64":f64, a45:"f64":f64, a46:"f64":f64, a47:"f64":f64, a48:"f64":f64, a49:"f64":f64, a50:"f64":f64, a51:"f64":f64, a52:"f64":f64, a53:"f64":f64, a54:"f64":f64, a55:"f64":f64, a56:"f64":f64, a57:"f64":f64, a58:"f64":f64, a59:"f64":f64, a60:"f64":f64, a61:"f64":f64, a62:"f64":f64, a63:"f64":f64, a64:"f64":f64, a65:"f64":f64, a66:"f64":f64, a67:"f64":f64, a68:"f64":f64, a69:"f64":f64, a70:"f64":f64, a71:"f64":f64],
    anim: [a00, a01, a02, a03, a04, a05, a06, a07, a08, a09, a10, a11, a12, a13, a14, a15, a16, a17, a18, a19, a20, a21, a22, a23, a24, a25, a26, a27, a28, a29, a30, a31, a32, a33, a34, a35, a36, a37, a38, a39, a40, a41, a42, a43, a44, a45, a46, a47, a48, a49, a50, a51, a52, a53, a54, a55, a56, a57, a58, a59, a60, a61, a62, a63, a64, a65, a66, a67, a68, a69, a70, a71]);

/// field names that are also names of locals (of the same type) in the code the derive generates or may come to generate
/// (`normalized_time`, `time`, `index`): a field name is only a field name
#[derive(Animate, Clone, Debug, Default, PartialEq)]
pub struct N5 {
    pub a: f32,
    pub normalized_time: f32,
    pub time: f32,
    pub index: f32,
    pub b: f32,
}
shape_ops!(N5Ops, N5, N5, "N5",
    all: [a:"f32":f32, normalized_time:"f32":f32, time:"f32":f32, index:"f32":f32, b:"f32":f32],
    anim: [a, normalized_time, time, index, b]);

thread_local! {
    /// set by the runner for the duration of `StateAnimator::set_state` / `advance` only
    pub static IN_ANIMATOR_CALL: std::cell::Cell<bool> = std::cell::Cell::new(false);
}
/// runs one call into the animator with `IN_ANIMATOR_CALL` set
pub fn in_animator_call<R>(f: impl FnOnce() -> R) -> R {
    struct Reset;
    impl Drop for Reset { fn drop(&mut self) { IN_ANIMATOR_CALL.with(|c| c.set(false)); } }
    IN_ANIMATOR_CALL.with(|c| c.set(true));
    let _reset = Reset;
    f()
}

/// a subset marked `#[animate]`; the others must never be touched.  Its `Clone` is observable: a copy made while the
/// animator is being driven carries a bumped `d` (a revision stamp, as on a target that counts its copies) — the
/// animator has no business copying or replacing the caller's struct, it writes animated properties into it
#[derive(Animate, Debug, Default, PartialEq)]
pub struct Q5 {
    #[animate]
    pub a: f32,
    pub b: f32,
    #[animate]
    pub c: u8,
    pub d: i32,
    #[animate]
    pub e: f64,
}
impl Clone for Q5 {
    fn clone(&self) -> Self {
        let bump = IN_ANIMATOR_CALL.with(|c| c.get());
        Q5 { a: self.a, b: self.b, c: self.c, d: if bump { self.d.wrapping_add(1) } else { self.d }, e: self.e }
    }
}
shape_ops!(Q5Ops, Q5, Q5, "Q5",
    all: [a:"f32":f32, b:"f32":f32, c:"u8":u8, d:"i32":i32, e:"f64":f64],
    anim: [a, c, e]);

/// a remote target animated through a local proxy (`#[animate(remote = "..")]`)
pub mod remote {
    #[derive(Clone, Debug, Default, PartialEq)]
    pub struct Rem3 {
        pub x: f32,
        pub y: i16,
        pub z: u16,
        pub w: u64,
    }
}
use remote::Rem3;
#[derive(Animate)]
#[animate(remote = "remote::Rem3")]
#[allow(dead_code)]
pub struct Rem3Proxy {
    #[animate]
    x: f32,
    #[animate]
    y: i16,
    #[animate]
    z: u16,
}
shape_ops!(R4Ops, Rem3Proxy, Rem3, "R4",
    all: [x:"f32":f32, y:"i16":i16, z:"u16":u16, w:"u64":u64],
    anim: [x, y, z]);
