pub fn cases() -> Vec<(usize, fn() -> String, fn() -> String)> { Vec::new() }
