#![allow(dead_code, unused_imports, unused_variables, unused_mut, unused_parens)]
// (the shared vocabulary is included, not a module: the derive emits a private `values_from`, which the
// `default` keyword of animator! can only reach from the module that defines the struct)
include!("common.rs");
include!("gen_c16.rs");
fn main() {
    run(cases());
}
