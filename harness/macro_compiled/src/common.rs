// Shared vocabulary of the compiled program families (C15, C16).

pub use mina::{animator, timeline, Animate, Easing, EnumStateAnimator, KeyframeBuilder, MergedTimeline, Repeat, StateAnimator, StateAnimatorBuilder, Timeline, TimelineBuilder, TimelineConfiguration, TimelineConfigurationBuilder};
pub use mina::Easing::*;
use std::panic::{catch_unwind, AssertUnwindSafe};

#[derive(Animate, Clone, Debug, Default, PartialEq)]
pub struct Style {
    pub x: f32,
    pub y: f32,
    pub alpha: f32,
    pub size: f32,
}

impl Style {
    pub fn new(x: i32, y: i32) -> Self {
        Style { x: x as f32, y: y as f32, alpha: 0.25, size: 8.0 }
    }
}

#[derive(Clone, Debug, Default, Eq, PartialEq, mina::State)]
pub enum State {
    #[default]
    Idle,
    A,
    B,
    C,
}
pub type S = State;

pub fn foo(n: i32) -> f32 {
    n as f32 * 1.5
}

// bare identifiers a user may have bound to an easing — deliberately *not* the curves the CSS keywords of the same
// name stand for: `timeline!(… ease …)` must use this `ease`
#[allow(non_upper_case_globals)]
mod idents {
    use mina::Easing;
    pub const ease: Easing = Easing::InOutBack;
    pub const linear: Easing = Easing::OutQuint;
    pub const ease_in: Easing = Easing::OutCirc;
    pub const ease_out: Easing = Easing::InSine;
    pub const ease_in_out: Easing = Easing::InExpo;
    pub const my_ease: Easing = Easing::OutBack;
    pub const EASE: Easing = Easing::InQuad;
    pub const step_end: Easing = Easing::InOutQuart;
    pub const bounce: Easing = Easing::OutCubic;
}
pub use idents::*;

pub mod my {
    pub mod easing {
        pub const CUSTOM: mina::Easing = mina::Easing::InOutCubic;
    }
}

fn bits(x: f32) -> String {
    x.to_bits().to_string()
}

fn style_bits(s: &Style) -> String {
    format!("{},{},{},{}", bits(s.x), bits(s.y), bits(s.alpha), bits(s.size))
}

/// everything observable about a timeline: reported metadata, values over (more than) its whole life from a
/// sentinel target, and again after `start_with`
pub fn obs_tl<T: Timeline<Target = Style>>(tl: T) -> String {
    let mut tl = tl;
    let mut s = format!("meta {} {} {:?} {:?}", bits(tl.delay()), bits(tl.duration()), tl.repeat(), tl.cycle_duration().map(bits));
    let cycle = tl.cycle_duration().unwrap_or(1.0);
    let span = if tl.duration().is_finite() { tl.duration() } else { tl.delay() + 3.25 * cycle };
    let times: Vec<f32> = (0..=12).map(|k| span * (k as f32) / 11.0).collect();
    for pass in 0..2 {
        for t in &times {
            let mut v = Style { x: -1.0, y: -2.0, alpha: -3.0, size: -4.0 };
            tl.update(&mut v, *t);
            s.push_str(&format!(" {}", style_bits(&v)));
        }
        if pass == 0 {
            tl.start_with(&Style { x: 100.0, y: 200.0, alpha: 0.5, size: -7.0 });
            s.push_str(" |");
        }
    }
    s
}

/// everything observable about a state animator under a fixed schedule of state changes and advances
pub fn obs_anim<A: StateAnimator<State = State, Values = Style>>(a: A) -> String {
    let mut a = a;
    let mut s = format!("{:?} {} {}", a.current_state(), style_bits(a.current_values()), a.is_ended());
    let schedule: [(State, f32, usize); 7] = [
        (State::A, 0.125, 3), (State::B, 0.5, 2), (State::Idle, 0.25, 2), (State::B, 0.0625, 2), (State::C, 1.0, 3), (State::A, 100.0, 1), (State::Idle, 0.001, 2),
    ];
    for (st, dt, n) in schedule.iter() {
        a.set_state(st);
        s.push_str(&format!(" | {:?} {}", a.current_state(), style_bits(a.current_values())));
        for _ in 0..*n {
            a.advance(*dt);
            s.push_str(&format!(" {} {}", style_bits(a.current_values()), a.is_ended() as u8));
        }
    }
    s
}

pub fn guarded(f: fn() -> String) -> String {
    match catch_unwind(AssertUnwindSafe(f)) {
        Ok(s) => s,
        Err(_) => "panic".into(),
    }
}

pub fn run(cases: Vec<(usize, fn() -> String, fn() -> String)>) {
    std::panic::set_hook(Box::new(|_| {}));
    for (id, m, r) in cases {
        println!("{} M {}", id, guarded(m));
        println!("{} R {}", id, guarded(r));
    }
}
