#!/bin/sh
# Build the framework from files on disk only (offline).
set -e
cd "$(dirname "$0")"
export CARGO_NET_OFFLINE=true
python3 lib/gen_tables.py
for p in C01 C02 C03 C04 C05 C06 C07 C08 C09 C10 C11 C12 C13 C14 C15 C16 C17 C18 C19 C20; do
  [ -f lean/MinaProofs/Props/$p.lean ] && python3 -c "import sys; sys.path.insert(0,'lib'); import pipeline; pipeline.write_audit('$p')"
done
(cd lean && lake build MinaModel MinaProofs mina_model)
for c in harness/core_harness/ harness/bevy_harness/ harness/macro_harness/; do
  [ -f "$c/Cargo.toml" ] || continue
  [ -f "$c/Cargo.lock" ] || cp /repo/Cargo.lock "$c/Cargo.lock"
  (cd "$c" && cargo build --offline --quiet && if [ "$c" = "harness/core_harness/" ]; then cargo build --offline --quiet --release; fi)
done
# compiled program families (C15/C16): warm the dependency build with the placeholder case files
if [ -f harness/macro_compiled/Cargo.toml ]; then
  [ -f harness/macro_compiled/Cargo.lock ] || cp /repo/Cargo.lock harness/macro_compiled/Cargo.lock
  (cd harness/macro_compiled && cargo build --offline --quiet)
fi
echo setup done
