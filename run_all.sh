#!/bin/sh
# runs every quick (or thorough) check on the current tree; prints one summary line per property
cd "$(dirname "$0")"
tier=${1:-quick}
rc=0
for p in C01 C02 C03 C04 C05 C06 C07 C08 C09 C10 C11 C12 C13 C14 C15 C16 C17 C18 C19 C20; do
  out=$(./check $p --tier $tier 2>&1); st=$?
  echo "$out" | grep -E "^(VIOLATION|C[0-9]+ \[)" | cut -c1-220
  [ $st -ne 0 ] && rc=1
done
exit $rc
