/-!
# Numeric literals as the macros see them (`syn::Lit{Int,Float,Byte}` + suffix)

A literal's text is split into decimal digits (underscores dropped), an optional fraction, an optional
exponent, and the suffix. `NumLit.value` is the exact decimal `mant · 10^exp10`; the macro turns it into
an `f32` with `base10_parse::<f32>()` (correctly rounded), which the model does with `Num.dec` / `Num.lit`.
-/

inductive LitKind where
  | int | float | byte | other
deriving Repr, DecidableEq, Inhabited

structure NumLit where
  neg : Bool := false  -- `syn::Lit` folds a leading `-` into a numeric literal (`-5s` is one `Lit`)
  kind : LitKind
  mant : Nat          -- all digits of integer and fraction part
  exp10 : Int         -- value = mant · 10^exp10
  suffix : String
deriving Repr, DecidableEq, Inhabited

namespace LitLex

def isDigit (c : Char) : Bool := c.isDigit

def takeDigits : List Char → List Char × List Char
  | [] => ([], [])
  | c :: cs =>
    if c.isDigit then let (d, r) := takeDigits cs; (c :: d, r)
    else if c == '_' then takeDigits cs
    else ([], c :: cs)

def hexVal (c : Char) : Nat :=
  if c.isDigit then c.toNat - '0'.toNat
  else if 'a'.toNat ≤ c.toNat && c.toNat ≤ 'f'.toNat then c.toNat - 'a'.toNat + 10
  else if 'A'.toNat ≤ c.toNat && c.toNat ≤ 'F'.toNat then c.toNat - 'A'.toNat + 10
  else 0

def digitsToNat (ds : List Char) : Nat := ds.foldl (fun n c => n * 10 + (c.toNat - '0'.toNat)) 0

def isHexDigit (c : Char) : Bool :=
  c.isDigit || ('a'.toNat ≤ c.toNat && c.toNat ≤ 'f'.toNat) || ('A'.toNat ≤ c.toNat && c.toNat ≤ 'F'.toNat)

/-- the digits of a radix-prefixed integer literal (underscores dropped) and what follows them (the suffix) -/
def takeRadixDigits (hex : Bool) : List Char → List Char × List Char
  | [] => ([], [])
  | c :: cs =>
    if (if hex then isHexDigit c else c.isDigit) then let (d, r) := takeRadixDigits hex cs; (c :: d, r)
    else if c == '_' then takeRadixDigits hex cs
    else ([], c :: cs)

/-- `0x…`, `0o…`, `0b…`: an integer literal; `syn::LitInt` keeps its value in base 10, so `base10_parse` sees the value -/
def radix (base : Nat) (rest : List Char) : NumLit :=
  let (ds, suf) := takeRadixDigits (base == 16) rest
  if ds.isEmpty then ⟨false, .other, 0, 0, ""⟩ else
  ⟨false, .int, ds.foldl (fun n c => n * base + hexVal c) 0, 0, String.ofList suf⟩

/-- lex the text of one literal token (as rustc / proc_macro2 would have produced it) -/
def lex (s : String) : NumLit :=
  let cs := s.toList
  match cs with
  | 'b' :: '\'' :: '\\' :: 'x' :: h1 :: h2 :: '\'' :: rest => ⟨false, .byte, hexVal h1 * 16 + hexVal h2, 0, String.ofList rest⟩
  | 'b' :: '\'' :: c :: '\'' :: rest => ⟨false, .byte, c.toNat, 0, String.ofList rest⟩
  | '"' :: _ => ⟨false, .other, 0, 0, ""⟩
  | '0' :: 'x' :: rest => radix 16 rest
  | '0' :: 'o' :: rest => radix 8 rest
  | '0' :: 'b' :: rest => radix 2 rest
  | _ =>
    let (ip, r1) := takeDigits cs
    if ip.isEmpty then ⟨false, .other, 0, 0, ""⟩ else
    let (fp, r2, isFloat1) : List Char × List Char × Bool :=
      match r1 with
      | '.' :: r => let (f, r') := takeDigits r; (f, r', true)
      | _ => ([], r1, false)
    -- exponent: e/E, optional sign, at least one digit
    let (ex, r3, isFloat2) : Int × List Char × Bool :=
      match r2 with
      | e :: r =>
        if e == 'e' || e == 'E' then
          match r with
          | '+' :: r' => let (d, r'') := takeDigits r'; if d.isEmpty then (0, r2, false) else ((digitsToNat d : Int), r'', true)
          | '-' :: r' => let (d, r'') := takeDigits r'; if d.isEmpty then (0, r2, false) else (-(digitsToNat d : Int), r'', true)
          | _ => let (d, r'') := takeDigits r; if d.isEmpty then (0, r2, false) else ((digitsToNat d : Int), r'', true)
        else (0, r2, false)
      | [] => (0, [], false)
    let kind := if isFloat1 || isFloat2 then LitKind.float else LitKind.int
    ⟨false, kind, digitsToNat (ip ++ fp), ex - (fp.length : Int), String.ofList r3⟩

end LitLex
