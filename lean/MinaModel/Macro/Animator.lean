import MinaModel.Macro.Timeline
/-!
# `animator!` — `macros/src/fn_animator.rs`

`Type { default(State, values)?, A | B => <timeline-or-[list]>, … }` expands to
`{ let default_values = …; StateAnimatorBuilder::new() [.from_state(S)] .from_values(default_values.clone())
   (.on(state, timeline))* .build() }`.
The outer structure is taken as parsed (`AnimatorInput`); the arm bodies go through the `timeline!` token
model.
-/

inductive DefaultValues where
  | none_                                   -- omitted ⇒ `Type::default()`
  | expr (e : String)                       -- an expression, used as is
  | inline (fields : List (String × String)) -- `{ x: 1, … }` ⇒ `Type::default()` with those fields assigned
deriving Repr, DecidableEq

structure AnimatorInput where
  defaults : Option (String × DefaultValues)      -- `default(state, values)`
  arms : List (List String × Sentence)            -- `A | B => sentence`
deriving Repr

variable {α : Type} [Num α]

/-- what the expansion configures -/
structure AnimatorExpansion (α : Type) where
  fromState : Option String
  defaultValues : DefaultValues
  ons : List (String × Expansion α)       -- `.on(state, timeline)` calls in order
deriving Repr

def expandArms : List (List String × Sentence) → Except MacroErr (List (String × Expansion α))
  | [] => .ok []
  | (states, s) :: rest =>
    match expandSentence (α := α) s with
    | .error e => .error e
    | .ok ex =>
      match expandArms rest with
      | .error e => .error e
      | .ok more => .ok (states.map (fun st => (st, ex)) ++ more)

/-- `expand_animator` -/
def expandAnimator (inp : AnimatorInput) : Except MacroErr (AnimatorExpansion α) :=
  match expandArms (α := α) inp.arms with
  | .error e => .error e
  | .ok ons =>
    .ok { fromState := inp.defaults.map (·.1),
          defaultValues := (inp.defaults.map (·.2)).getD .none_,
          ons := ons }

/-- the animator configuration a `StateAnimatorBuilder` chain denotes: initial state (`None` = the state
type's `Default`), initial values, and for every state the *last* timeline installed for it -/
structure AnimatorConfigM (α : Type) where
  initialState : Option String
  initialValues : DefaultValues
  timelineOf : String → Option (Expansion α)

def AnimatorExpansion.run (e : AnimatorExpansion α) : AnimatorConfigM α :=
  { initialState := e.fromState, initialValues := e.defaultValues,
    timelineOf := fun st => (e.ons.reverse.find? (·.1 == st)).map (·.2) }
