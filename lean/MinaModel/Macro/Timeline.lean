import MinaModel.Macro.Lit
import MinaModel.Timeline
import MinaModel.Gen.MacroConsts
/-!
# `timeline!` — `macros/src/fn_timeline.rs`: argument loop, expansion to a builder chain, and its run

Input is a token list (what `syn` hands to `TimelineConfig::parse`); field values inside keyframe braces
are kept as opaque expression text. The constants (`s`/`ms` multipliers, `from`/`to` positions, the
percent factor) come from the table generated from the source.
-/

inductive Tok where
  | kwFor | kwAfter | kwReverse | kwInfinite | kwFrom | kwTo | kwDefault
  | percent | comma
  | lit (l : NumLit)
  | path (p : String)
  | braces (fields : List (String × String))     -- `{ x: <expr>, y: <expr> }`
  | other (s : String)                            -- any other token tree (rejected wherever it appears)
deriving Repr, DecidableEq, Inhabited

inductive KfPos where
  | from_ | to_ | percent (l : NumLit)
deriving Repr, DecidableEq

inductive KfVals where
  | default_
  | explicit (fields : List (String × String))
deriving Repr, DecidableEq

/-- one argument of a timeline sentence, in source order -/
inductive Arg where
  | duration (l : NumLit)
  | delay (l : NumLit)
  | easing (p : String)
  | repeatTimes (l : NumLit)
  | repeatInfinite
  | reverse
  | keyframe (pos : KfPos) (vals : KfVals)
deriving Repr, DecidableEq

inductive MacroErr where
  | nonNumericLit | unknownSuffix | missingPercent | repeatNotInt | badKeyframeValues | unsupportedToken
  | badSecondsSuffix | repeatOutOfRange | emptyList | eof
deriving Repr, DecidableEq

/-- `KeyframeValues::parse`: the word `default`, or a braced field list -/
def parseKfVals : List Tok → Except MacroErr (KfVals × List Tok)
  | .kwDefault :: rest => .ok (.default_, rest)
  | .braces fs :: rest => .ok (.explicit fs, rest)
  | [] => .error .eof
  | _ => .error .badKeyframeValues

def NumLit.isNumeric (l : NumLit) : Bool := l.kind != .other

/-- one iteration of the `loop` in `TimelineConfig::parse` (after the `,`/eof test) -/
def parseArg : List Tok → Except MacroErr (Arg × List Tok)
  | .kwFor :: .lit l :: rest => if l.isNumeric then .ok (.duration l, rest) else .error .nonNumericLit
  | .kwFor :: _ => .error .nonNumericLit
  | .kwAfter :: .lit l :: rest => if l.isNumeric then .ok (.delay l, rest) else .error .nonNumericLit
  | .kwAfter :: _ => .error .nonNumericLit
  | .kwReverse :: rest => .ok (.reverse, rest)
  | .kwInfinite :: rest => .ok (.repeatInfinite, rest)
  | .kwFrom :: rest => (parseKfVals rest).map fun (v, r) => (.keyframe .from_ v, r)
  | .kwTo :: rest => (parseKfVals rest).map fun (v, r) => (.keyframe .to_ v, r)
  | .lit l :: rest =>
    if Gen.durationSuffixes.contains l.suffix then
      (if l.isNumeric then .ok (.duration l, rest) else .error .nonNumericLit)
    else if l.suffix == Gen.repeatSuffix then
      (if l.kind == .int then .ok (.repeatTimes l, rest) else .error .repeatNotInt)
    else if l.suffix == "" then
      match rest with
      | .percent :: rest' =>
        if l.isNumeric then (parseKfVals rest').map fun (v, r) => (.keyframe (.percent l) v, r)
        else .error .nonNumericLit
      | _ => .error .missingPercent
    else .error .unknownSuffix
  | .path p :: rest => .ok (.easing p, rest)
  | .kwDefault :: rest => .ok (.easing "default", rest)   -- `default` is an ordinary identifier to `syn`: a path
  | _ => .error .unsupportedToken

/-- `TimelineConfig::parse`: arguments until a `,` or the end (fuel = number of tokens) -/
def parseArgs : Nat → List Tok → Except MacroErr (List Arg × List Tok)
  | 0, toks => .ok ([], toks)
  | _ + 1, [] => .ok ([], [])
  | _ + 1, .comma :: rest => .ok ([], .comma :: rest)
  | fuel + 1, toks =>
    match parseArg toks with
    | .error e => .error e
    | .ok (a, rest) =>
      match parseArgs fuel rest with
      | .error e => .error e
      | .ok (as, rest') => .ok (a :: as, rest')

/-- `Punctuated::<TimelineConfig, Token![,]>::parse_separated_nonempty` inside the brackets -/
def parseList : Nat → List Tok → Except MacroErr (List (List Arg))
  | 0, _ => .error .eof
  | fuel + 1, toks =>
    match parseArgs (toks.length + 1) toks with
    | .error e => .error e
    | .ok (as, []) => .ok [as]
    | .ok (as, .comma :: rest) => (parseList fuel rest).map (as :: ·)   -- after a `,` another (possibly empty) configuration follows
    | .ok (_, _) => .error .unsupportedToken

/-- a whole `timeline!` body after the type: a bracketed list, or one configuration -/
inductive Sentence where
  | single (toks : List Tok)
  | list (toks : List Tok)       -- the tokens between `[` and `]`
deriving Repr

/-! ### expansion -/

/-- `TimelineConfig` after the loop: later arguments overwrite earlier ones; keyframes accumulate -/
structure TlCfgM where
  duration : Option NumLit := none
  delay : Option NumLit := none
  easing : Option String := none
  repeat_ : Option (Option NumLit) := none     -- some none = infinite
  reverse : Bool := false
  keyframes : List (KfPos × KfVals) := []
deriving Repr

def collect (args : List Arg) : TlCfgM :=
  args.foldl (fun c a => match a with
    | .duration l => { c with duration := some l }
    | .delay l => { c with delay := some l }
    | .easing p => { c with easing := some p }
    | .repeatTimes l => { c with repeat_ := some (some l) }
    | .repeatInfinite => { c with repeat_ := some none }
    | .reverse => { c with reverse := true }
    | .keyframe p v => { c with keyframes := c.keyframes ++ [(p, v)] }) {}

variable {α : Type} [Num α]

/-- `NumericLit::as_f32` -/
def NumLit.asNum (l : NumLit) : α :=
  let mag : α := if l.exp10 ≥ 0 then lit (l.mant * 10 ^ l.exp10.toNat) else dec l.mant (-l.exp10).toNat
  if l.neg then -mag else mag

def decConst (d : Nat × Nat) : α := dec d.1 d.2

/-- `seconds_multiplier` -/
def secondsMultiplier (suffix : String) : Except MacroErr α :=
  match Gen.secondsMultipliers.find? (·.1 == suffix) with
  | some (_, d) => .ok (decConst d)
  | none => .error .badSecondsSuffix

/-- `value.as_f32()? * seconds_multiplier(value)?` — computed by the macro, in f32 -/
def secondsOf (l : NumLit) : Except MacroErr α :=
  (secondsMultiplier (α := α) l.suffix).map fun m => l.asNum * m

/-- the emitted builder chain, as data: what `builder_create_timeline` produces -/
structure BuilderChain (α : Type) where
  duration : Option α
  delay : Option α
  easing : Option String
  repeat_ : Option Repeat
  reverse : Bool                         -- `.reverse(true)` emitted?
  keyframes : List (α × KfVals)          -- `.keyframe(T::keyframe(pos) …)` in source order
deriving Repr

def kfPosition (p : KfPos) : α :=
  match p with
  | .from_ => decConst Gen.fromPosition
  | .to_ => decConst Gen.toPosition
  | .percent l => l.asNum * decConst Gen.percentFactor

def u32Max : Nat := 4294967295

/-- three fallible parts, first error wins (the `?`s of `builder_create_timeline`, in order) -/
def combine3 {A B C R : Type} (a : Except MacroErr A) (b : Except MacroErr B) (c : Except MacroErr C)
    (f : A → B → C → R) : Except MacroErr R :=
  match a, b, c with
  | .ok x, .ok y, .ok z => .ok (f x y z)
  | .error e, _, _ => .error e
  | _, .error e, _ => .error e
  | _, _, .error e => .error e

def optSeconds (o : Option NumLit) : Except MacroErr (Option α) :=
  match o with
  | some l => (secondsOf (α := α) l).map some
  | none => .ok none

/-- `lit_int.base10_parse::<u32>()` succeeds: a non-negative integer below 2^32 -/
def NumLit.isU32 (l : NumLit) : Bool := l.exp10 == 0 && l.mant ≤ u32Max && !l.neg

def optRepeat (o : Option (Option NumLit)) : Except MacroErr (Option Repeat) :=
  match o with
  | some (some l) => if l.isU32 then .ok (some (.times l.mant)) else .error .repeatOutOfRange
  | some none => .ok (some .infinite)
  | none => .ok none

/-- `builder_create_timeline` -/
def expandCfg (c : TlCfgM) : Except MacroErr (BuilderChain α) :=
  combine3 (optSeconds (α := α) c.duration) (optSeconds (α := α) c.delay) (optRepeat c.repeat_) fun d dl r =>
    { duration := d, delay := dl, easing := c.easing, repeat_ := r, reverse := c.reverse,
      keyframes := c.keyframes.map fun (p, v) => (kfPosition p, v) }

/-- the whole macro: parse, collect, expand; one chain (plain timeline) or several (`MergedTimeline::of`) -/
inductive Expansion (α : Type) where
  | timeline (c : BuilderChain α)
  | merged (cs : List (BuilderChain α))
deriving Repr

def mapM' {β γ : Type} (f : β → Except MacroErr γ) : List β → Except MacroErr (List γ)
  | [] => .ok []
  | x :: xs => match f x with
    | .error e => .error e
    | .ok y => match mapM' f xs with
      | .error e => .error e
      | .ok ys => .ok (y :: ys)

def expandSentence (s : Sentence) : Except MacroErr (Expansion α) :=
  match s with
  | .single toks =>
    match parseArgs (toks.length + 1) toks with
    | .error e => .error e
    | .ok (as, []) => (expandCfg (α := α) (collect as)).map .timeline
    | .ok (_, _) => .error .unsupportedToken      -- a stray `,` after a single configuration
  | .list toks =>
    match parseList (toks.length + 1) toks with
    | .error e => .error e
    | .ok [as] => (expandCfg (α := α) (collect as)).map .timeline     -- `len() == 1` ⇒ the plain timeline
    | .ok ass => (mapM' (fun as => expandCfg (α := α) (collect as)) ass).map .merged

/-! ### running a builder chain: the `TimelineConfiguration` it denotes -/

/-- configuration-level meaning of a chain (keyframe field values stay symbolic) -/
structure ConfigM (α : Type) where
  duration : α
  delay : α
  easing : Option String               -- none = `Easing::default()`
  repeat_ : Repeat
  reverse : Bool
  keyframes : List (α × KfVals)
deriving Repr

def BuilderChain.run (b : BuilderChain α) : ConfigM α :=
  let base : Config α := Config.default
  { duration := b.duration.getD base.duration, delay := b.delay.getD base.delay, easing := b.easing,
    repeat_ := b.repeat_.getD base.repeat_, reverse := if b.reverse then true else base.reverse,
    keyframes := b.keyframes }
