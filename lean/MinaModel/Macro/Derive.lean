/-!
# `derive(Animate)` — `macros/src/derive_animate.rs`

From a struct shape to a description of the generated API.
-/

structure DField where
  name : String
  ty : String
  animate : Bool            -- carries a bare `#[animate]`
deriving Repr, DecidableEq

inductive DeriveErr where
  | notStruct | notNamed | remoteNotString | unknownAttr (name : String)
deriving Repr, DecidableEq

inductive StructKind where
  | named | tuple | unit | enum_ | union_
deriving Repr, DecidableEq

/-- a struct-level `#[animate(name = value)]` attribute -/
structure AnimAttr where
  name : String
  isString : Bool
  value : String            -- for `remote`: the path text; the last path segment names the generated items
deriving Repr, DecidableEq

structure DeriveInput where
  name : String
  vis : String
  kind : StructKind
  fields : List DField
  attrs : List AnimAttr
deriving Repr

def lastSegment (path : String) : String :=
  (((path.splitOn "::").map (·.trimAscii.toString)).getLast?).getD path

/-- the fields the derive animates: the marked ones, or all of them when none is marked -/
def animFields (fields : List DField) : List DField :=
  let marked := fields.filter (·.animate)
  if marked.isEmpty then fields else marked

/-- description of the generated items -/
structure DeriveOutput where
  targetName : String          -- the decorated struct (`impl Animate for …`)
  remotePath : String          -- `Timeline::Target`, the type `keyframe_from`/`values_from` read
  timelineName : String
  dataName : String
  builderName : String
  vis : String
  animated : List (String × String)      -- (field, type): one `SubTimeline<ty>` `t_<field>`, one `Option<ty>` data field
  setters : List String                  -- one setter per animated field
  keyframeFromCopies : List String       -- fields `keyframe_from` copies from the given value
  valuesFromCopies : List String         -- fields `values_from` copies
  updateAssigns : List String            -- fields `update` may assign, in order
  startAssigns : List String             -- fields `start_with` overrides
  fakeAccess : Bool                      -- the dead-code guard emitted for remote targets
deriving Repr, DecidableEq

/-- the struct-level attributes in order: the last `remote = "…"` wins; anything else is refused -/
def applyAttrs : List AnimAttr → Option String → Except DeriveErr (Option String)
  | [], cur => .ok cur
  | a :: rest, cur =>
    if a.name == "remote" then
      (if a.isString then applyAttrs rest (some a.value) else .error .remoteNotString)
    else .error (.unknownAttr a.name)

/-- `expand_animate` -/
def expandDerive (inp : DeriveInput) : Except DeriveErr DeriveOutput :=
  match inp.kind with
  | .enum_ | .union_ => .error .notStruct
  | .tuple | .unit => .error .notNamed
  | .named =>
    match applyAttrs inp.attrs none with
    | .error e => .error e
    | .ok remote =>
      let remotePath := remote.getD inp.name
      let remoteName := match remote with | some p => lastSegment p | none => inp.name
      let af := animFields inp.fields
      let names := af.map (·.name)
      .ok { targetName := inp.name, remotePath := remotePath,
            timelineName := remoteName ++ "Timeline", dataName := remoteName ++ "KeyframeData",
            builderName := remoteName ++ "KeyframeBuilder", vis := inp.vis,
            animated := af.map fun f => (f.name, f.ty),
            setters := names, keyframeFromCopies := names, valuesFromCopies := names,
            updateAssigns := names, startAssigns := names,
            fakeAccess := inp.name != remoteName }
