import MinaModel.Num
/-!
# `slice::binary_search_by(|t| t.total_cmp(&x))` — rustc 1.95's algorithm

```text
let mut size = self.len(); if size == 0 { return Err(0) }
let mut base = 0;
while size > 1 { let half = size/2; let mid = base+half;
                 base = if f(mid) == Greater { base } else { mid }; size -= half; }
let cmp = f(base); if cmp == Equal { Ok(base) } else { Err(base + (cmp == Less) as usize) }
```
On keys that are non-negative and not NaN (keyframe positions and timeline positions),
`total_cmp` coincides with `<`/`==`. The loop is written with fuel (the list length bounds the
iterations) so that it unfolds in proofs.
-/

variable {α : Type} [Num α]

def binSearchLoop (a : List α) (x : α) : Nat → Nat → Nat → Nat
  | 0, _, base => base
  | fuel + 1, size, base =>
    if size > 1 then
      let half := size / 2
      let mid := base + half
      let base' := if x < a.getD mid x then base else mid
      binSearchLoop a x fuel (size - half) base'
    else base

/-- `Except.ok i` = `Ok(i)`, `Except.error i` = `Err(i)` -/
def binSearch (a : List α) (x : α) : Except Nat Nat :=
  if a.length == 0 then .error 0 else
  let base := binSearchLoop a x a.length a.length 0
  let v := a.getD base x
  if v == x then .ok base
  else if v < x then .error (base + 1) else .error base
