import MinaModel.Num
import MinaModel.Gen.Defaults
/-!
# `TimeScale` — `core/src/time_scale.rs`, and `Repeat` from `core/src/timeline.rs`
-/

variable {α : Type} [Num α]

/-- `enum Repeat`; `times n` carries a `u32`, so `n < 2^32` for every value the Rust type can hold. -/
inductive Repeat where
  | none
  | times (n : Nat)
  | infinite
deriving Repr, DecidableEq, Inhabited

/-- `Repeat::as_ordinal` -/
def Repeat.ordinal : Repeat → Nat
  | .none => 0
  | .times n => n
  | .infinite => Gen.infiniteOrdinal

structure TimeScale (α : Type) where
  delay : α
  duration : α
  repeat_ : Repeat
  reverse : Bool
deriving Repr

/-- `TimeScalePosition` with `TimeScaleLoopState` flattened -/
inductive Pos (α : Type) where
  | notStarted
  | active (t : α) (isRepeating isReversing : Bool)
  | ended (t : α)
deriving Repr

def TimeScale.positionEnded (ts : TimeScale α) : Pos α :=
  .ended (if ts.reverse then lit 0 else lit 1)

/-- the tail of `get_position` after `(cycle_time, is_repeating)` has been chosen -/
def TimeScale.cyclePos (ts : TimeScale α) (cycleTime : α) (isRepeating : Bool) : Pos α :=
  let ratio := cycleTime / ts.duration
  if ts.reverse then
    if lit 1 / lit 2 < ratio then .active ((lit 1 - ratio) * lit 2) isRepeating true
    else .active (ratio * lit 2) isRepeating false
  else .active ratio isRepeating false

/-- the `Repeat::Times(_) | Repeat::Infinite` arm: modulo with the hold-at-1.0 rule -/
def TimeScale.loopPos (ts : TimeScale α) (time : α) : Pos α :=
  let quot := time / ts.duration
  let rem := fmod time ts.duration
  if rem == lit 0 && lit 1 ≤ quot then ts.cyclePos ts.duration (lit 1 < quot)
  else ts.cyclePos rem (lit 1 ≤ quot)

/-- `TimeScale::get_position` -/
def TimeScale.position (ts : TimeScale α) (time0 : α) : Pos α :=
  let time := time0 - ts.delay
  if time < lit 0 then .notStarted else
  match ts.repeat_ with
  | .none => if ts.duration < time then ts.positionEnded else ts.cyclePos time false
  | .times n => if ts.duration * lit (n + 1) < time then ts.positionEnded else ts.loopPos time
  | .infinite => ts.loopPos time

/-- `TimeScale::get_duration`; `none` = `f32::INFINITY` -/
def TimeScale.totalDuration (ts : TimeScale α) : Option α :=
  match ts.repeat_ with
  | .infinite => none
  | r => some (ts.delay + ts.duration * lit (r.ordinal + 1))

/-- a `(negative?, digits, decimal exponent)` constant of the generated tables -/
def ofDecTriple (d : Bool × Nat × Nat) : α := if d.1 then -(dec d.2.1 d.2.2) else dec d.2.1 d.2.2

/-- `impl Default for TimeScale` (from the generated table) -/
def TimeScale.default : TimeScale α :=
  ⟨ofDecTriple Gen.tsDefaultDelay, ofDecTriple Gen.tsDefaultDuration,
   if Gen.tsDefaultRepeatInfinite then .infinite else .none, Gen.tsDefaultReverse⟩
