/-!
# `Num`: the one arithmetic interface of the model

Every model function is written once against `[Num α]` and used at
* `α = Rat`      – exact arithmetic; the property theorems live here (`MinaProofs`),
* `α = Float32`  – IEEE binary32 (core Lean's logical model, native when compiled); this instance is
                   what the correspondence check runs against the Rust crates, bit for bit.

Core Lean only (no Mathlib) so the driver links as a plain `lean_exe`.
-/

/-- The places where the Rust code can panic. -/
inductive Panic where
  | intRange        -- "Converted value was outside the valid range for this type."
  | durationNeg     -- Duration::from_secs_f32: negative
  | durationOverflow-- Duration::from_secs_f32: overflow / NaN, or `Duration +=` overflow
  | addOverflow     -- u32 `+ 1` overflow (debug builds of the unrepaired code)
  | kindMismatch    -- model-internal: never produced from well-kinded inputs
  | index           -- slice index out of range
deriving Repr, DecidableEq, Inhabited

def Panic.tag : Panic → String
  | .intRange => "int-range"
  | .durationNeg => "duration"
  | .durationOverflow => "duration"
  | .addOverflow => "add-overflow"
  | .kindMismatch => "kind-mismatch"
  | .index => "index"

class Num (α : Type) extends Add α, Sub α, Mul α, Div α, Neg α, LT α, LE α, BEq α where
  /-- integer literal / `uN as f32` (rounds to nearest-even when it must) -/
  lit : Nat → α
  /-- decimal literal `m · 10^-e`, correctly rounded (`0.42`, `0.01`, `0.001`, …) -/
  dec : Nat → Nat → α
  /-- Rust `%` on floats: exact remainder with the sign of the dividend -/
  fmod : α → α → α
  /-- `f32::round`: to nearest integer, ties away from zero -/
  round : α → α
  /-- `some n` iff the value is finite and integral (for the checked `from_f32`) -/
  toInt? : α → Option Int
  /-- `Duration::from_secs_f32` -/
  nanosOfSecs : α → Except Panic Nat
  /-- `Duration::as_secs_f32` -/
  secsOfNanos : Nat → α
  /-- positive infinity (`f32::INFINITY`); at `Rat` there is none and the model never compares with it
      (the total duration is an `Option`). -/
  decLt : DecidableRel (α := α) (· < ·)
  decLe : DecidableRel (α := α) (· ≤ ·)

export Num (lit dec fmod)

instance {α} [Num α] : DecidableRel (α := α) (· < ·) := Num.decLt
instance {α} [Num α] : DecidableRel (α := α) (· ≤ ·) := Num.decLe

/-- `iN as f32` -/
def Num.ofInt {α} [Num α] (i : Int) : α :=
  match i with
  | .ofNat n => lit n
  | .negSucc n => -(lit (n + 1))

/-! ## binary32 helpers (integer arithmetic on the decoded bits) -/

namespace F32

def signBit : Nat := 2147483648      -- 2^31
def hidden  : Nat := 8388608         -- 2^23
def infBits : Nat := 2139095040      -- 0x7f800000
def nanBits : Nat := 2143289344      -- 0x7fc00000 (the quiet NaN rustc/LLVM produce)

def ofBitsNat (n : Nat) : Float32 := Float32.ofBits (UInt32.ofNat n)

/-- decode a *finite* Float32 into (negative?, mantissa, exponent): value = ± m · 2^e -/
def decode (x : Float32) : Bool × Nat × Int :=
  let b := x.toBits.toNat
  let neg := b / signBit == 1
  let ex := (b / hidden) % 256
  let fr := b % hidden
  if ex == 0 then (neg, fr, -149) else (neg, fr + hidden, (ex : Int) - 150)

def isFiniteBits (x : Float32) : Bool := (x.toBits.toNat / hidden) % 256 != 255

/-- Correctly rounded (nearest, ties to even) binary32 of the positive rational `num/den`. -/
def ofRatPos (num den : Nat) : Nat :=   -- returns the bit pattern (sign bit clear)
  if num == 0 || den == 0 then 0 else
  -- first guess for e with 2^23 ≤ num/den·2^-e < 2^24
  let e0 : Int := (Nat.log2 num : Int) - (Nat.log2 den : Int) - 23
  let scaled (e : Int) : Nat × Nat :=        -- (numerator, denominator) of num/den·2^-e
    if e ≥ 0 then (num, den * 2 ^ e.toNat) else (num * 2 ^ (-e).toNat, den)
  -- adjust by at most one either way
  let e1 : Int := let (n, d) := scaled e0; if n / d ≥ 2 * hidden then e0 + 1 else if n / d < hidden then e0 - 1 else e0
  let e : Int := if e1 < -149 then -149 else e1
  let (n, d) := scaled e
  let q := n / d
  let r := n % d
  let q := if 2 * r > d || (2 * r == d && q % 2 == 1) then q + 1 else q
  let bits := (e + 149).toNat * hidden + q
  if bits ≥ infBits then infBits else bits

def ofRat (neg : Bool) (num den : Nat) : Float32 :=
  let b := ofRatPos num den
  ofBitsNat (if neg then b + signBit else b)

def ofNat (n : Nat) : Float32 := ofRat false n 1

/-- exact float for `± m · 2^e` (correctly rounded if it is not representable) -/
def ofDyadic (neg : Bool) (m : Nat) (e : Int) : Float32 :=
  if e ≥ 0 then ofRat neg (m * 2 ^ e.toNat) 1 else ofRat neg m (2 ^ (-e).toNat)

/-- Rust `a % b` for f32 (C `fmodf`): exact. -/
def fmod (a b : Float32) : Float32 :=
  if !isFiniteBits a || a.isNaN || b.isNaN then ofBitsNat nanBits else
  let (na, ma, ea) := decode a
  if !isFiniteBits b then a else
  let (_, mb, eb) := decode b
  if mb == 0 then ofBitsNat nanBits else
  let e := if ea ≤ eb then ea else eb
  let A := ma * 2 ^ (ea - e).toNat
  let B := mb * 2 ^ (eb - e).toNat
  ofDyadic na (A % B) e

/-- `f32::round` (ties away from zero) -/
def round (x : Float32) : Float32 :=
  if !isFiniteBits x then x else
  let (neg, m, e) := decode x
  if e ≥ 0 then x else
  let k := (-e).toNat
  let n := (m + 2 ^ (k - 1)) / 2 ^ k
  ofRat neg n 1

def toInt? (x : Float32) : Option Int :=
  if !isFiniteBits x then none else
  let (neg, m, e) := decode x
  let mag : Option Nat :=
    if e ≥ 0 then some (m * 2 ^ e.toNat)
    else let k := (-e).toNat; if m % 2 ^ k == 0 then some (m / 2 ^ k) else none
  mag.map fun n => if neg then -(n : Int) else (n : Int)

def nanosPerSec : Nat := 1000000000

/-- `Duration::from_secs_f32` (rustc 1.95 `try_from_secs!`): nearest-even nanoseconds of the exact
value; error on negative, NaN, or ≥ 2^64 s. -/
def nanosOfSecs (x : Float32) : Except Panic Nat :=
  if x.isNaN then .error .durationOverflow else
  let (neg, m, e) := decode x
  if neg && m != 0 then .error .durationNeg else
  if neg then .ok 0 else
  if !isFiniteBits x then .error .durationOverflow else
  -- value = m·2^e seconds
  let (n, d) : Nat × Nat := if e ≥ 0 then (m * 2 ^ e.toNat * nanosPerSec, 1) else (m * nanosPerSec, 2 ^ (-e).toNat)
  let q := n / d
  let r := n % d
  let q := if 2 * r > d || (2 * r == d && q % 2 == 1) then q + 1 else q
  if q ≥ 2 ^ 64 * nanosPerSec then .error .durationOverflow else .ok q

/-- `Duration::as_secs_f32 = secs as f32 + nanos as f32 / 1e9` -/
def secsOfNanos (n : Nat) : Float32 :=
  ofNat (n / nanosPerSec) + ofNat (n % nanosPerSec) / ofNat nanosPerSec

end F32

instance : Num Float32 where
  lit n := F32.ofNat n
  dec m e := F32.ofRat false m (10 ^ e)
  fmod := F32.fmod
  round := F32.round
  toInt? := F32.toInt?
  nanosOfSecs := F32.nanosOfSecs
  secsOfNanos := F32.secsOfNanos
  decLt := inferInstance
  decLe := inferInstance

/-! ## exact arithmetic -/

namespace RatNum

/-- truncation toward zero (C `fmod` is `a - b·trunc(a/b)`) -/
def trunc (q : Rat) : Int := if q < 0 then -((-q).floor) else q.floor

/-- round half away from zero -/
def round (q : Rat) : Rat :=
  if q < 0 then -(((-q) + 1 / 2).floor : Rat) else ((q + 1 / 2).floor : Rat)

def toInt? (q : Rat) : Option Int := if q.den == 1 then some q.num else none

/-- nearest-even integer of a non-negative rational -/
def roundEven (q : Rat) : Int :=
  let f := q.floor
  let r := q - (f : Rat)
  if r < 1 / 2 then f else if 1 / 2 < r then f + 1 else if f % 2 == 0 then f else f + 1

def nanosOfSecs (q : Rat) : Except Panic Nat :=
  if q < 0 then .error .durationNeg else
  let n := (roundEven (q * 1000000000)).toNat
  if n ≥ 2 ^ 64 * 1000000000 then .error .durationOverflow else .ok n

end RatNum

instance : Num Rat where
  lit n := (n : Rat)
  dec m e := (m : Rat) / (10 : Rat) ^ e
  fmod a b := a - b * (RatNum.trunc (a / b) : Rat)
  round := RatNum.round
  toInt? := RatNum.toInt?
  nanosOfSecs := RatNum.nanosOfSecs
  secsOfNanos n := (n : Rat) / 1000000000
  decLt := inferInstance
  decLe := inferInstance
