import MinaModel.Num
/-!
# `impl Lerp for Quat` / `impl Lerp for DQuat` (core/src/glam.rs:42-52)

mina delegates to glam 0.24.2's own `Quat::lerp` / `DQuat::lerp(…, x as f64)`: a component-wise linear interpolation
towards `end` *or its negation* (whichever lies in the same half-space, so the rotation takes the short way round),
followed by normalisation.  The two types differ in the order of the additions and in how the normalisation divides;
both are written out here operation by operation so that the binary32 / binary64 instances agree bit for bit with the
compiled crate (x86-64: `Quat` is the SSE2 implementation, `DQuat` the scalar one).

Generic in the arithmetic (`Rat`, `Float32`, `Float`); the square root and the two sign tests are parameters.
-/

structure Q4 (α : Type) where
  x : α
  y : α
  z : α
  w : α
deriving Repr, BEq, DecidableEq

namespace Q4
variable {α : Type} [Add α] [Sub α] [Mul α] [Div α] [Neg α]

def map (f : α → α) (a : Q4 α) : Q4 α := ⟨f a.x, f a.y, f a.z, f a.w⟩
def zip (f : α → α → α) (a b : Q4 α) : Q4 α := ⟨f a.x b.x, f a.y b.y, f a.z b.z, f a.w b.w⟩

/-- `dot4_in_x` (sse2.rs): products, then `(x+z) + (y+w)` -/
def dotSse (a b : Q4 α) : α := (a.x * b.x + a.z * b.z) + (a.y * b.y + a.w * b.w)

/-- `DVec4::dot`: `((x + y) + z) + w` -/
def dotScalar (a b : Q4 α) : α := ((a.x * b.x + a.y * b.y) + a.z * b.z) + a.w * b.w

/-- `Quat::lerp` (f32, SSE2): `bias` is the *sign bit* of the dot product (`_mm_and_ps(dot, -0.0)`), `end ^ bias` flips
the sign of every component of `end`; `(end' - start) * s + start`; `normalize` = `v / sqrt(dot(v, v))` -/
def lerpSse (sqrt : α → α) (signBit : α → Bool) (a b : Q4 α) (s : α) : Q4 α :=
  let e := if signBit (dotSse a b) then b.map (- ·) else b
  let v := (zip (· - ·) e a |>.map (· * s)) |> (zip (· + ·) · a)
  let len := sqrt (dotSse v v)
  v.map (· / len)

/-- `DQuat::lerp` (f64, scalar): `bias = if dot >= 0 { 1 } else { -1 }`; `start + (end * bias - start) * s`;
`normalize` = `v * (1 / sqrt(dot(v, v)))` -/
def lerpScalar (sqrt : α → α) (nonneg : α → Bool) (one : α) (a b : Q4 α) (s : α) : Q4 α :=
  let bias := if nonneg (dotScalar a b) then one else -one
  let v := zip (· + ·) a (zip (· - ·) (b.map (· * bias)) a |>.map (· * s))
  let rcp := one / sqrt (dotScalar v v)
  v.map (· * rcp)

end Q4
