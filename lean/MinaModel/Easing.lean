import MinaModel.Num
import MinaModel.Gen.EasingTable
/-!
# `Easing` — `core/src/easing.rs` (+ `lyon_geom::CubicBezierSegment::y`)

`Easing::X.calc(x)` is `LinearEasing.calc(x) = x` for `Linear`, and for the other 28 variants
`CubicBezierSegment{from:(0,0), ctrl1:(x1,y1), ctrl2:(x2,y2), to:(1,1)}.y(x)`.
lyon's `y(t)` samples the curve at *parameter* `t` — it does not solve `x(t) = x` — and uses only the
control points' y coordinates. The control points come from the generated table.
-/

variable {α : Type} [Num α]

/-- lyon_geom 1.0 `CubicBezierSegment::y(t)` with `from.y = 0`, `to.y = 1`, operation order preserved:
`from.y*one_t3 + ctrl1.y*3*one_t2*t + ctrl2.y*3*one_t*t2 + to.y*t3`. -/
def bezY (c1 c2 : α) (t : α) : α :=
  let t2 := t * t
  let t3 := t2 * t
  let one_t := lit 1 - t
  let one_t2 := one_t * one_t
  let one_t3 := one_t2 * one_t
  lit 0 * one_t3 + c1 * lit 3 * one_t2 * t + c2 * lit 3 * one_t * t2 + lit 1 * t3

/-- the x coordinate of the same curve (not used by the code; used by the timing-function spec) -/
def bezX (c1 c2 : α) (t : α) : α := bezY c1 c2 t

/-- a control-point coordinate from the generated integer table (rustc parses `-0.56` as `-(0.56)`) -/
def ctrl (i : Int) : α :=
  match i with
  | .ofNat n => dec n Gen.easingScaleExp
  | .negSucc n => -(dec (n + 1) Gen.easingScaleExp)

/-- A fixed menu of custom easing functions implemented identically in the Rust harness
(`Easing::Custom(Box<dyn EasingFunction>)`): the model is parametric in them. -/
def customEasing (n : Nat) (x : α) : α :=
  match n with
  | 0 => x * x                       -- square
  | 1 => lit 1 - (lit 1 - x) * (lit 1 - x)
  | 2 => x * dec 5 1 + dec 25 2      -- does NOT fix 0 and 1: 0.25 + x/2
  | 4 => lit 1 / (x - dec 5 1)       -- a pole at x = 0.5 (±inf there in binary32; only ever run at Float32)
  | 11 => x                          -- a parameterised (non-zero-sized) easing of the harness: x, x², x³
  | 12 => x * x
  | 13 => x * x * x
  | _ => bezY (dec 1 1) (dec 9 1) x  -- an ad-hoc CubicBezierEasing::new(0.3, 0.1, 0.6, 0.9)

inductive Easing where
  | builtin (id : Gen.EasingId)
  | custom (n : Nat)
deriving Repr, DecidableEq, Inhabited

def Easing.calc (e : Easing) (x : α) : α :=
  match e with
  | .builtin id =>
    match id.curve with
    | none => x
    | some (_, y1, _, y2) => bezY (ctrl y1) (ctrl y2) x
  | .custom n => customEasing n x

def Easing.default : Easing := .builtin Gen.defaultEasing
