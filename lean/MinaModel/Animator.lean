import MinaModel.Merged
/-!
# `MappedTimelineAnimator` / `StateAnimatorBuilder` — `core/src/animator.rs`

States are `Nat` indices into the timeline table (`EnumMap<State, Option<MergedTimeline<_>>>`).
`stateDuration` and the remembered pause are whole nanoseconds (`std::time::Duration`).
-/

variable {α : Type} [Num α]

structure Animator (α : Type) where
  timelines : List (Option (Merged α))
  state : Nat
  values : List (Val α)
  paused : Option (Nat × Nat)      -- (state, nanoseconds)
  stateNs : Nat
deriving Repr

def Animator.timeline? (a : Animator α) (s : Nat) : Option (Merged α) := (a.timelines.getD s none)

/-- `blend_next_timeline` -/
def Animator.blendNext (a : Animator α) (s : Nat) : Animator α :=
  match a.timeline? s with
  | some tl => { a with timelines := a.timelines.set s (some (tl.startWith a.values)) }
  | none => a

/-- `update_current_values` -/
def Animator.updateValues (a : Animator α) : Except Panic (Animator α) :=
  match a.timeline? a.state with
  | some tl =>
    match tl.update a.values (Num.secsOfNanos a.stateNs) with
    | .ok v => .ok { a with values := v }
    | .error p => .error p
  | none => .ok a

/-- `MappedTimelineAnimator::new` (via `StateAnimatorBuilder::build`) -/
def Animator.new (timelines : List (Option (Merged α))) (s0 : Nat) (v0 : List (Val α)) : Animator α :=
  Animator.blendNext ⟨timelines, s0, v0, none, 0⟩ s0

/-- `Duration` is `u64` seconds + nanoseconds: `+=` panics beyond that -/
def durationMaxNs : Nat := 2 ^ 64 * 1000000000

/-- the state change of `advance` once the elapsed time is known in nanoseconds -/
def Animator.advanceNs (a : Animator α) (ns : Nat) : Except Panic (Animator α) :=
  if a.stateNs + ns ≥ durationMaxNs then .error .durationOverflow else
  Animator.updateValues { a with stateNs := a.stateNs + ns }

/-- `StateAnimator::advance(elapsed_seconds)` -/
def Animator.advance (a : Animator α) (secs : α) : Except Panic (Animator α) :=
  match Num.nanosOfSecs secs with
  | .ok ns => a.advanceNs ns
  | .error p => .error p

/-- `StateAnimator::is_ended` -/
def Animator.isEnded (a : Animator α) : Bool :=
  match a.timeline? a.state with
  | none => true
  | some tl =>
    match tl.duration with
    | none => false                                  -- `x >= f32::INFINITY` is false for finite x
    | some d => d ≤ (Num.secsOfNanos a.stateNs : α)

/-- `StateAnimator::set_state` (with the repaired pause bookkeeping) -/
def Animator.setState (a : Animator α) (s : Nat) : Except Panic (Animator α) :=
  if s == a.state then .ok a else
  let resumed : Option Nat := match a.paused with
    | some (ps, pos) => if s == ps then some pos else none
    | none => none
  let a' : Animator α := match resumed with
    | some pos => { a with stateNs := pos }
    | none =>
      let was := (a.timeline? a.state).isSome
      let will := (a.timeline? s).isSome
      let a1 : Animator α :=
        if was && !will then { a with paused := some (a.state, a.stateNs) }
        else if will then { a with paused := none } else a
      { a1.blendNext s with stateNs := 0 }
  Animator.updateValues { a' with state := s }
