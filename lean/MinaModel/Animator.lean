import MinaModel.Merged
/-!
# `MappedTimelineAnimator` / `StateAnimatorBuilder` — `core/src/animator.rs`

States are `Nat` indices into the timeline table (`EnumMap<State, Option<MergedTimeline<_>>>`).
`stateDuration` and the remembered pause are whole nanoseconds (`std::time::Duration`).
-/

variable {α : Type} [Num α]

structure Animator (α : Type) where
  timelines : List (Option (Merged α))
  state : Nat
  values : List (Val α)
  paused : Option (Nat × Nat)      -- (state, nanoseconds)
  stateNs : Nat
deriving Repr

def Animator.timeline? (a : Animator α) (s : Nat) : Option (Merged α) :=
  match a.timelines[s]? with
  | some (some m) => some m
  | _ => none

/-- `blend_next_timeline` -/
def Animator.blendNext (a : Animator α) (s : Nat) : Animator α :=
  match a.timeline? s with
  | some tl => { a with timelines := a.timelines.set s (some (tl.startWith a.values)) }
  | none => a

/-- `update_current_values` -/
def Animator.updateValues (a : Animator α) : Except Panic (Animator α) :=
  match a.timeline? a.state with
  | some tl =>
    match tl.update a.values (Num.secsOfNanos a.stateNs) with
    | .ok v => .ok { a with values := v }
    | .error p => .error p
  | none => .ok a

/-- `MappedTimelineAnimator::new` (via `StateAnimatorBuilder::build`) -/
def Animator.new (timelines : List (Option (Merged α))) (s0 : Nat) (v0 : List (Val α)) : Animator α :=
  Animator.blendNext ⟨timelines, s0, v0, none, 0⟩ s0

/-- `Duration` is `u64` seconds + nanoseconds: `+=` panics beyond that -/
def durationMaxNs : Nat := 2 ^ 64 * 1000000000

/-- the state change of `advance` once the elapsed time is known in nanoseconds -/
def Animator.advanceNs (a : Animator α) (ns : Nat) : Except Panic (Animator α) :=
  if a.stateNs + ns ≥ durationMaxNs then .error .durationOverflow else
  Animator.updateValues { a with stateNs := a.stateNs + ns }

/-- `StateAnimator::advance(elapsed_seconds)` -/
def Animator.advance (a : Animator α) (secs : α) : Except Panic (Animator α) :=
  match Num.nanosOfSecs secs with
  | .ok ns => a.advanceNs ns
  | .error p => .error p

/-- `StateAnimator::is_ended` -/
def Animator.isEnded (a : Animator α) : Bool :=
  match a.timeline? a.state with
  | none => true
  | some tl =>
    match tl.duration with
    | none => false                                  -- `x >= f32::INFINITY` is false for finite x
    | some d => d ≤ (Num.secsOfNanos a.stateNs : α)

/-- the remembered position, if `s` is the paused state (`Some((paused_state, pos)) if state == paused_state`) -/
def Animator.resumePos (a : Animator α) (s : Nat) : Option Nat :=
  match a.paused with
  | some (ps, pos) => if s == ps then some pos else none
  | none => none

/-- the pause bookkeeping of the non-resume arm (with the repair: entering an animated state forgets the pause) -/
def Animator.notePause (a : Animator α) (s : Nat) : Animator α :=
  let was := (a.timeline? a.state).isSome
  let will := (a.timeline? s).isSome
  if was && !will then { a with paused := some (a.state, a.stateNs) }
  else if will then { a with paused := none } else a

/-- the non-resume arm: bookkeeping, blend the next timeline from the current values, reset the clock -/
def Animator.enter (a : Animator α) (s : Nat) : Animator α :=
  { (a.notePause s).blendNext s with stateNs := 0 }

/-- everything `set_state` does before the final `update_current_values` -/
def Animator.switchTo (a : Animator α) (s : Nat) : Animator α :=
  match a.resumePos s with
  | some pos => { a with stateNs := pos, state := s }
  | none => { a.enter s with state := s }

/-- `StateAnimator::set_state` (with the repaired pause bookkeeping) -/
def Animator.setState (a : Animator α) (s : Nat) : Except Panic (Animator α) :=
  if s == a.state then .ok a else Animator.updateValues (a.switchTo s)

/-- the operations of a history -/
inductive AnimOp (α : Type) where
  | advance (secs : α)
  | advanceNs (ns : Nat)
  | setState (s : Nat)

def Animator.step (a : Animator α) : AnimOp α → Except Panic (Animator α)
  | .advance secs => a.advance secs
  | .advanceNs ns => a.advanceNs ns
  | .setState s => a.setState s

/-- run a history; stops at the first panic -/
def Animator.run (a : Animator α) : List (AnimOp α) → Except Panic (Animator α)
  | [] => .ok a
  | op :: ops =>
    match a.step op with
    | .ok a' => a'.run ops
    | .error p => .error p
