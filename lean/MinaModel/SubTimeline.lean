import MinaModel.Lerp
import MinaModel.Easing
/-!
# `SubTimeline` — `core/src/timeline_helpers.rs`
-/

variable {α : Type} [Num α]

/-- `SplitKeyframe<Value>` -/
structure Frame (α : Type) where
  time : α
  value : Val α
  easing : Easing
deriving Repr

/-- one property's view of a master `Keyframe<Data>`: `get_value(&keyframe.data)` already applied -/
structure PKeyframe (α : Type) where
  time : α
  value : Option (Val α)
  easing : Option Easing
deriving Repr

structure SubTl (α : Type) where
  frames : List (Frame α)
  indexMap : List Nat
  startOverride : Option (Frame α)
deriving Repr

def SubTl.empty : SubTl α := ⟨[], [], none⟩

/-- the loop state of `from_keyframes` -/
structure FkAcc (α : Type) where
  frames : List (Frame α)
  indexMap : List Nat
  curEasing : Easing
  hasData : Bool

/-- one iteration of the `for keyframe in keyframes` loop -/
def fkStep (dflt : Val α) (st : FkAcc α) (kf : PKeyframe α) : FkAcc α :=
  let frames := if st.frames.isEmpty && lit 0 < kf.time then st.frames ++ [⟨lit 0, dflt, st.curEasing⟩] else st.frames
  match kf.value with
  | some v =>
    let cur := match kf.easing with | some e => e | none => st.curEasing
    let frames := frames ++ [⟨kf.time, v, cur⟩]
    ⟨frames, st.indexMap ++ [max frames.length 1 - 1], cur, true⟩
  | none => ⟨frames, st.indexMap ++ [max frames.length 1 - 1], st.curEasing, st.hasData⟩

/-- `SubTimeline::from_keyframes` -/
def SubTl.fromKeyframes (kfs : List (PKeyframe α)) (dflt : Val α) (e0 : Easing) : SubTl α :=
  let st := kfs.foldl (fkStep dflt) ⟨[], [], e0, false⟩
  if !st.hasData then SubTl.empty else
  let frames := match st.frames.getLast? with
    | some f => if f.time < lit 1 then st.frames ++ [⟨lit 1, f.value, f.easing⟩] else st.frames
    | none => st.frames
  ⟨frames, st.indexMap, none⟩

/-- `override_start_value` -/
def SubTl.overrideStart (s : SubTl α) (v : Val α) : SubTl α :=
  match s.frames.head? with
  | some f => { s with startOverride := some ⟨f.time, v, f.easing⟩ }
  | none => s

/-- `get_frame` -/
def SubTl.getFrame (s : SubTl α) (i : Nat) (ovr : Bool) : Option (Frame α) :=
  if ovr && i == 0 then
    match s.startOverride with
    | some f => some f
    | none => s.frames[0]?
  else s.frames[i]?

/-- `interpolate_value` -/
def interpolate (a b : Frame α) (t : α) : Except Panic (Val α) :=
  let d := b.time - a.time
  if d == lit 0 then .ok a.value else
  let x := (t - a.time) / d
  a.value.lerp b.value (a.easing.calc x)

/-- `f32::clamp(0.0, 1.0)` -/
def clamp01 (x : α) : α := if x < lit 0 then lit 0 else if lit 1 < x then lit 1 else x

/-- `get_bounding_frames` -/
def SubTl.boundingFrames (s : SubTl α) (t : α) (hint : Nat) (ovr : Bool) : Option (Frame α × Frame α) :=
  match s.indexMap[hint]? with
  | none => none
  | some i =>
    match s.getFrame i ovr with
    | none => none
    | some fa =>
      if t < fa.time then
        if i > 0 then
          match s.getFrame (i - 1) ovr with
          | some p => some (p, fa)
          | none => none
        else none
      else if i == s.frames.length - 1 then some (fa, fa)
      else match s.frames[i + 1]? with
        | some n => some (fa, n)
        | none => none

/-- `SubTimeline::value_at` -/
def SubTl.valueAt (s : SubTl α) (t : α) (hint : Nat) (ovr : Bool) : Option (Except Panic (Val α)) :=
  if s.indexMap.isEmpty then none else
  let t := clamp01 t
  match s.boundingFrames t hint ovr with
  | none => none
  | some (a, b) => some (interpolate a b t)

/-! ## a linear-time `from_keyframes` for the compiled driver

`fkStep` appends to the end of two lists, as the `Vec::push` of the Rust loop does — on a `List` that is quadratic, and
a timeline of 70 000 keyframes (more than a 16-bit index can count) would take minutes.  The version below conses onto
reversed lists and carries the length; it is *proved* equal to `SubTl.fromKeyframes` and registered with `@[csimp]`, so the
compiler uses it wherever the model calls `fromKeyframes` while every theorem keeps talking about the definition above. -/

structure FkAccR (α : Type) where
  framesRev : List (Frame α)
  n : Nat
  mapRev : List Nat
  curEasing : Easing
  hasData : Bool

def fkStepR (dflt : Val α) (st : FkAccR α) (kf : PKeyframe α) : FkAccR α :=
  let framesRev := if st.n == 0 && lit 0 < kf.time then (⟨lit 0, dflt, st.curEasing⟩ : Frame α) :: st.framesRev else st.framesRev
  let n := if st.n == 0 && lit 0 < kf.time then st.n + 1 else st.n
  match kf.value with
  | some v =>
    let cur := match kf.easing with | some e => e | none => st.curEasing
    ⟨⟨kf.time, v, cur⟩ :: framesRev, n + 1, (max (n + 1) 1 - 1) :: st.mapRev, cur, true⟩
  | none => ⟨framesRev, n, (max n 1 - 1) :: st.mapRev, st.curEasing, st.hasData⟩

def SubTl.fromKeyframesFast (kfs : List (PKeyframe α)) (dflt : Val α) (e0 : Easing) : SubTl α :=
  let st := kfs.foldl (fkStepR dflt) ⟨[], 0, [], e0, false⟩
  if !st.hasData then SubTl.empty else
  let framesRev := match st.framesRev with
    | f :: _ => if f.time < lit 1 then (⟨lit 1, f.value, f.easing⟩ : Frame α) :: st.framesRev else st.framesRev
    | [] => st.framesRev
  ⟨framesRev.reverse, st.mapRev.reverse, none⟩

/-- the two loop states describe the same thing -/
def FkAcc.Rel (st : FkAcc α) (r : FkAccR α) : Prop :=
  st.frames = r.framesRev.reverse ∧ r.n = st.frames.length ∧ st.indexMap = r.mapRev.reverse ∧
    st.curEasing = r.curEasing ∧ st.hasData = r.hasData

theorem fkStep_rel (dflt : Val α) (st : FkAcc α) (r : FkAccR α) (kf : PKeyframe α) (h : st.Rel r) :
    (fkStep dflt st kf).Rel (fkStepR dflt r kf) := by
  obtain ⟨hf, hn, hm, he, hd⟩ := h
  have hemp : st.frames.isEmpty = (r.n == 0) := by
    rw [hn]; cases st.frames <;> simp
  unfold fkStep fkStepR FkAcc.Rel
  rw [hemp]
  cases hc : (r.n == 0 && decide (lit 0 < kf.time)) <;> cases hv : kf.value <;> simp only [hc, if_true, if_false, Bool.false_eq_true]
  all_goals (refine ⟨?_, ?_, ?_, ?_, ?_⟩ <;> simp [hf, hn, hm, he, hd] <;> try omega)

theorem fk_fold_rel (dflt : Val α) (kfs : List (PKeyframe α)) (st : FkAcc α) (r : FkAccR α) (h : st.Rel r) :
    (kfs.foldl (fkStep dflt) st).Rel (kfs.foldl (fkStepR dflt) r) := by
  induction kfs generalizing st r with
  | nil => exact h
  | cons k rest ih => exact ih _ _ (fkStep_rel dflt st r k h)

theorem SubTl.fromKeyframes_eq_fast (kfs : List (PKeyframe α)) (dflt : Val α) (e0 : Easing) :
    SubTl.fromKeyframes kfs dflt e0 = SubTl.fromKeyframesFast kfs dflt e0 := by
  have h := fk_fold_rel dflt kfs ⟨[], [], e0, false⟩ ⟨[], 0, [], e0, false⟩ ⟨rfl, rfl, rfl, rfl, rfl⟩
  obtain ⟨hf, _, hm, _, hd⟩ := h
  unfold SubTl.fromKeyframes SubTl.fromKeyframesFast
  simp only [hd]
  split
  · rfl
  · rw [hf, hm]
    cases hr : (kfs.foldl (fkStepR dflt) ⟨[], 0, [], e0, false⟩).framesRev with
    | nil => simp
    | cons f rest =>
      simp only [List.reverse_cons, List.getLast?_append, List.getLast?_singleton, Option.some_or]
      split <;> simp

@[csimp] theorem SubTl.fromKeyframes_csimp : @SubTl.fromKeyframes = @SubTl.fromKeyframesFast := by
  funext α _ kfs dflt e0
  exact SubTl.fromKeyframes_eq_fast kfs dflt e0
