import MinaModel.Num
import MinaModel.Gen.LerpTypes
/-!
# `Lerp` — `core/src/interpolation.rs`, `core/src/glam.rs`

* f32: `a*(1-x) + b*x`
* integers: via f32, `round()` (half away from zero), checked `from_f32(..).expect(..)`
* f64: the same in f32, widened (`narrow`/widen happen at the I/O boundary of the driver; in exact
  arithmetic they are the identity, and the harness only feeds f64 values exactly representable in f32
  into timelines, as the properties stipulate)
* glam vectors: component-wise
-/

variable {α : Type} [Num α]

/-- `impl Lerp for f32` -/
def lerp (a b x : α) : α := a * (lit 1 - x) + b * x

/-- An animatable value: a float, or an integer of a given primitive kind. -/
inductive Val (α : Type) where
  | num (x : α)
  | int (k : Gen.IntKind) (n : Int)
deriving Repr

instance {α} [BEq α] : BEq (Val α) where
  beq a b := match a, b with
    | .num x, .num y => x == y
    | .int k n, .int k' n' => k == k' && n == n'
    | _, _ => false

/-- `<int as Lerp>::lerp`: `Self::from_f32((a as f32).lerp(b as f32, x).round()).expect(..)` -/
def lerpInt (k : Gen.IntKind) (a b : Int) (x : α) : Except Panic Int :=
  let r : α := Num.round (lerp (Num.ofInt a : α) (Num.ofInt b) x)
  match Num.toInt? r with
  | some n => if k.lo ≤ n ∧ n ≤ k.hi then .ok n else .error .intRange
  | none => .error .intRange

def Val.lerp (a b : Val α) (x : α) : Except Panic (Val α) :=
  match a, b with
  | .num p, .num q => .ok (.num (_root_.lerp p q x))
  | .int k m, .int k' n => if k == k' then (lerpInt k m n x).map (.int k) else .error .kindMismatch
  | _, _ => .error .kindMismatch

/-- glam `VecN::lerp`: `Self::new(self.x.lerp(&b.x, t), self.y.lerp(&b.y, t), ..)` -/
def lerpVec : List (Val α) → List (Val α) → α → Except Panic (List (Val α))
  | a :: as, b :: bs, x =>
    match a.lerp b x with
    | .ok v => match lerpVec as bs x with
      | .ok vs => .ok (v :: vs)
      | .error e => .error e
    | .error e => .error e
  | _, _, _ => .ok []
