import MinaModel.Spec.CssFrames
import MinaModel.Timeline
/-!
# The declarative value of a property at a position (spec oracle for C01)

Only defined where C01 speaks: at a position strictly between two consecutive frames of the CSS reading.
-/
namespace Spec

variable {α : Type} [Num α]

def cssSegment : List (Frame α) → α → Option (Frame α × Frame α)
  | f :: g :: rest, s => if f.time < s ∧ s < g.time then some (f, g) else cssSegment (g :: rest) s
  | _, _ => none

/-- value of one property at position `s`; `ov` = substituted start value, used iff `ovr` -/
def propValue (kfs : List (PKeyframe α)) (d : Val α) (e0 : Easing) (ov : Option (Val α)) (ovr : Bool) (s : α) :
    Option (Except Panic (Val α)) :=
  let F := cssFrames kfs d e0
  let F' := match F, ov, ovr with
    | f :: rest, some v, true => { f with value := v } :: rest
    | F, _, _ => F
  match cssSegment F' s with
  | some (f, g) => some (f.value.lerp g.value (f.easing.calc ((s - f.time) / (g.time - f.time))))
  | none => none

/-- all animated fields of a configuration at position `s` (override enabled iff `ovr`): `none` where
C01 does not determine the value (the position coincides with a frame) -/
def timelineValuesAt (fields : List (AnimField α)) (cfg : Config α) (starts : Option (List (Val α)))
    (s : α) (ovr : Bool) : List (Nat × Option (Except Panic (Val α))) :=
  let sorted := sortKfs cfg.keyframes
  fields.zipIdx.map fun (f, j) =>
    (f.idx, propValue (sorted.map (·.forField j)) f.dflt cfg.easing (starts.bind (·[f.idx]?)) ovr s)

end Spec
