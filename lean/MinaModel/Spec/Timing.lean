import MinaModel.Easing
import MinaModel.Spec.Published
/-!
# The CSS cubic-bezier *timing function*, in exact arithmetic (spec oracle for C13)

`cubic-bezier(x1,y1,x2,y2)` at horizontal position `x` is the curve's height `By(t)` at the parameter
`t` with `Bx(t) = x`. For `x1, x2 ∈ [0,1]` `Bx` is monotone, so bisection on ℚ brackets `t` to 2^-48.
-/
namespace Spec

def bisect (f : Rat → Rat) (x : Rat) : Nat → Rat → Rat → Rat
  | 0, lo, hi => (lo + hi) / 2
  | n + 1, lo, hi =>
    let mid := (lo + hi) / 2
    if f mid ≤ x then bisect f x n mid hi else bisect f x n lo mid

/-- exact rational value of a finite Float32 -/
def ratOfF32 (x : Float32) : Rat :=
  let (neg, m, e) := F32.decode x
  let r : Rat := if e ≥ 0 then (m * 2 ^ e.toNat : Nat) else (m : Rat) / ((2 ^ (-e).toNat : Nat) : Rat)
  if neg then -r else r

def f32OfRat (q : Rat) : Float32 := F32.ofRat (q < 0) q.num.natAbs q.den

def timing (c : Int × Int × Int × Int) (x : Rat) : Rat :=
  let (x1, y1, x2, y2) := c
  let t := bisect (fun t => bezY (ctrl x1 : Rat) (ctrl x2) t) x 48 0 1
  bezY (ctrl y1 : Rat) (ctrl y2) t

/-- the published curve, evaluated the way the code evaluates it (parametric, binary32) -/
def parametricPublished (name : String) (x : Float32) : Option Float32 :=
  match published.find? (·.1 == name) with
  | some (_, none) => some x
  | some (_, some (_, y1, _, y2)) => some (bezY (ctrl y1) (ctrl y2) x)
  | none => none

/-- the published timing function at `x`, rounded to binary32 -/
def timingPublished (name : String) (x : Float32) : Option Float32 :=
  match published.find? (·.1 == name) with
  | some (_, none) => some x
  | some (_, some c) => some (f32OfRat (timing c (ratOfF32 x)))
  | none => none

end Spec
