import MinaModel.Macro.Animator
/-!
# The documented reading of a `timeline!` sentence (spec for C15)

Declarative: each scalar setting is what the *last* argument of its kind says (default otherwise), the
keyframes are the keyframe arguments in source order. Documented constants, written out here by hand
(not taken from the generated table): `s` = seconds, `ms` = 1/1000 s, `from` = 0 %, `to` = 100 %,
`N%` = N/100.
-/
namespace Spec

variable {α : Type} [Num α]

def lastSome {β : Type} (l : List (Option β)) : Option β := l.foldl (fun acc x => match x with | some v => some v | none => acc) none

/-- documented unit of a duration/delay literal -/
def unitSeconds (suffix : String) : Option α :=
  if suffix == "s" then some (lit 1) else if suffix == "ms" then some (dec 1 3) else none

def readSeconds (l : NumLit) : Except MacroErr α :=
  match unitSeconds (α := α) l.suffix with
  | some u => .ok (l.asNum * u)
  | none => .error .badSecondsSuffix

def readPosition (p : KfPos) : α :=
  match p with
  | .from_ => lit 0
  | .to_ => lit 1
  | .percent l => l.asNum * dec 1 2

def readRepeat (r : Option NumLit) : Except MacroErr Repeat :=
  match r with
  | none => .ok .infinite
  | some l => if l.isU32 then .ok (.times l.mant) else .error .repeatOutOfRange

def secondsOrDefault (o : Option NumLit) (dflt : α) : Except MacroErr α :=
  match o with
  | some l => readSeconds l
  | none => .ok dflt

def repeatOrDefault (o : Option (Option NumLit)) (dflt : Repeat) : Except MacroErr Repeat :=
  match o with
  | some r => readRepeat r
  | none => .ok dflt

/-- the documented reading of one configuration's argument list -/
def reading (args : List Arg) : Except MacroErr (ConfigM α) :=
  let durArg := lastSome (args.map fun a => match a with | .duration l => some l | _ => none)
  let delArg := lastSome (args.map fun a => match a with | .delay l => some l | _ => none)
  let easing := lastSome (args.map fun a => match a with | .easing p => some p | _ => none)
  let repArg := lastSome (args.map fun a => match a with | .repeatTimes l => some (some l) | .repeatInfinite => some none | _ => none)
  let reverse := args.any fun a => match a with | .reverse => true | _ => false
  let kfs := args.filterMap fun a => match a with | .keyframe p v => some (readPosition (α := α) p, v) | _ => none
  let base : Config α := Config.default
  combine3 (secondsOrDefault durArg base.duration) (secondsOrDefault delArg base.delay) (repeatOrDefault repArg base.repeat_) fun d dl r =>
    { duration := d, delay := dl, easing := easing, repeat_ := r, reverse := reverse || base.reverse, keyframes := kfs }

end Spec
