import MinaModel.Gen.EasingTable
/-!
# Published control points (hand transcription — trusted, T6)

CSS Easing Functions Level 1 (`ease`, `ease-in`, `ease-out`, `ease-in-out`) and easings.net
(`cubic-bezier(...)` shown for each non-elastic, non-bounce curve), in units of 10^-2.
This file is *not* generated: `C13.easingTable_eq_published` compares the table parsed from
`easing.rs` with it.
-/
namespace Spec

def publishedScaleExp : Nat := 2

def published : List (String × Option (Int × Int × Int × Int)) := [
  ("Linear", none),
  ("Ease", some (25, 10, 25, 100)),
  ("In", some (42, 0, 100, 100)),
  ("Out", some (0, 0, 58, 100)),
  ("InOut", some (42, 0, 58, 100)),
  ("InSine", some (12, 0, 39, 0)),
  ("OutSine", some (61, 100, 88, 100)),
  ("InOutSine", some (37, 0, 63, 100)),
  ("InQuad", some (11, 0, 50, 0)),
  ("OutQuad", some (50, 100, 89, 100)),
  ("InOutQuad", some (45, 0, 55, 100)),
  ("InCubic", some (32, 0, 67, 0)),
  ("OutCubic", some (33, 100, 68, 100)),
  ("InOutCubic", some (65, 0, 35, 100)),
  ("InQuart", some (50, 0, 75, 0)),
  ("OutQuart", some (25, 100, 50, 100)),
  ("InOutQuart", some (76, 0, 24, 100)),
  ("InQuint", some (64, 0, 78, 0)),
  ("OutQuint", some (22, 100, 36, 100)),
  ("InOutQuint", some (83, 0, 17, 100)),
  ("InExpo", some (70, 0, 84, 0)),
  ("OutExpo", some (16, 100, 30, 100)),
  ("InOutExpo", some (87, 0, 13, 100)),
  ("InCirc", some (55, 0, 100, 45)),
  ("OutCirc", some (0, 55, 45, 100)),
  ("InOutCirc", some (85, 0, 15, 100)),
  ("InBack", some (36, 0, 66, -56)),
  ("OutBack", some (34, 156, 64, 100)),
  ("InOutBack", some (68, -60, 32, 160))]

/-- the In/Out pairs and the self-mirrored InOut curves, by variant name -/
def inOutPairs : List (String × String) := [
  ("In", "Out"), ("InSine", "OutSine"), ("InQuad", "OutQuad"), ("InCubic", "OutCubic"),
  ("InQuart", "OutQuart"), ("InQuint", "OutQuint"), ("InExpo", "OutExpo"), ("InCirc", "OutCirc"),
  ("InBack", "OutBack")]

def selfMirrored : List String := [
  "Linear", "InOut", "InOutSine", "InOutQuad", "InOutCubic", "InOutQuart", "InOutQuint", "InOutExpo",
  "InOutCirc", "InOutBack"]

def backFamily : List String := ["InBack", "OutBack", "InOutBack"]

end Spec
