import MinaModel.SubTimeline
/-!
# The CSS reading of a keyframe list, per property (declarative spec for C01)

* `cssReals`   — the keyframes that define the property, in order, each with the easing in force there:
                 the latest easing given *on a keyframe defining the property*, otherwise the default.
* `cssFrames`  — those, preceded by a synthetic `(0 %, default value, default easing)` frame iff the
                 first defining keyframe is not at 0 %, and followed by a `(100 %, last value)` frame iff
                 the last one is before 100 %. Empty iff no keyframe defines the property.
-/
namespace Spec

variable {α : Type} [Num α]

def cssReals : List (PKeyframe α) → Easing → List (Frame α)
  | [], _ => []
  | k :: ks, cur =>
    match k.value with
    | some v => ⟨k.time, v, k.easing.getD cur⟩ :: cssReals ks (k.easing.getD cur)
    | none => cssReals ks cur

def cssFrames (kfs : List (PKeyframe α)) (dflt : Val α) (e0 : Easing) : List (Frame α) :=
  match cssReals kfs e0 with
  | [] => []
  | f :: rs =>
    let body := (if lit 0 < f.time then [⟨lit 0, dflt, e0⟩] else []) ++ (f :: rs)
    match body.getLast? with
    | some l => if l.time < lit 1 then body ++ [⟨lit 1, l.value, l.easing⟩] else body
    | none => body

end Spec
