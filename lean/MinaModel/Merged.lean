import MinaModel.Timeline
/-!
# `MergedTimeline` — `core/src/timeline.rs`

A total duration is `Option α` with `none` = `f32::INFINITY`.
-/

variable {α : Type} [Num α]

structure Merged (α : Type) where
  timelines : List (Timeline α)
deriving Repr

/-- `update`: every component in order on the same target -/
def Merged.update (m : Merged α) (target : List (Val α)) (time : α) : Except Panic (List (Val α)) :=
  go m.timelines target
where
  go : List (Timeline α) → List (Val α) → Except Panic (List (Val α))
    | [], tgt => .ok tgt
    | tl :: rest, tgt =>
      match tl.update tgt time with
      | .ok tgt' => go rest tgt'
      | .error p => .error p

def Merged.startWith (m : Merged α) (values : List (Val α)) : Merged α :=
  ⟨m.timelines.map (·.startWith values)⟩

/-- `Iterator::min_by(|a,b| a.partial_cmp(b).unwrap_or(Less))`: the *first* minimum is kept
(`min_by` returns the first of equal elements). -/
def minFirst : List α → Option α
  | [] => none
  | x :: xs => some (xs.foldl (fun m y => if y < m then y else m) x)

/-- `Iterator::max_by(..)`: the *last* maximum is kept -/
def maxLast : List α → Option α
  | [] => none
  | x :: xs => some (xs.foldl (fun m y => if y < m then m else y) x)

def Merged.delay (m : Merged α) : α := (minFirst (m.timelines.map (·.delay))).getD (lit 0)

/-- compare two total durations where `none` is +∞ -/
def durLt (a b : Option α) : Bool :=
  match a, b with
  | some x, some y => x < y
  | some _, none => true
  | none, _ => false

def Merged.duration (m : Merged α) : Option α :=
  match m.timelines.map (·.duration) with
  | [] => some (lit 0)
  | x :: xs => xs.foldl (fun mx y => if durLt y mx then mx else y) x

/-- `Ord for Repeat`: Infinite above every finite count, then by ordinal -/
def Repeat.lt (a b : Repeat) : Bool :=
  let key (r : Repeat) : Nat × Nat := (if r == .infinite then 1 else 0, r.ordinal)
  let (a1, a2) := key a
  let (b1, b2) := key b
  a1 < b1 || (a1 == b1 && a2 < b2)

/-- `Iterator::max()` keeps the last maximum -/
def Merged.repeat_ (m : Merged α) : Repeat :=
  match m.timelines.map (·.repeat_) with
  | [] => .none
  | x :: xs => xs.foldl (fun mx y => if Repeat.lt y mx then mx else y) x

/-- `reduce(|d1,d2| if d1 == d2 {d1} else {None}).flatten()` over `Option<f32>` -/
def Merged.cycleDuration (m : Merged α) : Option α :=
  match m.timelines.map (·.cycleDuration) with
  | [] => none
  | x :: xs => xs.foldl (fun d1 d2 =>
      match d1, d2 with
      | some a, some b => if a == b then some a else none
      | none, none => none
      | _, _ => none) x


/-! ## a merge whose components are merges — `MergedTimeline<MergedTimeline<T>>`

`MergedTimeline<T>` is itself a `Timeline`, so it can be a component of another merge.  The outer merge applies the
same folds to the *reported* metadata of its parts; in particular an inner merge without a common cycle duration (or an
empty one) reports `None`, and then the outer merge has none either. -/

structure Merged2 (α : Type) where
  parts : List (Merged α)
deriving Repr

def Merged2.update (m : Merged2 α) (target : List (Val α)) (time : α) : Except Panic (List (Val α)) :=
  go m.parts target
where
  go : List (Merged α) → List (Val α) → Except Panic (List (Val α))
    | [], tgt => .ok tgt
    | p :: rest, tgt =>
      match p.update tgt time with
      | .ok tgt' => go rest tgt'
      | .error e => .error e

def Merged2.startWith (m : Merged2 α) (values : List (Val α)) : Merged2 α :=
  ⟨m.parts.map (·.startWith values)⟩

def Merged2.delay (m : Merged2 α) : α := (minFirst (m.parts.map (·.delay))).getD (lit 0)

def Merged2.duration (m : Merged2 α) : Option α :=
  match m.parts.map (·.duration) with
  | [] => some (lit 0)
  | x :: xs => xs.foldl (fun mx y => if durLt y mx then mx else y) x

def Merged2.repeat_ (m : Merged2 α) : Repeat :=
  match m.parts.map (·.repeat_) with
  | [] => .none
  | x :: xs => xs.foldl (fun mx y => if Repeat.lt y mx then mx else y) x

def Merged2.cycleDuration (m : Merged2 α) : Option α :=
  match m.parts.map (·.cycleDuration) with
  | [] => none
  | x :: xs => xs.foldl (fun d1 d2 =>
      match d1, d2 with
      | some a, some b => if a == b then some a else none
      | none, none => none
      | _, _ => none) x

/-- the flat merge with the same components in the same order -/
def Merged2.flatten (m : Merged2 α) : Merged α := ⟨m.parts.flatMap (·.timelines)⟩
