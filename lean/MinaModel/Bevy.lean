import MinaModel.Merged
/-!
# The Bevy plugin — `bevy/src/animator.rs`, `bevy/src/selection.rs`, `bevy/src/lib.rs`

One entity. Component values are a `List (Val α)` (the fields of the animated component). A timeline is a
`Merged α` (a `Box<dyn SafeTimeline>` is a single or merged derive-generated timeline).
`animate<T>` runs after `chain_animations<K,T>` and `select_animation<K,T>` (`.before(animate::<T>)`); the
relative order of those two is not fixed by the plugin and is a parameter of the frame step.
Events sent by `animate` in frame N are read by `chain_animations` in frame N+1 (it runs earlier in the
frame; `Events` is double-buffered and every reader sees each event once).
-/

variable {α : Type} [Num α]

inductive AnimState where
  | none | waiting | playing | ended
deriving Repr, DecidableEq, Inhabited

structure BAnimator (α : Type) where
  enabled : Bool
  posNs : Nat
  timeline : Option (Merged α)
  state : AnimState
deriving Repr

def BAnimator.new : BAnimator α := ⟨true, 0, none, .none⟩

/-- `Animator::reset` -/
def BAnimator.reset (a : BAnimator α) : BAnimator α := { a with posNs := 0, state := .none }

/-- `x >= timeline.duration()` where `none` is `f32::INFINITY` -/
def geDur (x : α) (d : Option α) : Bool :=
  match d with
  | some d => d ≤ x
  | none => false

/-- the three state-transition `if`s of `animate`, in order; returns the end-of-frame state and whether
any of them fired (`state_changed`) -/
def stepState (s : AnimState) (delayReached durReached : Bool) : AnimState × Bool :=
  let (s1, c1) := if s == .none then (AnimState.waiting, true) else (s, false)
  let (s2, c2) := if s1 == .waiting && delayReached then (AnimState.playing, true) else (s1, c1)
  if durReached && s2 != .ended then (AnimState.ended, true) else (s2, c2)

/-- `Duration +=` overflows beyond `u64::MAX` seconds -/
def bevyClockMax : Nat := 2 ^ 64 * 1000000000

/-- one run of the `animate<T>` system for the entity: new animator, new component, events sent -/
def animateStep (a : BAnimator α) (comp : List (Val α)) (deltaNs : Nat) :
    Except Panic (BAnimator α × List (Val α) × List AnimState) :=
  if !a.enabled then .ok (a, comp, []) else
  match a.timeline with
  | none =>
    if a.state ≠ .none then .ok ({ a with state := .none }, comp, [.none]) else .ok (a, comp, [])
  | some tl =>
    let pos : α := Num.secsOfNanos a.posNs
    let durReached := geDur pos tl.duration
    -- (repaired) also evaluate on the frame that ends an animation whose Playing phase was skipped
    let evalNow := a.state == .playing || (durReached && a.state != .ended)
    let compR : Except Panic (List (Val α)) := if evalNow then tl.update comp pos else .ok comp
    match compR with
    | .error p => .error p
    | .ok comp' =>
      let (s', changed) := stepState a.state (decide (tl.delay ≤ pos)) durReached
      if s' != .ended && a.posNs + deltaNs ≥ bevyClockMax then .error .durationOverflow else
      let posNs' := if s' != .ended then a.posNs + deltaNs else a.posNs
      .ok ({ a with state := s', posNs := posNs' }, comp', if changed then [s'] else [])

/-- `AnimationSelector<K,T>` with `K = Nat` -/
structure Selector (α : Type) where
  timelines : List (Nat × Merged α)
  key : Nat
  prevKey : Option Nat
deriving Repr

def Selector.lookup (s : Selector α) (k : Nat) : Option (Merged α) :=
  (s.timelines.find? (·.1 == k)).map (·.2)

/-- `select_animation`: acts when the key differs from the previously applied key -/
def selectStep (sel : Selector α) (a : BAnimator α) (comp : List (Val α)) : Selector α × BAnimator α :=
  if sel.prevKey == some sel.key then (sel, a) else
  let tl := (sel.lookup sel.key).map (·.startWith comp)
  ({ sel with prevKey := some sel.key }, ({ a with timeline := tl } : BAnimator α).reset)

/-- `chain_animations`: for every `Ended` event of the entity, advance the key along the chain map -/
def chainStep (next : List (Nat × Nat)) (sel : Selector α) (events : List AnimState) : Selector α :=
  events.foldl (fun s ev =>
    if ev == .ended then
      match next.find? (·.1 == s.key) with
      | some (_, k') => { s with key := k' }
      | none => s
    else s) sel

/-- everything on the entity: component P with animator (+ optional selector and chain), and an optional
second animated component Q with its own animator -/
structure World (α : Type) where
  compP : List (Val α)
  animP : BAnimator α
  sel : Option (Selector α)
  chain : Option (List (Nat × Nat))
  compQ : List (Val α)
  animQ : Option (BAnimator α)
  pending : List AnimState          -- events sent during the previous frame (all animators of the entity)
deriving Repr

/-- one `App::update` with `Time::delta() = deltaNs`; returns the new world and the events sent this frame
by `animate<P>` and `animate<Q>` separately.

Schedule parameters (bevy fixes only `chain`, `select` → `animate<P>`):
* `chainFirst` — `chain_animations<K,P>` runs before `select_animation<K,P>`;
* `qFirst` — `animate<Q>` (an unrelated animator on the same entity) runs before `chain_animations<K,P>`,
  so its events are read in the very frame they are sent. -/
def frame (w : World α) (deltaNs : Nat) (chainFirst : Bool) (qFirst : Bool := false) :
    Except Panic (World α × List AnimState × List AnimState) :=
  -- animate<Q> does not depend on anything P-related: compute it up front
  let qRes : Except Panic (Option (BAnimator α) × List (Val α) × List AnimState) :=
    match w.animQ with
    | none => .ok (none, w.compQ, [])
    | some aq =>
      match animateStep aq w.compQ deltaNs with
      | .ok (aQ, cQ, evQ) => .ok (some aQ, cQ, evQ)
      | .error p => .error p
  match qRes with
  | .error p => .error p
  | .ok (aQ, cQ, evQ) =>
    let chainEvents := if qFirst then w.pending ++ evQ else w.pending
    let doChain (sel : Option (Selector α)) : Option (Selector α) :=
      match sel, w.chain with
      | some s, some next => some (chainStep next s chainEvents)
      | s, _ => s
    let doSelect (sel : Option (Selector α)) (a : BAnimator α) : Option (Selector α) × BAnimator α :=
      match sel with
      | some s => let (s', a') := selectStep s a w.compP; (some s', a')
      | none => (none, a)
    let (sel', animP') :=
      if chainFirst then doSelect (doChain w.sel) w.animP
      else let (s1, a1) := doSelect w.sel w.animP; (doChain s1, a1)
    match animateStep animP' w.compP deltaNs with
    | .error p => .error p
    | .ok (aP, cP, evP) =>
      .ok ({ w with compP := cP, animP := aP, sel := sel', compQ := cQ, animQ := aQ,
                    pending := if qFirst then evP else evP ++ evQ }, evP, evQ)

/-- Several animated entities in one `App`.  Each system iterates over all matching entities and treats them
independently; the event queue is shared, but every `AnimationStateChanged` names its entity and `chain_animations`
looks up the selector *of that entity*, so an entity's `pending` events are exactly its own.  One `App::update` is
therefore one `frame` of every entity, under the same delta and the same system order. -/
def frameAll (ws : List (World α)) (deltaNs : Nat) (chainFirst : Bool) (qFirst : Bool := false) :
    Except Panic (List (World α × List AnimState × List AnimState)) :=
  match ws with
  | [] => .ok []
  | w :: rest =>
    match frame w deltaNs chainFirst qFirst with
    | .error p => .error p
    | .ok r =>
      match frameAll rest deltaNs chainFirst qFirst with
      | .error p => .error p
      | .ok rs => .ok (r :: rs)
