import MinaModel.Animator
import MinaModel.Spec.Timing
import MinaModel.Spec.CssValue
import MinaModel.Bevy
import MinaModel.Quat
import MinaModel.Macro.Animator
import MinaModel.Macro.Derive
import Std.Data.HashMap
/-!
# Line-protocol driver: the model at `Float32`

One op per input line, one canonical line out. The Rust harness executes the same ops file against the
real crates; the two output streams must be textually identical.
-/

abbrev F := Float32

structure Shape where
  name : String
  fields : List (String × Bool)      -- (kind name, animated?)
deriving Inhabited

inductive Obj where
  | tl (sh : Shape) (t : Timeline F)
  | mg (sh : Shape) (m : Merged F)
  | mg2 (sh : Shape) (m : Merged2 F)
  | an (sh : Shape) (a : Animator F)
  | qt (sh : Shape) (cfg : Config Rat) (tsF : TimeScale F) (starts : Option (List (Val Rat)))   -- exact configuration, for the spec oracle

structure Session where
  shapes : List Shape := []
  slots : Std.HashMap Nat Obj := {}
  chain : Std.HashMap String (List (Val F)) := {}   -- running target of `updchain`, per shape
  worlds : List (Option (List (World F))) := []    -- bevy: per system order (index = 2*chainFirst + qFirst) the entities of the App
  clockPaused : Bool := false                      -- bevy's `Time`: paused / relative speed (not mina code; driver-level glue)
  clockSpeed : Float := 1.0
  subs : Std.HashMap Nat (SubTl F) := {}           -- stand-alone sub-timelines (ops sub / subov / subat)

def fb (s : String) : F := Float32.ofBits (UInt32.ofNat s.toNat!)
def bits (x : F) : String := toString x.toBits.toNat

def isNumKind (k : String) : Bool := k == "f32" || k == "f64"

def parseVal (kind tok : String) : Val F :=
  if isNumKind kind then .num (fb tok) else
  match Gen.IntKind.ofName? kind with
  | some k => .int k tok.toInt!
  | none => .num (fb tok)

def showVal : Val F → String
  | .num x => bits x
  | .int _ n => toString n

def showVals (vs : List (Val F)) : String := " ".intercalate (vs.map showVal)

def dfltVal (kind : String) : Val F :=
  if isNumKind kind then .num (lit 0) else
  match Gen.IntKind.ofName? kind with
  | some k => .int k 0
  | none => .num (lit 0)

def parseEasing (s : String) : Easing :=
  if s.startsWith "c" && (s.drop 1).all Char.isDigit && s.length > 1 then .custom (s.drop 1).toNat! else
  match Gen.EasingId.ofName? s with
  | some id => .builtin id
  | none => Easing.default

def parseRepeat (s : String) : Repeat :=
  if s == "n" then .none else if s == "i" then .infinite else .times s.toNat!

def showRepeat : Repeat → String
  | .none => "n" | .infinite => "i" | .times k => toString k

def showOptDur : Option F → String
  | none => "inf" | some d => bits d

def Shape.animFields (sh : Shape) : List (AnimField F) :=
  (sh.fields.zipIdx.filter (·.1.2)).map fun ((k, _), i) => ⟨i, dfltVal k⟩

def Shape.animKinds (sh : Shape) : List String := (sh.fields.filter (·.2)).map (·.1)

def Shape.parseVals (sh : Shape) (toks : List String) : List (Val F) :=
  (sh.fields.zip toks).map fun ((k, _), t) => parseVal k t

def showPos : Pos F → String
  | .notStarted => "N"
  | .active t r v => s!"A{bits t}:{if r then 1 else 0}{if v then 1 else 0}"
  | .ended t => s!"E{bits t}"

def fnv (h : UInt64) (s : String) : UInt64 :=
  s.foldl (fun h c => (h ^^^ (UInt64.ofNat c.toNat)) * 1099511628211) h

def showExc (r : Except Panic String) : String :=
  match r with | .ok s => s | .error p => "panic:" ++ p.tag

def showAnim (a : Animator F) : String :=
  let p := match a.paused with | some (s, ns) => s!"{s}@{ns}" | none => "-"
  s!"{showVals a.values} | {a.state} {if a.isEnded then 1 else 0} {a.stateNs} {p}"

/-- parse a timeline configuration starting at token `p`; returns the config and the next index -/
def parseConfig (sh : Shape) (w : Array String) (p : Nat) : Config F × Nat := Id.run do
  let base : Config F := Config.default
  let dur := if w[p]! == "-" then base.duration else fb w[p]!
  let delay := if w[p+1]! == "-" then base.delay else fb w[p+1]!
  let rep := if w[p+2]! == "-" then base.repeat_ else parseRepeat w[p+2]!
  let rev := if w[p+3]! == "-" then base.reverse else w[p+3]! == "1"
  let e0 := if w[p+4]! == "-" then base.easing else parseEasing w[p+4]!
  let nkf := w[p+5]!.toNat!
  let kinds := sh.animKinds
  let mut q := p + 6
  let mut kfs : List (Keyframe F) := []
  for _ in [0:nkf] do
    let t := fb w[q]!
    let e := if w[q+1]! == "-" then none else some (parseEasing w[q+1]!)
    let mut vals : List (Option (Val F)) := []
    let mut r := q + 2
    for k in kinds do
      vals := vals ++ [if w[r]! == "-" then none else some (parseVal k w[r]!)]
      r := r + 1
    kfs := ⟨t, e, vals⟩ :: kfs          -- collected in reverse (linear time; timelines of 70 000 keyframes)
    q := r
  return ({ easing := e0, delay := delay, duration := dur, keyframes := kfs.reverse, repeat_ := rep, reverse := rev }, q)

def toQ : Val F → Val Rat
  | .num x => .num (Spec.ratOfF32 x)
  | .int k n => .int k n

def cfgToQ (c : Config F) : Config Rat :=
  { easing := c.easing, delay := Spec.ratOfF32 c.delay, duration := Spec.ratOfF32 c.duration,
    keyframes := c.keyframes.map fun k => ⟨Spec.ratOfF32 k.time, k.easing, k.vals.map (·.map toQ)⟩,
    repeat_ := c.repeat_, reverse := c.reverse }

def showQ : Option (Except Panic (Val Rat)) → String
  | none => "-"
  | some (.error p) => "panic:" ++ p.tag
  | some (.ok (.num q)) => bits (Spec.f32OfRat q)
  | some (.ok (.int _ n)) => toString n

def tsOf (w : Array String) (p : Nat) : TimeScale F :=
  ⟨fb w[p+1]!, fb w[p]!, parseRepeat w[p+2]!, w[p+3]! == "1"⟩

def stateIdx : AnimState → Nat
  | .none => 0 | .waiting => 1 | .playing => 2 | .ended => 3

def insertSorted (x : Nat) : List Nat → List Nat
  | [] => [x]
  | y :: ys => if x ≤ y then x :: y :: ys else y :: insertSorted x ys

def showWorld (w : World F) (evs : List AnimState) : String :=
  let a := w.animP
  let key := match w.sel with | some s => toString s.key | none => "-"
  let sorted := (evs.map stateIdx).foldl (fun acc x => insertSorted x acc) []
  let ev := ",".intercalate (sorted.map toString)
  let q := match w.animQ with
    | some aq => s!"{stateIdx aq.state} {aq.posNs} {showVals w.compQ}"
    | none => "-"
  s!"{stateIdx a.state} {a.posNs} {if a.enabled then 1 else 0} {showVals w.compP} | key={key} | ev={ev} | {q}"

/-! ### macro ops: token encoding shared with harness/macro_harness -/

def parseFields (s : String) : List (String × String) :=
  (s.splitOn ";").filterMap fun f =>
    if f.isEmpty then none else
    match f.splitOn "=" with
    | [n] => some (n, n)                       -- field-init shorthand `{ x }` = `{ x: x }`
    | n :: rest => some (n, "=".intercalate rest)
    | [] => none

def parseTok (t : String) : Tok :=
  if t == "for" then .kwFor else if t == "after" then .kwAfter else if t == "reverse" then .kwReverse
  else if t == "infinite" then .kwInfinite else if t == "from" then .kwFrom else if t == "to" then .kwTo
  else if t == "default" then .kwDefault else if t == "%" then .percent else if t == "," then .comma
  else if t.startsWith "L:" then .lit (LitLex.lex (t.drop 2).toString)
  else if t.startsWith "P:" then .path (t.drop 2).toString
  else if t.startsWith "B:" then
    -- `Tok.braces` is a body of *named* fields; a tuple-index member (`{ 0: 1.0 }`) is a different token tree, which the
    -- macro rejects ("only supports named fields")
    let fs := parseFields (t.drop 2).toString
    if fs.all (fun f => match f.1.toList with | c :: _ => !c.isDigit | [] => false) then .braces fs else .other t
  else .other t

/-- `syn::Lit` folds `-` + numeric literal into one negative literal -/
def foldNeg : List Tok → List Tok
  | .other "O:-" :: .lit l :: rest => if l.kind != .other && l.kind != .byte then .lit { l with neg := true } :: foldNeg rest else .other "O:-" :: foldNeg (.lit l :: rest)
  | t :: rest => t :: foldNeg rest
  | [] => []

def parseSentence (ws : List String) : Sentence :=
  match ws with
  | "[" :: rest =>
    if rest.getLast? == some "]" then .list (foldNeg ((rest.dropLast).map parseTok)) else .single (foldNeg (ws.map parseTok))
  | _ => .single (foldNeg (ws.map parseTok))

def showKfVals : KfVals → String
  | .default_ => "D"
  | .explicit fs => "&".intercalate (fs.map fun (n, e) => s!"{n}={e}")

def showOptBits : Option F → String
  | some x => bits x | none => "-"

def showChain (b : BuilderChain F) : String :=
  let rep := match b.repeat_ with | none => "-" | some .infinite => "i" | some (.times k) => toString k | some .none => "n"
  let kfs := ",".intercalate (b.keyframes.map fun (p, v) => s!"{bits p}:{showKfVals v}")
  s!"tl[dur={showOptBits b.duration};delay={showOptBits b.delay};ease={b.easing.getD "-"};rep={rep};rev={if b.reverse then 1 else 0};kf={kfs}]"

def showExpansion : Expansion F → String
  | .timeline c => showChain c
  | .merged cs => "merged[" ++ "|".intercalate (cs.map showChain) ++ "]"

/-- split the words of a `manim` op at the `ARM` markers -/
def splitArmsFuel : Nat → List String → List (List String)
  | 0, _ => []
  | _, [] => []
  | n + 1, "ARM" :: rest =>
    let body := rest.takeWhile (· != "ARM")
    body :: splitArmsFuel n (rest.dropWhile (· != "ARM"))
  | n + 1, _ :: rest => splitArmsFuel n rest

def splitArms (ws : List String) : List (List String) := splitArmsFuel (ws.length + 1) ws

def parseDefaults (d : String) : Option (String × DefaultValues) :=
  if d == "D:none" then none else
  let body := (d.drop 2).toString
  match body.splitOn ":E:" with
  | [s, e] => some (s, .expr e)
  | _ =>
    match body.splitOn ":I:" with
    | [s, fs] => some (s, .inline (parseFields fs))
    | _ => some (body, .none_)

def showDefaults : DefaultValues → String
  | .none_ => "none"
  | .expr e => "expr:" ++ e
  | .inline fs => "inline:" ++ "&".intercalate (fs.map fun (n, e) => s!"{n}={e}")

def asMerged : Obj → Option (Shape × Merged F)
  | .tl sh t => some (sh, ⟨[t]⟩)
  | .mg sh m => some (sh, m)
  | .mg2 _ _ => none
  | .an _ _ => none
  | .qt _ _ _ _ => none

/-- an entity from the arguments of `bapp` / `bent`:
`<a> <b> <tlslot|-> <enabled> <sel: none | s0,s1,s2,s3> <key> <chain: none | a>b,c>d> <q: none | z,tlslot|->` -/
def mkWorld (st : Session) (w : Array String) : World F :=
  let getP (tok : String) : Option (Merged F) :=
    if tok == "-" then none else ((st.slots.get? tok.toNat!).bind asMerged).map (·.2)
  let compP : List (Val F) := [.num (fb w[1]!), .num (fb w[2]!)]
  let animP : BAnimator F := { enabled := w[4]! != "0", posNs := 0, timeline := getP w[3]!, state := .none }
  let sel : Option (Selector F) :=
    if w[5]! == "none" then none else
    let toks := w[5]!.splitOn ","
    let tls := (toks.zipIdx.filterMap fun (t, i) => (getP t).map fun m => (i, m))
    some { timelines := tls, key := w[6]!.toNat!, prevKey := none }
  let chain : Option (List (Nat × Nat)) :=
    if w[7]! == "none" then none else
    -- HashMap insertion: a later pair for the same key replaces the earlier one
    let pairs := (w[7]!.splitOn ",").filterMap fun p => match p.splitOn ">" with | [x, y] => some (x.toNat!, y.toNat!) | _ => none
    some pairs.reverse
  let (compQ, animQ) : List (Val F) × Option (BAnimator F) :=
    if w[8]! == "none" then ([], none) else
    match w[8]!.splitOn "," with
    | [z, t] => ([.num (fb z)], some { enabled := true, posNs := 0, timeline := getP t, state := .none })
    | _ => ([], none)
  { compP := compP, animP := animP, sel := sel, chain := chain, compQ := compQ, animQ := animQ, pending := [] }

/-- `Duration::as_secs_f64` -/
def f64SecsOfNanos (n : Nat) : Float :=
  Float.ofNat (n / 1000000000) + Float.ofNat (n % 1000000000) / Float.ofNat 1000000000

/-- `Duration::from_secs_f64` for a non-negative finite value: nearest-even nanoseconds of the exact binary64 value -/
def f64NanosOfSecs (x : Float) : Nat :=
  let b : Nat := x.toBits.toNat
  let ex : Nat := (b / 2 ^ 52) % 2048
  let fr : Nat := b % 2 ^ 52
  if ex == 2047 || b / 2 ^ 63 == 1 then 0 else
  let (m, e) : Nat × Int := if ex == 0 then (fr, -1074) else (fr + 2 ^ 52, (ex : Int) - 1075)
  let (n, d) : Nat × Nat := if e ≥ 0 then (m * 2 ^ e.toNat * 1000000000, 1) else (m * 1000000000, 2 ^ (-e).toNat)
  let q : Nat := n / d
  let r : Nat := n % d
  if 2 * r > d || (2 * r == d && q % 2 == 1) then q + 1 else q

/-- bevy_time 0.11 `Time::update_with_instant`: the delta the systems see for a raw (wall-clock) delta -/
def clockDelta (paused : Bool) (speed : Float) (rawNs : Nat) : Nat :=
  if paused then 0 else if speed != 1.0 then f64NanosOfSecs (speed * f64SecsOfNanos rawNs) else rawNs

/-- per system order: the entities' observations joined by ` ## ` (no events outside a frame) -/
def showVariants (ws : List (Option (List (World F)))) : String :=
  " || ".intercalate (ws.map fun o => match o with
    | some es => " ## ".intercalate (es.map fun wd => showWorld wd [])
    | none => "panic")

/-- a trailing `@k` selects entity k of the App (default 0) -/
def splitEnt (w : Array String) : Array String × Nat :=
  match w.back? with
  | some t => if t.startsWith "@" then (w.pop, (t.drop 1).toString.toNat!) else (w, 0)
  | none => (w, 0)

def onEnt (ws : List (Option (List (World F)))) (k : Nat) (f : World F → World F) : List (Option (List (World F))) :=
  ws.map fun o => o.map fun es => es.zipIdx.map fun (wd, i) => if i == k then f wd else wd


def runLine (st : Session) (line : String) : Session × String := Id.run do
  let w := (line.splitOn " ").filter (· ≠ "") |>.toArray
  if w.size == 0 then return (st, "")
  let op := w[0]!
  match op with
  | "#" => return (st, "#")
  | "fmod" => return (st, bits (fmod (fb w[1]!) (fb w[2]!)))
  | "round" => return (st, bits (Num.round (fb w[1]!)))
  | "ofint" => return (st, bits (Num.ofInt (α := F) w[1]!.toInt!))
  | "dec" => return (st, bits (dec (α := F) w[1]!.toNat! w[2]!.toNat!))
  | "mul" => return (st, bits (fb w[1]! * fb w[2]!))
  | "n2s" => return (st, bits (Num.secsOfNanos (α := F) w[1]!.toNat!))
  | "s2n" => return (st, showExc ((Num.nanosOfSecs (fb w[1]!)).map toString))
  | "lerp" =>
    let k := w[1]!
    let x := fb w[4]!
    return (st, showExc (((parseVal k w[2]!).lerp (parseVal k w[3]!) x).map showVal))
  | "lerp64" =>
    -- f64: `(*self as f32 * (1.0 - x) + *y1 as f32 * x) as f64`
    let a := (Float.ofBits (UInt64.ofNat w[1]!.toNat!)).toFloat32
    let b := (Float.ofBits (UInt64.ofNat w[2]!.toNat!)).toFloat32
    let r : F := lerp a b (fb w[3]!)
    return (st, toString r.toFloat.toBits.toNat)
  | "vec" =>
    let k := w[2]!
    let n := w[3]!.toNat!
    let a := (List.range n).map fun i => parseVal k w[4+i]!
    let b := (List.range n).map fun i => parseVal k w[4+n+i]!
    return (st, showExc ((lerpVec a b (fb w[4+2*n]!)).map showVals))
  | "quat" =>
    -- `impl Lerp for Quat`: glam's SSE2 `Quat::lerp`
    let g := fun i => fb w[i]!
    let r := Q4.lerpSse Float32.sqrt (fun d : F => d.toBits >>> 31 == 1) ⟨g 1, g 2, g 3, g 4⟩ ⟨g 5, g 6, g 7, g 8⟩ (g 9)
    return (st, " ".intercalate [bits r.x, bits r.y, bits r.z, bits r.w])
  | "dquat" =>
    -- `impl Lerp for DQuat`: glam's scalar `DQuat::lerp(…, x as f64)`
    let g := fun i => Float.ofBits (UInt64.ofNat w[i]!.toNat!)
    let r := Q4.lerpScalar Float.sqrt (fun d : Float => d >= 0.0) 1.0 ⟨g 1, g 2, g 3, g 4⟩ ⟨g 5, g 6, g 7, g 8⟩ (fb w[9]!).toFloat
    let b64 := fun (x : Float) => toString x.toBits.toNat
    return (st, " ".intercalate [b64 r.x, b64 r.y, b64 r.z, b64 r.w])
  | "sub" =>
    let kind := if w[2]! == "f" then "f32" else "i16"
    let n := w[5]!.toNat!
    let kfs : List (PKeyframe F) := (List.range n).map fun k =>
      ⟨fb w[6 + 3 * k]!, (if w[8 + 3 * k]! == "-" then none else some (parseVal kind w[8 + 3 * k]!)),
       (if w[7 + 3 * k]! == "-" then none else some (parseEasing w[7 + 3 * k]!))⟩
    let s := SubTl.fromKeyframes kfs (parseVal kind w[3]!) (parseEasing w[4]!)
    return ({ st with subs := st.subs.insert w[1]!.toNat! s }, "ok")
  | "subcf" =>
    match st.subs.get? w[2]!.toNat! with
    | none => return (st, "bad-slot")
    | some src => return ({ st with subs := st.subs.insert w[1]!.toNat! src }, "ok")
  | "subov" =>
    match st.subs.get? w[1]!.toNat! with
    | none => return (st, "bad-slot")
    | some s =>
      -- the value's kind is that of the sub-timeline's frames (an empty sub-timeline ignores the call)
      match s.frames.head? with
      | none => return (st, "ok")
      | some ⟨_, .int k _, _⟩ => return ({ st with subs := st.subs.insert w[1]!.toNat! (s.overrideStart (.int k w[2]!.toInt!)) }, "ok")
      | some _ => return ({ st with subs := st.subs.insert w[1]!.toNat! (s.overrideStart (.num (fb w[2]!))) }, "ok")
  | "subat" =>
    match st.subs.get? w[1]!.toNat! with
    | none => return (st, "bad-slot")
    | some s =>
      match s.valueAt (fb w[2]!) w[3]!.toNat! (w[4]! == "1") with
      | none => return (st, "-")
      | some r => return (st, showExc (r.map showVal))
  | "ease" =>
    let e := parseEasing w[1]!
    let outs := (w.toList.drop 2).map fun t => bits (e.calc (fb t))
    return (st, " ".intercalate outs)
  | "easepar" =>
    -- a pure function gives the same results from any number of threads: the single-threaded values and 0 differences
    let e := parseEasing w[1]!
    let outs := (w.toList.drop 2).map fun t => bits (e.calc (fb t))
    return (st, " ".intercalate outs ++ " 0")
  | "easeraw" =>
    let n := ((w[1]!).drop 1).toNat!
    let outs := (w.toList.drop 2).map fun t => bits (customEasing n (fb t) : F)
    return (st, " ".intercalate outs)
  | "easepub" =>
    let outs := (w.toList.drop 2).map fun t => match Spec.parametricPublished w[1]! (fb t) with | some y => bits y | none => "?"
    return (st, " ".intercalate outs)
  | "timing" =>
    let outs := (w.toList.drop 2).map fun t => match Spec.timingPublished w[1]! (fb t) with | some y => bits y | none => "?"
    return (st, " ".intercalate outs)
  | "easesweep" =>
    let e := parseEasing w[1]!
    let start := w[2]!.toNat!
    let count := w[3]!.toNat!
    let stride := w[4]!.toNat!
    let mut h : UInt64 := 14695981039346656037
    for i in [0:count] do
      let x := Float32.ofBits (UInt32.ofNat (start + i * stride))
      h := fnv h (bits (e.calc x))
    return (st, toString h.toNat)
  | "repcmp" =>
    let (a, b) := (parseRepeat w[1]!, parseRepeat w[2]!)
    let c := if Repeat.lt a b then "lt" else if Repeat.lt b a then "gt" else "eq"
    let mx := if Repeat.lt b a then a else b          -- `Ord::max` returns the second argument when they compare equal
    return (st, s!"{c} {c} {if Repeat.lt a b then 1 else 0} {if a == b then 1 else 0} {showRepeat mx}")
  | "posdef" =>
    let ts : TimeScale F := TimeScale.default
    let outs := (w.toList.drop 1).map fun t => showPos (ts.position (fb t))
    return (st, s!"{bits ts.delay} {bits ts.duration} {showRepeat ts.repeat_} {showOptDur ts.totalDuration} " ++ " ".intercalate outs)
  | "pos" =>
    let ts := tsOf w 1
    let outs := (w.toList.drop 5).map fun t => showPos (ts.position (fb t))
    return (st, showOptDur ts.totalDuration ++ " " ++ " ".intercalate outs)
  | "prep" =>
    let ts := tsOf w 1
    let n := w[6]!.toNat!
    let bt := (List.range n).map fun k => fb w[7 + k]!
    match prepareFrame ts bt (fb w[5]!) with
    | none => return (st, "-")
    | some (t, i, o) => return (st, s!"{bits t} {i} {if o then 1 else 0}")
  | "possweep" =>
    let ts := tsOf w 1
    let start := w[5]!.toNat!
    let count := w[6]!.toNat!
    let stride := w[7]!.toNat!
    let mut h : UInt64 := 14695981039346656037
    for i in [0:count] do
      let x := Float32.ofBits (UInt32.ofNat (start + i * stride))
      h := fnv h (showPos (ts.position x))
    return (st, toString h.toNat)
  | "shape" =>
    let fields := (w.toList.drop 2).map fun t =>
      match t.splitOn ":" with
      | [k, a] => (k, a == "a")
      | _ => (t, false)
    return ({ st with shapes := st.shapes ++ [⟨w[1]!, fields⟩] }, "ok")
  | "tl" =>
    let slot := w[1]!.toNat!
    match st.shapes.find? (·.name == w[2]!) with
    | none => return (st, "bad-shape")
    | some sh =>
      let (cfg, _) := parseConfig sh w 3
      let t := Timeline.build sh.animFields cfg
      return ({ st with slots := st.slots.insert slot (.tl sh t) }, "ok")
  | "qtl" =>
    match st.shapes.find? (·.name == w[2]!) with
    | none => return (st, "bad-shape")
    | some sh =>
      let (cfg, _) := parseConfig sh w 3
      return ({ st with slots := st.slots.insert w[1]!.toNat! (.qt sh (cfgToQ cfg) ⟨cfg.delay, cfg.duration, cfg.repeat_, cfg.reverse⟩ none) }, "ok")
  | "qstart" =>
    match st.slots.get? w[1]!.toNat! with
    | some (.qt sh cfg tsF _) =>
      let vs := (sh.parseVals (w.toList.drop 2)).map toQ
      return ({ st with slots := st.slots.insert w[1]!.toNat! (.qt sh cfg tsF (some vs)) }, "ok")
    | _ => return (st, "bad-slot")
  | "qupd" =>
    match st.slots.get? w[1]!.toNat! with
    | some (.qt sh cfg tsF starts) =>
      let fieldsQ : List (AnimField Rat) := sh.animFields.map fun f => ⟨f.idx, toQ f.dflt⟩
      -- the position is the time scale's (binary32, C03); C01 is about the value *at that position*
      let (sF, ovr) : F × Bool := match tsF.position (fb w[2]!) with
        | .active t rep rev => (t, !rep && !rev)
        | .notStarted => (lit 0, true)
        | .ended t => (t, false)
      let vals := Spec.timelineValuesAt fieldsQ cfg starts (Spec.ratOfF32 sF) ovr
      let nf := sh.fields.length
      let outs := (List.range nf).map fun i =>
        match vals.find? (·.1 == i) with
        | some (_, v) => showQ v
        | none => "-"
      return (st, " ".intercalate outs)
    | _ => return (st, "bad-slot")
  | "meta" =>
    match st.slots.get? w[1]!.toNat! with
    | some (.tl _ t) =>
      return (st, s!"{bits t.delay} {match t.cycleDuration with | some c => bits c | none => "-"} {showOptDur t.duration} {showRepeat t.repeat_}")
    | some (.mg _ m) =>
      return (st, s!"{bits m.delay} {match m.cycleDuration with | some c => bits c | none => "-"} {showOptDur m.duration} {showRepeat m.repeat_}")
    | some (.mg2 _ m) =>
      return (st, s!"{bits m.delay} {match m.cycleDuration with | some c => bits c | none => "-"} {showOptDur m.duration} {showRepeat m.repeat_}")
    | _ => return (st, "bad-slot")
  | "start" =>
    match st.slots.get? w[1]!.toNat! with
    | some (.tl sh t) =>
      let vs := sh.parseVals (w.toList.drop 2)
      return ({ st with slots := st.slots.insert w[1]!.toNat! (.tl sh (t.startWith vs)) }, "ok")
    | some (.mg sh m) =>
      let vs := sh.parseVals (w.toList.drop 2)
      return ({ st with slots := st.slots.insert w[1]!.toNat! (.mg sh (m.startWith vs)) }, "ok")
    | some (.mg2 sh m) =>
      let vs := sh.parseVals (w.toList.drop 2)
      return ({ st with slots := st.slots.insert w[1]!.toNat! (.mg2 sh (m.startWith vs)) }, "ok")
    | _ => return (st, "bad-slot")
  | "clone" =>
    match st.slots.get? w[1]!.toNat! with
    | some o => return ({ st with slots := st.slots.insert w[2]!.toNat! o }, "ok")
    | none => return (st, "bad-slot")
  | "upd" =>
    match st.slots.get? w[1]!.toNat! with
    | some (.tl sh t) =>
      let vs := sh.parseVals (w.toList.drop 3)
      return ({ st with chain := st.chain.insert sh.name vs }, showExc ((t.update vs (fb w[2]!)).map showVals))
    | some (.mg sh m) =>
      let vs := sh.parseVals (w.toList.drop 3)
      return ({ st with chain := st.chain.insert sh.name vs }, showExc ((m.update vs (fb w[2]!)).map showVals))
    | some (.mg2 sh m) =>
      let vs := sh.parseVals (w.toList.drop 3)
      return ({ st with chain := st.chain.insert sh.name vs }, showExc ((m.update vs (fb w[2]!)).map showVals))
    | _ => return (st, "bad-slot")
  | "updchain" =>
    let go (sh : Shape) (r : List (Val F) → Except Panic (List (Val F))) : Session × String :=
      match st.chain.get? sh.name with
      | none => (st, "no-chain")
      | some vs =>
        match r vs with
        | .ok vs' => ({ st with chain := st.chain.insert sh.name vs' }, showVals vs')
        | .error p => ({ st with chain := st.chain.erase sh.name }, "panic:" ++ p.tag)
    match st.slots.get? w[1]!.toNat! with
    | some (.tl sh t) => return go sh (fun vs => t.update vs (fb w[2]!))
    | some (.mg sh m) => return go sh (fun vs => m.update vs (fb w[2]!))
    | some (.mg2 sh m) => return go sh (fun vs => m.update vs (fb w[2]!))
    | _ => return (st, "bad-slot")
  | "merge" =>
    let slot := w[1]!.toNat!
    let n := w[2]!.toNat!
    let mut tls : List (Timeline F) := []
    let mut shape : Option Shape := none
    for i in [0:n] do
      match st.slots.get? w[3+i]!.toNat! with
      | some (.tl sh t) => tls := tls ++ [t]; shape := some sh
      | _ => pure ()
    match shape, st.shapes.find? (·.name == w[3+n]!) with
    | some sh, _ => return ({ st with slots := st.slots.insert slot (.mg sh ⟨tls⟩) }, "ok")
    | none, some sh => return ({ st with slots := st.slots.insert slot (.mg sh ⟨tls⟩) }, "ok")
    | none, none => return (st, "bad-shape")
  | "merge2" =>
    let slot := w[1]!.toNat!
    let n := w[2]!.toNat!
    let mut parts : List (Merged F) := []
    for i in [0:n] do
      match st.slots.get? w[3+i]!.toNat! with
      | some (.mg _ m) => parts := parts ++ [m]
      | some (.tl _ t) => parts := parts ++ [⟨[t]⟩]
      | _ => pure ()
    match st.shapes.find? (·.name == w[3+n]!) with
    | some sh => return ({ st with slots := st.slots.insert slot (.mg2 sh ⟨parts⟩) }, "ok")
    | none => return (st, "bad-shape")
  | "anim" =>
    let slot := w[1]!.toNat!
    match st.shapes.find? (·.name == w[2]!) with
    | none => return (st, "bad-shape")
    | some sh =>
      let ns := w[3]!.toNat!
      let s0 := w[4]!.toNat!
      let nf := sh.fields.length
      let v0 := sh.parseVals ((w.toList.drop 5).take nf)
      let mut tls : List (Option (Merged F)) := []
      for i in [0:ns] do
        let tok := w[5+nf+i]!
        if tok == "-" then tls := tls ++ [none] else
        match (st.slots.get? tok.toNat!).bind asMerged with
        | some (_, m) => tls := tls ++ [some m]
        | none => tls := tls ++ [none]
      let a := Animator.new tls s0 v0
      return ({ st with slots := st.slots.insert slot (.an sh a) }, showAnim a)
  | "adv" =>
    match st.slots.get? w[1]!.toNat! with
    | some (.an sh a) =>
      match a.advance (fb w[2]!) with
      | .ok a' => return ({ st with slots := st.slots.insert w[1]!.toNat! (.an sh a') }, showAnim a')
      | .error p => return ({ st with slots := st.slots.erase w[1]!.toNat! }, "panic:" ++ p.tag)
    | _ => return (st, "bad-slot")
  | "set" =>
    match st.slots.get? w[1]!.toNat! with
    | some (.an sh a) =>
      match a.setState w[2]!.toNat! with
      | .ok a' => return ({ st with slots := st.slots.insert w[1]!.toNat! (.an sh a') }, showAnim a')
      | .error p => return ({ st with slots := st.slots.erase w[1]!.toNat! }, "panic:" ++ p.tag)
    | _ => return (st, "bad-slot")
  | "reset" => return ({}, "ok")
  | "drop" =>
    let k := w[1]!.toNat!
    return (if st.slots.contains k then ({ st with slots := st.slots.erase k }, "ok") else (st, "bad-slot"))
  | "border" => return (st, "ok")
  | "mtl" =>
    match expandSentence (α := F) (parseSentence (w.toList.drop 1)) with
    | .ok ex => return (st, showExpansion ex)
    | .error _ => return (st, "reject")
  | "manim" =>
    let ws := w.toList.drop 1
    let arms := (splitArms (ws.drop 1)).map fun a =>
      match a with
      | states :: "=>" :: body => (states.splitOn "|", parseSentence body)
      | states :: body => (states.splitOn "|", parseSentence body)
      | [] => ([], parseSentence [])
    match expandAnimator (α := F) { defaults := parseDefaults (ws.headD "D:none"), arms := arms } with
    | .ok ex =>
      let ons := ",".intercalate (ex.ons.map fun (s, e) => s!"{s}:{showExpansion e}")
      return (st, s!"anim[state={ex.fromState.getD "-"};defaults={showDefaults ex.defaultValues};on={ons}]")
    | .error _ => return (st, "reject")
  | "mderive" =>
    let vis := match w[1]! with | "pub" => "pub" | "crate" => "pub(crate)" | _ => ""
    let kind := match w[2]! with | "named" => StructKind.named | "tuple" => .tuple | "unit" => .unit | _ => .enum_
    let attrs : List AnimAttr := if w[4]! == "none" then [] else
      (w[4]!.splitOn ",").filterMap fun a => match a.splitOn "=" with
        | [n, v] => (match v.splitOn ":" with
          | k :: rest => some ⟨n, k == "S", ":".intercalate rest⟩
          | [] => none)
        | _ => none
    let fields : List DField := (w.toList.drop 5).filterMap fun f => match f.splitOn ":" with
      | [n, t, a] => some ⟨n, t.replace "~" "::", a == "a" || a == "A"⟩
      | n :: rest => (match rest.reverse with
        | a :: tyRev => some ⟨n, (":".intercalate tyRev.reverse).replace "~" "::", a == "a" || a == "A"⟩
        | [] => none)
      | _ => none
    match expandDerive { name := w[3]!, vis := vis, kind := kind, fields := fields, attrs := attrs } with
    | .ok o =>
      let anim := ",".intercalate (o.animated.map fun (n, t) => s!"{n}:{t}")
      let j := fun (l : List String) => ",".intercalate l
      return (st, s!"derive[target={o.targetName};remote={lastSegment o.remotePath};vfromty={o.remotePath};tl={o.timelineName};data={o.dataName};builder={o.builderName};vis={o.vis};anim={anim};setters={j o.setters};kfrom={j o.keyframeFromCopies};vfrom={j o.valuesFromCopies};upd={j o.updateAssigns};start={j o.startAssigns};fake={if o.fakeAccess then 1 else 0};init={j (o.animated.map fun (n, _) => s!"{n}<{n}")}]")
    | .error _ => return (st, "reject")
  | "bapp" =>
    let wd := mkWorld st w
    -- bevy leaves the order of (chain, select) and of (animate<Q>, chain) open: keep one App per order;
    -- the implementation must follow one of them consistently (checked by the runner)
    let ws := [some [wd], some [wd], some [wd], some [wd]]
    return ({ st with worlds := ws, clockPaused := false, clockSpeed := 1.0 }, showVariants ws)
  | "setcomp" =>
    let (w, ek) := splitEnt w
    let ws := onEnt st.worlds ek fun wd => { wd with compP := [.num (fb w[1]!), .num (fb w[2]!)] }
    return ({ st with worlds := ws }, showVariants ws)
  | "reinsel" =>
    let (w, ek) := splitEnt w
    let getP (tok : String) : Option (Merged F) :=
      if tok == "-" then none else ((st.slots.get? tok.toNat!).bind asMerged).map (·.2)
    let tls := ((w[1]!.splitOn ",").zipIdx.filterMap fun (t, i) => (getP t).map fun m => (i, m))
    -- a freshly inserted selector has not been applied yet (no previous key)
    let ws := onEnt st.worlds ek fun wd =>
      match wd.sel with
      | some _ => { wd with sel := some { timelines := tls, key := w[2]!.toNat!, prevKey := none } }
      | none => wd
    return ({ st with worlds := ws }, showVariants ws)
  | "tpause" => return ({ st with clockPaused := w[1]! == "1" }, showVariants st.worlds)
  | "tspeed" => return ({ st with clockSpeed := Float.ofBits (UInt64.ofNat w[1]!.toNat!) }, showVariants st.worlds)
  | "bent" =>
    -- one more animated entity in the same App
    let wd := mkWorld st w
    let ws := st.worlds.map fun ow => ow.map fun es => es ++ [wd]
    return ({ st with worlds := ws }, showVariants ws)
  | "frame" =>
    let res : List (Option (List (World F × List AnimState))) := st.worlds.zipIdx.map fun (ow, i) =>
      match ow with
      | none => none
      | some es =>
        match frameAll es (clockDelta st.clockPaused st.clockSpeed w[1]!.toNat!) (i / 2 == 1) (i % 2 == 1) with
        | .ok r => some (r.map fun (wd', evP, evQ) => (wd', evP ++ evQ))
        | .error _ => none
    let ws := res.map fun o => o.map fun r => r.map (·.1)
    return ({ st with worlds := ws }, " || ".intercalate (res.map fun o => match o with
      | some r => " ## ".intercalate (r.map fun (wd, ev) => showWorld wd ev)
      | none => "panic"))
  | "setkey" =>
    let (w, ek) := splitEnt w
    let ws := onEnt st.worlds ek fun wd => { wd with sel := wd.sel.map fun s => { s with key := w[1]!.toNat! } }
    return ({ st with worlds := ws }, showVariants ws)
  | "enable" =>
    let (w, ek) := splitEnt w
    let ws := onEnt st.worlds ek fun wd => { wd with animP := { wd.animP with enabled := w[1]! == "1" } }
    return ({ st with worlds := ws }, showVariants ws)
  | "breset" =>
    let (_, ek) := splitEnt w
    let ws := onEnt st.worlds ek fun wd => { wd with animP := wd.animP.reset }
    return ({ st with worlds := ws }, showVariants ws)
  | "settl" =>
    let (w, ek) := splitEnt w
    let tl := ((st.slots.get? w[1]!.toNat!).bind asMerged).map (·.2)
    let ws := onEnt st.worlds ek fun wd =>
      match tl with
      | some m => { wd with animP := { wd.animP with timeline := some m } }
      | none => wd
    return ({ st with worlds := ws }, showVariants ws)
  | "terminal" =>
    let (w, ek) := splitEnt w
    let tl := ((st.slots.get? w[1]!.toNat!).bind asMerged).map (·.2)
    let outs := st.worlds.map fun ow =>
      match ow.bind (·[ek]?), tl with
      | some wd, some m => (match m.update wd.compP (dec 1000000000 0) with | .ok c => showVals c | .error _ => "panic")
      | some wd, none => showVals wd.compP
      | none, _ => "panic"
    return (st, " || ".intercalate outs)
  | "evalat" =>
    let (w, ek) := splitEnt w
    let tl := ((st.slots.get? w[1]!.toNat!).bind asMerged).map (·.2)
    let outs := st.worlds.map fun ow =>
      match ow.bind (·[ek]?), tl with
      | some wd, some m => (match m.update wd.compP (Num.secsOfNanos w[2]!.toNat!) with | .ok c => showVals c | .error _ => "panic")
      | some wd, none => showVals wd.compP
      | none, _ => "panic"
    return (st, " || ".intercalate outs)
  | "setpos" =>
    let (w, ek) := splitEnt w
    let ws := onEnt st.worlds ek fun wd => { wd with animP := { wd.animP with posNs := w[1]!.toNat! } }
    return ({ st with worlds := ws }, showVariants ws)
  | _ => return (st, "bad-op")

partial def loop (h : IO.FS.Stream) (out : IO.FS.Stream) (st : Session) : IO Unit := do
  let line ← h.getLine
  if line.isEmpty then return ()
  let (st', o) := runLine st line.trimAscii.toString
  out.putStrLn o
  loop h out st'

def main : IO Unit := do
  let stdout ← IO.getStdout
  loop (← IO.getStdin) stdout {}
