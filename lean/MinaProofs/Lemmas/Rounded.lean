import MinaProofs.Lemmas.RatNum
import MinaModel.TimeScale
import MinaModel.SubTimeline
import Mathlib.Order.Monotone.Basic
/-!
# A third number system: ℚ with an abstract rounding after every operation

`Rd ρ` carries a rational and applies `ρ : ℚ → ℚ` to the exact result of every arithmetic operation,
literal and conversion — the shape of IEEE-754 arithmetic ("compute exactly, then round"), with the
exponent range left unbounded.  The generic model functions (`lerp`, `bezY`, `TimeScale.position`,
`interpolate`, …) are *the same Lean terms* that run at `Float32` against the Rust crates and at `ℚ`
in the property theorems; here they are instantiated at `Rd ρ`, and the "exactly" / "stays in range"
clauses of the properties are proved **for every faithful rounding `ρ`** (`Faithful`): monotone,
idempotent, odd, fixing 0, 1, 2, 3 and ½.  Round-to-nearest-even to 24 significant bits has these
properties (that it does is the IEEE-754 contract — trusted-base item T5, assumed, not proved);
`Faithful id` shows the hypothesis is satisfiable, and `Props/*Rounded.lean` pair each theorem with
kernel evaluations of the same term on the real `Float32` model.
-/

/-- a rational produced by rounded arithmetic -/
structure Rd (ρ : ℚ → ℚ) where
  val : ℚ

namespace Rd
variable {ρ : ℚ → ℚ}

@[ext] theorem ext' {a b : Rd ρ} (h : a.val = b.val) : a = b := by cases a; cases b; simp_all

instance : Add (Rd ρ) := ⟨fun a b => ⟨ρ (a.val + b.val)⟩⟩
instance : Sub (Rd ρ) := ⟨fun a b => ⟨ρ (a.val - b.val)⟩⟩
instance : Mul (Rd ρ) := ⟨fun a b => ⟨ρ (a.val * b.val)⟩⟩
instance : Div (Rd ρ) := ⟨fun a b => ⟨ρ (a.val / b.val)⟩⟩
instance : Neg (Rd ρ) := ⟨fun a => ⟨-a.val⟩⟩          -- sign flip is exact
instance : LT (Rd ρ) := ⟨fun a b => a.val < b.val⟩
instance : LE (Rd ρ) := ⟨fun a b => a.val ≤ b.val⟩
instance : BEq (Rd ρ) := ⟨fun a b => a.val == b.val⟩

instance : Num (Rd ρ) where
  lit n := ⟨ρ (n : ℚ)⟩
  dec m e := ⟨ρ ((m : ℚ) / (10 : ℚ) ^ e)⟩
  fmod a b := ⟨ρ (fmod a.val b.val)⟩                  -- the float remainder is exact; rounding it again is harmless
  round a := ⟨ρ (RatNum.round a.val)⟩
  toInt? a := RatNum.toInt? a.val
  nanosOfSecs a := RatNum.nanosOfSecs a.val
  secsOfNanos n := ⟨ρ (ρ ((n / 1000000000 : Nat) : ℚ) + ρ (ρ ((n % 1000000000 : Nat) : ℚ) / ρ 1000000000))⟩
  decLt := fun a b => inferInstanceAs (Decidable (a.val < b.val))
  decLe := fun a b => inferInstanceAs (Decidable (a.val ≤ b.val))

@[simp] theorem add_val (a b : Rd ρ) : (a + b).val = ρ (a.val + b.val) := rfl
@[simp] theorem sub_val (a b : Rd ρ) : (a - b).val = ρ (a.val - b.val) := rfl
@[simp] theorem mul_val (a b : Rd ρ) : (a * b).val = ρ (a.val * b.val) := rfl
@[simp] theorem div_val (a b : Rd ρ) : (a / b).val = ρ (a.val / b.val) := rfl
@[simp] theorem neg_val (a : Rd ρ) : (-a).val = -a.val := rfl
@[simp] theorem lit_val (n : Nat) : (lit n : Rd ρ).val = ρ (n : ℚ) := rfl
@[simp] theorem dec_val (m e : Nat) : (dec m e : Rd ρ).val = ρ ((m : ℚ) / (10 : ℚ) ^ e) := rfl
@[simp] theorem fmod_val (a b : Rd ρ) : (fmod a b : Rd ρ).val = ρ (fmod a.val b.val) := rfl
theorem lt_iff (a b : Rd ρ) : a < b ↔ a.val < b.val := Iff.rfl
theorem le_iff (a b : Rd ρ) : a ≤ b ↔ a.val ≤ b.val := Iff.rfl
@[simp] theorem beq_iff (a b : Rd ρ) : ((a == b) = true) ↔ a.val = b.val := by
  show ((a.val == b.val) = true) ↔ _
  simp

end Rd

/-- what the theorems need of a rounding: the IEEE-754 "correctly rounded" contract, restricted to what is used -/
structure Faithful (ρ : ℚ → ℚ) : Prop where
  mono : Monotone ρ
  idem : ∀ x, ρ (ρ x) = ρ x
  zero : ρ 0 = 0
  one : ρ 1 = 1
  two : ρ 2 = 2
  three : ρ 3 = 3
  half : ρ (1 / 2) = 1 / 2
  odd : ∀ x, ρ (-x) = -ρ x

/-- exact arithmetic is a faithful rounding: the hypothesis is satisfiable -/
theorem Faithful.id : Faithful (fun x => x) :=
  ⟨fun _ _ h => h, fun _ => rfl, rfl, rfl, rfl, rfl, rfl, fun _ => rfl⟩

/-- a value is representable when rounding leaves it alone (every result of an operation is) -/
def Rd.Rep {ρ : ℚ → ℚ} (a : Rd ρ) : Prop := ρ a.val = a.val

namespace Faithful
variable {ρ : ℚ → ℚ} (F : Faithful ρ)
include F

theorem nonneg {x : ℚ} (h : 0 ≤ x) : 0 ≤ ρ x := by have := F.mono h; rwa [F.zero] at this
theorem le_one {x : ℚ} (h : x ≤ 1) : ρ x ≤ 1 := by have := F.mono h; rwa [F.one] at this
theorem le_half {x : ℚ} (h : x ≤ 1 / 2) : ρ x ≤ 1 / 2 := by have := F.mono h; rwa [F.half] at this
theorem nonpos {x : ℚ} (h : x ≤ 0) : ρ x ≤ 0 := by have := F.mono h; rwa [F.zero] at this
theorem rep_add (a b : Rd ρ) : (a + b).Rep := F.idem _
theorem rep_sub (a b : Rd ρ) : (a - b).Rep := F.idem _
theorem rep_mul (a b : Rd ρ) : (a * b).Rep := F.idem _
theorem rep_div (a b : Rd ρ) : (a / b).Rep := F.idem _
theorem rep_lit (n : Nat) : (lit n : Rd ρ).Rep := F.idem _
/-- rounding never crosses a representable value -/
theorem le_rep {x : ℚ} {b : Rd ρ} (hb : b.Rep) (h : x ≤ b.val) : ρ x ≤ b.val := by
  have := F.mono h; rwa [hb] at this
theorem rep_le {x : ℚ} {b : Rd ρ} (hb : b.Rep) (h : b.val ≤ x) : b.val ≤ ρ x := by
  have := F.mono h; rwa [hb] at this

end Faithful

/-! ## a genuinely lossy faithful rounding: round-half-away-from-zero onto the grid of multiples of `2^-k`

This shows `Faithful` is satisfied by a rounding that actually discards information (unlike `Faithful.id`), so the
`…_any_rounding` theorems are not vacuous beyond exact arithmetic.  (Binary32's round-to-nearest-even differs in that
its grid is relative; that it is monotone, idempotent, odd and fixes small integers and ½ is the IEEE-754 contract.) -/

/-- nearest multiple of `2^-k`, ties away from zero -/
def fixedRound (k : Nat) (x : ℚ) : ℚ := (roundInt (x * 2 ^ k) : ℚ) / 2 ^ k

theorem roundInt_neg (q : ℚ) : roundInt (-q) = -roundInt q := by
  unfold roundInt
  rcases lt_trichotomy q 0 with h | h | h
  · have h' : ¬ (-q < 0) := by linarith
    simp only [h, h', if_true, if_false, neg_neg]
  · subst h
    have : ⌊(2⁻¹ : ℚ)⌋ = 0 := by rw [Int.floor_eq_iff]; constructor <;> norm_num
    simp [this]
  · have h' : ¬ (q < 0) := by linarith
    have h'' : -q < 0 := by linarith
    simp only [h', h'', if_true, if_false, neg_neg]

theorem fixedRound_of_int (k : Nat) (n : Int) : fixedRound k ((n : ℚ) / 2 ^ k) = (n : ℚ) / 2 ^ k := by
  unfold fixedRound
  have h : (2 : ℚ) ^ k ≠ 0 := by positivity
  rw [div_mul_cancel₀ _ h, roundInt_intCast]

theorem Faithful.fixed (k : Nat) (hk : 1 ≤ k) : Faithful (fixedRound k) where
  mono := by
    intro a b h
    unfold fixedRound
    have p : (0 : ℚ) < 2 ^ k := by positivity
    have : roundInt (a * 2 ^ k) ≤ roundInt (b * 2 ^ k) := roundInt_mono (by nlinarith)
    exact div_le_div_of_nonneg_right (by exact_mod_cast this) p.le
  idem := by intro x; exact fixedRound_of_int k _
  zero := by simpa using fixedRound_of_int k 0
  one := by
    have := fixedRound_of_int k (2 ^ k)
    have h : (2 : ℚ) ^ k ≠ 0 := by positivity
    simpa [div_self h] using this
  two := by
    have := fixedRound_of_int k (2 * 2 ^ k)
    have h : (2 : ℚ) ^ k ≠ 0 := by positivity
    simpa [mul_div_assoc, div_self h] using this
  three := by
    have := fixedRound_of_int k (3 * 2 ^ k)
    have h : (2 : ℚ) ^ k ≠ 0 := by positivity
    simpa [mul_div_assoc, div_self h] using this
  half := by
    obtain ⟨j, rfl⟩ : ∃ j, k = j + 1 := ⟨k - 1, by omega⟩
    have := fixedRound_of_int (j + 1) (2 ^ j)
    have e : ((2 ^ j : Int) : ℚ) / 2 ^ (j + 1) = 1 / 2 := by
      have h : (2 : ℚ) ^ j ≠ 0 := by positivity
      push_cast; rw [pow_succ]; field_simp
    rwa [e] at this
  odd := by
    intro x
    unfold fixedRound
    rw [neg_mul, roundInt_neg]; push_cast; ring
