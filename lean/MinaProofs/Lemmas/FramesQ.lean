import MinaProofs.Lemmas.Frames
/-!
# Structure of a built sub-timeline (generic), and its order facts at ℚ
-/
open Spec

section generic
variable {α : Type} [Num α]

/-- easing in force after a prefix -/
def lastE : List (PKeyframe α) → Easing → Easing
  | [], cur => cur
  | k :: ks, cur => match k.value with
    | some _ => lastE ks (k.easing.getD cur)
    | none => lastE ks cur

theorem cssReals_append (p q : List (PKeyframe α)) (e : Easing) :
    cssReals (p ++ q) e = cssReals p e ++ cssReals q (lastE p e) := by
  induction p generalizing e with
  | nil => rfl
  | cons k ks ih =>
    simp only [List.cons_append, cssReals, lastE]
    cases k.value <;> simp [ih]

theorem synthPre_length_le (d : Val α) (e : Easing) (ks : List (PKeyframe α)) : (synthPre d e ks).length ≤ 1 := by
  induction ks with
  | nil => simp [synthPre]
  | cons k ks ih => simp only [synthPre]; split <;> [simp; (split <;> [simp; exact ih])]

theorem synthPre_append_of_reals (d : Val α) (e : Easing) (p q : List (PKeyframe α))
    (h : cssReals p e ≠ []) : synthPre d e (p ++ q) = synthPre d e p := by
  induction p with
  | nil => simp [cssReals] at h
  | cons k ks ih =>
    simp only [List.cons_append, synthPre]
    split
    · rfl
    · cases hv : k.value with
      | some v => simp
      | none =>
        simp only [Option.isSome_none, Bool.false_eq_true, if_false]
        apply ih
        simpa [cssReals, hv] using h

theorem mem_cssReals_time (p : List (PKeyframe α)) (e : Easing) (f : Frame α) (h : f ∈ cssReals p e) :
    ∃ k ∈ p, f.time = k.time := by
  induction p generalizing e with
  | nil => simp [cssReals] at h
  | cons k ks ih =>
    simp only [cssReals] at h
    cases hv : k.value with
    | none =>
      rw [hv] at h
      obtain ⟨k', hk', ht⟩ := ih _ h
      exact ⟨k', by simp [hk'], ht⟩
    | some v =>
      rw [hv] at h
      rcases List.mem_cons.1 h with rfl | h
      · exact ⟨k, by simp, rfl⟩
      · obtain ⟨k', hk', ht⟩ := ih _ h
        exact ⟨k', by simp [hk'], ht⟩

theorem mem_synthPre (d : Val α) (e : Easing) (ks : List (PKeyframe α)) (f : Frame α) (h : f ∈ synthPre d e ks) :
    f = ⟨lit 0, d, e⟩ := by
  induction ks with
  | nil => simp [synthPre] at h
  | cons k ks ih =>
    simp only [synthPre] at h
    split at h
    · simpa using h
    · split at h
      · simp at h
      · exact ih h

/-- if there is no synthetic frame, the first defining keyframe is not at a positive position -/
theorem first_real_not_pos (d : Val α) (e : Easing) (ks : List (PKeyframe α)) (r : Frame α) (rs : List (Frame α))
    (hs : synthPre d e ks = []) (hr : cssReals ks e = r :: rs) : ¬ (lit 0 < r.time) := by
  induction ks generalizing e with
  | nil => simp [cssReals] at hr
  | cons k ks ih =>
    simp only [synthPre] at hs
    split at hs
    · simp at hs
    · rename_i hpos
      cases hv : k.value with
      | some v =>
        simp only [cssReals, hv, List.cons.injEq] at hr
        rw [← hr.1]; exact hpos
      | none =>
        simp only [hv, Option.isSome_none, Bool.false_eq_true, if_false] at hs
        simp only [cssReals, hv] at hr
        exact ih e hs hr

/-- shape of what `from_keyframes` returns when some keyframe defines the property -/
theorem fromKeyframes_shape (ks : List (PKeyframe α)) (d : Val α) (e0 : Easing) (h : cssReals ks e0 ≠ []) :
    let F0 := synthPre d e0 ks ++ cssReals ks e0
    let sub := SubTl.fromKeyframes ks d e0
    sub.startOverride = none ∧
    sub.indexMap = (List.range ks.length).map
      (fun j => max (synthPre d e0 (ks.take (j + 1)) ++ cssReals (ks.take (j + 1)) e0).length 1 - 1) ∧
    sub.frames = (match F0.getLast? with
      | some l => if l.time < lit 1 then F0 ++ [⟨lit 1, l.value, l.easing⟩] else F0
      | none => F0) := by
  intro F0 sub
  have hd : (ks.foldl (fkStep d) ⟨[], [], e0, false⟩).hasData = true := by
    rw [fold_hasData]; cases hc : cssReals ks e0 <;> simp_all
  have hf := fold_frames_empty d ks ⟨[], [], e0, false⟩ rfl
  have hi := fold_indexMap d ks ⟨[], [], e0, false⟩
  simp only [sub, SubTl.fromKeyframes, hd, Bool.not_true, Bool.false_eq_true, if_false]
  refine ⟨trivial, ?_, ?_⟩
  · rw [hi]
    simp only [List.nil_append]
    apply List.map_congr_left
    intro j _
    rw [fold_frames_empty d _ ⟨[], [], e0, false⟩ rfl]
  · rw [hf]; rfl

end generic
