import MinaProofs.Lemmas.FramesSorted
import MinaProofs.Props.C14
import MinaProofs.Props.C13
/-!
# The value at a frame's own position is that frame's value
(needs easings that fix 0 and 1 — all built-ins do, C13 — and values whose lerp is exact at 0 and 1 — C14)
-/
open Spec

/-- a set of values on which `lerp` is exact at the endpoints -/
def Lerpable (S : Val ℚ → Prop) : Prop :=
  ∀ a b, S a → S b → a.lerp b 0 = .ok a ∧ a.lerp b 1 = .ok b

theorem lerpable_num : Lerpable (fun v => ∃ x, v = .num x) := by
  rintro a b ⟨x, rfl⟩ ⟨y, rfl⟩
  simp [Val.lerp, C14.lerp_at_zero, C14.lerp_at_one]

theorem lerpable_int (k : Gen.IntKind) : Lerpable (fun v => ∃ n, v = .int k n ∧ k.lo ≤ n ∧ n ≤ k.hi) := by
  rintro a b ⟨m, rfl, hm⟩ ⟨n, rfl, hn⟩
  rw [C14.val_lerp_int, C14.val_lerp_int, C14.lerpInt_at_zero k m n hm hn, C14.lerpInt_at_one k m n hm hn]
  exact ⟨rfl, rfl⟩

/-- built-in easings fix the endpoints -/
def FixesEnds (e : Easing) : Prop := e.calc (0 : ℚ) = 0 ∧ e.calc (1 : ℚ) = 1

theorem builtin_fixesEnds (id : Gen.EasingId) : FixesEnds (.builtin id) := ⟨C13.ease_zero id, C13.ease_one id⟩

theorem value_at_frame_time (ks : List (PKeyframe ℚ)) (hok : KfOK ks) (d : Val ℚ) (e0 : Easing)
    (hdata : cssReals ks e0 ≠ []) (ov : Option (Val ℚ)) (ovr : Bool) (s : ℚ) (hs0 : 0 ≤ s) (hs1 : s ≤ 1)
    (idx : Nat) (hidx : HintOK ks s idx)
    (S : Val ℚ → Prop) (hS : Lerpable S)
    (hSf : ∀ f ∈ (builtSub ks d e0 ov).frames, S f.value ∧ FixesEnds f.easing) (hSo : ∀ v, ov = some v → S v)
    (j : Nat) (fj : Frame ℚ) (hj : (builtSub ks d e0 ov).frames[j]? = some fj) (hsj : fj.time = s)
    (huniq : ∀ i f, (builtSub ks d e0 ov).frames[i]? = some f → f.time = s → i = j) :
    (builtSub ks d e0 ov).valueAt s idx ovr = some (.ok (gFrame (builtSub ks d e0 ov) j ovr fj).value) := by
  obtain ⟨hsorted0, _⟩ := frames_sorted ks hok d e0
  obtain ⟨hfr, _⟩ := builtSub_frames ks d e0 ov
  have hsorted : (builtSub ks d e0 ov).frames.Pairwise (fun a b => a.time ≤ b.time) := by rw [hfr]; exact hsorted0
  set sub := builtSub ks d e0 ov
  have mono : ∀ (i j : Nat) (a b : Frame ℚ), sub.frames[i]? = some a → sub.frames[j]? = some b → i ≤ j → a.time ≤ b.time := by
    intro i j a b ha hb hij
    obtain ⟨hi, rfl⟩ := List.getElem?_eq_some_iff.1 ha
    obtain ⟨hj, rfl⟩ := List.getElem?_eq_some_iff.1 hb
    rcases Nat.lt_or_eq_of_le hij with h | h
    · exact List.pairwise_iff_getElem.1 hsorted i j hi hj h
    · subst h; exact le_rfl
  have hmem : ∀ i f, sub.frames[i]? = some f → f ∈ sub.frames := fun i f h => List.mem_of_getElem? h
  -- the frame as the lookup sees it: same time and easing, value in S
  have hg : ∀ (m : Nat) (f : Frame ℚ), sub.frames[m]? = some f →
      (gFrame sub m ovr f).time = f.time ∧ (gFrame sub m ovr f).easing = f.easing ∧ S (gFrame sub m ovr f).value := by
    intro m f hf
    unfold gFrame
    split
    · rename_i hc
      have hm : m = 0 := by simp only [Bool.and_eq_true, beq_iff_eq] at hc; exact hc.2
      cases ho : sub.startOverride with
      | none => exact ⟨rfl, rfl, (hSf f (hmem m f hf)).1⟩
      | some fo =>
        obtain ⟨f0, v, hf0, hov, rfl⟩ := builtSub_override ks d e0 ov hdata fo ho
        subst hm
        rw [List.head?_eq_getElem?, ← hfr, hf] at hf0
        simp only [Option.some.injEq] at hf0; subst hf0
        exact ⟨rfl, rfl, hSo v hov⟩
    · exact ⟨rfl, rfl, (hSf f (hmem m f hf)).1⟩
  cases valueAt_bracket ks hok d e0 hdata ov s hs0 hs1 idx hidx ovr with
  | seg m f g hf hgf h1 h2 hr =>
    obtain ⟨gt, ge, gS⟩ := hg m f hf
    have hSg : S g.value := (hSf g (hmem _ g hgf)).1
    have hE := (hSf f (hmem m f hf)).2
    rw [hr]
    by_cases hfs : f.time = s
    · have hmj : m = j := huniq m f hf hfs
      subst hmj
      rw [hf] at hj; simp only [Option.some.injEq] at hj; subst hj
      have hgne : g.time ≠ s := by
        intro hgs
        have := huniq (m + 1) g hgf hgs
        omega
      unfold interpolate
      have hd : ¬ ((g.time - (gFrame sub m ovr f).time == lit 0) = true) := by
        rw [gt]; simp only [lit_rat, Nat.cast_zero, beq_iff_eq]; intro h; apply hgne; linarith
      rw [if_neg hd, gt, ge, hfs, sub_self, zero_div]
      dsimp only
      rw [hE.1, (hS _ _ gS hSg).1]
    · have hflt : f.time < s := lt_of_le_of_ne h1 hfs
      by_cases hgs : g.time = s
      · have hmj : m + 1 = j := huniq (m + 1) g hgf hgs
        subst hmj
        rw [hgf] at hj; simp only [Option.some.injEq] at hj; subst hj
        have hgj : gFrame sub (m + 1) ovr g = g := by simp [gFrame]
        unfold interpolate
        have hd : ¬ ((g.time - (gFrame sub m ovr f).time == lit 0) = true) := by
          rw [gt]; simp only [lit_rat, Nat.cast_zero, beq_iff_eq]; intro h; linarith
        have hx : (s - f.time) / (g.time - f.time) = 1 := by rw [hgs]; exact div_self (by linarith)
        rw [if_neg hd, gt, ge, hx]
        dsimp only
        rw [hE.2, (hS _ _ gS hSg).2, hgj]
      · exfalso
        have hgt : s < g.time := lt_of_le_of_ne h2 (Ne.symm hgs)
        rcases Nat.lt_or_ge m j with hlt | hge
        · have := mono (m + 1) j g fj hgf hj (by omega); linarith
        · have := mono j m fj f hj hf hge; linarith
  | last m f hf hl h1 hr =>
    rw [hr]
    have hjm : j ≤ m := by
      have h3 := (List.getElem?_eq_some_iff.1 hj).1
      rw [← hl] at h3
      omega
    have : f.time = s := by
      have := mono j m fj f hj hf hjm
      linarith
    have hmj : m = j := huniq m f hf this
    subst hmj
    rw [hf] at hj; simp only [Option.some.injEq] at hj; subst hj
    rfl
