import MinaProofs.Lemmas.AtFrame
import MinaProofs.Props.C03
/-!
# `prepare_frame` unfolded
-/

/-- the `(normalized_time, enable_start_override)` pair `prepare_frame` derives from a position -/
def posOvr : Pos ℚ → ℚ × Bool
  | .active t rep rev => (t, !rep && !rev)
  | .notStarted => (0, true)
  | .ended t => (t, false)

theorem prepareFrame_eq (ts : TimeScale ℚ) (bt : List ℚ) (hne : bt ≠ []) (time : ℚ) :
    prepareFrame ts bt time =
      some ((posOvr (ts.position time)).1, searchIdx bt (posOvr (ts.position time)).1, (posOvr (ts.position time)).2) := by
  unfold prepareFrame
  have : bt.isEmpty = false := by cases bt <;> simp_all
  simp only [this, Bool.false_eq_true, if_false]
  cases ts.position time <;> simp only [posOvr, searchIdx, lit_rat, Nat.cast_zero] <;> (cases binSearch bt _ <;> rfl)

theorem posOvr_value (p : Pos ℚ) : (posOvr p).1 = p.value := by cases p <;> rfl

/-- the override is disabled exactly when the position is on a repeat pass, a reverse pass, or terminal -/
theorem override_disabled_iff (p : Pos ℚ) :
    (posOvr p).2 = false ↔ (∃ t rep rev, p = .active t rep rev ∧ (rep = true ∨ rev = true)) ∨ (∃ t, p = .ended t) := by
  cases p with
  | notStarted => simp [posOvr]
  | active t rep rev => cases rep <;> cases rev <;> simp [posOvr]
  | ended t => simp [posOvr]
