import MinaProofs.Lemmas.Timeline
import Mathlib.Data.List.Sort
/-!
# The builder's stable sort (`sortKfs`) at ℚ: sorted, a permutation, and unique for distinct positions
-/

theorem insertKf_perm (k : Keyframe ℚ) (l : List (Keyframe ℚ)) : (insertKf k l).Perm (k :: l) := by
  induction l with
  | nil => simp [insertKf]
  | cons h t ih =>
    simp only [insertKf]
    split
    · exact (List.Perm.cons h ih).trans (List.Perm.swap k h t)
    · exact List.Perm.refl _

theorem sortKfs_perm (l : List (Keyframe ℚ)) : (sortKfs l).Perm l := by
  induction l with
  | nil => simp [sortKfs]
  | cons h t ih =>
    have : sortKfs (h :: t) = insertKf h (sortKfs t) := rfl
    rw [this]
    exact (insertKf_perm h _).trans (List.Perm.cons h ih)

def kfLe (a b : Keyframe ℚ) : Prop := a.time ≤ b.time

theorem insertKf_sorted (k : Keyframe ℚ) (l : List (Keyframe ℚ)) (h : l.Pairwise kfLe) :
    (insertKf k l).Pairwise kfLe := by
  induction l with
  | nil => simp [insertKf]
  | cons x t ih =>
    simp only [insertKf]
    rw [List.pairwise_cons] at h
    split
    · rename_i hlt
      rw [List.pairwise_cons]
      refine ⟨?_, ih h.2⟩
      intro y hy
      rcases (mem_insertKf k y t).1 hy with rfl | hy'
      · exact le_of_lt hlt
      · exact h.1 y hy'
    · rename_i hnlt
      have hkx : k.time ≤ x.time := not_lt.1 hnlt
      rw [List.pairwise_cons]
      refine ⟨?_, List.pairwise_cons.2 h⟩
      intro y hy
      rcases List.mem_cons.1 hy with rfl | hy'
      · exact hkx
      · exact le_trans hkx (h.1 y hy')

theorem sortKfs_sorted (l : List (Keyframe ℚ)) : (sortKfs l).Pairwise kfLe := by
  induction l with
  | nil => simp [sortKfs]
  | cons h t ih =>
    have : sortKfs (h :: t) = insertKf h (sortKfs t) := rfl
    rw [this]; exact insertKf_sorted h _ ih

/-- sorting is idempotent on an already sorted list (the builder's output order is canonical) -/
theorem sortKfs_of_sorted (l : List (Keyframe ℚ)) (h : l.Pairwise kfLe) : sortKfs l = l := by
  induction l with
  | nil => rfl
  | cons x t ih =>
    rw [List.pairwise_cons] at h
    have : sortKfs (x :: t) = insertKf x (sortKfs t) := rfl
    rw [this, ih h.2]
    cases t with
    | nil => rfl
    | cons y t' =>
      simp only [insertKf]
      rw [if_neg (not_lt.2 (h.1 y (by simp)))]

/-- with pairwise distinct positions, any two insertion orders of the same keyframes sort to the same list -/
theorem sortKfs_perm_invariant (l₁ l₂ : List (Keyframe ℚ)) (hp : l₁.Perm l₂)
    (hd : l₁.Pairwise (fun a b => a.time ≠ b.time)) : sortKfs l₁ = sortKfs l₂ := by
  apply List.Perm.eq_of_pairwise (le := kfLe) _ (sortKfs_sorted l₁) (sortKfs_sorted l₂)
  · exact (sortKfs_perm l₁).trans (hp.trans (sortKfs_perm l₂).symm)
  · intro a b ha hb hab hba
    have ha' : a ∈ l₁ := (mem_sortKfs a l₁).1 ha
    have hb' : b ∈ l₁ := hp.symm.subset ((mem_sortKfs b l₂).1 hb)
    by_contra hne
    have : Std.Symm (fun (x y : Keyframe ℚ) => x.time ≠ y.time) := ⟨fun _ _ h => h.symm⟩
    have := List.Pairwise.forall hd ha' hb' hne
    exact this (le_antisymm hab hba)
