import MinaProofs.Lemmas.Rounded
import Mathlib.Data.Int.Log
import Mathlib.Algebra.Order.Floor.Ring
import Mathlib.Tactic.Linarith
import Mathlib.Tactic.Ring
import Mathlib.Tactic.NormNum
import Mathlib.Tactic.Positivity
import Mathlib.Tactic.FieldSimp
/-!
# Round-to-nearest-even with 24 significant bits is a faithful rounding

`rne24 : ℚ → ℚ` is IEEE-754 binary32's round-to-nearest-even with the exponent range left unbounded: a non-zero `x`
with `2^e ≤ |x| < 2^(e+1)` is rounded to the nearest multiple of `2^(e-23)`, ties to the even multiple.  On every real
number whose magnitude lies in binary32's normal range `[2^-126, 2^128)` this *is* the rounding binary32 arithmetic
applies to the exact result of an operation.  `Faithful.rne24` proves that it has the seven properties the
`…_any_rounding` theorems assume (monotone, idempotent, odd, fixing 0, 1, 2, 3, ½), which turns trusted-base item T5
("binary32 rounding is faithful") from an assumption into a theorem for all results in the normal range; what remains
assumed is only that the hardware implements this function (and overflow / subnormal results, which the model leaves
out by having no exponent bounds).
-/

/-- nearest integer, ties to the even one -/
def rneInt (y : ℚ) : ℤ :=
  if y - ⌊y⌋ < 1 / 2 then ⌊y⌋ else if 1 / 2 < y - ⌊y⌋ then ⌊y⌋ + 1 else if ⌊y⌋ % 2 = 0 then ⌊y⌋ else ⌊y⌋ + 1

theorem rneInt_floor_le (y : ℚ) : ⌊y⌋ ≤ rneInt y := by
  unfold rneInt; split_ifs <;> omega

theorem rneInt_le_floor_succ (y : ℚ) : rneInt y ≤ ⌊y⌋ + 1 := by
  unfold rneInt; split_ifs <;> omega

theorem rneInt_intCast (n : ℤ) : rneInt (n : ℚ) = n := by
  unfold rneInt
  simp

theorem rneInt_mono {a b : ℚ} (h : a ≤ b) : rneInt a ≤ rneInt b := by
  rcases lt_or_eq_of_le (Int.floor_le_floor h) with hlt | heq
  · calc rneInt a ≤ ⌊a⌋ + 1 := rneInt_le_floor_succ a
      _ ≤ ⌊b⌋ := by omega
      _ ≤ rneInt b := rneInt_floor_le b
  · have hfr : a - ⌊a⌋ ≤ b - ⌊b⌋ := by rw [heq]; linarith
    unfold rneInt
    rw [heq]
    split_ifs <;> first | omega | (exfalso; linarith)

theorem rneInt_le_of_le_int {y : ℚ} {n : ℤ} (h : y ≤ n) : rneInt y ≤ n := by
  have := rneInt_mono h; rwa [rneInt_intCast] at this

theorem rneInt_ge_of_int_le {y : ℚ} {n : ℤ} (h : (n : ℚ) ≤ y) : n ≤ rneInt y := by
  have := rneInt_mono h; rwa [rneInt_intCast] at this

theorem rneInt_neg (y : ℚ) : rneInt (-y) = -rneInt y := by
  by_cases hint : (⌊y⌋ : ℚ) = y
  · rw [← hint, ← Int.cast_neg, rneInt_intCast, rneInt_intCast]
  · have hfl : (⌊y⌋ : ℚ) < y := lt_of_le_of_ne (Int.floor_le y) hint
    have hlt : y < ⌊y⌋ + 1 := Int.lt_floor_add_one y
    have hneg : ⌊-y⌋ = -⌊y⌋ - 1 := by
      rw [Int.floor_eq_iff]; push_cast; constructor <;> linarith
    unfold rneInt
    rw [hneg]
    push_cast
    have e1 : -y - (-(⌊y⌋ : ℚ) - 1) = 1 - (y - ⌊y⌋) := by ring
    rw [e1]
    split_ifs <;> first | omega | (exfalso; linarith)

/-- the unit in the last place of `x`: `2^(⌊log₂|x|⌋ - 23)` -/
def ulp24 (x : ℚ) : ℚ := (2 : ℚ) ^ (Int.log 2 |x| - 23)

theorem ulp24_pos (x : ℚ) : 0 < ulp24 x := by unfold ulp24; exact zpow_pos (by norm_num) _

theorem ulp24_neg (x : ℚ) : ulp24 (-x) = ulp24 x := by unfold ulp24; rw [abs_neg]

/-- binary32's round-to-nearest-even, exponent range unbounded -/
def rne24 (x : ℚ) : ℚ := if x = 0 then 0 else (rneInt (x / ulp24 x) : ℚ) * ulp24 x

theorem rne24_zero : rne24 0 = 0 := by simp [rne24]

theorem rne24_neg (x : ℚ) : rne24 (-x) = -rne24 x := by
  unfold rne24
  by_cases h : x = 0
  · simp [h]
  · have h' : -x ≠ 0 := neg_ne_zero.2 h
    rw [if_neg h, if_neg h', ulp24_neg, neg_div, rneInt_neg]
    push_cast; ring

section pos
variable {x : ℚ} (hx : 0 < x)
include hx

theorem two_zpow_log_le : (2 : ℚ) ^ Int.log 2 x ≤ x := by
  have := Int.zpow_log_le_self (b := 2) (by norm_num) hx
  simpa using this

omit hx in
theorem lt_two_zpow_log_succ : x < (2 : ℚ) ^ (Int.log 2 x + 1) := by
  have := Int.lt_zpow_succ_log_self (b := 2) (by norm_num) x
  simpa using this

theorem ulp24_eq : ulp24 x = (2 : ℚ) ^ (Int.log 2 x - 23) := by unfold ulp24; rw [abs_of_pos hx]

/-- the scaled significand lies in `[2^23, 2^24)` -/
theorem scaled_bounds : (2 : ℚ) ^ (23 : ℕ) ≤ x / ulp24 x ∧ x / ulp24 x < (2 : ℚ) ^ (24 : ℕ) := by
  have hq := ulp24_pos x
  have e23 : (2 : ℚ) ^ (23 : ℕ) * ulp24 x = (2 : ℚ) ^ Int.log 2 x := by
    rw [ulp24_eq hx, ← zpow_natCast, ← zpow_add₀ (by norm_num : (2 : ℚ) ≠ 0)]; congr 1; push_cast; ring
  have e24 : (2 : ℚ) ^ (24 : ℕ) * ulp24 x = (2 : ℚ) ^ (Int.log 2 x + 1) := by
    rw [ulp24_eq hx, ← zpow_natCast, ← zpow_add₀ (by norm_num : (2 : ℚ) ≠ 0)]; congr 1; push_cast; ring
  constructor
  · rw [le_div_iff₀ hq, e23]; exact two_zpow_log_le hx
  · rw [div_lt_iff₀ hq, e24]; exact lt_two_zpow_log_succ

theorem rne24_pos_eq : rne24 x = (rneInt (x / ulp24 x) : ℚ) * ulp24 x := by
  unfold rne24; rw [if_neg hx.ne']

/-- the rounded significand lies in `[2^23, 2^24]` -/
theorem sig_bounds : (2 : ℤ) ^ (23 : ℕ) ≤ rneInt (x / ulp24 x) ∧ rneInt (x / ulp24 x) ≤ (2 : ℤ) ^ (24 : ℕ) := by
  obtain ⟨h1, h2⟩ := scaled_bounds hx
  constructor
  · apply rneInt_ge_of_int_le; push_cast; exact h1
  · apply rneInt_le_of_le_int; push_cast; exact h2.le

/-- rounding a positive number stays inside its binade `[2^e, 2^(e+1)]` -/
theorem rne24_binade : (2 : ℚ) ^ Int.log 2 x ≤ rne24 x ∧ rne24 x ≤ (2 : ℚ) ^ (Int.log 2 x + 1) := by
  have hq := ulp24_pos x
  obtain ⟨s1, s2⟩ := sig_bounds hx
  have e23 : (2 : ℚ) ^ (23 : ℕ) * ulp24 x = (2 : ℚ) ^ Int.log 2 x := by
    rw [ulp24_eq hx, ← zpow_natCast, ← zpow_add₀ (by norm_num : (2 : ℚ) ≠ 0)]; congr 1; push_cast; ring
  have e24 : (2 : ℚ) ^ (24 : ℕ) * ulp24 x = (2 : ℚ) ^ (Int.log 2 x + 1) := by
    rw [ulp24_eq hx, ← zpow_natCast, ← zpow_add₀ (by norm_num : (2 : ℚ) ≠ 0)]; congr 1; push_cast; ring
  rw [rne24_pos_eq hx]
  constructor
  · rw [← e23]; apply mul_le_mul_of_nonneg_right _ hq.le; exact_mod_cast s1
  · rw [← e24]; apply mul_le_mul_of_nonneg_right _ hq.le; exact_mod_cast s2

theorem rne24_pos : 0 < rne24 x :=
  lt_of_lt_of_le (zpow_pos (by norm_num) _) (rne24_binade hx).1

end pos

/-- a positive number whose scaled significand is an integer is representable -/
theorem rne24_of_int_sig {x : ℚ} (hx : 0 < x) (n : ℤ) (h : x / ulp24 x = n) : rne24 x = x := by
  rw [rne24_pos_eq hx, h, rneInt_intCast, ← h, div_mul_cancel₀ _ (ulp24_pos x).ne']

/-- a power of two is representable -/
theorem rne24_two_zpow (z : ℤ) : rne24 ((2 : ℚ) ^ z) = (2 : ℚ) ^ z := by
  have hp : (0 : ℚ) < (2 : ℚ) ^ z := zpow_pos (by norm_num) _
  have hl : Int.log 2 ((2 : ℚ) ^ z) = z := by
    have := Int.log_zpow (R := ℚ) (b := 2) (by norm_num) z
    simpa using this
  apply rne24_of_int_sig hp ((2 : ℤ) ^ (23 : ℕ))
  rw [ulp24_eq hp, hl, ← zpow_sub₀ (by norm_num : (2 : ℚ) ≠ 0)]
  have : z - (z - 23) = ((23 : ℕ) : ℤ) := by push_cast; ring
  rw [this, zpow_natCast]; push_cast; rfl

theorem rne24_idem_pos {x : ℚ} (hx : 0 < x) : rne24 (rne24 x) = rne24 x := by
  obtain ⟨s1, s2⟩ := sig_bounds hx
  have hq := ulp24_pos x
  have e24 : (2 : ℚ) ^ (24 : ℕ) * ulp24 x = (2 : ℚ) ^ (Int.log 2 x + 1) := by
    rw [ulp24_eq hx, ← zpow_natCast, ← zpow_add₀ (by norm_num : (2 : ℚ) ≠ 0)]; congr 1; push_cast; ring
  rcases lt_or_eq_of_le s2 with hlt | heq
  · -- the result stays in the same binade: same ulp, integral significand
    have hy : 0 < rne24 x := rne24_pos hx
    have hlog : Int.log 2 (rne24 x) = Int.log 2 x := by
      apply le_antisymm
      · have : rne24 x < (2 : ℚ) ^ (Int.log 2 x + 1) := by
          rw [rne24_pos_eq hx, ← e24]
          apply mul_lt_mul_of_pos_right _ hq
          exact_mod_cast hlt
        have h2 := (Int.lt_zpow_iff_log_lt (R := ℚ) (b := 2) (by norm_num) hy).1 (by simpa using this)
        omega
      · have := (rne24_binade hx).1
        exact (Int.zpow_le_iff_le_log (R := ℚ) (b := 2) (by norm_num) hy).1 (by simpa using this)
    have hu : ulp24 (rne24 x) = ulp24 x := by rw [ulp24_eq hy, ulp24_eq hx, hlog]
    apply rne24_of_int_sig hy (rneInt (x / ulp24 x))
    rw [hu, rne24_pos_eq hx, mul_div_assoc, div_self hq.ne', mul_one]
  · -- rounded up to the next power of two
    have : rne24 x = (2 : ℚ) ^ (Int.log 2 x + 1) := by
      rw [rne24_pos_eq hx, heq, ← e24]; push_cast; rfl
    rw [this, rne24_two_zpow]

theorem rne24_mono_pos {x y : ℚ} (hx : 0 < x) (hxy : x ≤ y) : rne24 x ≤ rne24 y := by
  have hy : 0 < y := lt_of_lt_of_le hx hxy
  rcases lt_or_eq_of_le (Int.log_mono_right (b := 2) hx hxy) with hlt | heq
  · calc rne24 x ≤ (2 : ℚ) ^ (Int.log 2 x + 1) := (rne24_binade hx).2
      _ ≤ (2 : ℚ) ^ Int.log 2 y := zpow_le_zpow_right₀ (by norm_num) (by omega)
      _ ≤ rne24 y := (rne24_binade hy).1
  · have hu : ulp24 x = ulp24 y := by rw [ulp24_eq hx, ulp24_eq hy, heq]
    rw [rne24_pos_eq hx, rne24_pos_eq hy, hu]
    apply mul_le_mul_of_nonneg_right _ (ulp24_pos y).le
    have : x / ulp24 y ≤ y / ulp24 y := div_le_div_of_nonneg_right hxy (ulp24_pos y).le
    exact_mod_cast rneInt_mono this

theorem rne24_nonneg_of_nonneg {x : ℚ} (hx : 0 ≤ x) : 0 ≤ rne24 x := by
  rcases lt_or_eq_of_le hx with h | h
  · exact (rne24_pos h).le
  · rw [← h, rne24_zero]

theorem rne24_mono : Monotone rne24 := by
  intro x y hxy
  rcases lt_trichotomy x 0 with hx | hx | hx
  · rcases lt_trichotomy y 0 with hy | hy | hy
    · -- both negative: mirror the positive case
      have := rne24_mono_pos (x := -y) (y := -x) (by linarith) (by linarith)
      rw [rne24_neg, rne24_neg] at this; linarith
    · rw [hy, rne24_zero]
      have := rne24_pos (x := -x) (by linarith); rw [rne24_neg] at this; linarith
    · have h1 := rne24_pos (x := -x) (by linarith); rw [rne24_neg] at h1
      have h2 := rne24_pos hy; linarith
  · rw [hx, rne24_zero]; exact rne24_nonneg_of_nonneg (by linarith)
  · exact rne24_mono_pos hx hxy

theorem rne24_idem (x : ℚ) : rne24 (rne24 x) = rne24 x := by
  rcases lt_trichotomy x 0 with hx | hx | hx
  · have := rne24_idem_pos (x := -x) (by linarith)
    rw [rne24_neg, rne24_neg] at this; linarith
  · rw [hx, rne24_zero, rne24_zero]
  · exact rne24_idem_pos hx

/-- **binary32's round-to-nearest-even (unbounded exponent) is a faithful rounding** -/
theorem Faithful.rne24 : Faithful rne24 where
  mono := rne24_mono
  idem := rne24_idem
  zero := rne24_zero
  one := by simpa using rne24_two_zpow 0
  two := by simpa using rne24_two_zpow 1
  three := by
    have hp : (0 : ℚ) < 3 := by norm_num
    have hl : Int.log 2 (3 : ℚ) = 1 := by
      have := Int.log_natCast (R := ℚ) 2 3
      rw [show ((3 : ℕ) : ℚ) = 3 by norm_num] at this
      rw [this]; decide
    apply rne24_of_int_sig hp (3 * (2 : ℤ) ^ (22 : ℕ))
    rw [ulp24_eq hp, hl]
    norm_num
  half := by
    have := rne24_two_zpow (-1)
    simpa using this
  odd := rne24_neg
