import MinaProofs.Lemmas.FloatTimeline
/-!
# Builder-built timelines over any value kinds obey the blend law

Generalises `FloatTimeline.lean` from float-valued properties to every kind `#[derive(Animate)]` supports
(floats and the primitive integer kinds, which interpolate through `round` and a checked conversion):
each animated slot carries the kind of its field, keyframe and start values are of that kind (integers
within the type's range), and the result of an evaluation — *when it succeeds* — is again of that kind.
With `C10.start_value_until_delay`, `C13.ease_zero` and `C14.lerpInt_at_zero` this gives `TlOK` for
every such timeline, hence `C04.no_jump_built_animator`. Arithmetic: exact (ℚ).
-/
open Spec

/-- "a value of the same kind as `d`" (an integer also lies within the range of its type) -/
def kindS (d : Val ℚ) : Val ℚ → Prop :=
  match d with
  | .num _ => fun v => ∃ x, v = .num x
  | .int k _ => fun v => ∃ n, v = .int k n ∧ k.lo ≤ n ∧ n ≤ k.hi

theorem kindS_lerpable (d : Val ℚ) : Lerpable (kindS d) := by
  cases d with
  | num x => exact lerpable_num
  | int k n => exact lerpable_int k

/-- a successful interpolation between two values of a kind is of that kind -/
theorem kindS_closed (d a b : Val ℚ) (x : ℚ) (r : Val ℚ) (ha : kindS d a) (hb : kindS d b)
    (h : a.lerp b x = .ok r) : kindS d r := by
  cases d with
  | num _ =>
    obtain ⟨p, rfl⟩ := ha
    obtain ⟨q, rfl⟩ := hb
    simp only [Val.lerp, Except.ok.injEq] at h
    exact ⟨_, h.symm⟩
  | int k _ =>
    obtain ⟨m, rfl, _⟩ := ha
    obtain ⟨n, rfl, _⟩ := hb
    rw [C14.val_lerp_int] at h
    unfold lerpInt at h
    dsimp only at h
    split at h
    · rename_i n' _
      split at h
      · rename_i hr
        simp only [Except.map, Except.ok.injEq] at h
        exact ⟨n', h.symm, hr.1, hr.2⟩
      · simp [Except.map] at h
    · simp [Except.map] at h

section closed
variable {α : Type} [Num α]

/-- whatever `value_at` returns successfully is built by `lerp` from frame values (or is one) -/
theorem valueAt_closed (K : Val α → Prop) (hK : ∀ a b x r, K a → K b → a.lerp b x = .ok r → K r)
    (s : SubTl α) (t : α) (idx : Nat) (ovr : Bool)
    (hf : ∀ f ∈ s.frames, K f.value) (ho : ∀ f, s.startOverride = some f → K f.value)
    (v : Val α) (hv : s.valueAt t idx ovr = some (.ok v)) : K v := by
  have hget : ∀ i f, s.getFrame i ovr = some f → K f.value := by
    intro i f h
    unfold SubTl.getFrame at h
    split at h
    · split at h
      · simp only [Option.some.injEq] at h; subst h; exact ho _ ‹_›
      · exact hf f (List.mem_of_getElem? h)
    · exact hf f (List.mem_of_getElem? h)
  unfold SubTl.valueAt at hv
  split at hv
  · simp at hv
  · cases hb : s.boundingFrames (clamp01 t) idx ovr with
    | none => simp only [hb] at hv; simp at hv
    | some p =>
      obtain ⟨a, b⟩ := p
      have hab : K a.value ∧ K b.value := by
        unfold SubTl.boundingFrames at hb
        split at hb
        · simp at hb
        · split at hb
          · simp at hb
          · rename_i i _ fa hfa
            split at hb
            · split at hb
              · split at hb
                · rename_i p hp
                  simp only [Option.some.injEq, Prod.mk.injEq] at hb
                  rw [← hb.1, ← hb.2]; exact ⟨hget _ _ hp, hget _ _ hfa⟩
                · simp at hb
              · simp at hb
            · split at hb
              · simp only [Option.some.injEq, Prod.mk.injEq] at hb
                rw [← hb.1, ← hb.2]; exact ⟨hget _ _ hfa, hget _ _ hfa⟩
              · split at hb
                · rename_i nx hnx
                  simp only [Option.some.injEq, Prod.mk.injEq] at hb
                  rw [← hb.1, ← hb.2]; exact ⟨hget _ _ hfa, hf nx (List.mem_of_getElem? hnx)⟩
                · simp at hb
      simp only [hb, Option.some.injEq] at hv
      unfold interpolate at hv
      dsimp only at hv
      split at hv
      · simp only [Except.ok.injEq] at hv; subst hv; exact hab.1
      · exact hK _ _ _ _ hab.1 hab.2 hv

/-- slot-wise closure of the generated `update` -/
theorem applySubs_slots (K : Nat → Val α → Prop) (hK : ∀ i a b x r, K i a → K i b → a.lerp b x = .ok r → K i r)
    (subs : List (Nat × SubTl α)) (t : α) (idx : Nat) (ovr : Bool) (target r : List (Val α))
    (hs : ∀ p ∈ subs, (∀ f ∈ p.2.frames, K p.1 f.value) ∧ (∀ f, p.2.startOverride = some f → K p.1 f.value))
    (ht : ∀ i w, target[i]? = some w → K i w) (h : applySubs subs t idx ovr target = .ok r) :
    ∀ i w, r[i]? = some w → K i w := by
  induction subs generalizing target with
  | nil => simp [applySubs] at h; subst h; exact ht
  | cons p rest ih =>
    obtain ⟨j, s⟩ := p
    have hrest : ∀ q ∈ rest, (∀ f ∈ q.2.frames, K q.1 f.value) ∧ (∀ f, q.2.startOverride = some f → K q.1 f.value) :=
      fun q hq => hs q (by simp [hq])
    simp only [applySubs] at h
    cases hv : s.valueAt t idx ovr with
    | none => rw [hv] at h; exact ih target hrest ht h
    | some res =>
      cases res with
      | error e => rw [hv] at h; simp at h
      | ok v =>
        rw [hv] at h
        simp only at h
        have hkv : K j v := valueAt_closed (K j) (hK j) s t idx ovr (hs (j, s) (by simp)).1 (hs (j, s) (by simp)).2 v hv
        apply ih (target.set j v) hrest _ h
        intro i w hw
        rw [List.getElem?_set] at hw
        split at hw
        · rename_i hji
          split at hw
          · simp only [Option.some.injEq] at hw; subst hw; subst hji; exact hkv
          · simp at hw
        · exact ht i w hw

end closed

/-! ### the configuration-level hypotheses -/

/-- the kind carried by slot `i`: that of the field animating it (no constraint on un-animated slots) -/
def slotKind (fields : List (AnimField ℚ)) (i : Nat) : Val ℚ → Prop :=
  fun w => ∀ f ∈ fields, f.idx = i → kindS f.dflt w

structure KindCfg (n : Nat) (fields : List (AnimField ℚ)) (cfg : Config ℚ) : Prop where
  delay_nonneg : 0 ≤ cfg.delay
  dur_pos : 0 < cfg.duration
  pos_unit : ∀ k ∈ cfg.keyframes, 0 ≤ k.time ∧ k.time ≤ 1
  distinct : (cfg.keyframes.map (·.time)).Pairwise (· ≠ ·)
  /-- keyframe values are of their field's kind (the setter's parameter type) -/
  vals_kind : ∀ k ∈ cfg.keyframes, ∀ p ∈ fields.zipIdx, ∀ x, k.vals.getD p.2 none = some x → kindS p.1.dflt x
  easings : isBuiltin cfg.easing ∧ ∀ k ∈ cfg.keyframes, ∀ e, k.easing = some e → isBuiltin e
  dflt_kind : ∀ f ∈ fields, kindS f.dflt f.dflt
  idx_lt : ∀ f ∈ fields, f.idx < n
  idx_nodup : (fields.map (·.idx)).Nodup

/-- values the animator can hold: `n` slots, each animated slot holding a value of its field's kind -/
def KindVals (n : Nat) (fields : List (AnimField ℚ)) (v : List (Val ℚ)) : Prop :=
  v.length = n ∧ ∀ i w, v[i]? = some w → slotKind fields i w

variable {n : Nat} {fields : List (AnimField ℚ)} {cfg : Config ℚ}

theorem slotKind_of_mem (hnd : (fields.map (·.idx)).Nodup) (f : AnimField ℚ) (hf : f ∈ fields) (w : Val ℚ)
    (h : kindS f.dflt w) : slotKind fields f.idx w := by
  intro f' hf' hidx
  have : f' = f := List.inj_on_of_nodup_map hnd hf' hf hidx
  rw [this]; exact h

theorem slotKind_closed (i : Nat) (a b : Val ℚ) (x : ℚ) (r : Val ℚ) (ha : slotKind fields i a) (hb : slotKind fields i b)
    (h : a.lerp b x = .ok r) : slotKind fields i r :=
  fun f hf hidx => kindS_closed f.dflt a b x r (ha f hf hidx) (hb f hf hidx) h

theorem sorted_perm_props' (hc : KindCfg n fields cfg) :
    (∀ k ∈ sortKfs cfg.keyframes, 0 ≤ k.time ∧ k.time ≤ 1) ∧
    ((sortKfs cfg.keyframes).map (·.time)).Pairwise (· ≠ ·) := by
  refine ⟨fun k hk => hc.pos_unit k ((mem_sortKfs k _).1 hk), ?_⟩
  have hp : ((sortKfs cfg.keyframes).map (·.time)).Perm (cfg.keyframes.map (·.time)) := (sortKfs_perm _).map _
  exact (List.Perm.pairwise_iff (fun {a b} (h : a ≠ b) => h.symm) hp).2 hc.distinct

/-- the per-property keyframe list of field `(f, j)` satisfies everything the lookup theorems need -/
theorem field_kfs_kind (hc : KindCfg n fields cfg) (f : AnimField ℚ) (j : Nat) (hm : (f, j) ∈ fields.zipIdx) :
    let ks := (sortKfs cfg.keyframes).map (·.forField j)
    KfOK ks ∧ (ks.map (·.time) = (sortKfs cfg.keyframes).map (·.time)) ∧
    (∀ k ∈ ks, ∀ x, k.value = some x → kindS f.dflt x) ∧ (∀ k ∈ ks, ∀ e, k.easing = some e → isBuiltin e) := by
  intro ks
  obtain ⟨hpos, _⟩ := sorted_perm_props' hc
  have htimes : ks.map (·.time) = (sortKfs cfg.keyframes).map (·.time) := by
    simp [ks, List.map_map, Function.comp_def, Keyframe.forField]
  refine ⟨⟨?_, ?_, ?_⟩, htimes, ?_, ?_⟩
  · have := sortKfs_sorted cfg.keyframes
    simp only [ks, List.pairwise_map, Keyframe.forField]
    exact this
  · intro k hk
    obtain ⟨k0, hk0, rfl⟩ := List.mem_map.1 hk
    exact (hpos k0 hk0).1
  · intro k hk
    obtain ⟨k0, hk0, rfl⟩ := List.mem_map.1 hk
    exact (hpos k0 hk0).2
  · intro k hk x hx
    obtain ⟨k0, hk0, rfl⟩ := List.mem_map.1 hk
    simp only [Keyframe.forField] at hx
    exact hc.vals_kind k0 ((mem_sortKfs k0 _).1 hk0) (f, j) hm x hx
  · intro k hk e he
    obtain ⟨k0, hk0, rfl⟩ := List.mem_map.1 hk
    exact hc.easings.2 k0 ((mem_sortKfs k0 _).1 hk0) e he

theorem mem_of_zipIdx {f : AnimField ℚ} {j : Nat} (hm : (f, j) ∈ fields.zipIdx) : f ∈ fields :=
  (List.mem_zipIdx hm).2.2 ▸ List.getElem_mem _

/-- **the blend law for built timelines of any value kinds** -/
theorem build_blend_kind (hc : KindCfg n fields cfg) (v : List (Val ℚ)) (hv : KindVals n fields v) :
    ((Timeline.build fields cfg).startWith v).update v (Num.secsOfNanos 0) = .ok v := by
  have h0 : (Num.secsOfNanos 0 : ℚ) = 0 := by simp
  rw [h0]
  unfold Timeline.update
  have hbt : ((Timeline.build fields cfg).startWith v).boundary = (sortKfs cfg.keyframes).map (·.time) := rfl
  have hts : ((Timeline.build fields cfg).startWith v).ts = ⟨cfg.delay, cfg.duration, cfg.repeat_, cfg.reverse⟩ := rfl
  rw [hbt, hts]
  by_cases hempty : (sortKfs cfg.keyframes).map (·.time) = []
  · simp [prepareFrame, hempty]
  · rw [prepareFrame_eq _ _ hempty, C02.zero_percent_until_delay _ hc.dur_pos 0 hc.delay_nonneg]
    simp only
    apply applySubs_fix
    intro p hp
    simp only [Timeline.startWith, Timeline.build, List.map_map, List.mem_map, Function.comp] at hp
    obtain ⟨⟨f, j⟩, hmem, rfl⟩ := hp
    have hf : f ∈ fields := mem_of_zipIdx hmem
    have hidx : f.idx < v.length := by rw [hv.1]; exact hc.idx_lt f hf
    have hw : v[f.idx]? = some v[f.idx] := List.getElem?_eq_getElem hidx
    simp only [hw]
    set w := v[f.idx] with hwdef
    have hwk : kindS f.dflt w := hv.2 f.idx w hw f hf rfl
    obtain ⟨hok, htimes, hvals, heas⟩ := field_kfs_kind hc f j hmem
    set ks := (sortKfs cfg.keyframes).map (·.forField j) with hks
    by_cases hdata : cssReals ks cfg.easing = []
    · left
      rw [fromKeyframes_empty_of_noReals ks f.dflt cfg.easing hdata, overrideStart_empty]
      exact empty_valueAt _ _ _
    · right
      refine ⟨w, rfl, ?_⟩
      have hne : ks ≠ [] := by
        intro h; apply hempty; rw [← htimes, h]; rfl
      have hhint : HintOK ks 0 (searchIdx ((sortKfs cfg.keyframes).map (·.time)) 0) := by
        rw [← htimes]; exact searchIdx_hintOK ks hok hne 0
      have hfr := frames_props (kindS f.dflt) isBuiltin ks f.dflt cfg.easing hvals heas hc.easings.1 (hc.dflt_kind f hf)
      have hdist : (ks.map (·.time)).Pairwise (· ≠ ·) := by rw [htimes]; exact (sorted_perm_props' hc).2
      exact C10.start_value_until_delay ks hok f.dflt cfg.easing hdata w _ hhint (kindS f.dflt) (kindS_lerpable f.dflt)
        (by
          intro fr hfrm
          rw [(builtSub_frames ks f.dflt cfg.easing (some w)).1] at hfrm
          exact ⟨(hfr fr hfrm).1, isBuiltin_fixesEnds _ (hfr fr hfrm).2⟩)
        hwk (no_dup_at_zero ks hok f.dflt cfg.easing hdist)

/-! ### closure: a successful evaluation keeps every animated slot of its kind -/

def KindTimeline (fields : List (AnimField ℚ)) (tl : Timeline ℚ) : Prop :=
  ∀ p ∈ tl.subs, (∀ f ∈ p.2.frames, slotKind fields p.1 f.value) ∧ (∀ f, p.2.startOverride = some f → slotKind fields p.1 f.value)

theorem build_kindTimeline (hc : KindCfg n fields cfg) : KindTimeline fields (Timeline.build fields cfg) := by
  intro p hp
  simp only [Timeline.build, List.mem_map] at hp
  obtain ⟨⟨f, j⟩, hmem, rfl⟩ := hp
  have hf : f ∈ fields := mem_of_zipIdx hmem
  obtain ⟨_, _, hvals, heas⟩ := field_kfs_kind hc f j hmem
  have hfr := frames_props (kindS f.dflt) isBuiltin _ f.dflt cfg.easing hvals heas hc.easings.1 (hc.dflt_kind f hf)
  constructor
  · intro fr hfrm
    exact slotKind_of_mem hc.idx_nodup f hf _ (hfr fr hfrm).1
  · intro fr hfrm
    simp only at hfrm
    unfold SubTl.fromKeyframes at hfrm
    dsimp only at hfrm
    split at hfrm <;> simp [SubTl.empty] at hfrm

theorem startWith_kindTimeline (tl : Timeline ℚ) (w : List (Val ℚ)) (h : KindTimeline fields tl)
    (hw : ∀ i x, w[i]? = some x → slotKind fields i x) : KindTimeline fields (tl.startWith w) := by
  intro p hp
  simp only [Timeline.startWith, List.mem_map] at hp
  obtain ⟨⟨i, s⟩, hmem, rfl⟩ := hp
  obtain ⟨h1, h2⟩ := h (i, s) hmem
  cases hwi : w[i]? with
  | none => simpa [hwi] using ⟨h1, h2⟩
  | some x =>
    simp only [hwi]
    unfold SubTl.overrideStart
    cases hh : s.frames.head? with
    | none => exact ⟨h1, h2⟩
    | some f0 =>
      refine ⟨h1, ?_⟩
      intro f hf
      simp only [Option.some.injEq] at hf; subst hf
      exact hw i x hwi

theorem update_kindVals (tl : Timeline ℚ) (h : KindTimeline fields tl) (v r : List (Val ℚ)) (t : ℚ)
    (hv : KindVals n fields v) (hr : tl.update v t = .ok r) : KindVals n fields r := by
  refine ⟨by rw [C08.update_length tl v r t hr]; exact hv.1, ?_⟩
  unfold Timeline.update at hr
  split at hr
  · simp at hr; subst hr; exact hv.2
  · exact applySubs_slots (slotKind fields) (fun i a b x r ha hb hl => slotKind_closed i a b x r ha hb hl) _ _ _ _ _ _ h hv.2 hr

/-- **a builder-built timeline over any value kinds is `TlOK`** -/
theorem build_tlOK_kind (hc : KindCfg n fields cfg) :
    C04.TlOK (KindVals n fields) (Merged.mk [Timeline.build fields cfg]) := by
  intro ws hws
  rw [merged_fold_single]
  have hkt : KindTimeline fields (ws.foldl (fun acc w => acc.startWith w) (Timeline.build fields cfg)) := by
    have : ∀ (l : List (List (Val ℚ))) (t0 : Timeline ℚ), (∀ w ∈ l, KindVals n fields w) → KindTimeline fields t0 →
        KindTimeline fields (l.foldl (fun acc w => acc.startWith w) t0) := by
      intro l
      induction l with
      | nil => intro t0 _ h0; exact h0
      | cons w rest ih =>
        intro t0 hl h0
        simp only [List.foldl_cons]
        exact ih _ (fun x hx => hl x (by simp [hx])) (startWith_kindTimeline t0 w h0 (hl w (by simp)).2)
    exact this ws _ hws (build_kindTimeline hc)
  constructor
  · intro v hv
    have : (Merged.mk [ws.foldl (fun acc w => acc.startWith w) (Timeline.build fields cfg)]).startWith v
        = Merged.mk [(Timeline.build fields cfg).startWith v] := by
      simp only [Merged.startWith, List.map_cons, List.map_nil]
      rw [fold_startWith_last _ ws v (fun w hw => by rw [(hws w hw).1, hv.1])]
    rw [this]
    have hsingle := (C12.singleton_transparent ((Timeline.build fields cfg).startWith v) v v (Num.secsOfNanos 0)).1
    rw [hsingle]
    exact build_blend_kind hc v hv
  · intro v t r hv hr
    have hsingle := (C12.singleton_transparent (ws.foldl (fun acc w => acc.startWith w) (Timeline.build fields cfg)) v v t).1
    rw [hsingle] at hr
    exact update_kindVals _ hkt v r t hv hr

/-! ### merges of several built timelines over the same struct -/

theorem merged_fold_map (tls : List (Timeline ℚ)) (ws : List (List (Val ℚ))) :
    ws.foldl (fun acc w => acc.startWith w) (Merged.mk tls) =
      Merged.mk (tls.map fun tl => ws.foldl (fun acc w => acc.startWith w) tl) := by
  induction ws generalizing tls with
  | nil => simp
  | cons w rest ih =>
    simp only [List.foldl_cons]
    have : (Merged.mk tls).startWith w = Merged.mk (tls.map (·.startWith w)) := rfl
    rw [this, ih]
    simp [List.map_map, Function.comp_def]

/-- a merge evaluates to `v` if every member does -/
theorem merged_update_fix (tls : List (Timeline ℚ)) (v : List (Val ℚ)) (t : ℚ)
    (h : ∀ tl ∈ tls, tl.update v t = .ok v) : (Merged.mk tls).update v t = .ok v := by
  induction tls with
  | nil => rfl
  | cons tl rest ih =>
    rw [C12.merged_update_cons, h tl (by simp)]
    exact ih (fun x hx => h x (by simp [hx]))

/-- a merge keeps a predicate that every member keeps -/
theorem merged_update_keeps (P : List (Val ℚ) → Prop) (tls : List (Timeline ℚ)) (t : ℚ)
    (h : ∀ tl ∈ tls, ∀ v r, P v → tl.update v t = .ok r → P r) (v r : List (Val ℚ)) (hv : P v)
    (hr : (Merged.mk tls).update v t = .ok r) : P r := by
  induction tls generalizing v with
  | nil => simp [Merged.update, Merged.update.go] at hr; subst hr; exact hv
  | cons tl rest ih =>
    rw [C12.merged_update_cons] at hr
    cases hu : tl.update v t with
    | error e => rw [hu] at hr; simp at hr
    | ok v1 =>
      rw [hu] at hr
      exact ih (fun x hx => h x (by simp [hx])) v1 (h tl (by simp) v v1 hv hu) hr

/-- **a merge of builder-built timelines over the same struct is `TlOK`** -/
theorem build_tlOK_merged (cfgs : List (Config ℚ)) (hcs : ∀ cfg ∈ cfgs, KindCfg n fields cfg) :
    C04.TlOK (KindVals n fields) (Merged.mk (cfgs.map (Timeline.build fields))) := by
  intro ws hws
  rw [merged_fold_map]
  constructor
  · intro v hv
    have : (Merged.mk ((cfgs.map (Timeline.build fields)).map fun tl => ws.foldl (fun acc w => acc.startWith w) tl)).startWith v
        = Merged.mk (cfgs.map fun cfg => (Timeline.build fields cfg).startWith v) := by
      simp only [Merged.startWith, List.map_map, Function.comp_def]
      congr 1
      apply List.map_congr_left
      intro cfg _
      exact fold_startWith_last _ ws v (fun w hw => by rw [(hws w hw).1, hv.1])
    rw [this]
    apply merged_update_fix
    intro tl htl
    obtain ⟨cfg, hcfg, rfl⟩ := List.mem_map.1 htl
    exact build_blend_kind (hcs cfg hcfg) v hv
  · intro v t r hv hr
    refine merged_update_keeps (KindVals n fields) _ t ?_ v r hv hr
    intro tl htl v' r' hv' hr'
    simp only [List.map_map, List.mem_map, Function.comp] at htl
    obtain ⟨cfg, hcfg, rfl⟩ := htl
    have hkt : KindTimeline fields (ws.foldl (fun acc w => acc.startWith w) (Timeline.build fields cfg)) := by
      have : ∀ (l : List (List (Val ℚ))) (t0 : Timeline ℚ), (∀ w ∈ l, KindVals n fields w) → KindTimeline fields t0 →
          KindTimeline fields (l.foldl (fun acc w => acc.startWith w) t0) := by
        intro l
        induction l with
        | nil => intro t0 _ h0; exact h0
        | cons w rest ih =>
          intro t0 hl h0
          simp only [List.foldl_cons]
          exact ih _ (fun x hx => hl x (by simp [hx])) (startWith_kindTimeline t0 w h0 (hl w (by simp)).2)
      exact this ws _ hws (build_kindTimeline (hcs cfg hcfg))
    exact update_kindVals _ hkt v' r' t hv' hr'
