import MinaProofs.Lemmas.FramesQ
/-!
# `get_bounding_frames` evaluated: the two shapes that occur
-/

/-- frame `m` as the lookup sees it: frame 0 is replaced by the override when enabled -/
def gFrame (sub : SubTl ℚ) (m : Nat) (ovr : Bool) (raw : Frame ℚ) : Frame ℚ :=
  if ovr && m == 0 then (match sub.startOverride with | some f => f | none => raw) else raw

theorem getFrame_eq (sub : SubTl ℚ) (m : Nat) (ovr : Bool) (raw : Frame ℚ) (h : sub.frames[m]? = some raw) :
    sub.getFrame m ovr = some (gFrame sub m ovr raw) := by
  unfold SubTl.getFrame gFrame
  by_cases hc : (ovr && m == 0) = true
  · simp only [hc, if_true]
    have hm : m = 0 := by simp only [Bool.and_eq_true, beq_iff_eq] at hc; exact hc.2
    subst hm
    cases sub.startOverride with
    | some f => rfl
    | none => simpa using h
  · simp only [hc, if_false]; exact h

theorem gFrame_time (sub : SubTl ℚ) (m : Nat) (ovr : Bool) (raw : Frame ℚ)
    (hov : ∀ f, sub.startOverride = some f → f.time = raw.time ∨ m ≠ 0) :
    (gFrame sub m ovr raw).time = raw.time := by
  unfold gFrame
  split
  · rename_i hc
    have hm : m = 0 := by simp only [Bool.and_eq_true, beq_iff_eq] at hc; exact hc.2
    cases ho : sub.startOverride with
    | none => rfl
    | some f =>
      rcases hov f ho with h | h
      · exact h
      · exact absurd hm h
  · rfl

/-- the lookup lands on the last frame at or before `s`: `frames = A ++ b :: rest`, the hint maps to the
last index of `A`, whose time is ≤ s -/
theorem bf_at_seg (sub : SubTl ℚ) (s : ℚ) (idx : Nat) (ovr : Bool) (A rest : List (Frame ℚ)) (a b : Frame ℚ)
    (hF : sub.frames = A ++ b :: rest) (hA : A.getLast? = some a)
    (him : sub.indexMap[idx]? = some (A.length - 1))
    (hta : ¬ s < (gFrame sub (A.length - 1) ovr a).time) :
    sub.boundingFrames s idx ovr = some (gFrame sub (A.length - 1) ovr a, b) := by
  have hne : A ≠ [] := by intro h; simp [h] at hA
  have hlen : 0 < A.length := List.length_pos_of_ne_nil hne
  have hraw : sub.frames[A.length - 1]? = some a := by
    rw [hF, List.getElem?_append_left (by omega)]
    rw [List.getLast?_eq_getElem?] at hA
    exact hA
  unfold SubTl.boundingFrames
  simp only [him, getFrame_eq sub _ ovr a hraw, hta, if_false]
  have h1 : (A.length - 1 == sub.frames.length - 1) = false := by
    simp only [hF, List.length_append, List.length_cons, beq_eq_false_iff_ne]; omega
  have h2 : sub.frames[A.length - 1 + 1]? = some b := by
    rw [hF, show A.length - 1 + 1 = A.length by omega, List.getElem?_append_right (le_refl _)]
    simp
  simp [h1, h2]

/-- … and that frame is the very last one: the value is held -/
theorem bf_at_last (sub : SubTl ℚ) (s : ℚ) (idx : Nat) (ovr : Bool) (A : List (Frame ℚ)) (a : Frame ℚ)
    (hF : sub.frames = A) (hA : A.getLast? = some a)
    (him : sub.indexMap[idx]? = some (A.length - 1))
    (hta : ¬ s < (gFrame sub (A.length - 1) ovr a).time) :
    sub.boundingFrames s idx ovr = some (gFrame sub (A.length - 1) ovr a, gFrame sub (A.length - 1) ovr a) := by
  have hne : A ≠ [] := by intro h; simp [h] at hA
  have hlen : 0 < A.length := List.length_pos_of_ne_nil hne
  have hraw : sub.frames[A.length - 1]? = some a := by
    rw [hF]
    rw [List.getLast?_eq_getElem?] at hA
    exact hA
  unfold SubTl.boundingFrames
  simp only [him, getFrame_eq sub _ ovr a hraw, hta, if_false]
  have : (A.length - 1 == sub.frames.length - 1) = true := by simp [hF]
  simp [this]

/-- the lookup lands one frame too far (only possible before the first keyframe): step back -/
theorem bf_before (sub : SubTl ℚ) (s : ℚ) (idx : Nat) (ovr : Bool) (f0 f1 : Frame ℚ) (rest : List (Frame ℚ))
    (hF : sub.frames = f0 :: f1 :: rest) (him : sub.indexMap[idx]? = some 1) (hs : s < f1.time) :
    sub.boundingFrames s idx ovr = some (gFrame sub 0 ovr f0, f1) := by
  unfold SubTl.boundingFrames
  have h1 : sub.getFrame 1 ovr = some f1 := by
    have := getFrame_eq sub 1 ovr f1 (by simp [hF])
    simpa [gFrame] using this
  have h0 : sub.getFrame 0 ovr = some (gFrame sub 0 ovr f0) := getFrame_eq sub 0 ovr f0 (by simp [hF])
  simp [him, h1, hs, h0]
