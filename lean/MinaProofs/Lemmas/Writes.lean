import MinaProofs.Lemmas.Timeline
/-!
# `update` as a list of writes that does not depend on the target

`Timeline.update tl target time` performs a sequence of `set i v` whose indices and values are a
function of `(tl, time)` only. Everything about purity, idempotence, overlay order and independence of
the prior target contents follows from this normal form. Generic in the number system.
-/

variable {α : Type} [Num α]

def writesOf (subs : List (Nat × SubTl α)) (t : α) (idx : Nat) (ovr : Bool) : Except Panic (List (Nat × Val α)) :=
  match subs with
  | [] => .ok []
  | (i, s) :: rest =>
    match s.valueAt t idx ovr with
    | none => writesOf rest t idx ovr
    | some (.ok v) => (writesOf rest t idx ovr).map ((i, v) :: ·)
    | some (.error p) => .error p

def applyWrites (W : List (Nat × Val α)) (tgt : List (Val α)) : List (Val α) :=
  W.foldl (fun tg p => tg.set p.1 p.2) tgt

theorem applySubs_eq_writes (subs : List (Nat × SubTl α)) (t : α) (idx : Nat) (ovr : Bool) (tgt : List (Val α)) :
    applySubs subs t idx ovr tgt = (writesOf subs t idx ovr).map (fun W => applyWrites W tgt) := by
  induction subs generalizing tgt with
  | nil => rfl
  | cons p rest ih =>
    obtain ⟨i, s⟩ := p
    simp only [applySubs, writesOf]
    cases hv : s.valueAt t idx ovr with
    | none => exact ih tgt
    | some r =>
      cases r with
      | ok v =>
        simp only
        rw [ih]
        cases writesOf rest t idx ovr with
        | ok W => rfl
        | error e => rfl
      | error e => rfl

/-- the writes a timeline performs at `time` -/
def Timeline.writes (tl : Timeline α) (time : α) : Except Panic (List (Nat × Val α)) :=
  match prepareFrame tl.ts tl.boundary time with
  | none => .ok []
  | some (t, idx, ovr) => writesOf tl.subs t idx ovr

theorem update_eq_writes (tl : Timeline α) (tgt : List (Val α)) (time : α) :
    tl.update tgt time = (tl.writes time).map (fun W => applyWrites W tgt) := by
  unfold Timeline.update Timeline.writes
  cases hp : prepareFrame tl.ts tl.boundary time with
  | none => rfl
  | some r =>
    obtain ⟨t, idx, ovr⟩ := r
    exact applySubs_eq_writes _ _ _ _ _

/-- the last value written to slot `k`, if any -/
def lastWrite (W : List (Nat × Val α)) (k : Nat) : Option (Val α) :=
  match W with
  | [] => none
  | p :: rest =>
    match lastWrite rest k with
    | some v => some v
    | none => if p.1 = k then some p.2 else none

theorem applyWrites_length (W : List (Nat × Val α)) (tgt : List (Val α)) : (applyWrites W tgt).length = tgt.length := by
  induction W generalizing tgt with
  | nil => rfl
  | cons p rest ih => simp only [applyWrites, List.foldl_cons] at ih ⊢; rw [ih]; simp

theorem applyWrites_getElem? (W : List (Nat × Val α)) (tgt : List (Val α)) (k : Nat) :
    (applyWrites W tgt)[k]? = if k < tgt.length then (match lastWrite W k with | some v => some v | none => tgt[k]?) else none := by
  induction W generalizing tgt with
  | nil =>
    simp only [applyWrites, List.foldl_nil, lastWrite]
    split
    · rfl
    · rename_i h; exact List.getElem?_eq_none (not_lt.1 h)
  | cons p rest ih =>
    have : applyWrites (p :: rest) tgt = applyWrites rest (tgt.set p.1 p.2) := rfl
    rw [this, ih]
    simp only [List.length_set, lastWrite]
    split
    · rename_i hk
      cases hl : lastWrite rest k with
      | some v => rfl
      | none =>
        simp only
        by_cases hp : p.1 = k
        · rw [if_pos hp]; subst hp; simp [hk]
        · rw [if_neg hp]; exact List.getElem?_set_ne hp
    · rfl

/-- applying the same writes twice is the same as once -/
theorem applyWrites_idem (W : List (Nat × Val α)) (tgt : List (Val α)) :
    applyWrites W (applyWrites W tgt) = applyWrites W tgt := by
  apply List.ext_getElem?
  intro k
  rw [applyWrites_getElem?, applyWrites_length, applyWrites_getElem?]
  split
  · cases lastWrite W k <;> rfl
  · rfl

/-- the result depends on the prior target only in the slots that are not written -/
theorem applyWrites_congr (W : List (Nat × Val α)) (t1 t2 : List (Val α)) (hl : t1.length = t2.length)
    (h : ∀ k, lastWrite W k = none → t1[k]? = t2[k]?) : applyWrites W t1 = applyWrites W t2 := by
  apply List.ext_getElem?
  intro k
  rw [applyWrites_getElem?, applyWrites_getElem?, hl]
  split
  · cases hw : lastWrite W k with
    | some v => rfl
    | none => exact h k hw
  · rfl

theorem applyWrites_append (W1 W2 : List (Nat × Val α)) (tgt : List (Val α)) :
    applyWrites (W1 ++ W2) tgt = applyWrites W2 (applyWrites W1 tgt) := by
  simp [applyWrites, List.foldl_append]

theorem lastWrite_append (W1 W2 : List (Nat × Val α)) (k : Nat) :
    lastWrite (W1 ++ W2) k = match lastWrite W2 k with | some v => some v | none => lastWrite W1 k := by
  induction W1 with
  | nil => simp only [List.nil_append, lastWrite]; cases lastWrite W2 k <;> rfl
  | cons p rest ih =>
    simp only [List.cons_append, lastWrite, ih]
    cases lastWrite W2 k with
    | some v => rfl
    | none => rfl

/-- a write list only writes indices that occur in it -/
theorem lastWrite_none_of_not_mem (W : List (Nat × Val α)) (k : Nat) (h : k ∉ W.map Prod.fst) : lastWrite W k = none := by
  induction W with
  | nil => rfl
  | cons p rest ih =>
    simp only [List.map_cons, List.mem_cons, not_or] at h
    simp only [lastWrite, ih h.2]
    rw [if_neg (Ne.symm h.1)]

theorem writesOf_indices (subs : List (Nat × SubTl α)) (t : α) (idx : Nat) (ovr : Bool) (W : List (Nat × Val α))
    (h : writesOf subs t idx ovr = .ok W) : ∀ i ∈ W.map Prod.fst, i ∈ subs.map Prod.fst := by
  induction subs generalizing W with
  | nil => simp [writesOf] at h; subst h; simp
  | cons p rest ih =>
    obtain ⟨j, s⟩ := p
    simp only [writesOf] at h
    split at h
    · intro i hi; simp only [List.map_cons, List.mem_cons]; right; exact ih W h i hi
    · cases hr : writesOf rest t idx ovr with
      | error e => rw [hr] at h; simp [Except.map] at h
      | ok W' =>
        rw [hr] at h; simp only [Except.map, Except.ok.injEq] at h; subst h
        intro i hi
        simp only [List.map_cons, List.mem_cons] at hi ⊢
        rcases hi with rfl | hi
        · left; rfl
        · right; exact ih W' hr i hi
    · simp at h
