import MinaProofs.Lemmas.RatNum
import MinaModel.Animator
/-!
# Helper lemmas: which slots `update` can write, empty sub-timelines, override plumbing
(generic in the number type where possible)
-/

variable {α : Type} [Num α]

/-- `applySubs` only ever `set`s indices that occur in `subs` -/
theorem applySubs_untouched (subs : List (Nat × SubTl α)) (t : α) (idx : Nat) (ovr : Bool)
    (target res : List (Val α)) (h : applySubs subs t idx ovr target = .ok res)
    (i : Nat) (hi : i ∉ subs.map Prod.fst) : res[i]? = target[i]? := by
  induction subs generalizing target with
  | nil => simp [applySubs] at h; subst h; rfl
  | cons p rest ih =>
    obtain ⟨j, s⟩ := p
    simp only [List.map_cons, List.mem_cons, not_or] at hi
    simp only [applySubs] at h
    split at h
    · exact ih target h hi.2
    · rename_i v _
      rw [ih _ h hi.2]
      exact List.getElem?_set_ne (Ne.symm hi.1)
    · simp at h

theorem applySubs_length (subs : List (Nat × SubTl α)) (t : α) (idx : Nat) (ovr : Bool)
    (target res : List (Val α)) (h : applySubs subs t idx ovr target = .ok res) : res.length = target.length := by
  induction subs generalizing target with
  | nil => simp [applySubs] at h; subst h; rfl
  | cons p rest ih =>
    obtain ⟨j, s⟩ := p
    simp only [applySubs] at h
    split at h
    · exact ih target h
    · rw [ih _ h]; simp
    · simp at h

/-- if every sub-timeline yields `none`, nothing is written at all -/
theorem applySubs_all_none (subs : List (Nat × SubTl α)) (t : α) (idx : Nat) (ovr : Bool) (target : List (Val α))
    (h : ∀ p ∈ subs, p.2.valueAt t idx ovr = none) : applySubs subs t idx ovr target = .ok target := by
  induction subs with
  | nil => rfl
  | cons p rest ih =>
    obtain ⟨j, s⟩ := p
    simp only [applySubs]
    rw [h (j, s) (by simp)]
    exact ih (fun q hq => h q (by simp [hq]))

theorem fkStep_noValue (dflt : Val α) (st : FkAcc α) (kf : PKeyframe α) (h : kf.value = none) :
    (fkStep dflt st kf).hasData = st.hasData := by
  unfold fkStep; simp [h]

theorem fold_noValue_hasData (dflt : Val α) (kfs : List (PKeyframe α)) (st : FkAcc α)
    (h : ∀ k ∈ kfs, k.value = none) : (kfs.foldl (fkStep dflt) st).hasData = st.hasData := by
  induction kfs generalizing st with
  | nil => rfl
  | cons k ks ih =>
    simp only [List.foldl_cons]
    rw [ih _ (fun k' hk' => h k' (by simp [hk'])), fkStep_noValue _ _ _ (h k (by simp))]

/-- a property with no defining keyframe gets the empty sub-timeline … -/
theorem fromKeyframes_empty_of_noValue (kfs : List (PKeyframe α)) (dflt : Val α) (e0 : Easing)
    (h : ∀ k ∈ kfs, k.value = none) : SubTl.fromKeyframes kfs dflt e0 = SubTl.empty := by
  unfold SubTl.fromKeyframes
  simp only
  rw [fold_noValue_hasData _ _ _ h]
  simp

/-- … which never produces a value -/
theorem empty_valueAt (t : α) (idx : Nat) (ovr : Bool) : (SubTl.empty : SubTl α).valueAt t idx ovr = none := by
  simp [SubTl.valueAt, SubTl.empty]

theorem overrideStart_empty (v : Val α) : (SubTl.empty : SubTl α).overrideStart v = SubTl.empty := by
  simp [SubTl.overrideStart, SubTl.empty]

/-- the override is consulted only when `ovr = true` -/
theorem overrideStart_valueAt_false (s : SubTl α) (v : Val α) (t : α) (idx : Nat) :
    (s.overrideStart v).valueAt t idx false = s.valueAt t idx false := by
  unfold SubTl.overrideStart
  split
  · simp [SubTl.valueAt, SubTl.boundingFrames, SubTl.getFrame]
  · rfl

theorem overrideStart_overrideStart (s : SubTl α) (v w : Val α) :
    (s.overrideStart v).overrideStart w = s.overrideStart w := by
  unfold SubTl.overrideStart
  cases h : s.frames.head? with
  | none => simp [h]
  | some f => simp [h]

/-- sharper form: slot `i` is untouched if every sub-timeline aimed at `i` yields `none` -/
theorem applySubs_untouched' (subs : List (Nat × SubTl α)) (t : α) (idx : Nat) (ovr : Bool)
    (target res : List (Val α)) (h : applySubs subs t idx ovr target = .ok res)
    (i : Nat) (hi : ∀ p ∈ subs, p.1 = i → p.2.valueAt t idx ovr = none) : res[i]? = target[i]? := by
  induction subs generalizing target with
  | nil => simp [applySubs] at h; subst h; rfl
  | cons p rest ih =>
    obtain ⟨j, s⟩ := p
    have hrest : ∀ p ∈ rest, p.1 = i → p.2.valueAt t idx ovr = none := fun q hq => hi q (by simp [hq])
    simp only [applySubs] at h
    split at h
    · exact ih target h hrest
    · rename_i v hv
      rw [ih _ h hrest]
      by_cases hji : j = i
      · have := hi (j, s) (by simp) hji
        rw [this] at hv; simp at hv
      · exact List.getElem?_set_ne hji
    · simp at h

theorem mem_insertKf (k x : Keyframe α) (l : List (Keyframe α)) : x ∈ insertKf k l ↔ x = k ∨ x ∈ l := by
  induction l with
  | nil => simp [insertKf]
  | cons h t ih =>
    simp only [insertKf]
    split
    · simp only [List.mem_cons, ih]; constructor
      · rintro (h1 | h1 | h1) <;> simp [h1]
      · rintro (h1 | h1 | h1) <;> simp [h1]
    · simp

theorem mem_sortKfs (x : Keyframe α) (l : List (Keyframe α)) : x ∈ sortKfs l ↔ x ∈ l := by
  induction l with
  | nil => simp [sortKfs]
  | cons h t ih =>
    have : sortKfs (h :: t) = insertKf h (sortKfs t) := rfl
    rw [this, mem_insertKf, ih]; simp

theorem build_subs_fst (fields : List (AnimField α)) (cfg : Config α) :
    (Timeline.build fields cfg).subs.map Prod.fst = fields.map (·.idx) := by
  simp only [Timeline.build, List.map_map]
  have : (Prod.fst ∘ fun (x : AnimField α × Nat) =>
      (x.1.idx, SubTl.fromKeyframes (List.map (fun k => k.forField x.2) (sortKfs cfg.keyframes)) x.1.dflt cfg.easing))
      = (fun f => f.idx) ∘ Prod.fst := by funext x; rfl
  rw [this, ← List.map_map, List.zipIdx_map_fst]

theorem startWith_subs_fst (tl : Timeline α) (vs : List (Val α)) :
    (tl.startWith vs).subs.map Prod.fst = tl.subs.map Prod.fst := by
  simp only [Timeline.startWith, List.map_map]
  apply List.map_congr_left
  intro p _
  obtain ⟨i, s⟩ := p
  simp only [Function.comp]
  split <;> rfl
