import MinaModel.Lerp
import Mathlib.Tactic.Linarith
import Mathlib.Tactic.Ring
import Mathlib.Tactic.Positivity
import Mathlib.Tactic.FieldSimp
import Mathlib.Tactic.NormNum
import Mathlib.Algebra.Order.Field.Rat
import Mathlib.Algebra.Order.Floor.Ring
import Mathlib.Data.Rat.Floor
/-!
# The `Num ℚ` instance, unfolded: `rfl` simp lemmas and facts about `fmod`/`round`
-/

@[simp] theorem lit_rat (n : Nat) : (lit n : ℚ) = (n : ℚ) := rfl
@[simp] theorem dec_rat (m e : Nat) : (dec m e : ℚ) = (m : ℚ) / (10 : ℚ) ^ e := rfl
theorem fmod_rat (a b : ℚ) : (fmod a b : ℚ) = a - b * (RatNum.trunc (a / b) : ℚ) := rfl
@[simp] theorem round_rat (q : ℚ) : (Num.round q : ℚ) = RatNum.round q := rfl
@[simp] theorem toInt_rat (q : ℚ) : (Num.toInt? q) = RatNum.toInt? q := rfl
@[simp] theorem secsOfNanos_rat (n : Nat) : (Num.secsOfNanos n : ℚ) = (n : ℚ) / 1000000000 := rfl
@[simp] theorem nanosOfSecs_rat (q : ℚ) : (Num.nanosOfSecs q) = RatNum.nanosOfSecs q := rfl
@[simp] theorem beq_rat (a b : ℚ) : ((a == b) = true) ↔ a = b := by simp
theorem ofInt_rat (i : Int) : (Num.ofInt i : ℚ) = (i : ℚ) := by
  cases i with
  | ofNat n => simp [Num.ofInt]
  | negSucc n => simp [Num.ofInt, Int.negSucc_eq]

theorem rat_floor_eq (q : ℚ) : q.floor = ⌊q⌋ := rfl

theorem trunc_of_nonneg {q : ℚ} (h : 0 ≤ q) : RatNum.trunc q = ⌊q⌋ := by
  unfold RatNum.trunc
  rw [if_neg (not_lt.2 h)]; rfl

/-- for a non-negative dividend and positive divisor, Rust's `%` is the usual remainder -/
theorem fmod_nonneg {a b : ℚ} (ha : 0 ≤ a) (hb : 0 < b) : (fmod a b : ℚ) = a - b * (⌊a / b⌋ : ℚ) := by
  rw [fmod_rat, trunc_of_nonneg (div_nonneg ha hb.le)]

theorem fmod_bounds {a b : ℚ} (ha : 0 ≤ a) (hb : 0 < b) : 0 ≤ (fmod a b : ℚ) ∧ (fmod a b : ℚ) < b := by
  rw [fmod_nonneg ha hb]
  have h1 := Int.floor_le (a / b)
  have h2 := Int.lt_floor_add_one (a / b)
  have e : a = b * (a / b) := by field_simp
  constructor <;> nlinarith

/-- `RatNum.round q` is an integer -/
def roundInt (q : ℚ) : Int := if q < 0 then -⌊(-q) + 1 / 2⌋ else ⌊q + 1 / 2⌋

theorem round_eq_roundInt (q : ℚ) : RatNum.round q = (roundInt q : ℚ) := by
  unfold RatNum.round roundInt
  split <;> simp [rat_floor_eq]

theorem roundInt_close (q : ℚ) : |q - (roundInt q : ℚ)| ≤ 1 / 2 := by
  unfold roundInt
  split
  · have h1 := Int.floor_le (-q + 1 / 2)
    have h2 := Int.lt_floor_add_one (-q + 1 / 2)
    push_cast
    rw [abs_le]; constructor <;> linarith
  · have h1 := Int.floor_le (q + 1 / 2)
    have h2 := Int.lt_floor_add_one (q + 1 / 2)
    rw [abs_le]; constructor <;> linarith

theorem roundInt_intCast (n : Int) : roundInt (n : ℚ) = n := by
  unfold roundInt
  split
  · have : ((-(n:ℚ)) + 1/2) = ((-n : Int) : ℚ) + 1/2 := by push_cast; ring
    rw [this]
    have : ⌊((-n : Int) : ℚ) + 1 / 2⌋ = -n := by
      rw [Int.floor_eq_iff]; constructor <;> push_cast <;> linarith
    omega
  · rw [Int.floor_eq_iff]; constructor <;> linarith

/-- monotone: rounding preserves (non-strict) order -/
theorem roundInt_mono {p q : ℚ} (h : p ≤ q) : roundInt p ≤ roundInt q := by
  unfold roundInt
  split <;> split
  · have := Int.floor_le_floor (show -q + 1/2 ≤ -p + 1/2 by linarith)
    omega
  · rename_i hp hq
    have h1 : 0 ≤ ⌊q + 1/2⌋ := Int.floor_nonneg.2 (by have := not_lt.1 hq; linarith)
    have h2 : 0 ≤ ⌊-p + 1/2⌋ := Int.floor_nonneg.2 (by linarith)
    omega
  · rename_i hp hq; have := not_lt.1 hp; linarith
  · exact Int.floor_le_floor (by linarith)

theorem toInt_intCast (n : Int) : RatNum.toInt? (n : ℚ) = some n := by
  unfold RatNum.toInt?
  simp
