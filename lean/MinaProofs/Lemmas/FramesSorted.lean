import MinaProofs.Lemmas.Search
/-!
# Frames of a built sub-timeline: equality with the CSS reading, sortedness
-/
open Spec

theorem KfOK.tail {k : PKeyframe ℚ} {ks : List (PKeyframe ℚ)} (h : KfOK (k :: ks)) : KfOK ks :=
  ⟨(List.pairwise_cons.1 h.sorted).2, fun x hx => h.nonneg x (by simp [hx]), fun x hx => h.le_one x (by simp [hx])⟩

theorem cssReals_head_time_ge (ks : List (PKeyframe ℚ)) (e : Easing) (f : Frame ℚ) (rs : List (Frame ℚ))
    (h : cssReals ks e = f :: rs) (lo : ℚ) (hlo : ∀ k ∈ ks, lo ≤ k.time) : lo ≤ f.time := by
  obtain ⟨k, hk, ht⟩ := mem_cssReals_time ks e f (by rw [h]; simp)
  rw [ht]; exact hlo k hk

/-- with sorted non-negative positions, the loop pushes the synthetic 0 % frame iff the first defining
keyframe is at a positive position -/
theorem synthPre_eq (d : Val ℚ) (e : Easing) (ks : List (PKeyframe ℚ)) (hok : KfOK ks) (f : Frame ℚ)
    (rs : List (Frame ℚ)) (h : cssReals ks e = f :: rs) :
    synthPre d e ks = if lit 0 < f.time then [⟨lit 0, d, e⟩] else [] := by
  induction ks generalizing e with
  | nil => simp [cssReals] at h
  | cons k ks ih =>
    simp only [synthPre]
    by_cases hpos : lit 0 < k.time
    · have : k.time ≤ f.time := cssReals_head_time_ge (k :: ks) e f rs h k.time (by
        intro x hx
        rcases List.mem_cons.1 hx with rfl | hx
        · exact le_rfl
        · exact (List.pairwise_cons.1 hok.sorted).1 x hx)
      have hf : lit 0 < f.time := lt_of_lt_of_le hpos this
      rw [if_pos hpos, if_pos hf]
    · rw [if_neg hpos]
      cases hv : k.value with
      | some v =>
        simp only [cssReals, hv, List.cons.injEq] at h
        have : ¬ lit 0 < f.time := by rw [← h.1]; exact hpos
        rw [if_neg this]; simp
      | none =>
        simp only [cssReals, hv] at h
        simp only [Option.isSome_none, Bool.false_eq_true, if_false]
        -- the synthetic frame of the tail uses the same easing (no defining keyframe so far)
        exact ih e hok.tail h

/-- `from_keyframes` builds exactly the CSS reading of the keyframe list -/
theorem frames_eq_css (ks : List (PKeyframe ℚ)) (hok : KfOK ks) (d : Val ℚ) (e0 : Easing) :
    (SubTl.fromKeyframes ks d e0).frames = cssFrames ks d e0 := by
  cases hr : cssReals ks e0 with
  | nil =>
    have : (ks.foldl (fkStep d) ⟨[], [], e0, false⟩).hasData = false := by
      rw [fold_hasData, hr]; rfl
    simp [SubTl.fromKeyframes, this, SubTl.empty, cssFrames, hr]
  | cons f rs =>
    have hne : cssReals ks e0 ≠ [] := by rw [hr]; simp
    rw [(fromKeyframes_shape ks d e0 hne).2.2]
    simp only [cssFrames, hr, synthPre_eq d e0 ks hok f rs hr]
    cases ((if lit 0 < f.time then [(⟨lit 0, d, e0⟩ : Frame ℚ)] else []) ++ f :: rs).getLast? <;> rfl

theorem cssReals_sorted (ks : List (PKeyframe ℚ)) (e : Easing) (h : ks.Pairwise (fun a b => a.time ≤ b.time)) :
    (cssReals ks e).Pairwise (fun a b => a.time ≤ b.time) := by
  induction ks generalizing e with
  | nil => simp [cssReals]
  | cons k ks ih =>
    obtain ⟨h1, h2⟩ := List.pairwise_cons.1 h
    simp only [cssReals]
    cases k.value with
    | none => exact ih _ h2
    | some v =>
      refine List.pairwise_cons.2 ⟨?_, ih _ h2⟩
      intro f hf
      obtain ⟨k', hk', ht⟩ := mem_cssReals_time ks _ f hf
      rw [ht]; exact h1 k' hk'

/-- the frames are sorted by position, all within [0,1] -/
theorem frames_sorted (ks : List (PKeyframe ℚ)) (hok : KfOK ks) (d : Val ℚ) (e0 : Easing) :
    (SubTl.fromKeyframes ks d e0).frames.Pairwise (fun a b => a.time ≤ b.time) ∧
    ∀ f ∈ (SubTl.fromKeyframes ks d e0).frames, 0 ≤ f.time ∧ f.time ≤ 1 := by
  cases hr : cssReals ks e0 with
  | nil =>
    have : (ks.foldl (fkStep d) ⟨[], [], e0, false⟩).hasData = false := by
      rw [fold_hasData, hr]; rfl
    simp [SubTl.fromKeyframes, this, SubTl.empty]
  | cons f0 rs =>
    have hne : cssReals ks e0 ≠ [] := by rw [hr]; simp
    rw [(fromKeyframes_shape ks d e0 hne).2.2]
    have hbound : ∀ f ∈ synthPre d e0 ks ++ cssReals ks e0, 0 ≤ f.time ∧ f.time ≤ 1 := by
      intro f hf
      rcases List.mem_append.1 hf with hf | hf
      · rw [mem_synthPre d e0 ks f hf]; simp
      · obtain ⟨k, hk, ht⟩ := mem_cssReals_time ks e0 f hf
        rw [ht]; exact ⟨hok.nonneg k hk, hok.le_one k hk⟩
    have hF0 : (synthPre d e0 ks ++ cssReals ks e0).Pairwise (fun a b => a.time ≤ b.time) := by
      rw [List.pairwise_append]
      refine ⟨?_, cssReals_sorted ks e0 hok.sorted, ?_⟩
      · have := synthPre_length_le d e0 ks
        match hsp : synthPre d e0 ks with
        | [] => simp
        | [x] => simp
        | x :: y :: t => rw [hsp] at this; simp at this
      · intro a ha b hb
        rw [mem_synthPre d e0 ks a ha]
        simpa using (hbound b (by simp [hb])).1
    cases hl : (synthPre d e0 ks ++ cssReals ks e0).getLast? with
    | none => simp only; exact ⟨hF0, hbound⟩
    | some l =>
      simp only
      split
      · constructor
        · rw [List.pairwise_append]
          refine ⟨hF0, by simp, ?_⟩
          intro a ha b hb
          simp only [List.mem_singleton] at hb; subst hb
          simpa using (hbound a ha).2
        · intro f hf
          rcases List.mem_append.1 hf with hf | hf
          · exact hbound f hf
          · simp only [List.mem_singleton] at hf; subst hf; simp
      · exact ⟨hF0, hbound⟩
