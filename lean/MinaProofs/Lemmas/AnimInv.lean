import MinaProofs.Props.C12
import MinaProofs.Props.C09
/-!
# The animator invariant (generic in the number system)

`AnimInv a`:
* **current** — if the current state is animated, `current_values` is a fixpoint of that state's timeline
  at the time spent in the state (i.e. the values *are* the timeline evaluated there);
* **paused** — if a pause is remembered for another state `ps`, the current state is un-animated and the
  values are a fixpoint of `ps`'s timeline at the remembered position (frozen exactly where it was).

`AnimInv` holds initially (given the blend law), and is preserved by `advance` and `set_state`.
-/

variable {α : Type} [Num α]

/-- merged evaluation is idempotent (write-list normal form) -/
theorem merged_update_idempotent (m : Merged α) (tgt r : List (Val α)) (time : α)
    (h : m.update tgt time = .ok r) : m.update r time = .ok r := by
  have hm : m = Merged.mk m.timelines := rfl
  rw [hm, C12.merged_update_eq_writes] at h ⊢
  cases hw : C12.mergedWrites m.timelines time with
  | error e => rw [hw] at h; simp [Except.map] at h
  | ok W =>
    rw [hw] at h
    simp only [Except.map, Except.ok.injEq] at h ⊢
    subst h
    exact applyWrites_idem W tgt

/-- the blend law a timeline must satisfy for `set_state` not to jump: started from `v` and evaluated at
time 0 it reproduces `v` -/
def BlendOK (P : List (Val α) → Prop) (m : Merged α) : Prop :=
  ∀ v : List (Val α), P v → (m.startWith v).update v (Num.secsOfNanos 0) = .ok v

structure AnimInv (a : Animator α) : Prop where
  current : ∀ tl, a.timeline? a.state = some tl → tl.update a.values (Num.secsOfNanos a.stateNs) = .ok a.values
  paused : ∀ ps pos, a.paused = some (ps, pos) → ps ≠ a.state →
    a.timeline? a.state = none ∧ ∀ tl, a.timeline? ps = some tl → tl.update a.values (Num.secsOfNanos pos) = .ok a.values

theorem timeline?_set_ne (a : Animator α) (s s' : Nat) (x : Option (Merged α)) (h : s ≠ s') :
    ({ a with timelines := a.timelines.set s x } : Animator α).timeline? s' = a.timeline? s' := by
  unfold Animator.timeline?
  simp only [List.getElem?_set_ne h]

theorem timeline?_set_self (a : Animator α) (s : Nat) (m tl : Merged α) (h : a.timeline? s = some tl) :
    ({ a with timelines := a.timelines.set s (some m) } : Animator α).timeline? s = some m := by
  unfold Animator.timeline? at h ⊢
  have hlt : s < a.timelines.length := by
    by_contra hc
    rw [List.getElem?_eq_none (not_lt.1 hc)] at h; simp at h
  simp [List.getElem?_set_self hlt]

theorem updateValues_spec (a a' : Animator α) (h : a.updateValues = .ok a') :
    a'.timelines = a.timelines ∧ a'.state = a.state ∧ a'.paused = a.paused ∧ a'.stateNs = a.stateNs ∧
    (match a.timeline? a.state with
      | some tl => tl.update a.values (Num.secsOfNanos a.stateNs) = .ok a'.values
      | none => a'.values = a.values) := by
  unfold Animator.updateValues at h
  cases htl : a.timeline? a.state with
  | none => rw [htl] at h; simp at h; subst h; exact ⟨rfl, rfl, rfl, rfl, rfl⟩
  | some tl =>
    rw [htl] at h
    simp only at h
    cases hu : tl.update a.values (Num.secsOfNanos a.stateNs) with
    | error e => rw [hu] at h; simp at h
    | ok v => rw [hu] at h; simp at h; subst h; exact ⟨rfl, rfl, rfl, rfl, hu⟩

/-- after `update_current_values` the *current* clause holds, whatever came before -/
theorem updateValues_current (a a' : Animator α) (h : a.updateValues = .ok a') :
    ∀ tl, a'.timeline? a'.state = some tl → tl.update a'.values (Num.secsOfNanos a'.stateNs) = .ok a'.values := by
  obtain ⟨h1, h2, _, h4, h5⟩ := updateValues_spec a a' h
  intro tl htl
  have htl' : a.timeline? a.state = some tl := by
    unfold Animator.timeline? at htl ⊢; rw [h1, h2] at htl; exact htl
  rw [htl'] at h5
  rw [h4]
  exact merged_update_idempotent tl _ _ _ h5

theorem inv_advanceNs (a a' : Animator α) (ns : Nat) (hinv : AnimInv a) (h : a.advanceNs ns = .ok a') : AnimInv a' := by
  unfold Animator.advanceNs at h
  split at h
  · simp at h
  · set b : Animator α := { a with stateNs := a.stateNs + ns } with hb
    obtain ⟨h1, h2, h3, h4, h5⟩ := updateValues_spec b a' h
    refine ⟨updateValues_current b a' h, ?_⟩
    intro ps pos hp hne
    have hp' : a.paused = some (ps, pos) := by rw [h3] at hp; exact hp
    have hne' : ps ≠ a.state := by rw [h2] at hne; exact hne
    obtain ⟨hnone, hfix⟩ := hinv.paused ps pos hp' hne'
    have hbnone : b.timeline? b.state = none := hnone
    rw [hbnone] at h5
    have tl_eq : ∀ s, a'.timeline? s = a.timeline? s := by
      intro s; unfold Animator.timeline?; rw [h1]
    refine ⟨by rw [tl_eq, h2]; exact hnone, ?_⟩
    intro tl htl
    rw [tl_eq] at htl
    rw [h5]; exact hfix tl htl

theorem blendNext_spec (a : Animator α) (s : Nat) :
    (a.blendNext s).values = a.values ∧ (a.blendNext s).state = a.state ∧ (a.blendNext s).paused = a.paused ∧
    (a.blendNext s).stateNs = a.stateNs ∧
    (∀ s', s' ≠ s → (a.blendNext s).timeline? s' = a.timeline? s') ∧
    (a.blendNext s).timeline? s = (a.timeline? s).map (·.startWith a.values) := by
  unfold Animator.blendNext
  cases htl : a.timeline? s with
  | none => simp [htl]
  | some tl =>
    simp only [Option.map_some]
    refine ⟨by first | rfl | trivial, by first | rfl | trivial, by first | rfl | trivial, by first | rfl | trivial, ?_, ?_⟩
    · intro s' hs'; exact timeline?_set_ne a s s' _ (Ne.symm hs')
    · exact timeline?_set_self a s _ tl htl

theorem notePause_spec (a : Animator α) (s : Nat) :
    (a.notePause s).values = a.values ∧ (a.notePause s).state = a.state ∧ (a.notePause s).stateNs = a.stateNs ∧
    (a.notePause s).timelines = a.timelines ∧
    (a.notePause s).paused =
      (if (a.timeline? a.state).isSome && !(a.timeline? s).isSome then some (a.state, a.stateNs)
       else if (a.timeline? s).isSome then none else a.paused) := by
  unfold Animator.notePause
  dsimp only
  split
  · exact ⟨rfl, rfl, rfl, rfl, rfl⟩
  · split <;> exact ⟨rfl, rfl, rfl, rfl, rfl⟩

/-- `set_state` never changes `current_values` (given the invariant and the blend law), and preserves
the invariant -/
theorem setState_spec (a a' : Animator α) (s : Nat) (hinv : AnimInv a) (P : List (Val α) → Prop) (hlen : P a.values)
    (hblend : ∀ s tl, a.timeline? s = some tl → BlendOK P tl)
    (h : a.setState s = .ok a') : a'.values = a.values ∧ AnimInv a' ∧
      (∀ s' tl', a'.timeline? s' = some tl' → ∃ tl, a.timeline? s' = some tl ∧ (tl' = tl ∨ tl' = tl.startWith a.values)) := by
  unfold Animator.setState at h
  split at h
  · simp at h; subst h; exact ⟨rfl, hinv, fun s' tl' h' => ⟨tl', h', Or.inl rfl⟩⟩
  · rename_i hne
    have hsne : s ≠ a.state := by simpa using hne
    unfold Animator.switchTo at h
    cases hr : a.resumePos s with
    | some pos =>
      -- resume: the remembered state is `s` itself
      rw [hr] at h
      simp only at h
      have hp : a.paused = some (s, pos) := by
        unfold Animator.resumePos at hr
        cases hpa : a.paused with
        | none => rw [hpa] at hr; simp at hr
        | some p =>
          obtain ⟨ps, pp⟩ := p
          rw [hpa] at hr
          simp only at hr
          split at hr
          · rename_i heq
            simp only [Option.some.injEq] at hr
            have : s = ps := by simpa using heq
            subst this; subst hr; rfl
          · simp at hr
      obtain ⟨hcur_none, hfix⟩ := hinv.paused s pos hp hsne
      set b : Animator α := { a with stateNs := pos, state := s } with hb
      obtain ⟨h1, h2, h3, h4, h5⟩ := updateValues_spec b a' h
      have hv : a'.values = a.values := by
        cases htl : b.timeline? b.state with
        | none => rw [htl] at h5; exact h5
        | some tl =>
          rw [htl] at h5
          have : tl.update a.values (Num.secsOfNanos pos) = .ok a.values := hfix tl htl
          have h5' : tl.update a.values (Num.secsOfNanos pos) = .ok a'.values := h5
          rw [this] at h5'; simp only [Except.ok.injEq] at h5'; exact h5'.symm
      refine ⟨hv, ⟨updateValues_current b a' h, ?_⟩, ?_⟩
      swap
      · intro s' tl' h'
        refine ⟨tl', ?_, Or.inl rfl⟩
        unfold Animator.timeline? at h' ⊢; rw [h1] at h'; exact h'
      intro ps pos' hp' hne'
      rw [h3] at hp'
      have : (some (s, pos) : Option (Nat × Nat)) = some (ps, pos') := by rw [← hp]; exact hp'
      simp only [Option.some.injEq, Prod.mk.injEq] at this
      rw [h2] at hne'
      exact absurd this.1.symm hne'
    | none =>
      rw [hr] at h
      simp only at h
      obtain ⟨n1, n2, n3, n4, n5⟩ := notePause_spec a s
      obtain ⟨b1, b2, b3, b4, b5, b6⟩ := blendNext_spec (a.notePause s) s
      set b : Animator α := { a.enter s with state := s } with hb
      have tl_np : ∀ s', (a.notePause s).timeline? s' = a.timeline? s' := by
        intro s'; unfold Animator.timeline?; rw [n4]
      have hbv : b.values = a.values := by simp only [hb, Animator.enter]; rw [b1, n1]
      have hbs : b.state = s := rfl
      have hbns : b.stateNs = 0 := rfl
      have hbtl_s : b.timeline? s = (a.timeline? s).map (·.startWith a.values) := by
        have : b.timeline? s = ((a.notePause s).blendNext s).timeline? s := rfl
        rw [this, b6, tl_np, n1]
      have hbtl_ne : ∀ s', s' ≠ s → b.timeline? s' = a.timeline? s' := by
        intro s' hs'
        have : b.timeline? s' = ((a.notePause s).blendNext s).timeline? s' := rfl
        rw [this, b5 s' hs', tl_np]
      have hbp : b.paused = (a.notePause s).paused := by simp only [hb, Animator.enter]; rw [b3]
      obtain ⟨h1, h2, h3, h4, h5⟩ := updateValues_spec b a' h
      have hv : a'.values = a.values := by
        rw [hbs, hbtl_s] at h5
        cases htl : a.timeline? s with
        | none => rw [htl] at h5; simp only [Option.map_none] at h5; rw [h5, hbv]
        | some tl =>
          rw [htl] at h5
          simp only [Option.map_some] at h5
          have := hblend s tl htl a.values hlen
          rw [hbv, hbns, this] at h5
          simp only [Except.ok.injEq] at h5; exact h5.symm
      refine ⟨hv, ⟨updateValues_current b a' h, ?_⟩, ?_⟩
      swap
      · intro s' tl' h'
        have h'' : b.timeline? s' = some tl' := by
          unfold Animator.timeline? at h' ⊢; rw [h1] at h'; exact h'
        by_cases hs' : s' = s
        · subst hs'
          rw [hbtl_s] at h''
          cases htl : a.timeline? s' with
          | none => rw [htl] at h''; simp at h''
          | some tl =>
            rw [htl] at h''; simp only [Option.map_some, Option.some.injEq] at h''
            exact ⟨tl, rfl, Or.inr h''.symm⟩
        · rw [hbtl_ne s' hs'] at h''
          exact ⟨tl', h'', Or.inl rfl⟩
      intro ps pos hp hne'
      rw [h3, hbp, n5] at hp
      rw [h2, hbs] at hne'
      have tl_a' : ∀ s', a'.timeline? s' = b.timeline? s' := by
        intro s'; unfold Animator.timeline?; rw [h1]
      by_cases hc1 : ((a.timeline? a.state).isSome && !(a.timeline? s).isSome) = true
      · -- an animation was interrupted by an un-animated state: remember it
        rw [if_pos hc1] at hp
        simp only [Option.some.injEq, Prod.mk.injEq] at hp
        obtain ⟨rfl, rfl⟩ := hp
        simp only [Bool.and_eq_true, Bool.not_eq_true', Option.isSome_eq_false_iff, Option.isNone_iff_eq_none] at hc1
        refine ⟨by rw [tl_a', h2, hbs, hbtl_s, hc1.2]; rfl, ?_⟩
        intro tl htl
        rw [tl_a', hbtl_ne _ (Ne.symm hsne)] at htl
        rw [hv]; exact hinv.current tl htl
      · rw [if_neg hc1] at hp
        by_cases hc2 : (a.timeline? s).isSome = true
        · rw [if_pos hc2] at hp; simp at hp
        · rw [if_neg hc2] at hp
          have hsnone : a.timeline? s = none := by
            cases h' : a.timeline? s with
            | none => rfl
            | some _ => rw [h'] at hc2; simp at hc2
          have hwas : a.timeline? a.state = none := by
            cases h' : a.timeline? a.state with
            | none => rfl
            | some _ => rw [h', hsnone] at hc1; simp at hc1
          refine ⟨by rw [tl_a', h2, hbs, hbtl_s, hsnone]; rfl, ?_⟩
          intro tl htl
          rw [tl_a', hbtl_ne _ hne'] at htl
          rw [hv]
          by_cases hps : ps = a.state
          · subst hps; rw [hwas] at htl; simp at htl
          · exact (hinv.paused ps pos hp hps).2 tl htl
