import MinaProofs.Lemmas.Timeline
import MinaModel.Spec.CssFrames
/-!
# What `from_keyframes` builds: the fold characterised (generic part)
-/
open Spec

variable {α : Type} [Num α]

/-- the synthetic 0 % frame as the loop decides it, scanning from an empty frame list -/
def synthPre (d : Val α) (cur : Easing) : List (PKeyframe α) → List (Frame α)
  | [] => []
  | k :: ks => if lit 0 < k.time then [⟨lit 0, d, cur⟩] else if k.value.isSome then [] else synthPre d cur ks

theorem fkStep_frames_nonempty (d : Val α) (acc : FkAcc α) (k : PKeyframe α) (h : acc.frames ≠ []) :
    (fkStep d acc k).frames = acc.frames ++ cssReals [k] acc.curEasing ∧
    (fkStep d acc k).curEasing = (match k.value with | some _ => k.easing.getD acc.curEasing | none => acc.curEasing) := by
  unfold fkStep
  have : acc.frames.isEmpty = false := by cases hf : acc.frames <;> simp_all
  simp only [this, Bool.false_and, Bool.false_eq_true, if_false]
  cases hv : k.value with
  | none => simp [cssReals, hv]
  | some v => cases he : k.easing <;> simp [cssReals, hv, he]

theorem fold_frames_nonempty (d : Val α) (ks : List (PKeyframe α)) (acc : FkAcc α) (h : acc.frames ≠ []) :
    (ks.foldl (fkStep d) acc).frames = acc.frames ++ cssReals ks acc.curEasing := by
  induction ks generalizing acc with
  | nil => simp [cssReals]
  | cons k ks ih =>
    simp only [List.foldl_cons]
    obtain ⟨hf, hc⟩ := fkStep_frames_nonempty d acc k h
    have hne : (fkStep d acc k).frames ≠ [] := by rw [hf]; simp [h]
    rw [ih _ hne, hf, hc]
    cases hv : k.value with
    | none => simp [cssReals, hv]
    | some v => simp [cssReals, hv]

theorem fold_frames_empty (d : Val α) (ks : List (PKeyframe α)) (acc : FkAcc α) (h : acc.frames = []) :
    (ks.foldl (fkStep d) acc).frames = synthPre d acc.curEasing ks ++ cssReals ks acc.curEasing := by
  induction ks generalizing acc with
  | nil => simp [cssReals, synthPre, h]
  | cons k ks ih =>
    simp only [List.foldl_cons]
    by_cases hpos : lit 0 < k.time
    · -- a synthetic frame is pushed; from here on the list is non-empty
      have hstep : (fkStep d acc k).frames = [⟨lit 0, d, acc.curEasing⟩] ++ cssReals [k] acc.curEasing ∧
          (fkStep d acc k).curEasing = (match k.value with | some _ => k.easing.getD acc.curEasing | none => acc.curEasing) := by
        unfold fkStep
        simp only [h, List.isEmpty_nil, Bool.true_and, hpos, decide_true, if_true, List.nil_append]
        cases hv : k.value with
        | none => simp [cssReals, hv]
        | some v => cases he : k.easing <;> simp [cssReals, hv, he]
      have hne : (fkStep d acc k).frames ≠ [] := by rw [hstep.1]; simp
      rw [fold_frames_nonempty d ks _ hne, hstep.1, hstep.2]
      simp only [synthPre, hpos, if_true]
      cases hv : k.value with
      | none => simp [cssReals, hv]
      | some v => simp [cssReals, hv]
    · cases hv : k.value with
      | some v =>
        have hstep : (fkStep d acc k).frames = [⟨k.time, v, k.easing.getD acc.curEasing⟩] ∧
            (fkStep d acc k).curEasing = k.easing.getD acc.curEasing := by
          unfold fkStep
          simp only [h, List.isEmpty_nil, Bool.true_and, hpos, decide_false, if_false, Bool.false_eq_true, hv, List.nil_append]
          cases he : k.easing <;> simp
        have hne : (fkStep d acc k).frames ≠ [] := by rw [hstep.1]; simp
        rw [fold_frames_nonempty d ks _ hne, hstep.1, hstep.2]
        simp [synthPre, hpos, hv, cssReals]
      | none =>
        have hstep : (fkStep d acc k).frames = [] ∧ (fkStep d acc k).curEasing = acc.curEasing := by
          unfold fkStep
          simp [h, hpos, hv]
        rw [ih _ hstep.1, hstep.2]
        simp [synthPre, hpos, hv, cssReals]

theorem fold_hasData (d : Val α) (ks : List (PKeyframe α)) (acc : FkAcc α) :
    (ks.foldl (fkStep d) acc).hasData = (acc.hasData || !(cssReals ks acc.curEasing).isEmpty) := by
  induction ks generalizing acc with
  | nil => simp [cssReals]
  | cons k ks ih =>
    simp only [List.foldl_cons, ih]
    unfold fkStep
    cases hv : k.value with
    | none => simp [cssReals, hv]
    | some v => simp [cssReals, hv]

theorem fkStep_indexMap (d : Val α) (acc : FkAcc α) (k : PKeyframe α) :
    (fkStep d acc k).indexMap = acc.indexMap ++ [max (fkStep d acc k).frames.length 1 - 1] := by
  unfold fkStep
  cases hv : k.value <;> simp

/-- entry `j` of the index map is "number of frames after keyframes 0..j, at least 1, minus 1" -/
theorem fold_indexMap (d : Val α) (ks : List (PKeyframe α)) (acc : FkAcc α) :
    (ks.foldl (fkStep d) acc).indexMap =
      acc.indexMap ++ (List.range ks.length).map
        (fun j => max ((ks.take (j + 1)).foldl (fkStep d) acc).frames.length 1 - 1) := by
  induction ks generalizing acc with
  | nil => simp
  | cons k ks ih =>
    simp only [List.foldl_cons, ih, fkStep_indexMap, List.length_cons, List.range_succ_eq_map, List.map_cons,
      List.map_map, List.append_assoc, List.singleton_append]
    congr 1
