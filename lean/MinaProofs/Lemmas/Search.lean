import MinaProofs.Lemmas.ValueAt
import MinaModel.Search
/-!
# The keyframe search meets its contract on sorted input

`prepare_frame` maps the result of `binary_search_by` to `Ok(i) ↦ i`, `Err(n) ↦ max(n,1) − 1`. For a
sorted, non-empty boundary list the resulting index `idx` satisfies: either `bt[idx] ≤ x` and everything
after `idx` is `≥ x`, or `idx = 0` and everything is `> x`. The lookup theorem needs nothing else, so it
survives any other search algorithm with the same contract.
-/

def searchIdx (bt : List ℚ) (x : ℚ) : Nat :=
  match binSearch bt x with
  | .ok i => i
  | .error n => max n 1 - 1

theorem loop_inv (a : List ℚ) (x : ℚ) (hs : ∀ i j, i ≤ j → j < a.length → a.getD i x ≤ a.getD j x)
    (fuel size base : Nat) (hsz : 1 ≤ size) (hfuel : size ≤ fuel + 1) (hbound : base + size ≤ a.length)
    (hlow : base = 0 ∨ a.getD base x ≤ x) (hup : ∀ j, base + size ≤ j → j < a.length → x < a.getD j x) :
    let b := binSearchLoop a x fuel size base
    b < a.length ∧ (b = 0 ∨ a.getD b x ≤ x) ∧ ∀ j, b < j → j < a.length → x < a.getD j x := by
  induction fuel generalizing size base with
  | zero =>
    have : size = 1 := by omega
    subst this
    simp only [binSearchLoop]
    exact ⟨by omega, hlow, fun j hj hl => hup j (by omega) hl⟩
  | succ fuel ih =>
    simp only [binSearchLoop]
    split
    · rename_i hgt
      have hhalf : 1 ≤ size / 2 := by omega
      have hsub : size - size / 2 ≥ size / 2 := by omega
      by_cases hlt : x < a.getD (base + size / 2) x
      · simp only [hlt, if_true]
        apply ih (size - size / 2) base (by omega) (by omega) (by omega) hlow
        intro j hj hl
        have : a.getD (base + size / 2) x ≤ a.getD j x := hs _ _ (by omega) hl
        exact lt_of_lt_of_le hlt this
      · simp only [hlt, if_false]
        apply ih (size - size / 2) (base + size / 2) (by omega) (by omega) (by omega) (Or.inr (not_lt.1 hlt))
        intro j hj hl
        exact hup j (by omega) hl
    · have : size = 1 := by omega
      subst this
      exact ⟨by omega, hlow, fun j hj hl => hup j (by omega) hl⟩

theorem searchIdx_contract (bt : List ℚ) (x : ℚ) (hne : bt ≠ []) (hsorted : bt.Pairwise (· ≤ ·)) :
    searchIdx bt x < bt.length ∧
    (((∀ j, j ≤ searchIdx bt x → ∀ h : j < bt.length, bt[j] ≤ x) ∧ (∀ j, searchIdx bt x < j → ∀ h : j < bt.length, x ≤ bt[j])) ∨
     (searchIdx bt x = 0 ∧ ∀ j, ∀ h : j < bt.length, x < bt[j])) := by
  have hlen : 0 < bt.length := List.length_pos_of_ne_nil hne
  have hs : ∀ i j, i ≤ j → j < bt.length → bt.getD i x ≤ bt.getD j x := by
    intro i j hij hj
    have hi : i < bt.length := by omega
    rw [List.getD_eq_getElem?_getD, List.getD_eq_getElem?_getD, List.getElem?_eq_getElem hi, List.getElem?_eq_getElem hj]
    simp only [Option.getD_some]
    rcases Nat.lt_or_eq_of_le hij with h | h
    · exact List.pairwise_iff_getElem.1 hsorted i j hi hj h
    · subst h; exact le_rfl
  obtain ⟨hb, hlow, hup⟩ := loop_inv bt x hs bt.length bt.length 0 hlen (by omega) (by omega) (Or.inl rfl)
    (fun j hj hl => by omega)
  have gd : ∀ j (h : j < bt.length), bt.getD j x = bt[j] := by
    intro j h; rw [List.getD_eq_getElem?_getD, List.getElem?_eq_getElem h]; rfl
  set b := binSearchLoop bt x bt.length bt.length 0 with hbdef
  have le_of_le_b : bt.getD b x ≤ x → ∀ j, j ≤ b → ∀ h : j < bt.length, bt[j] ≤ x := by
    intro hle j hj h
    rw [← gd j h]; exact le_trans (hs j b hj hb) hle
  have up' : ∀ j, b < j → ∀ h : j < bt.length, x ≤ bt[j] := by
    intro j hj h; rw [← gd j h]; exact (hup j hj h).le
  unfold searchIdx binSearch
  have hl0 : (bt.length == 0) = false := by simp; omega
  simp only [hl0, Bool.false_eq_true, if_false, ← hbdef]
  by_cases heq : (bt.getD b x == x) = true
  · rw [if_pos heq]
    have : bt.getD b x = x := by simpa using heq
    exact ⟨hb, Or.inl ⟨le_of_le_b this.le, up'⟩⟩
  · rw [if_neg heq]
    by_cases hlt : bt.getD b x < x
    · rw [if_pos hlt]
      have e : max (b + 1) 1 - 1 = b := by omega
      simp only [e]
      exact ⟨hb, Or.inl ⟨le_of_le_b hlt.le, up'⟩⟩
    · rw [if_neg hlt]
      have hgt : x < bt.getD b x := by
        have hne' : bt.getD b x ≠ x := by simpa using heq
        exact lt_of_le_of_ne (not_lt.1 hlt) (Ne.symm hne')
      rcases hlow with hb0 | hle
      · have e : max b 1 - 1 = 0 := by omega
        simp only [e]
        refine ⟨hlen, Or.inr ⟨trivial, ?_⟩⟩
        intro j h
        rcases Nat.eq_zero_or_pos j with rfl | hj
        · rw [← gd 0 h, ← hb0]; exact hgt
        · rw [← gd j h]; exact hup j (by omega) h
      · exact absurd hgt (not_lt.2 hle)

/-- in the vocabulary of the lookup theorem -/
theorem searchIdx_hintOK (ks : List (PKeyframe ℚ)) (hok : KfOK ks) (hne : ks ≠ []) (s : ℚ) :
    HintOK ks s (searchIdx (ks.map (·.time)) s) := by
  have hbt_ne : ks.map (·.time) ≠ [] := by simpa using hne
  have hsorted : (ks.map (·.time)).Pairwise (· ≤ ·) := by rw [List.pairwise_map]; exact hok.sorted
  obtain ⟨hlt, hc⟩ := searchIdx_contract (ks.map (·.time)) s hbt_ne hsorted
  set idx := searchIdx (ks.map (·.time)) s
  have hlt' : idx < ks.length := by simpa using hlt
  refine ⟨ks.take (idx + 1), ks.drop (idx + 1), (List.take_append_drop _ _).symm, by simp; omega, ?_⟩
  rcases hc with ⟨hle, hge⟩ | ⟨h0, hall⟩
  · left
    constructor
    · intro k hk
      obtain ⟨j, hj, rfl⟩ := List.getElem_of_mem hk
      simp only [List.length_take] at hj
      have hj' : j < ks.length := by omega
      have := hle j (by omega) (by simpa using hj')
      simpa using this
    · intro k hk
      obtain ⟨j, hj, rfl⟩ := List.getElem_of_mem hk
      simp only [List.length_drop] at hj
      have := hge (idx + 1 + j) (by omega) (by simp; omega)
      simpa using this
  · right
    refine ⟨h0, ?_⟩
    intro k hk
    obtain ⟨j, hj, rfl⟩ := List.getElem_of_mem hk
    have := hall j (by simpa using hj)
    simpa using this
