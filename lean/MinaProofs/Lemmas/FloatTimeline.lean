import MinaProofs.Props.C10
import MinaProofs.Props.C20
import MinaProofs.Props.C11
/-!
# Float-valued built timelines obey the blend law (instance of `C04.TlOK`)

For a timeline built by the builder from a float-only configuration — built-in easings, keyframes at
pairwise distinct positions in [0,1], delay ≥ 0, cycle duration > 0 — evaluation at time 0 after
`start_with(v)` reproduces `v`, after any number of earlier `start_with` calls, and evaluation keeps all
slots float-valued. This discharges the hypothesis of `C04.no_jump_after_any_history` for such animators.
-/
open Spec

def numS : Val ℚ → Prop := fun v => ∃ x, v = .num x

theorem numS_iff (v : Val ℚ) : numS v ↔ C20.isNum v := by
  cases v <;> simp [numS, C20.isNum]

def isBuiltin : Easing → Prop
  | .builtin _ => True
  | .custom _ => False

theorem isBuiltin_fixesEnds (e : Easing) (h : isBuiltin e) : FixesEnds e := by
  cases e with
  | builtin id => exact builtin_fixesEnds id
  | custom n => exact h.elim

/-- every frame of a sub-timeline inherits value/easing properties from the keyframes, the default value
and the default easing -/
theorem cssReals_props (P : Val ℚ → Prop) (Q : Easing → Prop) (ks : List (PKeyframe ℚ)) (e : Easing)
    (hv : ∀ k ∈ ks, ∀ x, k.value = some x → P x) (he : ∀ k ∈ ks, ∀ x, k.easing = some x → Q x) (hq : Q e) :
    ∀ f ∈ cssReals ks e, P f.value ∧ Q f.easing := by
  induction ks generalizing e with
  | nil => simp [cssReals]
  | cons k ks ih =>
    intro f hf
    simp only [cssReals] at hf
    have hv' : ∀ k' ∈ ks, ∀ x, k'.value = some x → P x := fun k' hk' => hv k' (by simp [hk'])
    have he' : ∀ k' ∈ ks, ∀ x, k'.easing = some x → Q x := fun k' hk' => he k' (by simp [hk'])
    cases hval : k.value with
    | none => rw [hval] at hf; exact ih e hv' he' hq f hf
    | some x =>
      rw [hval] at hf
      have hcur : Q (k.easing.getD e) := by
        cases hke : k.easing with
        | none => simpa using hq
        | some x' => simpa using he k (by simp) x' hke
      rcases List.mem_cons.1 hf with rfl | hf
      · exact ⟨hv k (by simp) x hval, hcur⟩
      · exact ih _ hv' he' hcur f hf

theorem frames_props (P : Val ℚ → Prop) (Q : Easing → Prop) (ks : List (PKeyframe ℚ)) (d : Val ℚ) (e0 : Easing)
    (hv : ∀ k ∈ ks, ∀ x, k.value = some x → P x) (he : ∀ k ∈ ks, ∀ x, k.easing = some x → Q x) (hq : Q e0) (hd : P d) :
    ∀ f ∈ (SubTl.fromKeyframes ks d e0).frames, P f.value ∧ Q f.easing := by
  cases hr : cssReals ks e0 with
  | nil =>
    have : (ks.foldl (fkStep d) ⟨[], [], e0, false⟩).hasData = false := by rw [fold_hasData, hr]; rfl
    simp [SubTl.fromKeyframes, this, SubTl.empty]
  | cons f0 rs =>
    have hne : cssReals ks e0 ≠ [] := by rw [hr]; simp
    rw [(fromKeyframes_shape ks d e0 hne).2.2]
    have hF0 : ∀ f ∈ synthPre d e0 ks ++ cssReals ks e0, P f.value ∧ Q f.easing := by
      intro f hf
      rcases List.mem_append.1 hf with hf | hf
      · rw [mem_synthPre d e0 ks f hf]; exact ⟨hd, hq⟩
      · exact cssReals_props P Q ks e0 hv he hq f hf
    cases hl : (synthPre d e0 ks ++ cssReals ks e0).getLast? with
    | none => simpa using hF0
    | some l =>
      simp only
      have hlm := hF0 l (List.mem_of_getLast? hl)
      split
      · intro f hf
        rcases List.mem_append.1 hf with hf | hf
        · exact hF0 f hf
        · simp only [List.mem_singleton] at hf; subst hf; exact hlm
      · exact hF0

/-- the positions of the defining keyframes form a sub-list of all keyframe positions -/
theorem cssReals_times_sublist (ks : List (PKeyframe ℚ)) (e : Easing) :
    ((cssReals ks e).map (·.time)).Sublist (ks.map (·.time)) := by
  induction ks generalizing e with
  | nil => simp [cssReals]
  | cons k ks ih =>
    simp only [cssReals, List.map_cons]
    cases k.value with
    | none => exact List.Sublist.cons _ (ih e)
    | some v => exact List.Sublist.cons₂ _ (ih _)

/-- distinct keyframe positions ⇒ no second frame at 0 % -/
theorem no_dup_at_zero (ks : List (PKeyframe ℚ)) (hok : KfOK ks) (d : Val ℚ) (e0 : Easing)
    (hdist : (ks.map (·.time)).Pairwise (· ≠ ·)) (f1 : Frame ℚ) (h1 : (cssFrames ks d e0)[1]? = some f1) : 0 < f1.time := by
  rw [← frames_eq_css ks hok d e0] at h1
  obtain ⟨hsorted, hbnd⟩ := frames_sorted ks hok d e0
  have hge : 0 ≤ f1.time := (hbnd f1 (List.mem_of_getElem? h1)).1
  rcases lt_or_eq_of_le hge with h | h
  · exact h
  · exfalso
    -- frames = pre ++ reals ++ trail with reals at pairwise distinct positions
    cases hr : cssReals ks e0 with
    | nil =>
      have : (ks.foldl (fkStep d) ⟨[], [], e0, false⟩).hasData = false := by rw [fold_hasData, hr]; rfl
      simp [SubTl.fromKeyframes, this, SubTl.empty] at h1
    | cons r0 rs =>
      have hne : cssReals ks e0 ≠ [] := by rw [hr]; simp
      have hrd : ((cssReals ks e0).map (·.time)).Pairwise (· ≠ ·) := List.Pairwise.sublist (cssReals_times_sublist ks e0) hdist
      rw [(fromKeyframes_shape ks d e0 hne).2.2, synthPre_eq d e0 ks hok r0 rs hr, hr] at h1
      rw [hr] at hrd
      simp only [List.map_cons, List.pairwise_cons] at hrd
      by_cases hpos : lit 0 < r0.time
      · -- synthetic frame present: frame 1 is the first real one, at a positive position
        simp only [hpos, if_true] at h1
        have hlast : (([(⟨lit 0, d, e0⟩ : Frame ℚ)] ++ r0 :: rs).getLast?).isSome := by simp
        cases hl : ([(⟨lit 0, d, e0⟩ : Frame ℚ)] ++ r0 :: rs).getLast? with
        | none => rw [hl] at hlast; simp at hlast
        | some l =>
          rw [hl] at h1
          simp only at h1
          have : f1 = r0 := by
            split at h1 <;> simpa using h1.symm
          rw [this] at h
          simp only [lit_rat, Nat.cast_zero] at hpos
          linarith
      · simp only [hpos, if_false, List.nil_append] at h1
        have hr0 : r0.time = 0 := by
          have := (hbnd r0 (by
            rw [(fromKeyframes_shape ks d e0 hne).2.2, synthPre_eq d e0 ks hok r0 rs hr, hr]
            simp only [hpos, if_false, List.nil_append]
            cases (r0 :: rs).getLast? with
            | none => simp
            | some l => simp only; split <;> simp)).1
          simp only [lit_rat, Nat.cast_zero, not_lt] at hpos
          linarith
        cases hl : (r0 :: rs).getLast? with
        | none => simp at hl
        | some l =>
          rw [hl] at h1
          simp only at h1
          cases rs with
          | nil =>
            -- frame 1 can only be the trailing frame, at position 1
            simp only [List.getLast?_singleton, Option.some.injEq] at hl
            subst hl
            split at h1
            · simp at h1; rw [← h1] at h; simp at h
            · simp at h1
          | cons r1 rs' =>
            have : f1 = r1 := by
              split at h1 <;> simpa using h1.symm
            have hne01 := hrd.1 r1.time (by simp)
            rw [this] at h
            exact hne01 (by rw [hr0, ← h])

/-! ### the configuration-level hypotheses -/

structure FloatCfg (n : Nat) (fields : List (AnimField ℚ)) (cfg : Config ℚ) : Prop where
  delay_nonneg : 0 ≤ cfg.delay
  dur_pos : 0 < cfg.duration
  pos_unit : ∀ k ∈ cfg.keyframes, 0 ≤ k.time ∧ k.time ≤ 1
  distinct : (cfg.keyframes.map (·.time)).Pairwise (· ≠ ·)
  vals_num : ∀ k ∈ cfg.keyframes, ∀ o ∈ k.vals, ∀ x, o = some x → numS x
  easings : isBuiltin cfg.easing ∧ ∀ k ∈ cfg.keyframes, ∀ e, k.easing = some e → isBuiltin e
  dflt_num : ∀ f ∈ fields, numS f.dflt
  idx_lt : ∀ f ∈ fields, f.idx < n
  idx_nodup : (fields.map (·.idx)).Nodup

/-- values the animator can hold: `n` slots, all floats -/
def FloatVals (n : Nat) (v : List (Val ℚ)) : Prop := v.length = n ∧ ∀ x ∈ v, numS x

variable {n : Nat} {fields : List (AnimField ℚ)} {cfg : Config ℚ}

theorem sorted_perm_props (hc : FloatCfg n fields cfg) :
    (∀ k ∈ sortKfs cfg.keyframes, 0 ≤ k.time ∧ k.time ≤ 1) ∧
    ((sortKfs cfg.keyframes).map (·.time)).Pairwise (· ≠ ·) := by
  refine ⟨fun k hk => hc.pos_unit k ((mem_sortKfs k _).1 hk), ?_⟩
  have hp : ((sortKfs cfg.keyframes).map (·.time)).Perm (cfg.keyframes.map (·.time)) := (sortKfs_perm _).map _
  exact (List.Perm.pairwise_iff (fun {a b} (h : a ≠ b) => h.symm) hp).2 hc.distinct

/-- the per-property keyframe list of field `j` satisfies everything the lookup theorems need -/
theorem field_kfs_ok (hc : FloatCfg n fields cfg) (j : Nat) :
    let ks := (sortKfs cfg.keyframes).map (·.forField j)
    KfOK ks ∧ (ks.map (·.time) = (sortKfs cfg.keyframes).map (·.time)) ∧
    (∀ k ∈ ks, ∀ x, k.value = some x → numS x) ∧ (∀ k ∈ ks, ∀ e, k.easing = some e → isBuiltin e) := by
  intro ks
  obtain ⟨hpos, _⟩ := sorted_perm_props hc
  have htimes : ks.map (·.time) = (sortKfs cfg.keyframes).map (·.time) := by
    simp [ks, List.map_map, Function.comp_def, Keyframe.forField]
  refine ⟨⟨?_, ?_, ?_⟩, htimes, ?_, ?_⟩
  · have := sortKfs_sorted cfg.keyframes
    simp only [ks, List.pairwise_map, Keyframe.forField]
    exact this
  · intro k hk
    obtain ⟨k0, hk0, rfl⟩ := List.mem_map.1 hk
    exact (hpos k0 hk0).1
  · intro k hk
    obtain ⟨k0, hk0, rfl⟩ := List.mem_map.1 hk
    exact (hpos k0 hk0).2
  · intro k hk x hx
    obtain ⟨k0, hk0, rfl⟩ := List.mem_map.1 hk
    simp only [Keyframe.forField] at hx
    have hmem : k0 ∈ cfg.keyframes := (mem_sortKfs k0 _).1 hk0
    by_cases hj : j < k0.vals.length
    · rw [List.getD_eq_getElem?_getD, List.getElem?_eq_getElem hj] at hx
      exact hc.vals_num k0 hmem _ (List.getElem_mem hj) x hx
    · rw [List.getD_eq_getElem?_getD, List.getElem?_eq_none (not_lt.1 hj)] at hx
      simp at hx
  · intro k hk e he
    obtain ⟨k0, hk0, rfl⟩ := List.mem_map.1 hk
    exact hc.easings.2 k0 ((mem_sortKfs k0 _).1 hk0) e he

/-- a sub-timeline of a float configuration, with or without a float start override, is float-valued -/
theorem builtSub_num (hc : FloatCfg n fields cfg) (j : Nat) (d : Val ℚ) (hd : numS d) (ov : Option (Val ℚ))
    (hov : ∀ w, ov = some w → numS w) :
    let sub := builtSub ((sortKfs cfg.keyframes).map (·.forField j)) d cfg.easing ov
    (∀ f ∈ sub.frames, C20.isNum f.value) ∧ (∀ f, sub.startOverride = some f → C20.isNum f.value) := by
  intro sub
  obtain ⟨_, _, hv, he⟩ := field_kfs_ok hc j
  have hfr := frames_props numS isBuiltin _ d cfg.easing hv he hc.easings.1 hd
  obtain ⟨hfeq, _⟩ := builtSub_frames ((sortKfs cfg.keyframes).map (·.forField j)) d cfg.easing ov
  constructor
  · intro f hf
    rw [hfeq] at hf
    exact (numS_iff _).1 (hfr f hf).1
  · intro f hf
    cases ov with
    | none =>
      simp only [sub, builtSub] at hf
      unfold SubTl.fromKeyframes at hf
      dsimp only at hf
      split at hf <;> simp [SubTl.empty] at hf
    | some w =>
      simp only [sub, builtSub, SubTl.overrideStart] at hf
      split at hf
      · simp only [Option.some.injEq] at hf; subst hf
        exact (numS_iff _).1 (hov w rfl)
      · unfold SubTl.fromKeyframes at hf
        dsimp only at hf
        split at hf <;> simp [SubTl.empty] at hf

/-! ### evaluation at time 0 after `start_with(v)` reproduces `v` -/

theorem set_self_of_getElem? {β : Type} (l : List β) (i : Nat) (w : β) (h : l[i]? = some w) : l.set i w = l := by
  obtain ⟨hi, rfl⟩ := List.getElem?_eq_some_iff.1 h
  exact List.set_getElem_self hi

theorem applySubs_fix (subs : List (Nat × SubTl ℚ)) (t : ℚ) (idx : Nat) (ovr : Bool) (target : List (Val ℚ))
    (h : ∀ p ∈ subs, p.2.valueAt t idx ovr = none ∨ ∃ w, target[p.1]? = some w ∧ p.2.valueAt t idx ovr = some (.ok w)) :
    applySubs subs t idx ovr target = .ok target := by
  induction subs with
  | nil => rfl
  | cons p rest ih =>
    obtain ⟨i, s⟩ := p
    simp only [applySubs]
    rcases h (i, s) (by simp) with hn | ⟨w, hw, hv⟩
    · rw [hn]; exact ih (fun q hq => h q (by simp [hq]))
    · rw [hv]
      simp only
      rw [set_self_of_getElem? target i w hw]
      exact ih (fun q hq => h q (by simp [hq]))

theorem fromKeyframes_empty_of_noReals (ks : List (PKeyframe ℚ)) (d : Val ℚ) (e0 : Easing) (h : cssReals ks e0 = []) :
    SubTl.fromKeyframes ks d e0 = SubTl.empty := by
  have : (ks.foldl (fkStep d) ⟨[], [], e0, false⟩).hasData = false := by rw [fold_hasData, h]; rfl
  simp [SubTl.fromKeyframes, this]

/-- **the blend law for built float timelines** -/
theorem build_blend (hc : FloatCfg n fields cfg) (v : List (Val ℚ)) (hv : FloatVals n v) :
    ((Timeline.build fields cfg).startWith v).update v (Num.secsOfNanos 0) = .ok v := by
  have h0 : (Num.secsOfNanos 0 : ℚ) = 0 := by simp
  rw [h0]
  unfold Timeline.update
  have hbt : ((Timeline.build fields cfg).startWith v).boundary = (sortKfs cfg.keyframes).map (·.time) := rfl
  have hts : ((Timeline.build fields cfg).startWith v).ts = ⟨cfg.delay, cfg.duration, cfg.repeat_, cfg.reverse⟩ := rfl
  rw [hbt, hts]
  by_cases hempty : (sortKfs cfg.keyframes).map (·.time) = []
  · simp [prepareFrame, hempty]
  · rw [prepareFrame_eq _ _ hempty, C02.zero_percent_until_delay _ hc.dur_pos 0 hc.delay_nonneg]
    simp only
    apply applySubs_fix
    intro p hp
    simp only [Timeline.startWith, Timeline.build, List.map_map, List.mem_map, Function.comp] at hp
    obtain ⟨⟨f, j⟩, hmem, rfl⟩ := hp
    have hf : f ∈ fields := (List.mem_zipIdx hmem).2.2 ▸ List.getElem_mem _
    have hidx : f.idx < v.length := by rw [hv.1]; exact hc.idx_lt f hf
    have hw : v[f.idx]? = some v[f.idx] := List.getElem?_eq_getElem hidx
    simp only [hw]
    set w := v[f.idx] with hwdef
    have hwnum : numS w := hv.2 w (List.getElem_mem hidx)
    obtain ⟨hok, htimes, hvals, heas⟩ := field_kfs_ok hc j
    set ks := (sortKfs cfg.keyframes).map (·.forField j) with hks
    by_cases hdata : cssReals ks cfg.easing = []
    · left
      rw [fromKeyframes_empty_of_noReals ks f.dflt cfg.easing hdata, overrideStart_empty]
      exact empty_valueAt _ _ _
    · right
      refine ⟨w, rfl, ?_⟩
      have hne : ks ≠ [] := by
        intro h; apply hempty; rw [← htimes, h]; rfl
      have hhint : HintOK ks 0 (searchIdx ((sortKfs cfg.keyframes).map (·.time)) 0) := by
        rw [← htimes]; exact searchIdx_hintOK ks hok hne 0
      have hfr := frames_props numS isBuiltin ks f.dflt cfg.easing hvals heas hc.easings.1 (hc.dflt_num f hf)
      have hdist : (ks.map (·.time)).Pairwise (· ≠ ·) := by rw [htimes]; exact (sorted_perm_props hc).2
      have := C10.start_value_until_delay ks hok f.dflt cfg.easing hdata w _ hhint numS lerpable_num
        (by
          intro fr hfrm
          rw [(builtSub_frames ks f.dflt cfg.easing (some w)).1] at hfrm
          exact ⟨(hfr fr hfrm).1, isBuiltin_fixesEnds _ (hfr fr hfrm).2⟩)
        hwnum (no_dup_at_zero ks hok f.dflt cfg.easing hdist)
      exact this

/-! ### closure: evaluation keeps the slots float-valued -/

def NumTimeline (tl : Timeline ℚ) : Prop :=
  ∀ p ∈ tl.subs, (∀ f ∈ p.2.frames, C20.isNum f.value) ∧ (∀ f, p.2.startOverride = some f → C20.isNum f.value)

theorem build_numTimeline (hc : FloatCfg n fields cfg) : NumTimeline (Timeline.build fields cfg) := by
  intro p hp
  simp only [Timeline.build, List.mem_map] at hp
  obtain ⟨⟨f, j⟩, hmem, rfl⟩ := hp
  have hf : f ∈ fields := (List.mem_zipIdx hmem).2.2 ▸ List.getElem_mem _
  exact builtSub_num hc j f.dflt (hc.dflt_num f hf) none (by simp)

theorem startWith_numTimeline (tl : Timeline ℚ) (w : List (Val ℚ)) (h : NumTimeline tl) (hw : ∀ x ∈ w, numS x) :
    NumTimeline (tl.startWith w) := by
  intro p hp
  simp only [Timeline.startWith, List.mem_map] at hp
  obtain ⟨⟨i, s⟩, hmem, rfl⟩ := hp
  obtain ⟨h1, h2⟩ := h (i, s) hmem
  cases hwi : w[i]? with
  | none => simpa [hwi] using ⟨h1, h2⟩
  | some x =>
    simp only
    have hx : numS x := hw x (List.mem_of_getElem? hwi)
    unfold SubTl.overrideStart
    cases hh : s.frames.head? with
    | none => exact ⟨h1, h2⟩
    | some f0 =>
      refine ⟨h1, ?_⟩
      intro f hf
      simp only [Option.some.injEq] at hf; subst hf
      exact (numS_iff _).1 hx

theorem applySubs_allNum (subs : List (Nat × SubTl ℚ)) (t : ℚ) (idx : Nat) (ovr : Bool) (target r : List (Val ℚ))
    (hs : ∀ p ∈ subs, (∀ f ∈ p.2.frames, C20.isNum f.value) ∧ (∀ f, p.2.startOverride = some f → C20.isNum f.value))
    (ht : ∀ x ∈ target, numS x) (h : applySubs subs t idx ovr target = .ok r) : ∀ x ∈ r, numS x := by
  induction subs generalizing target with
  | nil => simp [applySubs] at h; subst h; exact ht
  | cons p rest ih =>
    obtain ⟨i, s⟩ := p
    have hrest : ∀ q ∈ rest, (∀ f ∈ q.2.frames, C20.isNum f.value) ∧ (∀ f, q.2.startOverride = some f → C20.isNum f.value) :=
      fun q hq => hs q (by simp [hq])
    simp only [applySubs] at h
    rcases C20.valueAt_num_ok s t idx ovr (hs (i, s) (by simp)).1 (hs (i, s) (by simp)).2 with hn | ⟨w, hw, hnum⟩
    · rw [hn] at h; exact ih target hrest ht h
    · rw [hw] at h
      simp only at h
      apply ih (target.set i w) hrest _ h
      intro x hx
      rcases List.mem_or_eq_of_mem_set hx with hx | rfl
      · exact ht x hx
      · exact (numS_iff _).2 hnum

theorem update_floatVals (tl : Timeline ℚ) (h : NumTimeline tl) (v r : List (Val ℚ)) (t : ℚ)
    (hv : FloatVals n v) (hr : tl.update v t = .ok r) : FloatVals n r := by
  refine ⟨by rw [C08.update_length tl v r t hr]; exact hv.1, ?_⟩
  unfold Timeline.update at hr
  split at hr
  · simp at hr; subst hr; exact hv.2
  · exact applySubs_allNum _ _ _ _ _ _ h hv.2 hr

theorem fold_startWith_last (tl : Timeline ℚ) (ws : List (List (Val ℚ))) (v : List (Val ℚ))
    (h : ∀ w ∈ ws, w.length = v.length) : (ws.foldl (fun acc w => acc.startWith w) tl).startWith v = tl.startWith v := by
  induction ws generalizing tl with
  | nil => rfl
  | cons w rest ih =>
    simp only [List.foldl_cons]
    rw [ih (tl.startWith w) (fun x hx => h x (by simp [hx]))]
    exact C09.startWith_last_wins tl w v (h w (by simp))

theorem merged_fold_single (tl : Timeline ℚ) (ws : List (List (Val ℚ))) :
    ws.foldl (fun acc w => acc.startWith w) (Merged.mk [tl]) = Merged.mk [ws.foldl (fun acc w => acc.startWith w) tl] := by
  induction ws generalizing tl with
  | nil => rfl
  | cons w rest ih => simp only [List.foldl_cons]; exact ih (tl.startWith w)

/-- **a builder-built float timeline is `TlOK`**: after any sequence of `start_with` calls it obeys the
blend law and keeps the slots float-valued -/
theorem build_tlOK (hc : FloatCfg n fields cfg) : C04.TlOK (FloatVals n) (Merged.mk [Timeline.build fields cfg]) := by
  intro ws hws
  rw [merged_fold_single]
  have hnum : NumTimeline (ws.foldl (fun acc w => acc.startWith w) (Timeline.build fields cfg)) := by
    have : ∀ (l : List (List (Val ℚ))) (t0 : Timeline ℚ), (∀ w ∈ l, FloatVals n w) → NumTimeline t0 →
        NumTimeline (l.foldl (fun acc w => acc.startWith w) t0) := by
      intro l
      induction l with
      | nil => intro t0 _ h0; exact h0
      | cons w rest ih =>
        intro t0 hl h0
        simp only [List.foldl_cons]
        exact ih _ (fun x hx => hl x (by simp [hx])) (startWith_numTimeline t0 w h0 (hl w (by simp)).2)
    exact this ws _ hws (build_numTimeline hc)
  constructor
  · intro v hv
    have : (Merged.mk [ws.foldl (fun acc w => acc.startWith w) (Timeline.build fields cfg)]).startWith v
        = Merged.mk [(Timeline.build fields cfg).startWith v] := by
      simp only [Merged.startWith, List.map_cons, List.map_nil]
      rw [fold_startWith_last _ ws v (fun w hw => by rw [(hws w hw).1, hv.1])]
    rw [this]
    have hsingle := (C12.singleton_transparent ((Timeline.build fields cfg).startWith v) v v (Num.secsOfNanos 0)).1
    rw [hsingle]
    exact build_blend hc v hv
  · intro v t r hv hr
    have hsingle := (C12.singleton_transparent (ws.foldl (fun acc w => acc.startWith w) (Timeline.build fields cfg)) v v t).1
    rw [hsingle] at hr
    exact update_floatVals _ hnum v r t hv hr
