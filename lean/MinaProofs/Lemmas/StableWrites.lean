import MinaProofs.Lemmas.FloatTimeline
import MinaProofs.Props.C06
/-!
# Built timelines write a time-independent set of slots

`C06.advance_add` needs `StableWrites`: which slots a timeline writes does not depend on the time. This
file proves it for every builder-built timeline (any value kinds, any easings, any sequence of
`start_with` calls), from the lookup theorem: a sub-timeline with data yields a value at every position in
`[0, 1]`, a sub-timeline without data never does, and the normalised position always lies in `[0, 1]`.
Arithmetic: exact (ℚ).
-/
open Spec

/-- the normalised position handed to the sub-timelines always lies in `[0, 1]` (duration > 0) -/
theorem position_value_unit (ts : TimeScale ℚ) (hd : 0 < ts.duration) (t : ℚ) :
    0 ≤ (ts.position t).value ∧ (ts.position t).value ≤ 1 := by
  have hcyc : ∀ c b, 0 ≤ c → c ≤ ts.duration → 0 ≤ (ts.cyclePos c b).value ∧ (ts.cyclePos c b).value ≤ 1 := by
    intro c b h0 h1
    rw [cyclePos_value]
    exact tri_in_unit _ _ (div_nonneg h0 hd.le) ((div_le_one hd).2 h1)
  have hloop : ∀ c, 0 ≤ c → 0 ≤ (ts.loopPos c).value ∧ (ts.loopPos c).value ≤ 1 := by
    intro c h0
    rw [loopPos_value]
    obtain ⟨l0, l1⟩ := loopCycle_bounds hd h0
    exact tri_in_unit _ _ (div_nonneg l0 hd.le) ((div_le_one hd).2 l1)
  have hend : 0 ≤ (ts.positionEnded).value ∧ (ts.positionEnded).value ≤ 1 := by
    unfold TimeScale.positionEnded
    simp only [lit_rat, Pos.value]
    split <;> norm_num
  unfold TimeScale.position
  simp only [lit_rat, Nat.cast_zero]
  split
  · simp [Pos.value]
  · rename_i hlt
    have hc : 0 ≤ t - ts.delay := not_lt.1 hlt
    split
    · split
      · exact hend
      · rename_i hle; exact hcyc _ _ hc (not_lt.1 hle)
    · split
      · exact hend
      · exact hloop _ hc
    · exact hloop _ hc

variable {α : Type} [Num α]

theorem lastWrite_eq_none_iff (W : List (Nat × Val α)) (k : Nat) : lastWrite W k = none ↔ k ∉ W.map Prod.fst := by
  refine ⟨?_, lastWrite_none_of_not_mem W k⟩
  induction W with
  | nil => intro _; simp
  | cons p rest ih =>
    intro h
    simp only [lastWrite] at h
    cases hr : lastWrite rest k with
    | some v => rw [hr] at h; simp at h
    | none =>
      rw [hr] at h
      simp only at h
      have hne : ¬ p.1 = k := by
        intro he; rw [if_pos he] at h; simp at h
      simp only [List.map_cons, List.mem_cons, not_or]
      exact ⟨fun e => hne e.symm, ih hr⟩

/-- the indices written are exactly those of the sub-timelines that yield a value -/
theorem writesOf_fst (subs : List (Nat × SubTl α)) (t : α) (idx : Nat) (ovr : Bool) (data : Nat × SubTl α → Bool)
    (h : ∀ p ∈ subs, (p.2.valueAt t idx ovr).isSome = data p) (W : List (Nat × Val α))
    (hw : writesOf subs t idx ovr = .ok W) : W.map Prod.fst = (subs.filter data).map Prod.fst := by
  induction subs generalizing W with
  | nil => simp [writesOf] at hw; subst hw; rfl
  | cons p rest ih =>
    obtain ⟨j, s⟩ := p
    have hp := h (j, s) (by simp)
    have hrest := fun q hq => h q (List.mem_cons_of_mem _ hq)
    simp only [writesOf] at hw
    split at hw
    · rename_i hv
      rw [hv] at hp
      have hd : data (j, s) = false := by simpa using hp.symm
      rw [List.filter_cons, hd]
      exact ih hrest W hw
    · rename_i v hv
      rw [hv] at hp
      have hd : data (j, s) = true := by simpa using hp.symm
      cases hr : writesOf rest t idx ovr with
      | error e => rw [hr] at hw; simp [Except.map] at hw
      | ok W' =>
        rw [hr] at hw; simp only [Except.map, Except.ok.injEq] at hw; subst hw
        rw [List.filter_cons, hd]
        simp only [if_true, List.map_cons]
        rw [ih hrest W' hr]
    · simp at hw

/-- a timeline whose written index list is the same at every time -/
def FixedIdx (tl : Timeline α) : Prop := ∃ D : List Nat, ∀ t W, tl.writes t = .ok W → W.map Prod.fst = D

theorem mergedWrites_fst (tls : List (Timeline α)) (h : ∀ tl ∈ tls, FixedIdx tl) :
    ∃ D : List Nat, ∀ t W, C12.mergedWrites tls t = .ok W → W.map Prod.fst = D := by
  induction tls with
  | nil => exact ⟨[], by intro t W hW; simp [C12.mergedWrites] at hW; subst hW; rfl⟩
  | cons tl rest ih =>
    obtain ⟨D1, h1⟩ := h tl (by simp)
    obtain ⟨D2, h2⟩ := ih (fun x hx => h x (List.mem_cons_of_mem _ hx))
    refine ⟨D1 ++ D2, ?_⟩
    intro t W hW
    simp only [C12.mergedWrites] at hW
    cases hw1 : tl.writes t with
    | error e => rw [hw1] at hW; simp at hW
    | ok W1 =>
      rw [hw1] at hW
      simp only at hW
      cases hw2 : C12.mergedWrites rest t with
      | error e => rw [hw2] at hW; simp [Except.map] at hW
      | ok W2 =>
        rw [hw2] at hW; simp only [Except.map, Except.ok.injEq] at hW; subst hW
        rw [List.map_append, h1 t W1 hw1, h2 t W2 hw2]

/-- **`StableWrites` for a merge of timelines with fixed index lists** -/
theorem stableWrites_of_fixedIdx (tls : List (Timeline α)) (h : ∀ tl ∈ tls, FixedIdx tl) :
    C06.StableWrites (Merged.mk tls) := by
  obtain ⟨D, hD⟩ := mergedWrites_fst tls h
  intro t t' W W' hW hW' k hk
  rw [lastWrite_eq_none_iff] at hk ⊢
  rw [hD t W hW]; rw [hD t' W' hW'] at hk; exact hk

/-! ### built timelines -/

/-- what the builder accepts and the properties quantify over: duration > 0, positions in [0, 1] -/
structure BuiltCfg (cfg : Config ℚ) : Prop where
  dur_pos : 0 < cfg.duration
  pos_unit : ∀ k ∈ cfg.keyframes, 0 ≤ k.time ∧ k.time ≤ 1

/-- a timeline obtained from `Timeline.build fields cfg` by any number of `start_with` calls -/
structure BuiltLike (cfg : Config ℚ) (tl : Timeline ℚ) : Prop where
  boundary : tl.boundary = (sortKfs cfg.keyframes).map (·.time)
  ts : tl.ts = ⟨cfg.delay, cfg.duration, cfg.repeat_, cfg.reverse⟩
  subs : ∀ p ∈ tl.subs, ∃ j d ov, p.2 = builtSub ((sortKfs cfg.keyframes).map (·.forField j)) d cfg.easing ov

theorem build_builtLike (fields : List (AnimField ℚ)) (cfg : Config ℚ) : BuiltLike cfg (Timeline.build fields cfg) := by
  refine ⟨rfl, rfl, ?_⟩
  intro p hp
  simp only [Timeline.build, List.mem_map] at hp
  obtain ⟨⟨f, j⟩, _, rfl⟩ := hp
  exact ⟨j, f.dflt, none, rfl⟩

theorem startWith_builtLike (cfg : Config ℚ) (tl : Timeline ℚ) (w : List (Val ℚ)) (h : BuiltLike cfg tl) :
    BuiltLike cfg (tl.startWith w) := by
  refine ⟨h.boundary, h.ts, ?_⟩
  intro p hp
  simp only [Timeline.startWith, List.mem_map] at hp
  obtain ⟨⟨i, s⟩, hmem, rfl⟩ := hp
  obtain ⟨j, d, ov, hs⟩ := h.subs (i, s) hmem
  simp only at hs
  cases hw : w[i]? with
  | none => exact ⟨j, d, ov, by simpa [hw] using hs⟩
  | some v =>
    refine ⟨j, d, some v, ?_⟩
    simp only [hw, hs]
    cases ov with
    | none => rfl
    | some u => simp only [builtSub]; exact overrideStart_overrideStart _ u v

theorem fold_startWith_builtLike (cfg : Config ℚ) (ws : List (List (Val ℚ))) (tl : Timeline ℚ) (h : BuiltLike cfg tl) :
    BuiltLike cfg (ws.foldl (fun acc w => acc.startWith w) tl) := by
  induction ws generalizing tl with
  | nil => exact h
  | cons w rest ih => exact ih _ (startWith_builtLike cfg tl w h)

/-- the per-property keyframe lists of a configuration are sorted and lie in [0, 1] -/
theorem field_kfs_ok' {cfg : Config ℚ} (hc : BuiltCfg cfg) (j : Nat) :
    KfOK ((sortKfs cfg.keyframes).map (·.forField j)) ∧
    ((sortKfs cfg.keyframes).map (·.forField j)).map (·.time) = (sortKfs cfg.keyframes).map (·.time) := by
  have hpos : ∀ k ∈ sortKfs cfg.keyframes, 0 ≤ k.time ∧ k.time ≤ 1 :=
    fun k hk => hc.pos_unit k ((mem_sortKfs k _).1 hk)
  refine ⟨⟨?_, ?_, ?_⟩, ?_⟩
  · have := sortKfs_sorted cfg.keyframes
    simp only [List.pairwise_map, Keyframe.forField]
    exact this
  · intro k hk
    obtain ⟨k0, hk0, rfl⟩ := List.mem_map.1 hk
    exact (hpos k0 hk0).1
  · intro k hk
    obtain ⟨k0, hk0, rfl⟩ := List.mem_map.1 hk
    exact (hpos k0 hk0).2
  · simp [List.map_map, Function.comp_def, Keyframe.forField]

/-- a built sub-timeline yields a value at a position in [0, 1] exactly when it has data -/
theorem builtSub_isSome (ks : List (PKeyframe ℚ)) (hok : KfOK ks) (d : Val ℚ) (e0 : Easing) (ov : Option (Val ℚ))
    (s : ℚ) (hs0 : 0 ≤ s) (hs1 : s ≤ 1) (idx : Nat) (hidx : HintOK ks s idx) (ovr : Bool) :
    ((builtSub ks d e0 ov).valueAt s idx ovr).isSome = decide (cssReals ks e0 ≠ []) := by
  by_cases hdata : cssReals ks e0 = []
  · have : builtSub ks d e0 ov = SubTl.empty := by
      unfold builtSub
      cases ov with
      | none => exact fromKeyframes_empty_of_noReals ks d e0 hdata
      | some v => simp only; rw [fromKeyframes_empty_of_noReals ks d e0 hdata, overrideStart_empty]
    rw [this, empty_valueAt]
    simp [hdata]
  · have hb := valueAt_bracket ks hok d e0 hdata ov s hs0 hs1 idx hidx ovr
    cases hb with
    | seg m f g hf hg h1 h2 hr => rw [hr]; simp [hdata]
    | last m f hf hl h1 hr => rw [hr]; simp [hdata]

/-- **every timeline built by the builder, after any `start_with` calls, writes a fixed set of slots** -/
theorem builtLike_fixedIdx {cfg : Config ℚ} (hc : BuiltCfg cfg) (tl : Timeline ℚ) (h : BuiltLike cfg tl) : FixedIdx tl := by
  classical
  by_cases hempty : (sortKfs cfg.keyframes).map (·.time) = []
  · refine ⟨[], ?_⟩
    intro t W hW
    unfold Timeline.writes at hW
    rw [h.boundary, hempty] at hW
    simp [prepareFrame] at hW
    subst hW; rfl
  · -- which sub-timelines have data does not depend on the time
    refine ⟨(tl.subs.filter (fun p => decide (∃ j d ov, p.2 = builtSub ((sortKfs cfg.keyframes).map (·.forField j)) d cfg.easing ov ∧
        cssReals ((sortKfs cfg.keyframes).map (·.forField j)) cfg.easing ≠ []))).map Prod.fst, ?_⟩
    intro t W hW
    unfold Timeline.writes at hW
    rw [h.boundary, h.ts, prepareFrame_eq _ _ hempty] at hW
    simp only at hW
    apply writesOf_fst _ _ _ _ _ _ W hW
    intro p hp
    obtain ⟨j, d, ov, hs⟩ := h.subs p hp
    obtain ⟨hok, htimes⟩ := field_kfs_ok' hc j
    set ks := (sortKfs cfg.keyframes).map (·.forField j) with hks
    have hne : ks ≠ [] := by
      intro he; apply hempty; rw [← htimes, he]; rfl
    set ts : TimeScale ℚ := ⟨cfg.delay, cfg.duration, cfg.repeat_, cfg.reverse⟩ with hts
    obtain ⟨p0, p1⟩ := position_value_unit ts hc.dur_pos t
    rw [← posOvr_value] at p0 p1
    have hhint : HintOK ks (posOvr (ts.position t)).1 (searchIdx ((sortKfs cfg.keyframes).map (·.time)) (posOvr (ts.position t)).1) := by
      rw [← htimes]; exact searchIdx_hintOK ks hok hne _
    rw [hs, builtSub_isSome ks hok d cfg.easing ov _ p0 p1 _ hhint]
    -- the decision for this sub-timeline: data of *its* keyframe list
    by_cases hdata : cssReals ks cfg.easing = []
    · simp only [hdata, ne_eq, not_true_eq_false, decide_false]
      symm
      rw [decide_eq_false_iff_not]
      rintro ⟨j', d', ov', heq, hd'⟩
      -- the same sub-timeline cannot have data under another description: it is empty
      have hemp : builtSub ks d cfg.easing ov = SubTl.empty := by
        unfold builtSub
        cases ov with
        | none => exact fromKeyframes_empty_of_noReals ks d cfg.easing hdata
        | some v => simp only; rw [fromKeyframes_empty_of_noReals ks d cfg.easing hdata, overrideStart_empty]
      rw [hemp] at heq
      set ks' := (sortKfs cfg.keyframes).map (·.forField j') with hks'
      have hfr := (builtSub_frames ks' d' cfg.easing ov').1
      rw [← heq] at hfr
      have hsh := (fromKeyframes_shape ks' d' cfg.easing hd').2.2
      rw [← hfr] at hsh
      have hF0 : synthPre d' cfg.easing ks' ++ cssReals ks' cfg.easing ≠ [] := by simp [hd']
      have hemptyfr : (SubTl.empty : SubTl ℚ).frames = [] := rfl
      rw [hemptyfr] at hsh
      cases hl : (synthPre d' cfg.easing ks' ++ cssReals ks' cfg.easing).getLast? with
      | none => exact hF0 (List.getLast?_eq_none_iff.1 hl)
      | some l =>
        rw [hl] at hsh
        simp only at hsh
        split at hsh
        · exact absurd hsh.symm (by simp)
        · exact hF0 hsh.symm
    · simp only [ne_eq, hdata, not_false_eq_true, decide_true]
      symm
      rw [decide_eq_true_iff]
      exact ⟨j, d, ov, rfl, hdata⟩

/-! ### a class of timelines closed under `start_with` stays the class of every timeline the animator holds -/

section Closed
variable {α : Type} [Num α]

theorem blendNext_closed (Q : Merged α → Prop) (hQ : ∀ m w, Q m → Q (m.startWith w)) (a : Animator α) (s : Nat)
    (ha : ∀ s' tl, a.timeline? s' = some tl → Q tl) : ∀ s' tl, (a.blendNext s).timeline? s' = some tl → Q tl := by
  obtain ⟨_, _, _, _, b5, b6⟩ := blendNext_spec a s
  intro s' tl htl
  by_cases hs : s' = s
  · subst hs
    rw [b6] at htl
    cases h0 : a.timeline? s' with
    | none => rw [h0] at htl; simp at htl
    | some tl0 =>
      rw [h0] at htl
      simp only [Option.map_some, Option.some.injEq] at htl
      subst htl
      exact hQ tl0 _ (ha s' tl0 h0)
  · rw [b5 s' hs] at htl; exact ha s' tl htl

theorem step_closed (Q : Merged α → Prop) (hQ : ∀ m w, Q m → Q (m.startWith w)) (a a' : Animator α) (op : AnimOp α)
    (h : a.step op = .ok a') (ha : ∀ s tl, a.timeline? s = some tl → Q tl) : ∀ s tl, a'.timeline? s = some tl → Q tl := by
  have hupd : ∀ b b' : Animator α, b.updateValues = .ok b' → (∀ s tl, b.timeline? s = some tl → Q tl) →
      ∀ s tl, b'.timeline? s = some tl → Q tl := by
    intro b b' hb hbq s tl htl
    obtain ⟨h1, _⟩ := updateValues_spec b b' hb
    apply hbq s tl
    unfold Animator.timeline? at htl ⊢; rw [h1] at htl; exact htl
  have hadv : ∀ ns, a.advanceNs ns = .ok a' → ∀ s tl, a'.timeline? s = some tl → Q tl := by
    intro ns hn
    unfold Animator.advanceNs at hn
    split at hn
    · simp at hn
    · exact hupd _ a' hn (fun s tl htl => ha s tl htl)
  cases op with
  | advanceNs ns => exact hadv ns h
  | advance secs =>
    simp only [Animator.step, Animator.advance] at h
    split at h
    · exact hadv _ h
    · simp at h
  | setState s =>
    simp only [Animator.step, Animator.setState] at h
    split at h
    · simp at h; subst h; exact ha
    · apply hupd _ a' h
      unfold Animator.switchTo
      split
      · exact fun s' tl htl => ha s' tl htl
      · intro s' tl htl
        have htl' : (a.enter s).timeline? s' = some tl := htl
        unfold Animator.enter at htl'
        have htl'' : ((a.notePause s).blendNext s).timeline? s' = some tl := htl'
        refine blendNext_closed Q hQ (a.notePause s) s ?_ s' tl htl''
        intro s2 tl2 h2
        apply ha s2 tl2
        obtain ⟨_, _, _, n4, _⟩ := notePause_spec a s
        unfold Animator.timeline? at h2 ⊢; rw [n4] at h2; exact h2

theorem run_closed (Q : Merged α → Prop) (hQ : ∀ m w, Q m → Q (m.startWith w)) (ops : List (AnimOp α)) (a a' : Animator α)
    (h : a.run ops = .ok a') (ha : ∀ s tl, a.timeline? s = some tl → Q tl) : ∀ s tl, a'.timeline? s = some tl → Q tl := by
  induction ops generalizing a with
  | nil => simp [Animator.run] at h; subst h; exact ha
  | cons op ops ih =>
    simp only [Animator.run] at h
    split at h
    · rename_i a1 h1; exact ih a1 h (step_closed Q hQ a a1 op h1 ha)
    · simp at h

theorem new_closed (Q : Merged α → Prop) (hQ : ∀ m w, Q m → Q (m.startWith w)) (timelines : List (Option (Merged α)))
    (s0 : Nat) (v0 : List (Val α)) (h : ∀ m, some m ∈ timelines → Q m) :
    ∀ s tl, (Animator.new timelines s0 v0).timeline? s = some tl → Q tl := by
  unfold Animator.new
  apply blendNext_closed Q hQ
  intro s tl htl
  exact h tl (C08.timeline?_mem _ s tl htl)

end Closed
