import MinaProofs.Lemmas.RatNum
import MinaModel.TimeScale
/-!
# Helper lemmas about `TimeScale.position` at ℚ
-/

/-- the normalised position a `Pos` stands for (what `prepare_frame` uses) -/
def Pos.value : Pos ℚ → ℚ
  | .notStarted => 0
  | .active t _ _ => t
  | .ended t => t

def Pos.isEnded : Pos ℚ → Bool
  | .ended _ => true
  | _ => false

def Pos.isNotStarted : Pos ℚ → Bool
  | .notStarted => true
  | _ => false

/-- the reversing fold: ratio ↦ triangular wave -/
def tri (rev : Bool) (r : ℚ) : ℚ := if rev then (if 1 / 2 < r then (1 - r) * 2 else r * 2) else r

theorem cyclePos_value (ts : TimeScale ℚ) (c : ℚ) (b : Bool) :
    (ts.cyclePos c b).value = tri ts.reverse (c / ts.duration) := by
  unfold TimeScale.cyclePos tri
  simp only [lit_rat]
  split
  · split <;> simp_all [Pos.value]
  · simp [Pos.value]

theorem cyclePos_not_ended (ts : TimeScale ℚ) (c : ℚ) (b : Bool) : (ts.cyclePos c b).isEnded = false := by
  unfold TimeScale.cyclePos; dsimp only; split
  · split <;> rfl
  · rfl

theorem cyclePos_started (ts : TimeScale ℚ) (c : ℚ) (b : Bool) : (ts.cyclePos c b).isNotStarted = false := by
  unfold TimeScale.cyclePos; dsimp only; split
  · split <;> rfl
  · rfl

theorem tri_in_unit (rev : Bool) (r : ℚ) (h0 : 0 ≤ r) (h1 : r ≤ 1) : 0 ≤ tri rev r ∧ tri rev r ≤ 1 := by
  unfold tri
  split
  · split <;> constructor <;> linarith
  · exact ⟨h0, h1⟩

/-- the cycle time chosen by the repeating arm -/
def loopCycle (d c : ℚ) : ℚ := if (fmod c d == (0 : ℚ)) && decide ((1 : ℚ) ≤ c / d) then d else fmod c d

theorem loopPos_value (ts : TimeScale ℚ) (c : ℚ) :
    (ts.loopPos c).value = tri ts.reverse (loopCycle ts.duration c / ts.duration) := by
  unfold TimeScale.loopPos loopCycle
  simp only [lit_rat]
  split <;> rename_i h
  · rw [cyclePos_value]; simp only [Nat.cast_one, Nat.cast_zero] at h ⊢; rw [if_pos h]
  · rw [cyclePos_value]; simp only [Nat.cast_one, Nat.cast_zero] at h ⊢; rw [if_neg h]

theorem loopPos_not_ended (ts : TimeScale ℚ) (c : ℚ) : (ts.loopPos c).isEnded = false := by
  unfold TimeScale.loopPos; dsimp only; split <;> exact cyclePos_not_ended _ _ _

theorem loopPos_started (ts : TimeScale ℚ) (c : ℚ) : (ts.loopPos c).isNotStarted = false := by
  unfold TimeScale.loopPos; dsimp only; split <;> exact cyclePos_started _ _ _

theorem loopCycle_bounds {d c : ℚ} (hd : 0 < d) (hc : 0 ≤ c) : 0 ≤ loopCycle d c ∧ loopCycle d c ≤ d := by
  unfold loopCycle
  have fb := fmod_bounds hc hd
  split
  · exact ⟨hd.le, le_rfl⟩
  · exact ⟨fb.1, fb.2.le⟩
