import MinaProofs.Lemmas.Bounding
/-!
# The lookup theorem: `value_at` interpolates between the frames that bracket the position

For a sorted keyframe list with positions in [0,1], any position `s ∈ [0,1]` and *any* master index the
keyframe search may return (`HintOK`), `value_at` yields the interpolation between two *adjacent* frames
`F[m], F[m+1]` with `F[m].time ≤ s ≤ F[m+1].time` (frame 0 replaced by the start override when enabled),
or the value of the last frame when `s` is at/after it. C01, C02, C04, C07 and C10 are corollaries.
-/
open Spec

structure KfOK (ks : List (PKeyframe ℚ)) : Prop where
  sorted : ks.Pairwise (fun a b => a.time ≤ b.time)
  nonneg : ∀ k ∈ ks, 0 ≤ k.time
  le_one : ∀ k ∈ ks, k.time ≤ 1

/-- what `prepare_frame`'s search guarantees about the master index it hands to `value_at` -/
def HintOK (ks : List (PKeyframe ℚ)) (s : ℚ) (idx : Nat) : Prop :=
  ∃ p q, ks = p ++ q ∧ p.length = idx + 1 ∧
    (((∀ k ∈ p, k.time ≤ s) ∧ (∀ k ∈ q, s ≤ k.time)) ∨ (idx = 0 ∧ ∀ k ∈ ks, s < k.time))

inductive Bracketed (sub : SubTl ℚ) (s : ℚ) (ovr : Bool) (res : Option (Except Panic (Val ℚ))) : Prop
  | seg (m : Nat) (f g : Frame ℚ) (hf : sub.frames[m]? = some f) (hg : sub.frames[m + 1]? = some g)
      (h1 : f.time ≤ s) (h2 : s ≤ g.time) (hr : res = some (interpolate (gFrame sub m ovr f) g s))
  | last (m : Nat) (f : Frame ℚ) (hf : sub.frames[m]? = some f) (hl : m + 1 = sub.frames.length)
      (h1 : f.time ≤ s) (hr : res = some (.ok (gFrame sub m ovr f).value))

theorem clamp01_id {s : ℚ} (h0 : 0 ≤ s) (h1 : s ≤ 1) : clamp01 s = s := by
  unfold clamp01; simp only [lit_rat, Nat.cast_zero, Nat.cast_one]
  rw [if_neg (not_lt.2 h0), if_neg (not_lt.2 h1)]

theorem valueAt_of_bf (sub : SubTl ℚ) (s : ℚ) (idx : Nat) (ovr : Bool) (a b : Frame ℚ)
    (hne : sub.indexMap ≠ []) (h0 : 0 ≤ s) (h1 : s ≤ 1)
    (hb : sub.boundingFrames s idx ovr = some (a, b)) : sub.valueAt s idx ovr = some (interpolate a b s) := by
  unfold SubTl.valueAt
  have : sub.indexMap.isEmpty = false := by cases h : sub.indexMap <;> simp_all
  simp only [this, Bool.false_eq_true, if_false, clamp01_id h0 h1, hb]

theorem interpolate_same (a : Frame ℚ) (s : ℚ) : interpolate a a s = .ok a.value := by
  simp [interpolate]

/-- the sub-timeline as used: built from keyframes, optionally with a substituted start value -/
def builtSub (ks : List (PKeyframe ℚ)) (d : Val ℚ) (e0 : Easing) (ov : Option (Val ℚ)) : SubTl ℚ :=
  match ov with
  | none => SubTl.fromKeyframes ks d e0
  | some v => (SubTl.fromKeyframes ks d e0).overrideStart v

theorem builtSub_frames (ks : List (PKeyframe ℚ)) (d : Val ℚ) (e0 : Easing) (ov : Option (Val ℚ)) :
    (builtSub ks d e0 ov).frames = (SubTl.fromKeyframes ks d e0).frames ∧
    (builtSub ks d e0 ov).indexMap = (SubTl.fromKeyframes ks d e0).indexMap := by
  unfold builtSub
  cases ov with
  | none => exact ⟨rfl, rfl⟩
  | some v =>
    simp only [SubTl.overrideStart]
    cases h : (SubTl.fromKeyframes ks d e0).frames.head? <;> exact ⟨rfl, rfl⟩

/-- the override frame keeps the time (and easing) of frame 0 -/
theorem builtSub_override (ks : List (PKeyframe ℚ)) (d : Val ℚ) (e0 : Easing) (ov : Option (Val ℚ))
    (h : cssReals ks e0 ≠ []) (f : Frame ℚ) (hf : (builtSub ks d e0 ov).startOverride = some f) :
    ∃ f0 v, (SubTl.fromKeyframes ks d e0).frames.head? = some f0 ∧ ov = some v ∧ f = ⟨f0.time, v, f0.easing⟩ := by
  unfold builtSub at hf
  cases ov with
  | none => simp only at hf; rw [(fromKeyframes_shape ks d e0 h).1] at hf; simp at hf
  | some v =>
    simp only [SubTl.overrideStart] at hf
    split at hf
    · rename_i f0 hf0
      simp only [Option.some.injEq] at hf
      exact ⟨f0, v, hf0, rfl, hf.symm⟩
    · rw [(fromKeyframes_shape ks d e0 h).1] at hf; simp at hf

theorem valueAt_bracket (ks : List (PKeyframe ℚ)) (hok : KfOK ks) (d : Val ℚ) (e0 : Easing)
    (hdata : cssReals ks e0 ≠ []) (ov : Option (Val ℚ)) (s : ℚ) (hs0 : 0 ≤ s) (hs1 : s ≤ 1)
    (idx : Nat) (hidx : HintOK ks s idx) (ovr : Bool) :
    Bracketed (builtSub ks d e0 ov) s ovr ((builtSub ks d e0 ov).valueAt s idx ovr) := by
  obtain ⟨p, q, hks, hpl, hcontract⟩ := hidx
  obtain ⟨-, him0, hfr0⟩ := fromKeyframes_shape ks d e0 hdata
  obtain ⟨hfr, him⟩ := builtSub_frames ks d e0 ov
  set sub := builtSub ks d e0 ov with hsub
  -- the trailing frame
  set F0 := synthPre d e0 ks ++ cssReals ks e0 with hF0
  obtain ⟨trail, hframes, htrail⟩ : ∃ trail : List (Frame ℚ), sub.frames = F0 ++ trail ∧
      ((trail = [] ∧ ∀ l, F0.getLast? = some l → ¬ l.time < 1) ∨
       (∃ l, F0.getLast? = some l ∧ l.time < 1 ∧ trail = [⟨1, l.value, l.easing⟩])) := by
    rw [hfr, hfr0]
    cases hl : F0.getLast? with
    | none => exact ⟨[], by simp, Or.inl ⟨rfl, by simp⟩⟩
    | some l =>
      simp only [lit_rat, Nat.cast_one]
      by_cases hlt : l.time < 1
      · exact ⟨[⟨1, l.value, l.easing⟩], by simp [hlt], Or.inr ⟨l, rfl, hlt, rfl⟩⟩
      · exact ⟨[], by simp [hlt], Or.inl ⟨rfl, by intro l' hl'; simp only [Option.some.injEq] at hl'; subst hl'; exact hlt⟩⟩
  have htrail_time : ∀ t ∈ trail, s ≤ t.time := by
    intro t ht
    rcases htrail with ⟨rfl, _⟩ | ⟨l, _, _, rfl⟩
    · simp at ht
    · simp only [List.mem_singleton] at ht; subst ht; exact hs1
  -- index map entry
  have hidxlt : idx < ks.length := by rw [hks, List.length_append]; omega
  have htake : ks.take (idx + 1) = p := by rw [hks, ← hpl]; exact List.take_left'  rfl
  have himv : sub.indexMap[idx]? = some (max (synthPre d e0 p ++ cssReals p e0).length 1 - 1) := by
    rw [him, him0, List.getElem?_map, List.getElem?_range hidxlt]
    simp only [Option.map_some, htake]
  have hne : sub.indexMap ≠ [] := by
    intro h; rw [h] at himv; simp at himv
  -- decomposition of the frames
  have hreals : cssReals ks e0 = cssReals p e0 ++ cssReals q (lastE p e0) := by rw [hks, cssReals_append]
  set B := cssReals q (lastE p e0) with hB
  have hov_time : ∀ (m : Nat) (raw : Frame ℚ), sub.frames[m]? = some raw →
      ∀ f, sub.startOverride = some f → f.time = raw.time ∨ m ≠ 0 := by
    intro m raw hraw f hf
    by_cases hm : m = 0
    · left
      obtain ⟨f0, v, hf0, _, rfl⟩ := builtSub_override ks d e0 ov hdata f hf
      subst hm
      rw [hfr] at hraw
      rw [List.head?_eq_getElem?] at hf0
      rw [hf0] at hraw; simp only [Option.some.injEq] at hraw; subst hraw; rfl
    · right; exact hm
  have mem_p_ks : ∀ k ∈ p, k ∈ ks := by intro k hk; rw [hks]; simp [hk]
  have mem_q_ks : ∀ k ∈ q, k ∈ ks := by intro k hk; rw [hks]; simp [hk]
  rcases hcontract with ⟨hp_le, hq_ge⟩ | ⟨hidx0, hall⟩
  · -- contract A: everything in p is ≤ s, everything in q is ≥ s
    have hA_time : ∀ f ∈ synthPre d e0 ks ++ cssReals p e0, f.time ≤ s := by
      intro f hf
      rcases List.mem_append.1 hf with hf | hf
      · rw [mem_synthPre d e0 ks f hf]; simpa using hs0
      · obtain ⟨k, hk, ht⟩ := mem_cssReals_time p e0 f hf
        rw [ht]; exact hp_le k hk
    have hB_time : ∀ f ∈ B, s ≤ f.time := by
      intro f hf
      obtain ⟨k, hk, ht⟩ := mem_cssReals_time q _ f hf
      rw [ht]; exact hq_ge k hk
    by_cases hAe : synthPre d e0 ks ++ cssReals p e0 = []
    · -- no frame yet at keyframe idx: index 0, and frame 0 sits at time 0
      have hs_e : synthPre d e0 ks = [] := (List.append_eq_nil_iff.1 hAe).1
      have hp_e : cssReals p e0 = [] := (List.append_eq_nil_iff.1 hAe).2
      have hi0 : max (synthPre d e0 p ++ cssReals p e0).length 1 - 1 = 0 := by
        have := synthPre_length_le d e0 p
        simp only [List.length_append, hp_e, List.length_nil]; omega
      have hBne : B ≠ [] := by intro hb; apply hdata; rw [hreals, hp_e, hb]; rfl
      obtain ⟨r, rs, hBr⟩ := List.exists_cons_of_ne_nil hBne
      have hr0 : r.time = 0 := by
        have h1 : ¬ (lit 0 < r.time) := first_real_not_pos d e0 ks r rs hs_e (by rw [hreals, hp_e, hBr]; rfl)
        have h2 : 0 ≤ r.time := by
          obtain ⟨k, hk, ht⟩ := mem_cssReals_time q _ r (by rw [← hB, hBr]; simp)
          rw [ht]; exact hok.nonneg k (mem_q_ks k hk)
        simp only [lit_rat, Nat.cast_zero, not_lt] at h1
        exact le_antisymm h1 h2
      have hF0r : F0 = r :: rs := by rw [hF0, hs_e, hreals, hp_e, hBr]; rfl
      have hfr' : sub.frames = [r] ++ (rs ++ trail) := by rw [hframes, hF0r]; rfl
      have hraw : sub.frames[0]? = some r := by rw [hfr']; rfl
      have hgt : (gFrame sub 0 ovr r).time = r.time := gFrame_time sub 0 ovr r (hov_time 0 r hraw)
      cases hrt : rs ++ trail with
      | nil =>
        -- impossible: the only frame sits at 0 < 1, so a trailing frame exists
        exfalso
        have hrs : rs = [] := (List.append_eq_nil_iff.1 hrt).1
        have htr : trail = [] := (List.append_eq_nil_iff.1 hrt).2
        rcases htrail with ⟨_, hno⟩ | ⟨l, _, _, htl⟩
        · exact hno r (by rw [hF0r, hrs]; rfl) (by rw [hr0]; norm_num)
        · rw [htl] at htr; simp at htr
      | cons b rest =>
        have hbf := bf_at_seg sub s idx ovr [r] rest r b (by rw [hfr', hrt]) rfl (by rw [himv, hi0]; rfl)
          (by simp only [List.length_singleton, Nat.sub_self]; rw [hgt, hr0]; exact not_lt.2 hs0)
        simp only [List.length_singleton, Nat.sub_self] at hbf
        have hbmem : b ∈ rs ++ trail := by rw [hrt]; simp
        have hbt : s ≤ b.time := by
          rcases List.mem_append.1 hbmem with hb | hb
          · exact hB_time b (by rw [hBr]; simp [hb])
          · exact htrail_time b hb
        refine Bracketed.seg 0 r b hraw (by rw [hfr', hrt]; rfl) (by rw [hr0]; exact hs0) hbt ?_
        exact valueAt_of_bf sub s idx ovr _ _ hne hs0 hs1 hbf
    · -- the hint maps to the last frame pushed up to keyframe idx
      set A := synthPre d e0 ks ++ cssReals p e0 with hA
      have hi0 : max (synthPre d e0 p ++ cssReals p e0).length 1 - 1 = A.length - 1 := by
        by_cases hpe : cssReals p e0 = []
        · have h1 := synthPre_length_le d e0 p
          have h2 := synthPre_length_le d e0 ks
          have h3 : 0 < A.length := List.length_pos_of_ne_nil hAe
          simp only [hA, List.length_append, hpe, List.length_nil] at h3 ⊢; omega
        · have : synthPre d e0 ks = synthPre d e0 p := by rw [hks]; exact synthPre_append_of_reals d e0 p q hpe
          rw [hA, this]
          have h3 : 0 < (synthPre d e0 p ++ cssReals p e0).length := by
            rw [List.length_append]; have := List.length_pos_of_ne_nil hpe; omega
          omega
      obtain ⟨a, ha⟩ : ∃ a, A.getLast? = some a := by
        cases h : A.getLast? with
        | none => exact absurd (List.getLast?_eq_none_iff.1 h) hAe
        | some a => exact ⟨a, rfl⟩
      have hamem : a ∈ A := List.mem_of_getLast? ha
      have hfr' : sub.frames = A ++ (B ++ trail) := by rw [hframes, hF0, hreals, hA]; simp [List.append_assoc]
      have hraw : sub.frames[A.length - 1]? = some a := by
        rw [hfr', List.getElem?_append_left (by have := List.length_pos_of_ne_nil hAe; omega)]
        rw [List.getLast?_eq_getElem?] at ha; exact ha
      have hgt : (gFrame sub (A.length - 1) ovr a).time = a.time := gFrame_time sub _ ovr a (hov_time _ a hraw)
      cases hbt : B ++ trail with
      | nil =>
        rw [hbt, List.append_nil] at hfr'
        have hbf := bf_at_last sub s idx ovr A a hfr' ha (by rw [himv, hi0])
          (by rw [hgt]; exact not_lt.2 (hA_time a hamem))
        refine Bracketed.last (A.length - 1) a hraw (by rw [hfr']; have := List.length_pos_of_ne_nil hAe; omega) (hA_time a hamem) ?_
        have := valueAt_of_bf sub s idx ovr _ _ hne hs0 hs1 hbf
        rw [this, interpolate_same]
      | cons b rest =>
        have hbf := bf_at_seg sub s idx ovr A rest a b (by rw [hfr', hbt]) ha (by rw [himv, hi0])
          (by rw [hgt]; exact not_lt.2 (hA_time a hamem))
        have hbmem : b ∈ B ++ trail := by rw [hbt]; simp
        have hbtime : s ≤ b.time := by
          rcases List.mem_append.1 hbmem with hb | hb
          · exact hB_time b hb
          · exact htrail_time b hb
        have hlen := List.length_pos_of_ne_nil hAe
        refine Bracketed.seg (A.length - 1) a b hraw ?_ (hA_time a hamem) hbtime ?_
        · rw [hfr', hbt, show A.length - 1 + 1 = A.length by omega, List.getElem?_append_right (le_refl _)]; simp
        · exact valueAt_of_bf sub s idx ovr _ _ hne hs0 hs1 hbf
  · -- contract B: s is before every keyframe; idx = 0
    subst hidx0
    obtain ⟨k0, hp1⟩ : ∃ k0, p = [k0] := by
      cases p with
      | nil => simp at hpl
      | cons k0 t => cases t with
        | nil => exact ⟨k0, rfl⟩
        | cons _ _ => simp at hpl
    subst hp1
    have hk0 : s < k0.time := hall k0 (mem_p_ks k0 (by simp))
    have hpos : lit 0 < k0.time := by simp only [lit_rat, Nat.cast_zero]; linarith
    have hsyn_ks : synthPre d e0 ks = [⟨lit 0, d, e0⟩] := by rw [hks]; simp only [List.singleton_append, List.cons_append, List.nil_append, synthPre, if_pos hpos]
    have hsyn_p : synthPre d e0 [k0] = [⟨lit 0, d, e0⟩] := by simp only [synthPre, if_pos hpos]
    have hB_time : ∀ f ∈ cssReals ks e0, s < f.time := by
      intro f hf
      obtain ⟨k, hk, ht⟩ := mem_cssReals_time ks e0 f hf
      rw [ht]; exact hall k hk
    cases hv : k0.value with
    | some v =>
      have hp_r : cssReals [k0] e0 = [⟨k0.time, v, k0.easing.getD e0⟩] := by simp [cssReals, hv]
      have hfr' : sub.frames = ⟨lit 0, d, e0⟩ :: ⟨k0.time, v, k0.easing.getD e0⟩ :: (B ++ trail) := by
        rw [hframes, hF0, hsyn_ks, hreals, hp_r]; simp
      have hbf := bf_before sub s 0 ovr _ _ _ hfr' (by rw [himv, hsyn_p, hp_r]; rfl) hk0
      refine Bracketed.seg 0 _ _ (by rw [hfr']; rfl) (by rw [hfr']; rfl) (by simpa using hs0) hk0.le ?_
      exact valueAt_of_bf sub s 0 ovr _ _ hne hs0 hs1 hbf
    | none =>
      have hp_r : cssReals [k0] e0 = [] := by simp [cssReals, hv]
      have hBne : B ≠ [] := by intro hb; apply hdata; rw [hreals, hp_r, hb]; rfl
      obtain ⟨b, rs, hBr⟩ := List.exists_cons_of_ne_nil hBne
      have hfr' : sub.frames = [⟨lit 0, d, e0⟩] ++ (b :: (rs ++ trail)) := by
        rw [hframes, hF0, hsyn_ks, hreals, hp_r, hBr]; simp
      have hraw : sub.frames[0]? = some ⟨lit 0, d, e0⟩ := by rw [hfr']; rfl
      have hgt := gFrame_time sub 0 ovr ⟨lit 0, d, e0⟩ (hov_time 0 _ hraw)
      have hbf := bf_at_seg sub s 0 ovr [⟨lit 0, d, e0⟩] (rs ++ trail) ⟨lit 0, d, e0⟩ b hfr' rfl
        (by rw [himv, hsyn_p, hp_r]; rfl)
        (by simp only [List.length_singleton, Nat.sub_self]; rw [hgt]; simpa using hs0)
      simp only [List.length_singleton, Nat.sub_self] at hbf
      have hbt : s < b.time := hB_time b (by rw [hreals, hp_r, hBr]; simp)
      refine Bracketed.seg 0 _ b hraw (by rw [hfr']; rfl) (by simpa using hs0) hbt.le ?_
      exact valueAt_of_bf sub s 0 ovr _ _ hne hs0 hs1 hbf
