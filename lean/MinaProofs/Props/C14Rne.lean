import MinaProofs.Props.C14Rounded
import MinaProofs.Lemmas.Rne
/-! # C14 for binary32's own rounding (`rne24`, proved faithful in `Lemmas/Rne.lean`) -/
namespace C14

/-- in binary32 arithmetic `lerp(a,b,0) = a` and `lerp(a,b,1) = b` exactly, for representable endpoints -/
theorem lerp_endpoints_binary32 (a b : Rd rne24) (ha : a.Rep) (hb : b.Rep) :
    lerp a b (lit 0) = a ∧ lerp a b (lit 1) = b :=
  ⟨lerp_at_zero_any_rounding Faithful.rne24 a b _ ha (by simp [Faithful.rne24.zero]),
   lerp_at_one_any_rounding Faithful.rne24 a b _ hb (by simp [Faithful.rne24.one])⟩

/-- integers: exact endpoints without panic, for every integer kind, when the endpoint's magnitude is representable -/
theorem lerpInt_endpoints_binary32 (k : Gen.IntKind) (a b : Int)
    (ha : rne24 (a.natAbs : ℚ) = (a.natAbs : ℚ)) (hb : rne24 (b.natAbs : ℚ) = (b.natAbs : ℚ))
    (hra : k.lo ≤ a ∧ a ≤ k.hi) (hrb : k.lo ≤ b ∧ b ≤ k.hi) :
    lerpInt k a b (lit 0 : Rd rne24) = .ok a ∧ lerpInt k a b (lit 1 : Rd rne24) = .ok b :=
  ⟨lerpInt_at_zero_any_rounding Faithful.rne24 k a b _ (by simp [Faithful.rne24.zero]) ha hra,
   lerpInt_at_one_any_rounding Faithful.rne24 k a b _ (by simp [Faithful.rne24.one]) hb hrb⟩

/-- every integer of magnitude at most 2^24 is representable in binary32 … -/
theorem rne24_natCast_of_le (n : ℕ) (hn : n ≤ 2 ^ 24) : rne24 (n : ℚ) = (n : ℚ) := by
  rcases Nat.eq_zero_or_pos n with h0 | hpos
  · subst h0; simpa using rne24_zero
  have hx : (0 : ℚ) < n := by exact_mod_cast hpos
  rcases Nat.lt_or_ge n (2 ^ 24) with hlt | hge
  · -- the scaled significand n / 2^(e-23) = n · 2^(23-e) is an integer because e ≤ 23
    have hlog : Int.log 2 (n : ℚ) = (Nat.log 2 n : ℤ) := Int.log_natCast 2 n
    have he : Nat.log 2 n ≤ 23 := by
      have := Nat.log_lt_of_lt_pow (b := 2) (by omega) hlt
      omega
    apply rne24_of_int_sig hx ((n : ℤ) * (2 : ℤ) ^ (23 - Nat.log 2 n))
    rw [ulp24_eq hx, hlog]
    have : ((Nat.log 2 n : ℤ) - 23) = -((23 - Nat.log 2 n : ℕ) : ℤ) := by omega
    rw [this, zpow_neg, zpow_natCast, div_inv_eq_mul]
    push_cast; ring
  · have : n = 2 ^ 24 := by omega
    subst this
    have h : (((2 ^ 24 : ℕ)) : ℚ) = (2 : ℚ) ^ (24 : ℤ) := by norm_num
    rw [h]; exact rne24_two_zpow 24

/-- **closed form**: for every integer kind and all endpoints of magnitude at most 2^24 within the kind's range, binary32
interpolation returns the endpoints exactly at x = 0 and x = 1 and does not panic — no hypothesis about rounding left -/
theorem lerpInt_endpoints_le_2pow24 (k : Gen.IntKind) (a b : Int) (ha : a.natAbs ≤ 2 ^ 24) (hb : b.natAbs ≤ 2 ^ 24)
    (hra : k.lo ≤ a ∧ a ≤ k.hi) (hrb : k.lo ≤ b ∧ b ≤ k.hi) :
    lerpInt k a b (lit 0 : Rd rne24) = .ok a ∧ lerpInt k a b (lit 1 : Rd rne24) = .ok b :=
  lerpInt_endpoints_binary32 k a b (rne24_natCast_of_le _ ha) (rne24_natCast_of_le _ hb) hra hrb

/-- … hence the full range of every 8- and 16-bit type, and i32/u32/… up to ±2^24, interpolate exactly at the ends -/
example : lerpInt Gen.IntKind.i8 (-128) 127 (lit 1 : Rd rne24) = .ok 127 :=
  (lerpInt_endpoints_binary32 Gen.IntKind.i8 (-128) 127 (by simpa using rne24_natCast_of_le 128 (by norm_num))
    (by simpa using rne24_natCast_of_le 127 (by norm_num)) (by decide) (by decide)).2

end C14
