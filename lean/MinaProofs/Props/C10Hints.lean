import MinaProofs.Props.C10
/-!
# C10 for a sub-timeline driven directly, with *any* index hint

`SubTimeline::value_at` is public; the derive's output always hands it the exact master index, but nothing stops a
caller from passing another one (one ahead is explicitly tolerated by the step-back branch).  Whatever the hint, the
substituted start value can only enter through frame 0:

* with the override disabled it never does (`Lemmas.overrideStart_valueAt_false`, any hint, any time);
* with the override enabled it does not as soon as the hint resolves to the property's frame `i ≥ 2`, or to frame 1 at
  or after that frame's time — because then neither bounding frame is frame 0.

This is the statement the seeded change S9-C10 breaks (its step-back restarts from the 0 % frame); it holds for an
arbitrary `SubTl`, built by `from_keyframes` or not, in every number system.
-/
namespace C10
variable {α : Type} [Num α]

theorem getFrame_override_pos (s : SubTl α) (v : Val α) (j : Nat) (hj : 1 ≤ j) (ovr : Bool) :
    (s.overrideStart v).getFrame j ovr = s.getFrame j ovr := by
  have h0 : (ovr && j == 0) = false := by
    cases ovr <;> simp; omega
  unfold SubTl.overrideStart
  split
  · simp only [SubTl.getFrame, h0]; rfl
  · rfl

theorem overrideStart_frames (s : SubTl α) (v : Val α) :
    (s.overrideStart v).frames = s.frames ∧ (s.overrideStart v).indexMap = s.indexMap := by
  unfold SubTl.overrideStart; split <;> exact ⟨rfl, rfl⟩

/-- **any hint**: if it resolves to frame `i ≥ 2`, or to frame 1 at or after that frame's time, the bounding frames —
hence the value — are those of the un-substituted twin, override enabled or not -/
theorem override_only_through_frame0 (s : SubTl α) (v : Val α) (t : α) (hint i : Nat) (ovr : Bool)
    (hi : s.indexMap[hint]? = some i)
    (hcond : 2 ≤ i ∨ (i = 1 ∧ ∀ f, s.getFrame 1 ovr = some f → ¬ t < f.time)) :
    (s.overrideStart v).boundingFrames t hint ovr = s.boundingFrames t hint ovr := by
  obtain ⟨hfr, hmap⟩ := overrideStart_frames s v
  unfold SubTl.boundingFrames
  rw [hmap, hi, hfr]
  simp only
  have hi1 : 1 ≤ i := by rcases hcond with h | ⟨h, _⟩ <;> omega
  rw [getFrame_override_pos s v i hi1 ovr]
  cases hfa : s.getFrame i ovr with
  | none => rfl
  | some fa =>
    simp only
    by_cases hlt : t < fa.time
    · simp only [hlt, if_true]
      rcases hcond with h2 | ⟨h1, hge⟩
      · have : 0 < i := by omega
        simp only [this, if_true]
        rw [getFrame_override_pos s v (i - 1) (by omega) ovr]
      · subst h1
        exact absurd hlt (hge fa hfa)
    · simp only [hlt, if_false]

theorem valueAt_override_only_through_frame0 (s : SubTl α) (v : Val α) (t : α) (hint i : Nat) (ovr : Bool)
    (hi : s.indexMap[hint]? = some i)
    (hcond : 2 ≤ i ∨ (i = 1 ∧ ∀ f, s.getFrame 1 ovr = some f → ¬ clamp01 t < f.time)) :
    (s.overrideStart v).valueAt t hint ovr = s.valueAt t hint ovr := by
  obtain ⟨_, hmap⟩ := overrideStart_frames s v
  have hb := override_only_through_frame0 s v (clamp01 t) hint i ovr hi hcond
  unfold SubTl.valueAt
  rw [hmap]
  simp only [hb]

/-- non-vacuity, and the seeded change's own witness in the model: keyframes at 0 / 50 / 150 %, evaluated at 1.7 (clamped
to 1) with the truthful hint 2 — the frame before the hinted one is the 50 % frame, so the substituted value 999 is
invisible -/
example :
    let s : SubTl ℚ := SubTl.fromKeyframes
      [⟨0, some (.num 10), none⟩, ⟨1/2, some (.num 50), none⟩, ⟨3/2, some (.num 70), none⟩] (.num 0) Easing.default
    (s.overrideStart (.num 999)).valueAt (17/10) 2 true = s.valueAt (17/10) 2 true := by
  intro s
  apply valueAt_override_only_through_frame0 s _ _ 2 2 true
  · decide
  · left; exact le_refl 2

end C10
