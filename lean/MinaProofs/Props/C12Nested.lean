import MinaProofs.Props.C12
/-!
# C12 for a merge of merges (`MergedTimeline<MergedTimeline<T>>`)

`MergedTimeline` is itself a `Timeline`, so merges nest.  Evaluation and `start_with` of a nested merge are those of
the flat merge with the same components in the same order; the aggregate timing of the outer merge is the same fold
applied to what the inner merges *report* — so an inner merge without a common cycle duration (a disagreeing or an
empty one) takes the outer cycle duration away, wherever it stands in the list.
-/

namespace C12
variable {α : Type} [Num α]

theorem update_go_append (xs ys : List (Timeline α)) (tgt : List (Val α)) (time : α) :
    Merged.update.go time (xs ++ ys) tgt =
      match Merged.update.go time xs tgt with
      | .ok t' => Merged.update.go time ys t'
      | .error p => .error p := by
  induction xs generalizing tgt with
  | nil => rfl
  | cons x rest ih =>
    simp only [List.cons_append, Merged.update.go]
    cases x.update tgt time with
    | ok t' => exact ih t'
    | error p => rfl

/-- **evaluating a merge of merges is evaluating the flat merge** of all components in order -/
theorem nested_update_flat (m : Merged2 α) (tgt : List (Val α)) (time : α) :
    m.update tgt time = m.flatten.update tgt time := by
  obtain ⟨parts⟩ := m
  unfold Merged2.update Merged2.flatten Merged.update
  induction parts generalizing tgt with
  | nil => rfl
  | cons p rest ih =>
    simp only [Merged2.update.go, List.flatMap_cons, update_go_append]
    unfold Merged.update
    cases Merged.update.go time p.timelines tgt with
    | ok t' => exact ih t'
    | error e => rfl

omit [Num α] in
/-- `start_with` reaches every component of every part -/
theorem nested_startWith_flat (m : Merged2 α) (v : List (Val α)) :
    (m.startWith v).flatten = m.flatten.startWith v := by
  obtain ⟨parts⟩ := m
  simp only [Merged2.startWith, Merged2.flatten, Merged.startWith, List.flatMap_map, List.map_flatMap]

/-- the cycle-duration fold can never recover from an undefined component -/
theorem cycleFold_none (xs : List (Option α)) :
    xs.foldl (fun d1 d2 => match d1, d2 with
      | some a, some b => if a == b then some a else none
      | none, none => none
      | _, _ => none) none = none := by
  induction xs with
  | nil => rfl
  | cons x rest ih => cases x <;> simpa using ih

/-- … and an undefined component anywhere makes the result undefined -/
theorem cycleFold_mem_none (x : Option α) (xs : List (Option α)) (h : none ∈ xs) :
    xs.foldl (fun d1 d2 => match d1, d2 with
      | some a, some b => if a == b then some a else none
      | none, none => none
      | _, _ => none) x = none := by
  induction xs generalizing x with
  | nil => simp at h
  | cons y rest ih =>
    simp only [List.foldl_cons]
    rcases List.mem_cons.1 h with hy | hr
    · subst hy
      cases x <;> exact cycleFold_none rest
    · exact ih _ hr

/-- **a cycle duration only when all components agree, nested case**: if any part of a merge of merges reports no
cycle duration — it disagrees internally, or it is empty — the outer merge reports none, whatever the position of that
part (also when it comes first) -/
theorem nested_cycle_none_of_part_none (m : Merged2 α) (p : Merged α) (hp : p ∈ m.parts)
    (hnone : p.cycleDuration = none) : m.cycleDuration = none := by
  unfold Merged2.cycleDuration
  have hmem : none ∈ m.parts.map (·.cycleDuration) := List.mem_map.2 ⟨p, hp, hnone⟩
  cases hl : m.parts.map (·.cycleDuration) with
  | nil => rfl
  | cons x xs =>
    rw [hl] at hmem
    simp only
    rcases List.mem_cons.1 hmem with hx | hxs
    · rw [← hx]; exact cycleFold_none xs
    · exact cycleFold_mem_none x xs hxs

/-- an empty inner merge reports no cycle duration, so it, too, takes the outer one away -/
theorem nested_cycle_none_of_empty_part (m : Merged2 α) (h : (⟨[]⟩ : Merged α) ∈ m.parts) :
    m.cycleDuration = none :=
  nested_cycle_none_of_part_none m ⟨[]⟩ h rfl

/-- non-vacuity: the witness of the seeded change S6-C12, `of([of([]), of([x(3s)])])`, in the model -/
example (t : Timeline ℚ) : (Merged2.mk [⟨[]⟩, ⟨[t]⟩]).cycleDuration = none :=
  nested_cycle_none_of_empty_part _ (by simp)

end C12
