import MinaProofs.Props.C12
/-!
# C12 for a merge of merges (`MergedTimeline<MergedTimeline<T>>`)

`MergedTimeline` is itself a `Timeline`, so merges nest.  Evaluation and `start_with` of a nested merge are those of
the flat merge with the same components in the same order; the aggregate timing of the outer merge is the same fold
applied to what the inner merges *report* — so an inner merge without a common cycle duration (a disagreeing or an
empty one) takes the outer cycle duration away, wherever it stands in the list.
-/

namespace C12
variable {α : Type} [Num α]

theorem update_go_append (xs ys : List (Timeline α)) (tgt : List (Val α)) (time : α) :
    Merged.update.go time (xs ++ ys) tgt =
      match Merged.update.go time xs tgt with
      | .ok t' => Merged.update.go time ys t'
      | .error p => .error p := by
  induction xs generalizing tgt with
  | nil => rfl
  | cons x rest ih =>
    simp only [List.cons_append, Merged.update.go]
    cases x.update tgt time with
    | ok t' => exact ih t'
    | error p => rfl

/-- **evaluating a merge of merges is evaluating the flat merge** of all components in order -/
theorem nested_update_flat (m : Merged2 α) (tgt : List (Val α)) (time : α) :
    m.update tgt time = m.flatten.update tgt time := by
  obtain ⟨parts⟩ := m
  unfold Merged2.update Merged2.flatten Merged.update
  induction parts generalizing tgt with
  | nil => rfl
  | cons p rest ih =>
    simp only [Merged2.update.go, List.flatMap_cons, update_go_append]
    unfold Merged.update
    cases Merged.update.go time p.timelines tgt with
    | ok t' => exact ih t'
    | error e => rfl

omit [Num α] in
/-- `start_with` reaches every component of every part -/
theorem nested_startWith_flat (m : Merged2 α) (v : List (Val α)) :
    (m.startWith v).flatten = m.flatten.startWith v := by
  obtain ⟨parts⟩ := m
  simp only [Merged2.startWith, Merged2.flatten, Merged.startWith, List.flatMap_map, List.map_flatMap]

/-- the cycle-duration fold can never recover from an undefined component -/
theorem cycleFold_none (xs : List (Option α)) :
    xs.foldl (fun d1 d2 => match d1, d2 with
      | some a, some b => if a == b then some a else none
      | none, none => none
      | _, _ => none) none = none := by
  induction xs with
  | nil => rfl
  | cons x rest ih => cases x <;> simpa using ih

/-- … and an undefined component anywhere makes the result undefined -/
theorem cycleFold_mem_none (x : Option α) (xs : List (Option α)) (h : none ∈ xs) :
    xs.foldl (fun d1 d2 => match d1, d2 with
      | some a, some b => if a == b then some a else none
      | none, none => none
      | _, _ => none) x = none := by
  induction xs generalizing x with
  | nil => simp at h
  | cons y rest ih =>
    simp only [List.foldl_cons]
    rcases List.mem_cons.1 h with hy | hr
    · subst hy
      cases x <;> exact cycleFold_none rest
    · exact ih _ hr

/-- **a cycle duration only when all components agree, nested case**: if any part of a merge of merges reports no
cycle duration — it disagrees internally, or it is empty — the outer merge reports none, whatever the position of that
part (also when it comes first) -/
theorem nested_cycle_none_of_part_none (m : Merged2 α) (p : Merged α) (hp : p ∈ m.parts)
    (hnone : p.cycleDuration = none) : m.cycleDuration = none := by
  unfold Merged2.cycleDuration
  have hmem : none ∈ m.parts.map (·.cycleDuration) := List.mem_map.2 ⟨p, hp, hnone⟩
  cases hl : m.parts.map (·.cycleDuration) with
  | nil => rfl
  | cons x xs =>
    rw [hl] at hmem
    simp only
    rcases List.mem_cons.1 hmem with hx | hxs
    · rw [← hx]; exact cycleFold_none xs
    · exact cycleFold_mem_none x xs hxs

/-- an empty inner merge reports no cycle duration, so it, too, takes the outer one away -/
theorem nested_cycle_none_of_empty_part (m : Merged2 α) (h : (⟨[]⟩ : Merged α) ∈ m.parts) :
    m.cycleDuration = none :=
  nested_cycle_none_of_part_none m ⟨[]⟩ h rfl

/-- non-vacuity: the witness of the seeded change S6-C12, `of([of([]), of([x(3s)])])`, in the model -/
example (t : Timeline ℚ) : (Merged2.mk [⟨[]⟩, ⟨[t]⟩]).cycleDuration = none :=
  nested_cycle_none_of_empty_part _ (by simp)

end C12

/-! ### aggregate timing of a merge of merges (ℚ)

The outer folds see what the inner merges report; with every part non-empty the result is the aggregate of the flat
merge.  (An *empty* part reports delay 0 and duration 0, which is why the hypothesis is needed: `of([of([]), x])` has
delay `min 0 x.delay`, the flat merge has `x.delay`.) -/

namespace C12

theorem nested_delay_min (p : Merged ℚ) (ps : List (Merged ℚ)) :
    (∀ q ∈ p :: ps, (Merged2.mk (p :: ps)).delay ≤ q.delay) ∧
    ∃ q ∈ p :: ps, (Merged2.mk (p :: ps)).delay = q.delay := by
  simp only [Merged2.delay, List.map_cons, minFirst, Option.getD_some]
  obtain ⟨h1, h2⟩ := foldl_min_le (ps.map (·.delay)) p.delay
  constructor
  · intro t ht
    apply h1
    rcases List.mem_cons.1 ht with rfl | ht
    · simp
    · simp only [List.mem_cons, List.mem_map]; right; exact ⟨t, ht, rfl⟩
  · rcases List.mem_cons.1 h2 with h | h
    · exact ⟨p, by simp, h⟩
    · obtain ⟨t, ht, hte⟩ := List.mem_map.1 h
      exact ⟨t, by simp [ht], hte.symm⟩

theorem nested_duration_max (p : Merged ℚ) (ps : List (Merged ℚ)) :
    (∀ q ∈ p :: ps, durLe q.duration (Merged2.mk (p :: ps)).duration) ∧
    ∃ q ∈ p :: ps, (Merged2.mk (p :: ps)).duration = q.duration := by
  simp only [Merged2.duration, List.map_cons]
  obtain ⟨h1, h2⟩ := foldl_dur_max (ps.map (·.duration)) p.duration
  constructor
  · intro t ht
    apply h1
    rcases List.mem_cons.1 ht with rfl | ht
    · simp
    · simp only [List.mem_cons, List.mem_map]; right; exact ⟨t, ht, rfl⟩
  · rcases List.mem_cons.1 h2 with h | h
    · exact ⟨p, by simp, h⟩
    · obtain ⟨t, ht, hte⟩ := List.mem_map.1 h
      exact ⟨t, by simp [ht], hte.symm⟩

theorem durLe_antisymm {a b : Option ℚ} (h1 : durLe a b) (h2 : durLe b a) : a = b := by
  cases a <;> cases b <;> simp_all [durLe]
  exact le_antisymm h1 h2

/-- every leaf timeline of a merge of merges with non-empty parts, and the part it sits in -/
theorem leaf_part (m : Merged2 ℚ) (t : Timeline ℚ) (ht : t ∈ m.flatten.timelines) :
    ∃ q ∈ m.parts, t ∈ q.timelines := by
  simpa [Merged2.flatten, List.mem_flatMap] using ht

/-- **delay of a merge of merges = delay of the flat merge**, when no part is empty -/
theorem nested_delay_eq_flat (m : Merged2 ℚ) (hne : m.parts ≠ [])
    (hparts : ∀ q ∈ m.parts, q.timelines ≠ []) : m.delay = m.flatten.delay := by
  obtain ⟨parts⟩ := m
  cases parts with
  | nil => exact absurd rfl hne
  | cons p ps =>
    obtain ⟨hle, q0, hq0, heq⟩ := nested_delay_min p ps
    -- the flat list is non-empty
    have hpne := hparts p (by simp)
    cases hp : p.timelines with
    | nil => exact absurd hp hpne
    | cons t0 ts0 =>
      have hflat : (Merged2.mk (p :: ps)).flatten.timelines = t0 :: (ts0 ++ ps.flatMap (·.timelines)) := by
        simp [Merged2.flatten, hp]
      obtain ⟨fle, ft, hft, feq⟩ := merged_delay_min t0 (ts0 ++ ps.flatMap (·.timelines))
      have hflat' : (Merged2.mk (p :: ps)).flatten = Merged.mk (t0 :: (ts0 ++ ps.flatMap (·.timelines))) := by
        cases hm : (Merged2.mk (p :: ps)).flatten; simp_all
      rw [hflat']
      apply le_antisymm
      · -- nested ≤ flat: the flat minimum is some leaf, in some part, whose delay bounds the nested one from above
        rw [feq]
        obtain ⟨q, hq, htq⟩ := leaf_part (Merged2.mk (p :: ps)) ft (by rw [hflat]; exact hft)
        refine le_trans (hle q hq) ?_
        cases hqt : q.timelines with
        | nil => rw [hqt] at htq; simp at htq
        | cons a as =>
          have := (merged_delay_min a as).1 ft (by rw [← hqt]; exact htq)
          have hqe : q = Merged.mk (a :: as) := by cases q; simp_all
          rw [hqe]; exact this
      · -- flat ≤ nested: the nested minimum is some part's delay, which is one of its leaves' delays
        rw [heq]
        cases hqt : q0.timelines with
        | nil => exact absurd hqt (hparts q0 hq0)
        | cons a as =>
          obtain ⟨_, l, hl, hle2⟩ := merged_delay_min a as
          have hqe : q0 = Merged.mk (a :: as) := by cases q0; simp_all
          rw [hqe, hle2]
          apply fle
          rw [← hflat]
          simp only [Merged2.flatten, List.mem_flatMap]
          exact ⟨q0, hq0, by rw [hqt]; exact hl⟩

/-- **total duration of a merge of merges = that of the flat merge**, when no part is empty -/
theorem nested_duration_eq_flat (m : Merged2 ℚ) (hne : m.parts ≠ [])
    (hparts : ∀ q ∈ m.parts, q.timelines ≠ []) : m.duration = m.flatten.duration := by
  obtain ⟨parts⟩ := m
  cases parts with
  | nil => exact absurd rfl hne
  | cons p ps =>
    obtain ⟨hle, q0, hq0, heq⟩ := nested_duration_max p ps
    have hpne := hparts p (by simp)
    cases hp : p.timelines with
    | nil => exact absurd hp hpne
    | cons t0 ts0 =>
      have hflat : (Merged2.mk (p :: ps)).flatten.timelines = t0 :: (ts0 ++ ps.flatMap (·.timelines)) := by
        simp [Merged2.flatten, hp]
      obtain ⟨fle, ft, hft, feq⟩ := merged_duration_max t0 (ts0 ++ ps.flatMap (·.timelines))
      have hflat' : (Merged2.mk (p :: ps)).flatten = Merged.mk (t0 :: (ts0 ++ ps.flatMap (·.timelines))) := by
        cases hm : (Merged2.mk (p :: ps)).flatten; simp_all
      rw [hflat']
      apply durLe_antisymm
      · rw [heq]
        cases hqt : q0.timelines with
        | nil => exact absurd hqt (hparts q0 hq0)
        | cons a as =>
          obtain ⟨_, l, hl, hle2⟩ := merged_duration_max a as
          have hqe : q0 = Merged.mk (a :: as) := by cases q0; simp_all
          rw [hqe, hle2]
          apply fle
          rw [← hflat]
          simp only [Merged2.flatten, List.mem_flatMap]
          exact ⟨q0, hq0, by rw [hqt]; exact hl⟩
      · rw [feq]
        obtain ⟨q, hq, htq⟩ := leaf_part (Merged2.mk (p :: ps)) ft (by rw [hflat]; exact hft)
        refine durLe_trans ?_ (hle q hq)
        cases hqt : q.timelines with
        | nil => rw [hqt] at htq; simp at htq
        | cons a as =>
          have := (merged_duration_max a as).1 ft (by rw [← hqt]; exact htq)
          have hqe : q = Merged.mk (a :: as) := by cases q; simp_all
          rw [hqe]; exact this

theorem nested_repeat_max (p : Merged ℚ) (ps : List (Merged ℚ)) :
    (∀ q ∈ p :: ps, rankLe (repeatRank q.repeat_) (repeatRank (Merged2.mk (p :: ps)).repeat_)) ∧
    ∃ q ∈ p :: ps, (Merged2.mk (p :: ps)).repeat_ = q.repeat_ := by
  simp only [Merged2.repeat_, List.map_cons]
  obtain ⟨h1, h2⟩ := foldl_repeat_max (ps.map (·.repeat_)) p.repeat_
  constructor
  · intro t ht
    apply h1
    rcases List.mem_cons.1 ht with rfl | ht
    · simp
    · simp only [List.mem_cons, List.mem_map]; right; exact ⟨t, ht, rfl⟩
  · rcases List.mem_cons.1 h2 with h | h
    · exact ⟨p, by simp, h⟩
    · obtain ⟨t, ht, hte⟩ := List.mem_map.1 h
      exact ⟨t, by simp [ht], hte.symm⟩

theorem rankLe_trans {a b c : Nat × Nat} (h1 : rankLe a b) (h2 : rankLe b c) : rankLe a c := by
  unfold rankLe at *; omega

theorem rankLe_antisymm {a b : Nat × Nat} (h1 : rankLe a b) (h2 : rankLe b a) : a = b := by
  unfold rankLe at *
  obtain ⟨a1, a2⟩ := a; obtain ⟨b1, b2⟩ := b
  simp only [Prod.mk.injEq] at *
  omega

/-- **repeat of a merge of merges ranks with that of the flat merge** (Infinite above every count, then by count;
`None` and `Times(0)` rank together, as they compare equal in the code), when no part is empty -/
theorem nested_repeat_rank_eq_flat (m : Merged2 ℚ) (hne : m.parts ≠ [])
    (hparts : ∀ q ∈ m.parts, q.timelines ≠ []) : repeatRank m.repeat_ = repeatRank m.flatten.repeat_ := by
  obtain ⟨parts⟩ := m
  cases parts with
  | nil => exact absurd rfl hne
  | cons p ps =>
    obtain ⟨hle, q0, hq0, heq⟩ := nested_repeat_max p ps
    have hpne := hparts p (by simp)
    cases hp : p.timelines with
    | nil => exact absurd hp hpne
    | cons t0 ts0 =>
      have hflat : (Merged2.mk (p :: ps)).flatten.timelines = t0 :: (ts0 ++ ps.flatMap (·.timelines)) := by
        simp [Merged2.flatten, hp]
      obtain ⟨fle, ft, hft, feq⟩ := merged_repeat_max t0 (ts0 ++ ps.flatMap (·.timelines))
      have hflat' : (Merged2.mk (p :: ps)).flatten = Merged.mk (t0 :: (ts0 ++ ps.flatMap (·.timelines))) := by
        cases hm : (Merged2.mk (p :: ps)).flatten; simp_all
      rw [hflat']
      apply rankLe_antisymm
      · rw [heq]
        cases hqt : q0.timelines with
        | nil => exact absurd hqt (hparts q0 hq0)
        | cons a as =>
          obtain ⟨_, l, hl, hle2⟩ := merged_repeat_max a as
          have hqe : q0 = Merged.mk (a :: as) := by cases q0; simp_all
          rw [hqe, hle2]
          apply fle
          rw [← hflat]
          simp only [Merged2.flatten, List.mem_flatMap]
          exact ⟨q0, hq0, by rw [hqt]; exact hl⟩
      · rw [feq]
        obtain ⟨q, hq, htq⟩ := leaf_part (Merged2.mk (p :: ps)) ft (by rw [hflat]; exact hft)
        refine rankLe_trans ?_ (hle q hq)
        cases hqt : q.timelines with
        | nil => rw [hqt] at htq; simp at htq
        | cons a as =>
          have := (merged_repeat_max a as).1 ft (by rw [← hqt]; exact htq)
          have hqe : q = Merged.mk (a :: as) := by cases q; simp_all
          rw [hqe]; exact this

/-- the hypothesis is needed: an empty part reports delay 0 -/
example : ∃ m : Merged2 ℚ, m.parts ≠ [] ∧ m.delay ≠ m.flatten.delay := by
  refine ⟨⟨[⟨[]⟩, ⟨[⟨[], ⟨1, 1, .none, false⟩, []⟩]⟩]⟩, by simp, ?_⟩
  simp [Merged2.delay, Merged2.flatten, Merged.delay, minFirst, Timeline.delay, lit]

end C12
