import MinaProofs.Props.C18
/-!
# C19 — Bevy selector/chain: key changes blend smoothly and chains advance on end

Model: `selectStep` (`select_animation`), `chainStep` (`chain_animations`), `frame` (one `App::update`, for
both relative orders of the two systems bevy leaves unordered, and for both positions of an unrelated
`animate<Q>` relative to `chain_animations`). Generic in the number system unless stated.

The last clause ("the chain never fires … when some other animator on the entity ended") is false of the
code: `AnimationStateChanged` carries only the entity, not the component type (known finding F-C19,
`chain_fires_on_other_animator`); it is proved for entities with a single animated component type.
-/
namespace C19

variable {α : Type} [Num α]

/-- changing the key makes the animator play that key's timeline from its beginning, blended from the
component's current values; the selector remembers the key it applied -/
theorem select_installs_blended_clone (sel : Selector α) (a : BAnimator α) (comp : List (Val α))
    (h : sel.prevKey ≠ some sel.key) :
    let r := selectStep sel a comp
    r.2.timeline = (sel.lookup sel.key).map (·.startWith comp) ∧ r.2.posNs = 0 ∧ r.2.state = .none ∧
    r.2.enabled = a.enabled ∧ r.1.prevKey = some sel.key ∧ r.1.key = sel.key ∧ r.1.timelines = sel.timelines := by
  intro r
  have : (sel.prevKey == some sel.key) = false := by simpa using h
  simp only [r, selectStep, this, Bool.false_eq_true, if_false, BAnimator.reset]
  simp

/-- re-assigning the current key does not restart anything -/
theorem reassign_same_key_noop (sel : Selector α) (a : BAnimator α) (comp : List (Val α))
    (h : sel.prevKey = some sel.key) : selectStep sel a comp = (sel, a) := by
  simp [selectStep, h]

/-- the selector never writes the component: the frame that switches timelines leaves it unchanged —
`select_animation` has no access to it, and the freshly reset animator does not evaluate on that frame
(its position 0 is before any positive total duration) -/
theorem key_change_no_jump (sel : Selector α) (a : BAnimator α) (comp comp' : List (Val α)) (δ : Nat)
    (a' : BAnimator α) (evs : List AnimState) (h : sel.prevKey ≠ some sel.key)
    (hdur : ∀ tl, (selectStep sel a comp).2.timeline = some tl → geDur (Num.secsOfNanos 0 : α) tl.duration = false)
    (hstep : animateStep (selectStep sel a comp).2 comp δ = .ok (a', comp', evs)) : comp' = comp := by
  obtain ⟨h1, h2, h3, h4, _⟩ := select_installs_blended_clone sel a comp h
  set b := (selectStep sel a comp).2 with hb
  cases hen : b.enabled with
  | false =>
    rw [C18.disabled_noop b comp δ hen] at hstep
    simp only [Except.ok.injEq, Prod.mk.injEq] at hstep; exact hstep.2.1.symm
  | true =>
    cases htl : b.timeline with
    | none =>
      unfold animateStep at hstep
      simp only [hen, Bool.not_true, Bool.false_eq_true, if_false, htl] at hstep
      split at hstep <;> (simp only [Except.ok.injEq, Prod.mk.injEq] at hstep; exact hstep.2.1.symm)
    | some tl =>
      obtain ⟨_, _, _, _, _, h6⟩ := C18.step_spec b a' comp comp' evs δ tl hen htl hstep
      have hd := hdur tl htl
      rw [h2] at h6
      have : ¬ (b.state = .playing ∨ (geDur (Num.secsOfNanos 0 : α) tl.duration = true ∧ b.state ≠ .ended)) := by
        rw [h3, hd]; simp
      rw [if_neg this] at h6
      exact h6

/-- a key without a timeline stops animation and leaves the component alone -/
theorem key_without_timeline_stops (sel : Selector α) (a : BAnimator α) (comp : List (Val α)) (δ : Nat)
    (h : sel.prevKey ≠ some sel.key) (hno : sel.lookup sel.key = none) (hen : a.enabled = true) :
    animateStep (selectStep sel a comp).2 comp δ = .ok ((selectStep sel a comp).2, comp, []) := by
  obtain ⟨h1, h2, h3, h4, _⟩ := select_installs_blended_clone sel a comp h
  rw [hno] at h1
  unfold animateStep
  simp only [h4, hen, Bool.not_true, Bool.false_eq_true, if_false, h1, Option.map_none, h3]
  simp

/-- with a chain: when `Ended` is among the events of the entity while key `k` is active and the chain
maps `k` to `k'`, the selector moves to `k'` … -/
theorem chain_fires_on_end (next : List (Nat × Nat)) (sel : Selector α) (k' : Nat)
    (hentry : next.find? (·.1 == sel.key) = some (sel.key, k')) :
    (chainStep next sel [.ended]).key = k' := by
  simp [chainStep, hentry]

/-- … and it never fires when no `Ended` event arrived … -/
theorem chain_silent_without_ended (next : List (Nat × Nat)) (sel : Selector α) (events : List AnimState)
    (h : ∀ e ∈ events, e ≠ .ended) : chainStep next sel events = sel := by
  unfold chainStep
  induction events generalizing sel with
  | nil => rfl
  | cons e es ih =>
    simp only [List.foldl_cons]
    have he : (e == AnimState.ended) = false := by simpa using h e (by simp)
    simp only [he, Bool.false_eq_true, if_false]
    exact ih sel (fun x hx => h x (by simp [hx]))

/-- … or when the chain has no entry for the active key -/
theorem chain_silent_without_entry (next : List (Nat × Nat)) (sel : Selector α) (events : List AnimState)
    (h : next.find? (·.1 == sel.key) = none) : chainStep next sel events = sel := by
  unfold chainStep
  induction events with
  | nil => rfl
  | cons e es ih =>
    simp only [List.foldl_cons]
    by_cases he : (e == AnimState.ended) = true
    · simp only [he, if_true, h]; exact ih
    · simp only [he, Bool.false_eq_true, if_false]; exact ih

/-- the chain only ever changes the key; it never touches timelines or the applied-key memo -/
theorem chain_changes_key_only (next : List (Nat × Nat)) (sel : Selector α) (events : List AnimState) :
    (chainStep next sel events).timelines = sel.timelines ∧ (chainStep next sel events).prevKey = sel.prevKey := by
  unfold chainStep
  induction events generalizing sel with
  | nil => exact ⟨rfl, rfl⟩
  | cons e es ih =>
    simp only [List.foldl_cons]
    split
    · split
      · rename_i k' _
        exact ih { sel with key := k' }
      · exact ih sel
    · exact ih sel

/-- **single animated component type** (`animQ = none`): in one frame the key moves only if the governed
animator itself announced `Ended` in the previous frame — in either order of the two systems -/
theorem chain_only_on_own_end (w w' : World α) (δ : Nat) (chainFirst qFirst : Bool) (evP evQ : List AnimState)
    (hq : w.animQ = none) (hpend : ∀ e ∈ w.pending, e ≠ .ended)
    (s : Selector α) (hs : w.sel = some s)
    (h : frame w δ chainFirst qFirst = .ok (w', evP, evQ)) :
    ∃ s', w'.sel = some s' ∧ s'.key = s.key := by
  unfold frame at h
  simp only [hq] at h
  have hev : (if qFirst then w.pending ++ [] else w.pending) = w.pending := by cases qFirst <;> simp
  simp only [hev, hs] at h
  cases hc : w.chain with
  | none =>
    simp only [hc] at h
    cases chainFirst <;> simp only [Bool.false_eq_true, if_false, if_true] at h
    all_goals
      split at h
      · simp at h
      · simp only [Except.ok.injEq, Prod.mk.injEq] at h
        obtain ⟨rfl, _, _⟩ := h
        refine ⟨_, rfl, ?_⟩
        simp only [selectStep]; split <;> rfl
  | some next =>
    simp only [hc] at h
    have hsil : ∀ x : Selector α, chainStep next x w.pending = x := fun x => chain_silent_without_ended next x w.pending hpend
    cases chainFirst <;> simp only [Bool.false_eq_true, if_false, if_true, hsil] at h
    all_goals
      split at h
      · simp at h
      · simp only [Except.ok.injEq, Prod.mk.injEq] at h
        obtain ⟨rfl, _, _⟩ := h
        refine ⟨_, rfl, ?_⟩
        simp only [selectStep]; split <;> rfl

/-- **Refutation of the last clause** (F-C19): an entity with a second, unrelated animator Q. Q's short
timeline ends; one frame later the chain on P moves key 0 → 1 although P's own animation (100 s) is
nowhere near its end. Evaluated by the kernel on the model at ℚ, for the order `select`, then `chain`. -/
theorem chain_fires_on_other_animator :
    let k (t v : ℚ) : Keyframe ℚ := ⟨t, none, [some (.num v)]⟩
    let tlP : Merged ℚ := ⟨[Timeline.build [⟨0, .num 0⟩] { (Config.default : Config ℚ) with duration := 100, keyframes := [k 0 0, k 1 9] }]⟩
    let tlQ : Merged ℚ := ⟨[Timeline.build [⟨0, .num 0⟩] { (Config.default : Config ℚ) with duration := 1 / 1000, keyframes := [k 0 0, k 1 1] }]⟩
    let w0 : World ℚ := { compP := [.num 0], animP := BAnimator.new, sel := some ⟨[(0, tlP), (1, tlP)], 0, none⟩,
                          chain := some [(0, 1)], compQ := [.num 0], animQ := some { (BAnimator.new : BAnimator ℚ) with timeline := some tlQ },
                          pending := [] }
    (match frame w0 10000000 false with
     | .ok (w1, _, _) =>
       match frame w1 10000000 false with
       | .ok (w2, _, evQ) =>
         match frame w2 10000000 false with
         | .ok (w3, _, _) =>
           -- Q announced Ended in frame 2; in frame 3 P's key has moved although P is still Playing
           decide (evQ = [.ended]) && decide ((w3.sel.map (·.key)) = some 1) && decide (w3.animP.state ≠ .ended) &&
             decide ((w2.sel.map (·.key)) = some 0)
         | .error _ => false
       | .error _ => false
     | .error _ => false) = true := by
  decide +kernel

end C19
