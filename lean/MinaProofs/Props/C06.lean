import MinaProofs.Props.C04
/-!
# C06 — Animation is frame-rate independent: only total elapsed time matters

The animator keeps the time in state as whole nanoseconds (`std::time::Duration`) and recomputes the
values from that absolute time on every `advance`; nothing is accumulated in floating point.
Generic in the number system except `nanos_additive` (ℚ).
-/
namespace C06

variable {α : Type} [Num α]

/-- `advance(0)` changes nothing at all (whole record), in any reachable (`Good`) animator -/
theorem advance_zero (P : List (Val α) → Prop) (a : Animator α) (hg : C04.Good P a) (hclock : a.stateNs < durationMaxNs) :
    a.advanceNs 0 = .ok a := by
  unfold Animator.advanceNs
  rw [if_neg (by simpa using hclock)]
  unfold Animator.updateValues
  simp only [Nat.add_zero]
  cases htl : a.timeline? a.state with
  | none => rfl
  | some tl => simp only; rw [hg.inv.current tl htl]

/-- two advances move the clock exactly like one advance by the sum (and never touch state or pause) -/
theorem advance_clock_add (a a1 a2 a12 : Animator α) (m n : Nat)
    (h1 : a.advanceNs m = .ok a1) (h2 : a1.advanceNs n = .ok a2) (h12 : a.advanceNs (m + n) = .ok a12) :
    a2.stateNs = a12.stateNs ∧ a2.state = a12.state ∧ a2.paused = a12.paused ∧ a2.timelines = a12.timelines := by
  have spec : ∀ (b b' : Animator α) k, b.advanceNs k = .ok b' →
      b'.timelines = b.timelines ∧ b'.state = b.state ∧ b'.paused = b.paused ∧ b'.stateNs = b.stateNs + k := by
    intro b b' k h
    unfold Animator.advanceNs at h
    split at h
    · simp at h
    · obtain ⟨x1, x2, x3, x4, _⟩ := updateValues_spec _ b' h
      exact ⟨x1, x2, x3, x4⟩
  obtain ⟨p1, p2, p3, p4⟩ := spec a a1 m h1
  obtain ⟨q1, q2, q3, q4⟩ := spec a1 a2 n h2
  obtain ⟨r1, r2, r3, r4⟩ := spec a a12 (m + n) h12
  refine ⟨by omega, by rw [q2, p2, r2], by rw [q3, p3, r3], by rw [q1, p1, r1]⟩

/-- the set of slots a timeline writes does not depend on the time (true of built timelines: a
sub-timeline with data produces a value at every position, C01's lookup theorem) -/
def StableWrites (m : Merged α) : Prop :=
  ∀ t t' W W', C12.mergedWrites m.timelines t = .ok W → C12.mergedWrites m.timelines t' = .ok W' →
    ∀ k, lastWrite W' k = none → lastWrite W k = none

/-- **advance(a) then advance(b) = advance(a+b)**: identical values (whole record), because the values
are recomputed from the absolute time and the intermediate frame is completely overwritten -/
theorem advance_add (a a1 a2 a12 : Animator α) (m n : Nat)
    (hst : ∀ tl, a.timeline? a.state = some tl → StableWrites tl)
    (h1 : a.advanceNs m = .ok a1) (h2 : a1.advanceNs n = .ok a2) (h12 : a.advanceNs (m + n) = .ok a12) :
    a2 = a12 := by
  obtain ⟨c1, c2, c3, c4⟩ := advance_clock_add a a1 a2 a12 m n h1 h2 h12
  have hvals : a2.values = a12.values := by
    unfold Animator.advanceNs at h1 h2 h12
    split at h1
    · simp at h1
    split at h2
    · simp at h2
    split at h12
    · simp at h12
    obtain ⟨x1, x2, _, x4, x5⟩ := updateValues_spec _ a1 h1
    obtain ⟨y1, y2, _, y4, y5⟩ := updateValues_spec _ a2 h2
    obtain ⟨z1, z2, _, z4, z5⟩ := updateValues_spec _ a12 h12
    simp only at x5 y5 z5
    have e1 : ({ a with stateNs := a.stateNs + m } : Animator α).timeline? a.state = a.timeline? a.state := rfl
    have e2 : ({ a with stateNs := a.stateNs + (m + n) } : Animator α).timeline? a.state = a.timeline? a.state := rfl
    rw [e1] at x5; rw [e2] at z5
    have htl1 : a1.timeline? a1.state = a.timeline? a.state := by
      unfold Animator.timeline?; rw [x1, x2]
    cases htl : a.timeline? a.state with
    | none =>
      rw [htl] at x5 z5
      have : ({ a1 with stateNs := a1.stateNs + n } : Animator α).timeline? a1.state = none := by
        rw [← htl, ← htl1]; rfl
      rw [this] at y5
      rw [y5, x5, z5]
    | some tl =>
      rw [htl] at x5 z5
      have : ({ a1 with stateNs := a1.stateNs + n } : Animator α).timeline? a1.state = some tl := by
        rw [← htl, ← htl1]; rfl
      rw [this] at y5
      simp only at x5 y5 z5
      have ht : a1.stateNs + n = a.stateNs + (m + n) := by
        have : a1.stateNs = a.stateNs + m := x4
        rw [this]; exact Nat.add_assoc _ _ _
      rw [ht] at y5
      have hm : tl = Merged.mk tl.timelines := rfl
      rw [hm, C12.merged_update_eq_writes] at x5 y5 z5
      cases hw1 : C12.mergedWrites tl.timelines (Num.secsOfNanos (a.stateNs + m)) with
      | error e => rw [hw1] at x5; simp [Except.map] at x5
      | ok W1 =>
        cases hw2 : C12.mergedWrites tl.timelines (Num.secsOfNanos (a.stateNs + (m + n))) with
        | error e => rw [hw2] at z5; simp [Except.map] at z5
        | ok W2 =>
          rw [hw1] at x5; rw [hw2] at y5 z5
          simp only [Except.map, Except.ok.injEq] at x5 y5 z5
          rw [← y5, ← z5, ← x5]
          apply applyWrites_congr W2 _ _ (applyWrites_length W1 a.values)
          intro k hk
          have := hst tl htl _ _ W1 W2 hw1 hw2 k hk
          rw [applyWrites_getElem?, this]
          split
          · rfl
          · rename_i hlt; exact (List.getElem?_eq_none (not_lt.1 hlt)).symm
  cases a2; cases a12
  simp only at c1 c2 c3 c4 hvals
  subst c1; subst c2; subst c3; subst c4; subst hvals
  rfl

/-- inserting a zero-length advance anywhere in a history changes nothing -/
theorem insert_zero_advance (P : List (Val α) → Prop) (a b : Animator α) (ops1 ops2 : List (AnimOp α)) (hg : C04.Good P a)
    (h1 : a.run ops1 = .ok b) (hclock : b.stateNs < durationMaxNs) :
    a.run (ops1 ++ [AnimOp.advanceNs 0] ++ ops2) = a.run (ops1 ++ ops2) := by
  have run_append : ∀ (x : Animator α) (l1 l2 : List (AnimOp α)) y, x.run l1 = .ok y → x.run (l1 ++ l2) = y.run l2 := by
    intro x l1
    induction l1 generalizing x with
    | nil => intro l2 y h; simp [Animator.run] at h; subst h; rfl
    | cons op rest ih =>
      intro l2 y h
      simp only [Animator.run, List.cons_append] at h ⊢
      cases hs : x.step op with
      | error e => rw [hs] at h; simp at h
      | ok x' => rw [hs] at h; exact ih x' l2 y h
  rw [List.append_assoc, run_append a ops1 _ b h1, run_append a ops1 ops2 b h1]
  have hgb := C04.good_run P a b ops1 hg h1
  simp only [List.singleton_append, Animator.run, Animator.step, advance_zero P b hgb hclock]

/-- whole nanoseconds add exactly: for step sizes that are exact multiples of 1 ns the clock after
`advance(x); advance(y)` equals the clock after `advance(x+y)` -/
theorem nanos_additive (x y : Nat) :
    (Num.nanosOfSecs ((x : ℚ) / 1000000000) : Except Panic Nat) = (if x ≥ 2 ^ 64 * 1000000000 then .error .durationOverflow else .ok x) ∧
    ((x : ℚ) / 1000000000 + (y : ℚ) / 1000000000 = ((x + y : Nat) : ℚ) / 1000000000) := by
  constructor
  · simp only [nanosOfSecs_rat, RatNum.nanosOfSecs]
    have hnn : ¬ ((x : ℚ) / 1000000000 < 0) := not_lt.2 (by positivity)
    rw [if_neg hnn]
    have hmul : (x : ℚ) / 1000000000 * 1000000000 = (x : ℚ) := by field_simp
    rw [hmul]
    have : RatNum.roundEven (x : ℚ) = (x : Int) := by
      unfold RatNum.roundEven
      have hf : (x : ℚ).floor = (x : Int) := by
        rw [rat_floor_eq]; exact_mod_cast Int.floor_natCast x
      simp only [hf]
      norm_num
    rw [this]
    simp
  · push_cast; ring

end C06
