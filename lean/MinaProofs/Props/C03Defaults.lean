import MinaProofs.Lemmas.RatNum
import MinaModel.TimeScale
/-!
# C03: the generated `Default for TimeScale` table pinned to the documented defaults

Kept in a module of its own (nothing imports it) so that an edit to `TimeScale::default()` — which no timeline goes
through — breaks this obligation only, not the proofs of every property that builds on C03.
-/

namespace C03

/-- the helper's own `Default` (generated from `impl Default for TimeScale`) is the time scale of a default
`TimelineConfiguration`: no delay, a one-second cycle, no repeat, no reverse -/
theorem default_timescale_as_documented :
    (TimeScale.default : TimeScale ℚ) = ⟨0, 1, .none, false⟩ := by
  simp [TimeScale.default, ofDecTriple, Gen.tsDefaultDelay, Gen.tsDefaultDuration, Gen.tsDefaultRepeatInfinite,
    Gen.tsDefaultReverse]

end C03
