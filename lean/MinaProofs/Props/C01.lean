import MinaProofs.Lemmas.FramesSorted
import MinaProofs.Lemmas.Writes
/-!
# C01 — Timeline evaluation is CSS-style per-property keyframe interpolation

Model: `SubTl.fromKeyframes` / `valueAt` (`timeline_helpers.rs`), `prepareFrame` (`timeline.rs`), the
derive-generated `update`, at `α = ℚ`. The declarative reading is `Spec.cssFrames`.

For one property, `ks` is the master keyframe list as the builder hands it over (sorted by position,
positions in [0,1] — `KfOK`; the builder's sort is C11), each keyframe carrying `some v` if it defines
the property. No bound on the number of keyframes; repeated positions, arbitrary presence masks and
per-keyframe easings are all inside the statements. `builtSub … ov` is the sub-timeline with an optional
substituted start value `ov`.
-/
namespace C01
open Spec

/-- the frames `from_keyframes` builds are exactly the CSS reading: the defining keyframes with carried
easings, a synthetic `(0 %, default, default easing)` frame iff the first one is not at 0 %, a
`(100 %, last value)` frame iff the last one is before 100 %; empty iff none defines the property -/
theorem frames_are_css (ks : List (PKeyframe ℚ)) (hok : KfOK ks) (d : Val ℚ) (e0 : Easing) :
    (SubTl.fromKeyframes ks d e0).frames = cssFrames ks d e0 := frames_eq_css ks hok d e0

/-- keyframes that omit the property take no part in that property's interpolation -/
theorem omitting_keyframes_irrelevant (ks : List (PKeyframe ℚ)) (e0 : Easing) :
    cssReals ks e0 = cssReals (ks.filter (·.value.isSome)) e0 := by
  induction ks generalizing e0 with
  | nil => rfl
  | cons k ks ih =>
    cases hv : k.value with
    | none => simp [cssReals, hv, List.filter, ih]
    | some v => simp [cssReals, hv, List.filter, ih]

/-- the keyframe search used by `prepare_frame` meets the contract the lookup needs -/
theorem search_contract (ks : List (PKeyframe ℚ)) (hok : KfOK ks) (hne : ks ≠ []) (s : ℚ) :
    HintOK ks s (searchIdx (ks.map (·.time)) s) := searchIdx_hintOK ks hok hne s

/-- **Interpolation.** At a position strictly between two consecutive frames `F[m]`, `F[m+1]` of the CSS
reading, the value is the linear interpolation of their values at the eased fraction of the segment,
with the easing in force at the segment's *starting* frame — for every master index the search may
return, with or without a substituted start value (which replaces only the value of frame 0, and only
when the override is enabled). -/
theorem interpolation (ks : List (PKeyframe ℚ)) (hok : KfOK ks) (d : Val ℚ) (e0 : Easing)
    (hdata : cssReals ks e0 ≠ []) (ov : Option (Val ℚ)) (ovr : Bool) (s : ℚ) (hs0 : 0 ≤ s) (hs1 : s ≤ 1)
    (idx : Nat) (hidx : HintOK ks s idx)
    (m : Nat) (f g : Frame ℚ) (hf : (cssFrames ks d e0)[m]? = some f) (hg : (cssFrames ks d e0)[m + 1]? = some g)
    (hlt : f.time < s) (hgt : s < g.time) :
    (builtSub ks d e0 ov).valueAt s idx ovr =
      some ((gFrame (builtSub ks d e0 ov) m ovr f).value.lerp g.value
        (f.easing.calc ((s - f.time) / (g.time - f.time)))) := by
  rw [← frames_eq_css ks hok d e0] at hf hg
  obtain ⟨hsorted, _⟩ := frames_sorted ks hok d e0
  obtain ⟨hfr, _⟩ := builtSub_frames ks d e0 ov
  rw [← hfr] at hf hg hsorted
  set sub := builtSub ks d e0 ov
  have mono : ∀ (i j : Nat) (a b : Frame ℚ), sub.frames[i]? = some a → sub.frames[j]? = some b → i ≤ j → a.time ≤ b.time := by
    intro i j a b ha hb hij
    obtain ⟨hi, rfl⟩ := List.getElem?_eq_some_iff.1 ha
    obtain ⟨hj, rfl⟩ := List.getElem?_eq_some_iff.1 hb
    rcases Nat.lt_or_eq_of_le hij with h | h
    · exact List.pairwise_iff_getElem.1 hsorted i j hi hj h
    · subst h; exact le_rfl
  -- the override keeps time and easing of frame 0
  have hgf : (gFrame sub m ovr f).time = f.time ∧ (gFrame sub m ovr f).easing = f.easing := by
    unfold gFrame
    split
    · rename_i hc
      have hm : m = 0 := by simp only [Bool.and_eq_true, beq_iff_eq] at hc; exact hc.2
      cases ho : sub.startOverride with
      | none => exact ⟨rfl, rfl⟩
      | some fo =>
        obtain ⟨f0, v, hf0, _, rfl⟩ := builtSub_override ks d e0 ov hdata fo ho
        subst hm
        rw [List.head?_eq_getElem?, ← hfr, hf] at hf0
        simp only [Option.some.injEq] at hf0; subst hf0
        exact ⟨rfl, rfl⟩
    · exact ⟨rfl, rfl⟩
  have key : ∀ (m' : Nat) (f' : Frame ℚ), sub.frames[m']? = some f' → f'.time ≤ s → m' ≤ m := by
    intro m' f' hf' hle
    by_contra hcon
    have := mono (m + 1) m' g f' hg hf' (by omega)
    linarith
  cases valueAt_bracket ks hok d e0 hdata ov s hs0 hs1 idx hidx ovr with
  | seg m' f' g' hf' hg' h1 h2 hr =>
    have hle : m' ≤ m := key m' f' hf' h1
    have hge : m ≤ m' := by
      by_contra hcon
      have := mono (m' + 1) m g' f hg' hf (by omega)
      linarith
    have hmm : m' = m := le_antisymm hle hge
    subst hmm
    rw [hf] at hf'; rw [hg] at hg'
    simp only [Option.some.injEq] at hf' hg'; subst hf'; subst hg'
    rw [hr]
    unfold interpolate
    have hd : ¬ ((g.time - (gFrame sub m' ovr f).time == lit 0) = true) := by
      rw [hgf.1]; simp only [lit_rat, Nat.cast_zero, beq_iff_eq]; intro h; linarith
    rw [if_neg hd, hgf.1, hgf.2]
  | last m' f' hf' hl h1 hr =>
    exfalso
    have hle : m' ≤ m := key m' f' hf' h1
    have h3 : m + 1 < sub.frames.length := (List.getElem?_eq_some_iff.1 hg).1
    rw [← hl] at h3
    omega

/-- if no keyframe defines the property at 0 %, the first segment starts from the property type's
default value at 0 % with the timeline's default easing -/
theorem default_start (ks : List (PKeyframe ℚ)) (d : Val ℚ) (e0 : Easing) (f : Frame ℚ) (rs : List (Frame ℚ))
    (hr : cssReals ks e0 = f :: rs) (hpos : 0 < f.time) :
    (cssFrames ks d e0)[0]? = some ⟨0, d, e0⟩ ∧ (cssFrames ks d e0)[1]? = some f := by
  have hp : lit 0 < f.time := by simpa using hpos
  simp only [cssFrames, hr, hp, if_true]
  cases hl : ([(⟨lit 0, d, e0⟩ : Frame ℚ)] ++ f :: rs).getLast? with
  | none => simp at hl
  | some l => simp only; split <;> simp

/-- if none defines it at 100 %, the last defined value is held until the end: the last frame of the
reading is at 100 % and carries the last defining keyframe's value -/
theorem hold_end (ks : List (PKeyframe ℚ)) (d : Val ℚ) (e0 : Easing) (l : Frame ℚ)
    (hne : cssReals ks e0 ≠ []) (hl : (cssReals ks e0).getLast? = some l) (hlt : l.time < 1) :
    (cssFrames ks d e0).getLast? = some ⟨1, l.value, l.easing⟩ := by
  obtain ⟨f, rs, hr⟩ := List.exists_cons_of_ne_nil hne
  have hbody : ((if lit 0 < f.time then [(⟨lit 0, d, e0⟩ : Frame ℚ)] else []) ++ f :: rs).getLast? = some l := by
    rw [List.getLast?_append_of_ne_nil _ (by simp), ← hr]; exact hl
  have hlt' : l.time < lit 1 := by simpa using hlt
  simp only [cssFrames, hr, hbody, hlt', if_true]
  rw [List.getLast?_append_of_ne_nil _ (by simp)]; rfl

/-- **Timeline level.** `update` on the built timeline writes, into an animated field's slot, exactly
what that field's sub-timeline yields at the position and index `prepare_frame` computes. -/
theorem update_writes_valueAt (tl : Timeline ℚ) (tgt res : List (Val ℚ)) (time : ℚ)
    (hnd : (tl.subs.map Prod.fst).Nodup) (h : tl.update tgt time = .ok res)
    (t : ℚ) (idx : Nat) (ovr : Bool) (hp : prepareFrame tl.ts tl.boundary time = some (t, idx, ovr))
    (i : Nat) (sub : SubTl ℚ) (hmem : (i, sub) ∈ tl.subs) (hi : i < tgt.length) :
    res[i]? = match sub.valueAt t idx ovr with
      | some (.ok v) => some v
      | _ => tgt[i]? := by
  unfold Timeline.update at h
  rw [hp] at h
  simp only at h
  generalize tl.subs = subs at h hnd hmem
  induction subs generalizing tgt with
  | nil => simp at hmem
  | cons p rest ih =>
    obtain ⟨j, s'⟩ := p
    simp only [List.map_cons, List.nodup_cons] at hnd
    simp only [applySubs] at h
    rcases List.mem_cons.1 hmem with heq | hmem'
    · simp only [Prod.mk.injEq] at heq
      obtain ⟨rfl, rfl⟩ := heq
      split at h
      · rename_i hv
        rw [hv, applySubs_untouched rest t idx ovr tgt res h i hnd.1]
      · rename_i v hv
        rw [hv, applySubs_untouched rest t idx ovr _ res h i hnd.1]
        simp [hi]
      · simp at h
    · have hij : j ≠ i := by
        intro hji; apply hnd.1; subst hji
        exact List.mem_map.2 ⟨(j, sub), hmem', rfl⟩
      split at h
      · exact ih tgt hi h hnd.2 hmem'
      · rename_i v hv
        have := ih (tgt.set j v) (by simpa using hi) h hnd.2 hmem'
        rw [this]
        cases sub.valueAt t idx ovr with
        | none => simp [List.getElem?_set_ne hij]
        | some r => cases r <;> simp [List.getElem?_set_ne hij]
      · simp at h

/-! Non-vacuity: a sparse 4-keyframe list (positions 0, ¼, ¼, 1; the property defined at ¼ and 1 only,
with an easing change) meets the hypotheses; its reading has a synthetic 0 % frame and three segments. -/
example :
    let ks : List (PKeyframe ℚ) := [⟨0, none, none⟩, ⟨1/4, some (.num 10), some (.builtin .outQuad)⟩,
      ⟨1/4, none, none⟩, ⟨1, some (.num 20), none⟩]
    KfOK ks ∧ (cssFrames ks (.num 0) Easing.default).length = 3 := by
  intro ks
  refine ⟨⟨by simp only [ks]; norm_num [List.pairwise_cons], by intro k hk; simp only [ks, List.mem_cons, List.mem_nil_iff, or_false] at hk; rcases hk with rfl | rfl | rfl | rfl <;> norm_num,
    by intro k hk; simp only [ks, List.mem_cons, List.mem_nil_iff, or_false] at hk; rcases hk with rfl | rfl | rfl | rfl <;> norm_num⟩, ?_⟩
  simp only [ks, cssFrames, cssReals]
  norm_num

end C01
