import MinaProofs.Lemmas.FloatTimeline
import MinaProofs.Lemmas.KindTimeline
/-!
# C04, closed form for float-valued animators

For every state animator whose states carry builder-built timelines over float-valued properties —
built-in easings, keyframes at pairwise distinct positions in [0,1], delay ≥ 0, cycle duration > 0,
any repeat/reverse setting — and whose values are `n` floats: after **any** history of `advance` /
`set_state`, calling `set_state` leaves `current_values` exactly unchanged. No blend-law hypothesis: it is
discharged by `build_tlOK` (lookup theorem + C10 + C13 + C14). Arithmetic: exact (ℚ).
-/
namespace C04

/-- the timelines of the animator: each state has none, or one built from a float configuration -/
def FloatAnimatorCfg (n : Nat) (timelines : List (Option (Merged ℚ))) : Prop :=
  ∀ m, some m ∈ timelines → ∃ fields cfg, FloatCfg n fields cfg ∧ m = Merged.mk [Timeline.build fields cfg]

theorem no_jump_float_animator (n : Nat) (timelines : List (Option (Merged ℚ))) (s0 : Nat) (v0 : List (Val ℚ))
    (hcfg : FloatAnimatorCfg n timelines) (hv0 : FloatVals n v0)
    (ops : List (AnimOp ℚ)) (a a' : Animator ℚ) (s : Nat)
    (hrun : (Animator.new timelines s0 v0).run ops = .ok a) (hset : a.setState s = .ok a') :
    a'.values = a.values := by
  apply no_jump_after_any_history (FloatVals n) timelines s0 v0 hv0 _ ops a a' s hrun hset
  intro m hm
  obtain ⟨fields, cfg, hc, rfl⟩ := hcfg m hm
  exact build_tlOK hc

/-- … and the values always are the current timeline evaluated at the time in state (C05's first sentence),
again without hypotheses on the timelines beyond the configuration -/
theorem values_follow_timeline_float (n : Nat) (timelines : List (Option (Merged ℚ))) (s0 : Nat) (v0 : List (Val ℚ))
    (hcfg : FloatAnimatorCfg n timelines) (hv0 : FloatVals n v0)
    (ops : List (AnimOp ℚ)) (a : Animator ℚ) (hrun : (Animator.new timelines s0 v0).run ops = .ok a)
    (tl : Merged ℚ) (htl : a.timeline? a.state = some tl) :
    tl.update a.values ((a.stateNs : ℚ) / 1000000000) = .ok a.values := by
  have hg := good_run (FloatVals n) _ a ops (good_initial (FloatVals n) timelines s0 v0 hv0 (by
    intro m hm
    obtain ⟨fields, cfg, hc, rfl⟩ := hcfg m hm
    exact build_tlOK hc)) hrun
  simpa using hg.inv.current tl htl

/-! Non-vacuity: a two-keyframe float configuration with a delay, reversing, repeating twice. -/
def exCfg : Config ℚ :=
  { easing := .builtin .inOutCubic, delay := 1 / 2, duration := 2, repeat_ := Repeat.times 2, reverse := true,
    keyframes := [⟨0, none, [some (.num 10), none]⟩, ⟨1, some (.builtin .outQuad), [some (.num 20), some (.num 5)]⟩] }

example : FloatCfg 2 [⟨0, .num 0⟩, ⟨1, .num 0⟩] exCfg := by
  unfold exCfg
  refine ⟨by norm_num, by norm_num, ?_, ?_, ?_, ?_, ?_, ?_, ?_⟩
  · intro k hk; simp only [List.mem_cons, List.mem_nil_iff, or_false] at hk; rcases hk with rfl | rfl <;> norm_num
  · simp
  · intro k hk o ho x hx
    simp only [List.mem_cons, List.mem_nil_iff, or_false] at hk
    rcases hk with rfl | rfl <;> simp only [List.mem_cons, List.mem_nil_iff, or_false] at ho <;>
      rcases ho with rfl | rfl <;> simp at hx <;> subst hx <;> exact ⟨_, rfl⟩
  · refine ⟨by simp [isBuiltin], ?_⟩
    intro k hk e he
    simp only [List.mem_cons, List.mem_nil_iff, or_false] at hk
    rcases hk with rfl | rfl <;> simp at he <;> subst he <;> simp [isBuiltin]
  · intro f hf; simp only [List.mem_cons, List.mem_nil_iff, or_false] at hf; rcases hf with rfl | rfl <;> exact ⟨0, rfl⟩
  · intro f hf; simp only [List.mem_cons, List.mem_nil_iff, or_false] at hf; rcases hf with rfl | rfl <;> simp
  · simp

/-! ## every value kind the derive supports (floats and primitive integers) -/

/-- the timelines of an animator over a struct with animated fields `fields`: each state has none, or one
built by the builder from a configuration whose keyframe values have their field's kind -/
def KindAnimatorCfg (n : Nat) (fields : List (AnimField ℚ)) (timelines : List (Option (Merged ℚ))) : Prop :=
  ∀ m, some m ∈ timelines → ∃ cfg, KindCfg n fields cfg ∧ m = Merged.mk [Timeline.build fields cfg]

/-- **C04 for built timelines of any value kinds**: after any history, `set_state` leaves `current_values`
exactly unchanged — integer properties included (a `u8` colour channel interpolates through `round` and a
checked conversion, but at the moment of the state change the blended timeline still reproduces the
current value exactly). -/
theorem no_jump_built_animator (n : Nat) (fields : List (AnimField ℚ)) (timelines : List (Option (Merged ℚ)))
    (s0 : Nat) (v0 : List (Val ℚ)) (hcfg : KindAnimatorCfg n fields timelines) (hv0 : KindVals n fields v0)
    (ops : List (AnimOp ℚ)) (a a' : Animator ℚ) (s : Nat)
    (hrun : (Animator.new timelines s0 v0).run ops = .ok a) (hset : a.setState s = .ok a') :
    a'.values = a.values := by
  apply no_jump_after_any_history (KindVals n fields) timelines s0 v0 hv0 _ ops a a' s hrun hset
  intro m hm
  obtain ⟨cfg, hc, rfl⟩ := hcfg m hm
  exact build_tlOK_kind hc

/-- … and every reachable animator holds values of the right kinds that are the current timeline evaluated
at the time in state -/
theorem reachable_good_built (n : Nat) (fields : List (AnimField ℚ)) (timelines : List (Option (Merged ℚ)))
    (s0 : Nat) (v0 : List (Val ℚ)) (hcfg : KindAnimatorCfg n fields timelines) (hv0 : KindVals n fields v0)
    (ops : List (AnimOp ℚ)) (a : Animator ℚ) (hrun : (Animator.new timelines s0 v0).run ops = .ok a) :
    Good (KindVals n fields) a :=
  good_run (KindVals n fields) _ a ops (good_initial (KindVals n fields) timelines s0 v0 hv0 (by
    intro m hm
    obtain ⟨cfg, hc, rfl⟩ := hcfg m hm
    exact build_tlOK_kind hc)) hrun

/-- states whose timelines are merges (`MergedTimeline::of([...])`, what `animator!` emits for a `[ …, … ]` arm)
of builder-built timelines over the same struct -/
def MergedAnimatorCfg (n : Nat) (fields : List (AnimField ℚ)) (timelines : List (Option (Merged ℚ))) : Prop :=
  ∀ m, some m ∈ timelines → ∃ cfgs : List (Config ℚ), (∀ cfg ∈ cfgs, KindCfg n fields cfg) ∧
    m = Merged.mk (cfgs.map (Timeline.build fields))

/-- **C04 in full generality for built timelines**: any value kinds, any merges, any history -/
theorem no_jump_merged_animator (n : Nat) (fields : List (AnimField ℚ)) (timelines : List (Option (Merged ℚ)))
    (s0 : Nat) (v0 : List (Val ℚ)) (hcfg : MergedAnimatorCfg n fields timelines) (hv0 : KindVals n fields v0)
    (ops : List (AnimOp ℚ)) (a a' : Animator ℚ) (s : Nat)
    (hrun : (Animator.new timelines s0 v0).run ops = .ok a) (hset : a.setState s = .ok a') :
    a'.values = a.values := by
  apply no_jump_after_any_history (KindVals n fields) timelines s0 v0 hv0 _ ops a a' s hrun hset
  intro m hm
  obtain ⟨cfgs, hc, rfl⟩ := hcfg m hm
  exact build_tlOK_merged cfgs hc

/-! Non-vacuity: a float and a `u8` property, the `u8` one with keyframes 200 → 7. -/
def exKindCfg : Config ℚ :=
  { easing := .builtin .inOutBack, delay := 0, duration := 3, repeat_ := Repeat.infinite, reverse := false,
    keyframes := [⟨0, none, [some (.num 1), some (.int .u8 200)]⟩, ⟨1, none, [none, some (.int .u8 7)]⟩] }

example : KindCfg 3 [⟨0, .num 0⟩, ⟨2, .int .u8 0⟩] exKindCfg := by
  unfold exKindCfg
  refine ⟨by norm_num, by norm_num, ?_, ?_, ?_, ?_, ?_, ?_, ?_⟩
  · intro k hk; simp only [List.mem_cons, List.mem_nil_iff, or_false] at hk; rcases hk with rfl | rfl <;> norm_num
  · simp
  · intro k hk p hp x hx
    simp only [List.mem_cons, List.mem_nil_iff, or_false] at hk
    simp only [List.zipIdx_cons, List.zipIdx_nil, List.mem_cons, List.mem_nil_iff, or_false, zero_add] at hp
    rcases hk with rfl | rfl <;> rcases hp with rfl | rfl <;> simp at hx <;> subst hx
    · exact ⟨1, rfl⟩
    · exact ⟨200, rfl, by decide, by decide⟩
    · exact ⟨7, rfl, by decide, by decide⟩
  · refine ⟨by simp [isBuiltin], ?_⟩
    intro k hk e he
    simp only [List.mem_cons, List.mem_nil_iff, or_false] at hk
    rcases hk with rfl | rfl <;> simp at he
  · intro f hf; simp only [List.mem_cons, List.mem_nil_iff, or_false] at hf
    rcases hf with rfl | rfl
    · exact ⟨0, rfl⟩
    · exact ⟨0, rfl, by decide, by decide⟩
  · intro f hf; simp only [List.mem_cons, List.mem_nil_iff, or_false] at hf; rcases hf with rfl | rfl <;> simp
  · simp

end C04
