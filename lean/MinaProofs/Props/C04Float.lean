import MinaProofs.Lemmas.FloatTimeline
/-!
# C04, closed form for float-valued animators

For every state animator whose states carry builder-built timelines over float-valued properties —
built-in easings, keyframes at pairwise distinct positions in [0,1], delay ≥ 0, cycle duration > 0,
any repeat/reverse setting — and whose values are `n` floats: after **any** history of `advance` /
`set_state`, calling `set_state` leaves `current_values` exactly unchanged. No blend-law hypothesis: it is
discharged by `build_tlOK` (lookup theorem + C10 + C13 + C14). Arithmetic: exact (ℚ).
-/
namespace C04

/-- the timelines of the animator: each state has none, or one built from a float configuration -/
def FloatAnimatorCfg (n : Nat) (timelines : List (Option (Merged ℚ))) : Prop :=
  ∀ m, some m ∈ timelines → ∃ fields cfg, FloatCfg n fields cfg ∧ m = Merged.mk [Timeline.build fields cfg]

theorem no_jump_float_animator (n : Nat) (timelines : List (Option (Merged ℚ))) (s0 : Nat) (v0 : List (Val ℚ))
    (hcfg : FloatAnimatorCfg n timelines) (hv0 : FloatVals n v0)
    (ops : List (AnimOp ℚ)) (a a' : Animator ℚ) (s : Nat)
    (hrun : (Animator.new timelines s0 v0).run ops = .ok a) (hset : a.setState s = .ok a') :
    a'.values = a.values := by
  apply no_jump_after_any_history (FloatVals n) timelines s0 v0 hv0 _ ops a a' s hrun hset
  intro m hm
  obtain ⟨fields, cfg, hc, rfl⟩ := hcfg m hm
  exact build_tlOK hc

/-- … and the values always are the current timeline evaluated at the time in state (C05's first sentence),
again without hypotheses on the timelines beyond the configuration -/
theorem values_follow_timeline_float (n : Nat) (timelines : List (Option (Merged ℚ))) (s0 : Nat) (v0 : List (Val ℚ))
    (hcfg : FloatAnimatorCfg n timelines) (hv0 : FloatVals n v0)
    (ops : List (AnimOp ℚ)) (a : Animator ℚ) (hrun : (Animator.new timelines s0 v0).run ops = .ok a)
    (tl : Merged ℚ) (htl : a.timeline? a.state = some tl) :
    tl.update a.values ((a.stateNs : ℚ) / 1000000000) = .ok a.values := by
  have hg := good_run (FloatVals n) _ a ops (good_initial (FloatVals n) timelines s0 v0 hv0 (by
    intro m hm
    obtain ⟨fields, cfg, hc, rfl⟩ := hcfg m hm
    exact build_tlOK hc)) hrun
  simpa using hg.inv.current tl htl

/-! Non-vacuity: a two-keyframe float configuration with a delay, reversing, repeating twice. -/
def exCfg : Config ℚ :=
  { easing := .builtin .inOutCubic, delay := 1 / 2, duration := 2, repeat_ := Repeat.times 2, reverse := true,
    keyframes := [⟨0, none, [some (.num 10), none]⟩, ⟨1, some (.builtin .outQuad), [some (.num 20), some (.num 5)]⟩] }

example : FloatCfg 2 [⟨0, .num 0⟩, ⟨1, .num 0⟩] exCfg := by
  unfold exCfg
  refine ⟨by norm_num, by norm_num, ?_, ?_, ?_, ?_, ?_, ?_, ?_⟩
  · intro k hk; simp only [List.mem_cons, List.mem_nil_iff, or_false] at hk; rcases hk with rfl | rfl <;> norm_num
  · simp
  · intro k hk o ho x hx
    simp only [List.mem_cons, List.mem_nil_iff, or_false] at hk
    rcases hk with rfl | rfl <;> simp only [List.mem_cons, List.mem_nil_iff, or_false] at ho <;>
      rcases ho with rfl | rfl <;> simp at hx <;> subst hx <;> exact ⟨_, rfl⟩
  · refine ⟨by simp [isBuiltin], ?_⟩
    intro k hk e he
    simp only [List.mem_cons, List.mem_nil_iff, or_false] at hk
    rcases hk with rfl | rfl <;> simp at he <;> subst he <;> simp [isBuiltin]
  · intro f hf; simp only [List.mem_cons, List.mem_nil_iff, or_false] at hf; rcases hf with rfl | rfl <;> exact ⟨0, rfl⟩
  · intro f hf; simp only [List.mem_cons, List.mem_nil_iff, or_false] at hf; rcases hf with rfl | rfl <;> simp
  · simp

end C04
