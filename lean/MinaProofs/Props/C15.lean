import MinaProofs.Lemmas.RatNum
import MinaModel.Spec.Reading
/-!
# C15 — `timeline!` produces exactly the timeline the builder API would

Model: `MinaModel/Macro/Timeline.lean` — the argument loop of `TimelineConfig::parse` over token lists of
any length (`parseArg`/`parseArgs`/`parseList`), `collect` (later arguments overwrite earlier ones),
`expandCfg` (= `builder_create_timeline`, including the f32 arithmetic the macro does at expansion time),
`BuilderChain.run` (what the emitted builder chain configures). Constants (`s`→1.0, `ms`→0.001, `from`→0.0,
`to`→1.0, `%`→×0.01, the suffix dispatch) are regenerated from `fn_timeline.rs` on every run.
Spec: `Spec.reading` — the documented reading, with the documented constants written by hand.

"Observationally identical" then follows from equality of configurations: the builder-built timeline *is*
`Timeline.build` of that configuration (C01–C03).
-/
namespace C15
open Spec

/-! ### the macro's constants are the documented ones -/

theorem macro_consts_as_documented :
    Gen.secondsMultipliers = [("s", (10, 1)), ("ms", (1, 3))] ∧ Gen.durationSuffixes = ["s", "ms"] ∧
    Gen.repeatSuffix = "x" ∧ Gen.fromPosition = (0, 1) ∧ Gen.toPosition = (10, 1) ∧ Gen.percentFactor = (1, 2) := by
  decide

theorem secondsOf_eq_readSeconds (l : NumLit) : secondsOf (α := ℚ) l = readSeconds l := by
  unfold secondsOf secondsMultiplier readSeconds unitSeconds
  by_cases h1 : l.suffix = "s"
  · simp [Gen.secondsMultipliers, h1, decConst, Except.map]
  · by_cases h2 : l.suffix = "ms"
    · simp [Gen.secondsMultipliers, h2, decConst, Except.map]
    · have e1 : ("s" == l.suffix) = false := by simpa using fun h => h1 h.symm
      have e2 : ("ms" == l.suffix) = false := by simpa using fun h => h2 h.symm
      simp [Gen.secondsMultipliers, List.find?, e1, e2, h1, h2, Except.map]

theorem kfPosition_eq_readPosition (p : KfPos) : kfPosition (α := ℚ) p = readPosition p := by
  cases p <;> simp [kfPosition, readPosition, decConst, Gen.fromPosition, Gen.toPosition, Gen.percentFactor]

/-! ### `collect`: the last argument of each kind wins, keyframes accumulate in order -/

def collectStep (c : TlCfgM) (a : Arg) : TlCfgM :=
  match a with
  | .duration l => { c with duration := some l }
  | .delay l => { c with delay := some l }
  | .easing p => { c with easing := some p }
  | .repeatTimes l => { c with repeat_ := some (some l) }
  | .repeatInfinite => { c with repeat_ := some none }
  | .reverse => { c with reverse := true }
  | .keyframe p v => { c with keyframes := c.keyframes ++ [(p, v)] }

theorem collect_eq_foldl (args : List Arg) : collect args = args.foldl collectStep {} := rfl

def lastFrom {β : Type} (init : Option β) (l : List (Option β)) : Option β :=
  l.foldl (fun acc x => match x with | some v => some v | none => acc) init

theorem fold_fields (args : List Arg) (c : TlCfgM) :
    (args.foldl collectStep c).duration = lastFrom c.duration (args.map fun a => match a with | .duration l => some l | _ => none) ∧
    (args.foldl collectStep c).delay = lastFrom c.delay (args.map fun a => match a with | .delay l => some l | _ => none) ∧
    (args.foldl collectStep c).easing = lastFrom c.easing (args.map fun a => match a with | .easing p => some p | _ => none) ∧
    (args.foldl collectStep c).repeat_ = lastFrom c.repeat_ (args.map fun a => match a with | .repeatTimes l => some (some l) | .repeatInfinite => some none | _ => none) ∧
    (args.foldl collectStep c).reverse = (c.reverse || args.any fun a => match a with | .reverse => true | _ => false) ∧
    (args.foldl collectStep c).keyframes = c.keyframes ++ args.filterMap fun a => match a with | .keyframe p v => some (p, v) | _ => none := by
  induction args generalizing c with
  | nil => simp [lastFrom]
  | cons a rest ih =>
    simp only [List.foldl_cons, List.map_cons, List.any_cons, List.filterMap_cons]
    obtain ⟨h1, h2, h3, h4, h5, h6⟩ := ih (collectStep c a)
    rw [h1, h2, h3, h4, h5, h6]
    cases a <;> simp [collectStep, lastFrom, Bool.or_assoc]

/-- **last duplicate wins** (what the argument loop does, stated): every scalar setting is what the last
argument of its kind says; `reverse` is set iff it occurs; keyframes are kept in source order -/
theorem last_duplicate_wins (args : List Arg) :
    (collect args).duration = lastSome (args.map fun a => match a with | .duration l => some l | _ => none) ∧
    (collect args).delay = lastSome (args.map fun a => match a with | .delay l => some l | _ => none) ∧
    (collect args).easing = lastSome (args.map fun a => match a with | .easing p => some p | _ => none) ∧
    (collect args).repeat_ = lastSome (args.map fun a => match a with | .repeatTimes l => some (some l) | .repeatInfinite => some none | _ => none) ∧
    (collect args).reverse = (args.any fun a => match a with | .reverse => true | _ => false) ∧
    (collect args).keyframes = args.filterMap fun a => match a with | .keyframe p v => some (p, v) | _ => none := by
  have := fold_fields args {}
  rw [collect_eq_foldl]
  simp only [lastFrom, lastSome, List.nil_append, Bool.false_or] at this ⊢
  exact this

theorem combine3_map {A B C R S : Type} (a : Except MacroErr A) (b : Except MacroErr B) (c : Except MacroErr C)
    (f : A → B → C → R) (g : R → S) : (combine3 a b c f).map g = combine3 a b c (fun x y z => g (f x y z)) := by
  cases a <;> cases b <;> cases c <;> rfl

theorem combine3_maps {A A' B B' C C' R : Type} (a : Except MacroErr A) (b : Except MacroErr B) (c : Except MacroErr C)
    (p : A → A') (q : B → B') (r : C → C') (f : A' → B' → C' → R) :
    combine3 (a.map p) (b.map q) (c.map r) f = combine3 a b c (fun x y z => f (p x) (q y) (r z)) := by
  cases a <;> cases b <;> cases c <;> rfl

/-- **Soundness of the expansion.** For every argument list — any length, any order, duplicates included —
the configuration the emitted builder chain denotes is the documented reading of the sentence (and the
macro rejects exactly when the reading is undefined: a duration/delay without `s`/`ms`, a repeat count
that is not a `u32`). -/
theorem expand_sound (args : List Arg) :
    (expandCfg (α := ℚ) (collect args)).map BuilderChain.run = reading args := by
  obtain ⟨h1, h2, h3, h4, h5, h6⟩ := last_duplicate_wins args
  unfold expandCfg reading
  simp only [h1, h2, h3, h4, h5, h6]
  generalize lastSome (args.map fun a => match a with | .duration l => some l | _ => none) = durArg
  generalize lastSome (args.map fun a => match a with | .delay l => some l | _ => none) = delArg
  generalize lastSome (args.map fun a => match a with | .easing p => some p | _ => none) = easing
  generalize lastSome (args.map fun a => match a with | .repeatTimes l => some (some l) | .repeatInfinite => some none | _ => none) = repArg
  have hk : (args.filterMap fun a => match a with | .keyframe p v => some (p, v) | _ => none).map (fun (p, v) => (kfPosition (α := ℚ) p, v))
      = args.filterMap fun a => match a with | .keyframe p v => some (readPosition (α := ℚ) p, v) | _ => none := by
    rw [List.map_filterMap]
    congr 1
    funext a
    cases a <;> simp [kfPosition_eq_readPosition]
  rw [hk]
  generalize (args.any fun a => match a with | .reverse => true | _ => false) = rev
  generalize (args.filterMap fun a => match a with | .keyframe p v => some (readPosition (α := ℚ) p, v) | _ => none) = kfs
  -- the three fallible parts of the reading are the macro's, mapped through the builder defaults
  have hd : ∀ (o : Option NumLit) (dflt : ℚ),
      secondsOrDefault (α := ℚ) o dflt = (optSeconds (α := ℚ) o).map (·.getD dflt) := by
    intro o dflt
    cases o with
    | none => rfl
    | some l =>
      simp only [secondsOrDefault, optSeconds, secondsOf_eq_readSeconds]
      cases readSeconds (α := ℚ) l <;> rfl
  have hr : ∀ (dflt : Repeat),
      repeatOrDefault repArg dflt = (optRepeat repArg).map (·.getD dflt) := by
    intro dflt
    cases repArg with
    | none => rfl
    | some r =>
      cases r with
      | none => rfl
      | some l =>
        simp only [repeatOrDefault, readRepeat, optRepeat]
        cases l.isU32 <;> rfl
  rw [hd durArg, hd delArg, hr, combine3_maps, combine3_map]
  congr 1
  funext d dl r
  simp only [BuilderChain.run]
  cases rev <;> simp

/-! ### arguments may come in any order -/

/-- two arguments "of different kinds" (they set different things; keyframes count as one kind because
their relative order is kept) -/
def independent (a b : Arg) : Bool :=
  let kind (x : Arg) : Nat := match x with
    | .duration _ => 0 | .delay _ => 1 | .easing _ => 2 | .repeatTimes _ => 3 | .repeatInfinite => 3
    | .reverse => 4 | .keyframe _ _ => 5
  kind a != kind b

theorem collectStep_comm (c : TlCfgM) (a b : Arg) (h : independent a b = true) :
    collectStep (collectStep c a) b = collectStep (collectStep c b) a := by
  cases a <;> cases b <;> simp_all [independent, collectStep]

/-- swapping two adjacent arguments of different kinds changes nothing; since adjacent swaps generate
every reordering that keeps the relative order of the keyframes and of repeated settings, the arguments
may come in any order -/
theorem args_any_order (pre post : List Arg) (a b : Arg) (h : independent a b = true) :
    collect (pre ++ a :: b :: post) = collect (pre ++ b :: a :: post) := by
  simp only [collect_eq_foldl, List.foldl_append, List.foldl_cons]
  rw [collectStep_comm _ a b h]

/-! ### bracketed lists -/

/-- a bracketed list of two or more members yields `MergedTimeline::of([…])` of the members' expansions
in order; a list of one yields the plain timeline (≈ singleton merge, C12.`singleton_transparent`) -/
theorem merged_list_in_order (toks : List Tok) (ass : List (List Arg))
    (hp : parseList (toks.length + 1) toks = .ok ass) (h2 : 2 ≤ ass.length) :
    expandSentence (α := ℚ) (.list toks) = (mapM' (fun as => expandCfg (α := ℚ) (collect as)) ass).map .merged := by
  simp only [expandSentence, hp]
  match ass, h2 with
  | _ :: _ :: _, _ => rfl

theorem single_member_list (toks : List Tok) (as : List Arg) (hp : parseList (toks.length + 1) toks = .ok [as]) :
    expandSentence (α := ℚ) (.list toks) = (expandCfg (α := ℚ) (collect as)).map .timeline := by
  simp only [expandSentence, hp]

/-! ### ill-formed sentences are rejected, never silently accepted -/

/-- unknown suffix -/
theorem reject_unknown_suffix (l : NumLit) (rest : List Tok)
    (h1 : Gen.durationSuffixes.contains l.suffix = false) (h2 : l.suffix ≠ Gen.repeatSuffix) (h3 : l.suffix ≠ "") :
    parseArg (.lit l :: rest) = .error .unknownSuffix := by
  have e2 : (l.suffix == Gen.repeatSuffix) = false := by simpa using h2
  have e3 : (l.suffix == "") = false := by simpa using h3
  simp only [parseArg, h1, e2, e3, Bool.false_eq_true, if_false]

/-- a bare number that is not followed by `%` -/
theorem reject_missing_percent (l : NumLit) (rest : List Tok) (hs : l.suffix = "")
    (hr : ∀ r, rest ≠ .percent :: r) : parseArg (.lit l :: rest) = .error .missingPercent := by
  have e1 : Gen.durationSuffixes.contains "" = false := by decide
  have e2 : ("" == Gen.repeatSuffix) = false := by decide
  have e3 : (("" : String) == "") = true := by decide
  cases rest with
  | nil => simp only [parseArg, hs, e1, e2, e3, Bool.false_eq_true, if_false, if_true]
  | cons t r =>
    cases t <;> first | (exact absurd rfl (hr r)) | simp only [parseArg, hs, e1, e2, e3, Bool.false_eq_true, if_false, if_true]

/-- a repeat count that is not an integer literal -/
theorem reject_non_integer_repeat (l : NumLit) (rest : List Tok) (hs : l.suffix = Gen.repeatSuffix) (hk : l.kind ≠ .int) :
    parseArg (.lit l :: rest) = .error .repeatNotInt := by
  have e1 : Gen.durationSuffixes.contains Gen.repeatSuffix = false := by decide
  have e2 : (l.kind == LitKind.int) = false := by simpa using hk
  simp only [parseArg, e1, hs, e2, Bool.false_eq_true, if_false, if_true, beq_self_eq_true]

/-- a keyframe position that is not followed by `default` or a braced field list -/
theorem reject_keyframe_without_braces (t : Tok) (rest : List Tok) (hd : t ≠ .kwDefault) (hb : ∀ fs, t ≠ .braces fs) :
    parseArg (.kwFrom :: t :: rest) = .error .badKeyframeValues ∧ parseArg (.kwTo :: t :: rest) = .error .badKeyframeValues := by
  cases t <;> simp_all [parseArg, parseKfVals, Except.map]

/-- `after`/`for` followed by a number without a time unit: parsed, but the expansion is refused -/
theorem reject_missing_unit (l : NumLit) (hs : ∀ m, Gen.secondsMultipliers.find? (·.1 == l.suffix) ≠ some m)
    (c : TlCfgM) (hc : c.duration = some l ∨ c.delay = some l) :
    ∃ e, expandCfg (α := ℚ) c = .error e := by
  have hsec : secondsOf (α := ℚ) l = .error .badSecondsSuffix := by
    unfold secondsOf secondsMultiplier
    cases hf : Gen.secondsMultipliers.find? (·.1 == l.suffix) with
    | none => rfl
    | some m => exact absurd hf (hs m)
  unfold expandCfg
  rcases hc with hc | hc
  · rw [hc]; simp only [optSeconds, hsec, Except.map]
    exact ⟨_, rfl⟩
  · rw [hc]
    have : optSeconds (α := ℚ) (some l) = .error .badSecondsSuffix := by simp only [optSeconds, hsec, Except.map]
    rw [this]
    cases optSeconds (α := ℚ) c.duration <;> exact ⟨_, rfl⟩

/-- an error in any argument rejects the whole configuration (no argument is silently skipped) -/
theorem reject_propagates (toks : List Tok) (fuel : Nat) (e : MacroErr) (hne : toks ≠ []) (hc : ∀ r, toks ≠ .comma :: r)
    (h : parseArg toks = .error e) : parseArgs (fuel + 1) toks = .error e := by
  cases toks with
  | nil => exact absurd rfl hne
  | cons t r =>
    cases t <;> first | (exact absurd rfl (hc r)) | simp only [parseArgs, h]

/-! ### the literal arithmetic the macro does in f32 (kernel evaluation on binary32) -/

def ulpClose (a b : Float32) : Bool :=
  let x := a.toBits.toNat
  let y := b.toBits.toNat
  (if x ≤ y then y - x else x - y) ≤ 1

/-- for every integer percentage N ≤ 100 the position the macro computes, `N as f32 * 0.01`, is within one
ulp of the correctly rounded N/100 (e.g. 40 % gives 0.39999998, one ulp below 0.4) -/
theorem percent_table_f32 :
    (List.range 101).all (fun n => ulpClose ((lit n : Float32) * dec 1 2) (F32.ofRat false n 100)) = true := by
  decide +kernel

/-- and 0 %, 50 % and 100 % are exact -/
theorem percent_exact_f32 :
    ((lit 0 : Float32) * dec 1 2).toBits = (lit 0 : Float32).toBits ∧
    ((lit 50 : Float32) * dec 1 2).toBits = (dec 5 1 : Float32).toBits ∧
    ((lit 100 : Float32) * dec 1 2).toBits = (lit 1 : Float32).toBits := by
  decide +kernel

/-- milliseconds 1 … 1000: `N as f32 * 0.001` is within one ulp of the correctly rounded N/1000 -/
theorem millis_table_f32 :
    (List.range 1001).all (fun n => ulpClose ((lit n : Float32) * dec 1 3) (F32.ofRat false n 1000)) = true := by
  decide +kernel

end C15
