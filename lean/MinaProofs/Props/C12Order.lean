import MinaProofs.Props.C12
/-!
# C12 — with disjoint properties the order of the components is irrelevant

If the members of a merged timeline animate pairwise disjoint sets of properties, every permutation of the
members evaluates to the same result on every target at every time. Generic in the number system.
(Proof: the write-list normal form; `lastWrite` of a concatenation is insensitive to swapping two blocks
whose index sets are disjoint; induction over `List.Perm`.)
-/
namespace C12

variable {α : Type} [Num α]

/-- the slots a timeline can write: one per animated field -/
def idxs (tl : Timeline α) : List Nat := tl.subs.map Prod.fst

/-- the two timelines animate no common property -/
def DisjointIdx (a b : Timeline α) : Prop := ∀ k, ¬ (k ∈ idxs a ∧ k ∈ idxs b)

theorem disjointIdx_symm {a b : Timeline α} (h : DisjointIdx a b) : DisjointIdx b a :=
  fun k hk => h k ⟨hk.2, hk.1⟩

theorem writes_indices (tl : Timeline α) (t : α) (W : List (Nat × Val α)) (h : tl.writes t = .ok W) :
    ∀ i ∈ W.map Prod.fst, i ∈ idxs tl := by
  unfold Timeline.writes at h
  split at h
  · simp at h; subst h; simp
  · exact writesOf_indices _ _ _ _ W h

theorem lastWrite_some_mem (W : List (Nat × Val α)) (k : Nat) (v : Val α) (h : lastWrite W k = some v) :
    k ∈ W.map Prod.fst := by
  by_contra hc
  rw [lastWrite_none_of_not_mem W k hc] at h
  simp at h

/-- same last writes ⇒ same result on every target -/
theorem applyWrites_ext (W W' : List (Nat × Val α)) (tgt : List (Val α)) (h : ∀ k, lastWrite W' k = lastWrite W k) :
    applyWrites W' tgt = applyWrites W tgt := by
  apply List.ext_getElem?
  intro k
  rw [applyWrites_getElem?, applyWrites_getElem?, h k]

/-- the permuted merge succeeds whenever the original does, with the same last write per slot -/
theorem perm_lastWrite (tls tls' : List (Timeline α)) (hp : tls.Perm tls') (hd : tls.Pairwise DisjointIdx)
    (t : α) (W : List (Nat × Val α)) (hW : mergedWrites tls t = .ok W) :
    ∃ W', mergedWrites tls' t = .ok W' ∧ ∀ k, lastWrite W' k = lastWrite W k := by
  induction hp generalizing W with
  | nil => exact ⟨W, hW, fun _ => rfl⟩
  | cons x hp' ih =>
    rename_i l l'
    simp only [mergedWrites] at hW ⊢
    cases hx : x.writes t with
    | error e => rw [hx] at hW; simp at hW
    | ok Wx =>
      rw [hx] at hW
      simp only at hW ⊢
      cases hl : mergedWrites l t with
      | error e => rw [hl] at hW; simp [Except.map] at hW
      | ok Wl =>
        rw [hl] at hW; simp only [Except.map, Except.ok.injEq] at hW; subst hW
        obtain ⟨Wl', hl', hsame⟩ := ih (List.Pairwise.of_cons hd) Wl hl
        refine ⟨Wx ++ Wl', by rw [hl']; rfl, ?_⟩
        intro k
        rw [lastWrite_append, lastWrite_append, hsame k]
  | swap x y l =>
    simp only [mergedWrites] at hW ⊢
    cases hy : y.writes t with
    | error e => rw [hy] at hW; simp at hW
    | ok Wy =>
      rw [hy] at hW
      simp only at hW
      cases hx : x.writes t with
      | error e => rw [hx] at hW; simp [Except.map] at hW
      | ok Wx =>
        rw [hx] at hW
        simp only at hW ⊢
        cases hl : mergedWrites l t with
        | error e => rw [hl] at hW; simp [Except.map] at hW
        | ok Wl =>
          rw [hl] at hW; simp only [Except.map, Except.ok.injEq] at hW; subst hW
          refine ⟨Wx ++ (Wy ++ Wl), by simp [Except.map], ?_⟩
          intro k
          simp only [lastWrite_append]
          cases hlk : lastWrite Wl k with
          | some v => rfl
          | none =>
            simp only
            have hdis : DisjointIdx y x := by
              have := (List.pairwise_cons.1 hd).1 x (by simp)
              exact this
            cases hxk : lastWrite Wx k with
            | none => cases lastWrite Wy k <;> rfl
            | some vx =>
              have hkx : k ∈ idxs x := writes_indices x t Wx hx k (lastWrite_some_mem Wx k vx hxk)
              have hyk : lastWrite Wy k = none := by
                cases hyk : lastWrite Wy k with
                | none => rfl
                | some vy =>
                  exact absurd ⟨writes_indices y t Wy hy k (lastWrite_some_mem Wy k vy hyk), hkx⟩ (hdis k)
              rw [hyk]
  | trans h1 h2 ih1 ih2 =>
    obtain ⟨W1, hW1, hs1⟩ := ih1 hd W hW
    have hd2 := (List.Perm.pairwise_iff (fun {a b} (h : DisjointIdx a b) => disjointIdx_symm h) h1).1 hd
    obtain ⟨W2, hW2, hs2⟩ := ih2 hd2 W1 hW1
    exact ⟨W2, hW2, fun k => by rw [hs2 k, hs1 k]⟩

/-- **with disjoint properties the order is irrelevant**: any permutation of the members gives the same
result on the same target at the same time -/
theorem disjoint_any_order (tls tls' : List (Timeline α)) (hp : tls.Perm tls') (hd : tls.Pairwise DisjointIdx)
    (tgt r : List (Val α)) (t : α) (h : (Merged.mk tls).update tgt t = .ok r) :
    (Merged.mk tls').update tgt t = .ok r := by
  rw [merged_update_eq_writes] at h ⊢
  cases hW : mergedWrites tls t with
  | error e => rw [hW] at h; simp [Except.map] at h
  | ok W =>
    rw [hW] at h; simp only [Except.map, Except.ok.injEq] at h
    obtain ⟨W', hW', hsame⟩ := perm_lastWrite tls tls' hp hd t W hW
    rw [hW']
    simp only [Except.map, Except.ok.injEq]
    rw [applyWrites_ext W W' tgt hsame, h]

/-- … and the permuted merge fails exactly when the original fails (some member's evaluation panics) -/
theorem disjoint_any_order_ok_iff (tls tls' : List (Timeline α)) (hp : tls.Perm tls') (hd : tls.Pairwise DisjointIdx)
    (tgt : List (Val α)) (t : α) :
    (∃ r, (Merged.mk tls).update tgt t = .ok r) ↔ (∃ r, (Merged.mk tls').update tgt t = .ok r) := by
  constructor
  · rintro ⟨r, h⟩; exact ⟨r, disjoint_any_order tls tls' hp hd tgt r t h⟩
  · rintro ⟨r, h⟩
    have hd' := (List.Perm.pairwise_iff (fun {a b} (h : DisjointIdx a b) => disjointIdx_symm h) hp).1 hd
    exact ⟨r, disjoint_any_order tls' tls hp.symm hd' tgt r t h⟩

/-- non-vacuity of the hypothesis: two timelines over different slots are disjoint -/
example : [Timeline.build [⟨0, .num 0⟩] (Config.default : Config ℚ), Timeline.build [⟨1, .num 0⟩] Config.default].Pairwise DisjointIdx := by
  simp [DisjointIdx, idxs, Timeline.build]

end C12
