import MinaProofs.Props.C04
import MinaProofs.Props.C02
/-!
# C07 — Completion is reported exactly when the animation is over, and values then rest

Model at ℚ: `Animator.isEnded`, `Merged.duration` (C12: the maximum, infinite iff any component is).
-/
namespace C07

/-- `is_ended` is true exactly when the current state has no timeline or the time spent in the state is
at least that timeline's total duration -/
theorem is_ended_iff (a : Animator ℚ) :
    a.isEnded = true ↔ a.timeline? a.state = none ∨
      ∃ tl d, a.timeline? a.state = some tl ∧ tl.duration = some d ∧ d ≤ (a.stateNs : ℚ) / 1000000000 := by
  unfold Animator.isEnded
  cases htl : a.timeline? a.state with
  | none => simp
  | some tl =>
    cases hd : tl.duration with
    | none => simp [hd]
    | some d => simp [hd]

/-- never true while any component repeats infinitely -/
theorem never_ended_if_any_infinite (a : Animator ℚ) (tl0 : Timeline ℚ) (rest : List (Timeline ℚ))
    (htl : a.timeline? a.state = some ⟨tl0 :: rest⟩) (t : Timeline ℚ) (ht : t ∈ tl0 :: rest)
    (hinf : t.ts.repeat_ = .infinite) : a.isEnded = false := by
  have hdur : (Merged.mk (tl0 :: rest)).duration = none := by
    rw [C12.merged_duration_infinite_iff]
    refine ⟨t, ht, ?_⟩
    simp [Timeline.duration, TimeScale.totalDuration, hinf]
  unfold Animator.isEnded
  rw [htl]; simp only [hdur]

/-- the total duration compared against is the maximum over the merged components -/
theorem duration_is_max (tl0 : Timeline ℚ) (rest : List (Timeline ℚ)) :
    (∀ t ∈ tl0 :: rest, C12.durLe t.duration (Merged.mk (tl0 :: rest)).duration) ∧
    ∃ t ∈ tl0 :: rest, (Merged.mk (tl0 :: rest)).duration = t.duration := C12.merged_duration_max tl0 rest

/-- once true it stays true under any further advances (until the state changes) -/
theorem ended_stays (a a' : Animator ℚ) (ns : Nat) (he : a.isEnded = true) (h : a.advanceNs ns = .ok a') :
    a'.isEnded = true := by
  unfold Animator.advanceNs at h
  split at h
  · simp at h
  · obtain ⟨h1, h2, _, h4, _⟩ := updateValues_spec _ a' h
    rw [is_ended_iff] at he ⊢
    have tl_eq : a'.timeline? a'.state = a.timeline? a.state := by
      unfold Animator.timeline?; rw [h1, h2]
    rw [tl_eq]
    rcases he with he | ⟨tl, d, h3, h5, h6⟩
    · exact Or.inl he
    · refine Or.inr ⟨tl, d, h3, h5, ?_⟩
      have : a'.stateNs = a.stateNs + ns := h4
      rw [this]; push_cast
      have : (0 : ℚ) ≤ (ns : ℚ) / 1000000000 := by positivity
      have e : ((a.stateNs : ℚ) + ns) / 1000000000 = (a.stateNs : ℚ) / 1000000000 + (ns : ℚ) / 1000000000 := by ring
      rw [e]; linarith

/-- merged evaluation is constant once every component is strictly past its own end -/
theorem merged_rest (tls : List (Timeline ℚ)) (t1 t2 : ℚ) (tgt : List (Val ℚ))
    (hpast : ∀ tl ∈ tls, ∃ T, tl.ts.totalDuration = some T ∧ T < t1 ∧ T < t2 ∧ tl.ts.delay ≤ T) :
    (Merged.mk tls).update tgt t1 = (Merged.mk tls).update tgt t2 := by
  induction tls generalizing tgt with
  | nil => rfl
  | cons tl rest ih =>
    rw [C12.merged_update_cons, C12.merged_update_cons]
    obtain ⟨T, hT, h1, h2, hd⟩ := hpast tl (by simp)
    have hc : tl.update tgt t1 = tl.update tgt t2 := by
      by_cases hb : tl.boundary = []
      · simp [Timeline.update, prepareFrame, hb]
      · exact (C02.after_end_constant tl hb T hT t1 t2 h1 h2 hd tgt).1
    rw [hc]
    cases tl.update tgt t2 with
    | error e => rfl
    | ok t' => exact ih t' (fun x hx => hpast x (by simp [hx]))

/-- **values then rest**: once every component of the current timeline is past its end, a further
advance leaves `current_values` exactly where they are (terminal values) -/
theorem ended_values_rest (P : List (Val ℚ) → Prop) (a a' : Animator ℚ) (ns : Nat) (hg : C04.Good P a)
    (tl : Merged ℚ) (htl : a.timeline? a.state = some tl)
    (hpast : ∀ t ∈ tl.timelines, ∃ T, t.ts.totalDuration = some T ∧ T < (a.stateNs : ℚ) / 1000000000 ∧ t.ts.delay ≤ T)
    (h : a.advanceNs ns = .ok a') : a'.values = a.values := by
  unfold Animator.advanceNs at h
  split at h
  · simp at h
  · obtain ⟨_, _, _, _, h5⟩ := updateValues_spec _ a' h
    have e1 : ({ a with stateNs := a.stateNs + ns } : Animator ℚ).timeline? ({ a with stateNs := a.stateNs + ns } : Animator ℚ).state = some tl := htl
    rw [e1] at h5
    simp only [secsOfNanos_rat] at h5
    have hfix := hg.inv.current tl htl
    simp only [secsOfNanos_rat] at hfix
    have hm : tl = Merged.mk tl.timelines := rfl
    have : tl.update a.values (((a.stateNs + ns : Nat) : ℚ) / 1000000000) = tl.update a.values ((a.stateNs : ℚ) / 1000000000) := by
      rw [hm]
      apply merged_rest
      intro t ht
      obtain ⟨T, hT, hlt, hd⟩ := hpast t ht
      refine ⟨T, hT, ?_, hlt, hd⟩
      have : (a.stateNs : ℚ) / 1000000000 ≤ ((a.stateNs + ns : Nat) : ℚ) / 1000000000 := by
        push_cast; apply div_le_div_of_nonneg_right _ (by norm_num); linarith [Nat.cast_nonneg (α := ℚ) ns]
      linarith
    rw [this, hfix] at h5
    simp only [Except.ok.injEq] at h5
    exact h5.symm

end C07
