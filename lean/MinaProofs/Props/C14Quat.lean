import MinaProofs.Lemmas.RatNum
import MinaModel.Quat
import Mathlib.Tactic.FieldSimp
import Mathlib.Tactic.Ring
import Mathlib.Tactic.Linarith
/-!
# C14 for `Quat` / `DQuat` — what `impl Lerp for Quat` (glam's normalised lerp) guarantees in exact arithmetic

Model: `MinaModel/Quat.lean` at `α = ℚ`.  The square root is a parameter; the theorems need it only at the one point
where it is used, and only to be a square root there (`r * r = d`), so nothing is assumed that ℚ cannot provide (the
`example`s at the end instantiate the hypotheses).

* the result has unit length whenever the interpolated vector is not zero — for **every** `s`, also outside [0,1];
* `lerp(a, b, 0) = a` and `lerp(a, a, x) = a` for unit `a`; `lerp(a, b, 1) = ±b` for unit `b`, `+b` exactly when the
  two lie in the same half-space (the short way round) — with glam's two different tie rules: the f32 code looks at the
  sign *bit* of the dot product, the f64 code at `dot >= 0`; they agree except on a dot product of −0, which ℚ lacks.
-/
namespace C14
open Q4

/-- the two dot products are the same number in exact arithmetic (they differ in binary32/64 rounding only) -/
theorem dotSse_eq_dotScalar (a b : Q4 ℚ) : dotSse a b = dotScalar a b := by
  simp only [dotSse, dotScalar]; ring

/-- the vector that gets normalised (SSE2 order of operations) -/
def interpSse (flip : Bool) (a b : Q4 ℚ) (s : ℚ) : Q4 ℚ :=
  let e := if flip then b.map (- ·) else b
  (zip (· - ·) e a |>.map (· * s)) |> (zip (· + ·) · a)

theorem lerpSse_eq (sqrt : ℚ → ℚ) (sb : ℚ → Bool) (a b : Q4 ℚ) (s : ℚ) :
    lerpSse sqrt sb a b s =
      (interpSse (sb (dotSse a b)) a b s).map (· / sqrt (dotSse (interpSse (sb (dotSse a b)) a b s) (interpSse (sb (dotSse a b)) a b s))) := rfl

/-- **unit length**, for every `s`: if the interpolated vector `v` is not zero and `sqrt` is a square root at `v·v` -/
theorem quat_lerp_unit (sqrt : ℚ → ℚ) (sb : ℚ → Bool) (a b : Q4 ℚ) (s : ℚ)
    (hsq : let v := interpSse (sb (dotSse a b)) a b s; sqrt (dotSse v v) * sqrt (dotSse v v) = dotSse v v)
    (hne : let v := interpSse (sb (dotSse a b)) a b s; dotSse v v ≠ 0) :
    dotSse (lerpSse sqrt sb a b s) (lerpSse sqrt sb a b s) = 1 := by
  rw [lerpSse_eq]
  generalize interpSse (sb (dotSse a b)) a b s = v at hsq hne
  simp only at hsq hne
  generalize hr : sqrt (dotSse v v) = r at hsq
  have hr0 : r ≠ 0 := by
    intro h0; rw [h0] at hsq; exact hne (by linarith)
  simp only [dotSse, Q4.map] at hsq ⊢
  field_simp
  linarith

theorem interp_at_zero (flip : Bool) (a b : Q4 ℚ) : interpSse flip a b 0 = a := by
  cases a; simp [interpSse, Q4.zip, Q4.map]

theorem interp_at_one (flip : Bool) (a b : Q4 ℚ) :
    interpSse flip a b 1 = if flip then b.map (- ·) else b := by
  cases a; cases b; cases flip <;> simp [interpSse, Q4.zip, Q4.map]

theorem interp_same (a : Q4 ℚ) (s : ℚ) : interpSse false a a s = a := by
  cases a; simp [interpSse, Q4.zip, Q4.map]

theorem map_div_one (a : Q4 ℚ) : a.map (· / 1) = a := by cases a; simp [Q4.map]

/-- `lerp(a, b, 0) = a` for a unit quaternion `a` -/
theorem quat_lerp_at_zero (sqrt : ℚ → ℚ) (sb : ℚ → Bool) (a b : Q4 ℚ) (h1 : sqrt 1 = 1) (ha : dotSse a a = 1) :
    lerpSse sqrt sb a b 0 = a := by
  rw [lerpSse_eq, interp_at_zero, ha, h1, map_div_one]

theorem dot_neg_neg (b : Q4 ℚ) : dotSse (b.map (- ·)) (b.map (- ·)) = dotSse b b := by
  cases b; simp [dotSse, Q4.map]

/-- `lerp(a, b, 1) = b` for a unit `b` in the same half-space, `−b` (the same rotation) otherwise -/
theorem quat_lerp_at_one (sqrt : ℚ → ℚ) (sb : ℚ → Bool) (a b : Q4 ℚ) (h1 : sqrt 1 = 1) (hb : dotSse b b = 1) :
    lerpSse sqrt sb a b 1 = if sb (dotSse a b) then b.map (- ·) else b := by
  rw [lerpSse_eq, interp_at_one]
  cases sb (dotSse a b)
  · simp only [Bool.false_eq_true, if_false]; rw [hb, h1, map_div_one]
  · simp only [if_true]; rw [dot_neg_neg, hb, h1, map_div_one]

/-- `lerp(a, a, x) = a` for a unit `a`, every `x` (the dot product of `a` with itself is 1: no flip) -/
theorem quat_lerp_same (sqrt : ℚ → ℚ) (a : Q4 ℚ) (x : ℚ) (h1 : sqrt 1 = 1) (ha : dotSse a a = 1) :
    lerpSse sqrt (fun d => decide (d < 0)) a a x = a := by
  rw [lerpSse_eq, ha]
  have : decide ((1 : ℚ) < 0) = false := by decide
  rw [this, interp_same, ha, h1, map_div_one]

/-! ### the f64 code (`DQuat`): other operation order, same function -/

/-- the vector the f64 code normalises -/
def interpScalar (nonneg : Bool) (a b : Q4 ℚ) (s : ℚ) : Q4 ℚ :=
  zip (· + ·) a (zip (· - ·) (b.map (· * (if nonneg then (1 : ℚ) else -1))) a |>.map (· * s))

theorem interpScalar_eq (d : ℚ) (a b : Q4 ℚ) (s : ℚ) :
    interpScalar (decide (0 ≤ d)) a b s = interpSse (decide (d < 0)) a b s := by
  obtain ⟨ax, ay, az, aw⟩ := a
  obtain ⟨bx, b_y, bz, bw⟩ := b
  by_cases h : 0 ≤ d
  · have h' : ¬ d < 0 := not_lt.2 h
    simp only [interpScalar, interpSse, h, h', decide_true, decide_false, if_true, Q4.zip, Q4.map,
      Bool.false_eq_true, if_false, Q4.mk.injEq]
    refine ⟨?_, ?_, ?_, ?_⟩ <;> ring
  · have h' : d < 0 := not_le.1 h
    simp only [interpScalar, interpSse, h, h', decide_true, decide_false, if_true, Q4.zip, Q4.map,
      Bool.false_eq_true, if_false, Q4.mk.injEq]
    refine ⟨?_, ?_, ?_, ?_⟩ <;> ring

/-- **`DQuat::lerp` and `Quat::lerp` are the same function in exact arithmetic** (so every theorem above holds for
both): `x * (1 / r) = x / r`, the additions commute, the two tie rules agree on ℚ -/
theorem lerpScalar_eq_lerpSse (sqrt : ℚ → ℚ) (a b : Q4 ℚ) (s : ℚ) :
    lerpScalar sqrt (fun d => decide (0 ≤ d)) 1 a b s = lerpSse sqrt (fun d => decide (d < 0)) a b s := by
  rw [lerpSse_eq]
  have h : lerpScalar sqrt (fun d => decide (0 ≤ d)) 1 a b s =
      (interpScalar (decide (0 ≤ dotScalar a b)) a b s).map
        (· * (1 / sqrt (dotScalar (interpScalar (decide (0 ≤ dotScalar a b)) a b s) (interpScalar (decide (0 ≤ dotScalar a b)) a b s)))) := rfl
  rw [h, ← dotSse_eq_dotScalar, ← dotSse_eq_dotScalar, interpScalar_eq]
  generalize interpSse (decide (dotSse a b < 0)) a b s = v
  obtain ⟨vx, vy, vz, vw⟩ := v
  simp only [Q4.map, Q4.mk.injEq]
  refine ⟨?_, ?_, ?_, ?_⟩ <;> ring

/-- the laws above, restated for the f64 code -/
theorem dquat_lerp_at_zero (sqrt : ℚ → ℚ) (a b : Q4 ℚ) (h1 : sqrt 1 = 1) (ha : dotScalar a a = 1) :
    lerpScalar sqrt (fun d => decide (0 ≤ d)) 1 a b 0 = a := by
  rw [lerpScalar_eq_lerpSse]; exact quat_lerp_at_zero sqrt _ a b h1 (by rw [dotSse_eq_dotScalar]; exact ha)

theorem dquat_lerp_at_one (sqrt : ℚ → ℚ) (a b : Q4 ℚ) (h1 : sqrt 1 = 1) (hb : dotScalar b b = 1) :
    lerpScalar sqrt (fun d => decide (0 ≤ d)) 1 a b 1 = if dotScalar a b < 0 then b.map (- ·) else b := by
  rw [lerpScalar_eq_lerpSse, quat_lerp_at_one sqrt _ a b h1 (by rw [dotSse_eq_dotScalar]; exact hb), dotSse_eq_dotScalar]
  simp only [decide_eq_true_eq]

theorem dquat_lerp_same (sqrt : ℚ → ℚ) (a : Q4 ℚ) (x : ℚ) (h1 : sqrt 1 = 1) (ha : dotScalar a a = 1) :
    lerpScalar sqrt (fun d => decide (0 ≤ d)) 1 a a x = a := by
  rw [lerpScalar_eq_lerpSse]; exact quat_lerp_same sqrt a x h1 (by rw [dotSse_eq_dotScalar]; exact ha)

theorem dquat_lerp_unit (sqrt : ℚ → ℚ) (a b : Q4 ℚ) (s : ℚ)
    (hsq : let v := interpSse (decide (dotSse a b < 0)) a b s; sqrt (dotSse v v) * sqrt (dotSse v v) = dotSse v v)
    (hne : let v := interpSse (decide (dotSse a b < 0)) a b s; dotSse v v ≠ 0) :
    dotScalar (lerpScalar sqrt (fun d => decide (0 ≤ d)) 1 a b s) (lerpScalar sqrt (fun d => decide (0 ≤ d)) 1 a b s) = 1 := by
  rw [lerpScalar_eq_lerpSse, ← dotSse_eq_dotScalar]
  exact quat_lerp_unit sqrt (fun d => decide (d < 0)) a b s hsq hne

/-! ### the hypotheses can be met -/

/-- a rational unit quaternion, a second one in the other half-space, and a "square root" that is one where needed -/
example : dotSse (⟨3/5, 4/5, 0, 0⟩ : Q4 ℚ) ⟨3/5, 4/5, 0, 0⟩ = 1 ∧
    dotSse (⟨3/5, 4/5, 0, 0⟩ : Q4 ℚ) ⟨-1, 0, 0, 0⟩ < 0 := by
  simp only [dotSse]; norm_num

/-- `quat_lerp_unit` is not vacuous: a = (1,0,0,0), b = (0,1,0,0) (orthogonal unit quaternions), s = 4/7 gives
v = (3/7, 4/7, 0, 0), v·v = 25/49, whose square root 5/7 is rational -/
example : let sqrt : ℚ → ℚ := fun d => if d = 25/49 then 5/7 else 1
    dotSse (lerpSse sqrt (fun d => decide (d < 0)) ⟨1, 0, 0, 0⟩ ⟨0, 1, 0, 0⟩ (4/7))
           (lerpSse sqrt (fun d => decide (d < 0)) ⟨1, 0, 0, 0⟩ ⟨0, 1, 0, 0⟩ (4/7)) = 1 := by
  intro sqrt
  apply quat_lerp_unit
  · simp only [dotSse, interpSse, Q4.zip, Q4.map]; norm_num [sqrt]
  · simp only [dotSse, interpSse, Q4.zip, Q4.map]; norm_num

end C14
