import MinaProofs.Lemmas.RatNum
/-!
# C14 — Linear interpolation obeys the lerp laws for every numeric type

Model: `MinaModel/Lerp.lean` (`lerp`, `lerpInt`, `Val.lerp`, `lerpVec`) at `α = ℚ`.
The integer kinds and their bounds come from the table generated from `interpolation.rs`.
-/
namespace C14

/-- the model's lerp is the real interpolation `a + x(b − a)` -/
theorem lerp_eq_real (a b x : ℚ) : lerp a b x = a + x * (b - a) := by
  simp only [lerp, lit_rat]; push_cast; ring

theorem lerp_at_zero (a b : ℚ) : lerp a b 0 = a := by rw [lerp_eq_real]; ring
theorem lerp_at_one (a b : ℚ) : lerp a b 1 = b := by rw [lerp_eq_real]; ring
theorem lerp_same (a x : ℚ) : lerp a a x = a := by rw [lerp_eq_real]; ring

theorem lerp_between (a b x : ℚ) (h0 : 0 ≤ x) (h1 : x ≤ 1) :
    min a b ≤ lerp a b x ∧ lerp a b x ≤ max a b := by
  rw [lerp_eq_real]
  rcases le_total a b with h | h
  · rw [min_eq_left h, max_eq_right h]; constructor <;> nlinarith
  · rw [min_eq_right h, max_eq_left h]; constructor <;> nlinarith

/-- monotone in `x` when `a ≤ b` … -/
theorem lerp_mono (a b x y : ℚ) (hab : a ≤ b) (hxy : x ≤ y) : lerp a b x ≤ lerp a b y := by
  rw [lerp_eq_real, lerp_eq_real]; nlinarith
/-- … and antitone when `b ≤ a` -/
theorem lerp_anti (a b x y : ℚ) (hba : b ≤ a) (hxy : x ≤ y) : lerp a b y ≤ lerp a b x := by
  rw [lerp_eq_real, lerp_eq_real]; nlinarith

/-- Integer types: the result is the real interpolation rounded to nearest (ties away from zero),
and for `x ∈ [0,1]` with both ends inside the type's range the checked conversion never panics —
across the type's full range (e.g. `i8` −128..127), for every integer kind in the generated table. -/
theorem lerpInt_is_rounded (k : Gen.IntKind) (a b : Int) (x : ℚ) (h0 : 0 ≤ x) (h1 : x ≤ 1)
    (ha : k.lo ≤ a ∧ a ≤ k.hi) (hb : k.lo ≤ b ∧ b ≤ k.hi) :
    lerpInt k a b x = .ok (roundInt ((a : ℚ) + x * ((b : ℚ) - a))) := by
  have hbt := lerp_between (a : ℚ) (b : ℚ) x h0 h1
  rw [lerp_eq_real] at hbt
  have hlo : (min a b : Int) ≤ roundInt ((a : ℚ) + x * ((b : ℚ) - a)) := by
    have := roundInt_mono hbt.1
    rwa [← Int.cast_min, roundInt_intCast] at this
  have hhi : roundInt ((a : ℚ) + x * ((b : ℚ) - a)) ≤ (max a b : Int) := by
    have := roundInt_mono hbt.2
    rwa [← Int.cast_max, roundInt_intCast] at this
  unfold lerpInt
  simp only [round_rat, toInt_rat, ofInt_rat, lerp_eq_real, round_eq_roundInt, toInt_intCast]
  rw [if_pos]
  constructor
  · exact le_trans (le_min ha.1 hb.1) hlo
  · exact le_trans hhi (max_le ha.2 hb.2)

theorem lerpInt_between (k : Gen.IntKind) (a b : Int) (x : ℚ) (h0 : 0 ≤ x) (h1 : x ≤ 1)
    (ha : k.lo ≤ a ∧ a ≤ k.hi) (hb : k.lo ≤ b ∧ b ≤ k.hi) :
    ∃ n, lerpInt k a b x = .ok n ∧ min a b ≤ n ∧ n ≤ max a b := by
  refine ⟨_, lerpInt_is_rounded k a b x h0 h1 ha hb, ?_, ?_⟩
  · have hbt := lerp_between (a : ℚ) (b : ℚ) x h0 h1
    rw [lerp_eq_real] at hbt
    have := roundInt_mono hbt.1
    rwa [← Int.cast_min, roundInt_intCast] at this
  · have hbt := lerp_between (a : ℚ) (b : ℚ) x h0 h1
    rw [lerp_eq_real] at hbt
    have := roundInt_mono hbt.2
    rwa [← Int.cast_max, roundInt_intCast] at this

theorem lerpInt_at_zero (k : Gen.IntKind) (a b : Int)
    (ha : k.lo ≤ a ∧ a ≤ k.hi) (hb : k.lo ≤ b ∧ b ≤ k.hi) : lerpInt k a b (0 : ℚ) = .ok a := by
  rw [lerpInt_is_rounded k a b 0 le_rfl zero_le_one ha hb]
  have : (a : ℚ) + 0 * ((b : ℚ) - a) = (a : ℚ) := by ring
  rw [this, roundInt_intCast]

theorem lerpInt_at_one (k : Gen.IntKind) (a b : Int)
    (ha : k.lo ≤ a ∧ a ≤ k.hi) (hb : k.lo ≤ b ∧ b ≤ k.hi) : lerpInt k a b (1 : ℚ) = .ok b := by
  rw [lerpInt_is_rounded k a b 1 zero_le_one le_rfl ha hb]
  have : (a : ℚ) + 1 * ((b : ℚ) - a) = (b : ℚ) := by ring
  rw [this, roundInt_intCast]

theorem lerpInt_same (k : Gen.IntKind) (a : Int) (x : ℚ) (h0 : 0 ≤ x) (h1 : x ≤ 1)
    (ha : k.lo ≤ a ∧ a ≤ k.hi) : lerpInt k a a x = .ok a := by
  rw [lerpInt_is_rounded k a a x h0 h1 ha ha]
  have : (a : ℚ) + x * ((a : ℚ) - a) = (a : ℚ) := by ring
  rw [this, roundInt_intCast]

/-- monotone in `x` (rounding is monotone) -/
theorem lerpInt_mono (k : Gen.IntKind) (a b : Int) (x y : ℚ) (hx : 0 ≤ x) (hxy : x ≤ y) (hy : y ≤ 1)
    (hab : a ≤ b) (ha : k.lo ≤ a ∧ a ≤ k.hi) (hb : k.lo ≤ b ∧ b ≤ k.hi) :
    ∃ m n, lerpInt k a b x = .ok m ∧ lerpInt k a b y = .ok n ∧ m ≤ n := by
  refine ⟨_, _, lerpInt_is_rounded k a b x hx (le_trans hxy hy) ha hb,
    lerpInt_is_rounded k a b y (le_trans hx hxy) hy ha hb, roundInt_mono ?_⟩
  have : (a : ℚ) ≤ b := by exact_mod_cast hab
  nlinarith

/-- `Val`-level dispatch: floats use `lerp`, integers `lerpInt` of their own kind -/
theorem val_lerp_num (p q x : ℚ) : (Val.num p).lerp (Val.num q) x = .ok (Val.num (lerp p q x)) := rfl
theorem val_lerp_int (k : Gen.IntKind) (m n : Int) (x : ℚ) :
    (Val.int k m : Val ℚ).lerp (Val.int k n) x = (lerpInt k m n x).map (Val.int k) := by
  simp [Val.lerp]

/-- glam vectors interpolate component-wise: the i-th component of the result is the scalar lerp of
the i-th components (and the result has as many components as the shorter input). -/
theorem vec_componentwise (as bs : List (Val ℚ)) (x : ℚ) (rs : List (Val ℚ))
    (h : lerpVec as bs x = .ok rs) :
    rs.length = min as.length bs.length ∧
    ∀ i (hi : i < rs.length) (ha : i < as.length) (hb : i < bs.length),
      (as[i]).lerp (bs[i]) x = .ok (rs[i]) := by
  induction as generalizing bs rs with
  | nil => simp [lerpVec] at h; subst h; simp
  | cons a as ih =>
    cases bs with
    | nil => simp [lerpVec] at h; subst h; simp
    | cons b bs =>
      simp only [lerpVec] at h
      cases hv : a.lerp b x with
      | error e => rw [hv] at h; simp at h
      | ok v =>
        rw [hv] at h
        cases hr : lerpVec as bs x with
        | error e => rw [hr] at h; simp at h
        | ok vs =>
          rw [hr] at h
          simp only [Except.ok.injEq] at h
          subst h
          obtain ⟨hl, hc⟩ := ih bs vs hr
          refine ⟨by simp [hl], ?_⟩
          intro i hi ha hb
          cases i with
          | zero => simpa using hv
          | succ j =>
            simp only [List.getElem_cons_succ]
            exact hc j (by simpa using hi) (by simpa using ha) (by simpa using hb)

/-! Non-vacuity: the hypotheses are met by the boundary case the property names (i8, −128..127). -/
example : lerpInt (α := ℚ) .i8 (-128) 127 (1 / 2) = .ok (-1) := by
  rw [lerpInt_is_rounded .i8 (-128) 127 (1/2) (by norm_num) (by norm_num) (by decide) (by decide)]
  norm_num [roundInt]

end C14
