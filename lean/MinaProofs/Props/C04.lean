import MinaProofs.Lemmas.AnimInv
/-!
# C04 — A state change never makes the animated values jump

Model: `MinaModel/Animator.lean` (`set_state` with the repaired pause bookkeeping, fix ba53243).
Generic in the number system. The one arithmetic fact needed is the *blend law* of each state's
timeline (`BlendOK P`, for the values `P` the animator can hold): started from `v` and evaluated at time 0 it reproduces `v`. That law is what
"built-in easings, distinct keyframe positions per property, values representable in f32" buy: at ℚ it
follows from C10.`start_value_until_delay` for every property with keyframes, and slots without
keyframes are untouched (C08). It is preserved by `start_with`.

`Good P a` = the animator invariant (`AnimInv`) + the values satisfy `P` + every timeline is `TlOK P`
(blend law and closure of `P` under evaluation, after any sequence of `start_with`).
-/
namespace C04

variable {α : Type} [Num α]

/-- setting the state the animator is already in changes nothing at all -/
theorem set_same_state_noop (a : Animator α) : a.setState a.state = .ok a := by
  simp [Animator.setState]

/-- a timeline is *well-behaved for values satisfying `P`* if, after any sequence of `start_with` calls
with such values, it obeys the blend law and evaluating it keeps values in `P` -/
def TlOK (P : List (Val α) → Prop) (m : Merged α) : Prop :=
  ∀ ws : List (List (Val α)), (∀ w ∈ ws, P w) →
    BlendOK P (ws.foldl (fun acc w => acc.startWith w) m) ∧
    (∀ v t r, P v → (ws.foldl (fun acc w => acc.startWith w) m).update v t = .ok r → P r)

theorem tlOK_startWith (P : List (Val α) → Prop) (m : Merged α) (w : List (Val α)) (hw : P w) (h : TlOK P m) :
    TlOK P (m.startWith w) := by
  intro ws hws
  have := h (w :: ws) (by intro x hx; rcases List.mem_cons.1 hx with rfl | hx; exact hw; exact hws x hx)
  simpa using this

structure Good (P : List (Val α) → Prop) (a : Animator α) : Prop where
  inv : AnimInv a
  pv : P a.values
  ok : ∀ s tl, a.timeline? s = some tl → TlOK P tl

theorem merged_startWith_last_wins (m : Merged α) (v w : List (Val α)) (hl : v.length = w.length) :
    (m.startWith v).startWith w = m.startWith w := by
  simp only [Merged.startWith, List.map_map]
  congr 1
  apply List.map_congr_left
  intro tl _
  exact C09.startWith_last_wins tl v w hl

theorem merged_update_length (m : Merged α) (tgt r : List (Val α)) (time : α) (h : m.update tgt time = .ok r) :
    r.length = tgt.length := by
  unfold Merged.update at h
  generalize m.timelines = tls at h
  induction tls generalizing tgt with
  | nil => simp [Merged.update.go] at h; subst h; rfl
  | cons tl rest ih =>
    simp only [Merged.update.go] at h
    split at h
    · rename_i t' ht'
      rw [ih _ h, C08.update_length tl _ _ _ ht']
    · simp at h

/-- the freshly built animator is `Good` -/
theorem good_initial (P : List (Val α) → Prop) (timelines : List (Option (Merged α))) (s0 : Nat) (v0 : List (Val α))
    (hP : P v0) (hok : ∀ m, some m ∈ timelines → TlOK P m) : Good P (Animator.new timelines s0 v0) := by
  have base_tl : ∀ s tl, (⟨timelines, s0, v0, none, 0⟩ : Animator α).timeline? s = some tl → TlOK P tl := by
    intro s tl h
    exact hok tl (C08.timeline?_mem _ s tl h)
  obtain ⟨b1, b2, b3, b4, b5, b6⟩ := blendNext_spec (⟨timelines, s0, v0, none, 0⟩ : Animator α) s0
  unfold Animator.new
  refine ⟨⟨?_, ?_⟩, by rw [b1]; exact hP, ?_⟩
  · intro tl htl
    rw [b2] at htl
    rw [b6] at htl
    cases h0 : (⟨timelines, s0, v0, none, 0⟩ : Animator α).timeline? s0 with
    | none => rw [h0] at htl; simp at htl
    | some tl0 =>
      rw [h0] at htl
      simp only [Option.map_some, Option.some.injEq] at htl
      subst htl
      rw [b1, b4]
      exact (base_tl s0 tl0 h0 [] (by simp)).1 v0 hP
  · intro ps pos hp; rw [b3] at hp; simp at hp
  · intro s tl htl
    by_cases hs : s = s0
    · subst hs
      rw [b6] at htl
      cases h0 : (⟨timelines, s, v0, none, 0⟩ : Animator α).timeline? s with
      | none => rw [h0] at htl; simp at htl
      | some tl0 =>
        rw [h0] at htl
        simp only [Option.map_some, Option.some.injEq] at htl
        subst htl
        exact tlOK_startWith P tl0 v0 hP (base_tl s tl0 h0)
    · rw [b5 s hs] at htl
      exact base_tl s tl htl

/-- **No jump.** `set_state` leaves `current_values` exactly as they were — in every `Good` animator,
i.e. after any history (see `good_run`) — and the animator stays `Good`. -/
theorem set_state_no_jump (P : List (Val α) → Prop) (a a' : Animator α) (s : Nat) (hg : Good P a) (h : a.setState s = .ok a') :
    a'.values = a.values ∧ Good P a' := by
  obtain ⟨hv, hinv, htls⟩ := setState_spec a a' s hg.inv P hg.pv (fun s tl htl => (hg.ok s tl htl [] (by simp)).1) h
  refine ⟨hv, hinv, by rw [hv]; exact hg.pv, ?_⟩
  intro s' tl' htl'
  obtain ⟨tl, htl, hcase⟩ := htls s' tl' htl'
  rcases hcase with rfl | rfl
  · exact hg.ok s' tl' htl
  · exact tlOK_startWith P tl a.values hg.pv (hg.ok s' tl htl)

theorem good_advanceNs (P : List (Val α) → Prop) (a a' : Animator α) (ns : Nat) (hg : Good P a) (h : a.advanceNs ns = .ok a') :
    Good P a' := by
  have hinv := inv_advanceNs a a' ns hg.inv h
  unfold Animator.advanceNs at h
  split at h
  · simp at h
  · obtain ⟨h1, h2, h3, h4, h5⟩ := updateValues_spec _ a' h
    refine ⟨hinv, ?_, ?_⟩
    · cases htl : (({ a with stateNs := a.stateNs + ns } : Animator α).timeline? a.state) with
      | none =>
        have : ({ a with stateNs := a.stateNs + ns } : Animator α).timeline? ({ a with stateNs := a.stateNs + ns } : Animator α).state = none := htl
        rw [this] at h5; rw [h5]; exact hg.pv
      | some tl =>
        have : ({ a with stateNs := a.stateNs + ns } : Animator α).timeline? ({ a with stateNs := a.stateNs + ns } : Animator α).state = some tl := htl
        rw [this] at h5
        exact (hg.ok a.state tl htl [] (by simp)).2 _ _ _ hg.pv h5
    · intro s tl htl
      apply hg.ok s tl
      unfold Animator.timeline? at htl ⊢; rw [h1] at htl; exact htl

theorem good_step (P : List (Val α) → Prop) (a a' : Animator α) (op : AnimOp α) (hg : Good P a) (h : a.step op = .ok a') : Good P a' := by
  cases op with
  | advanceNs ns => exact good_advanceNs P a a' ns hg h
  | advance secs =>
    simp only [Animator.step, Animator.advance] at h
    split at h
    · exact good_advanceNs P a a' _ hg h
    · simp at h
  | setState s => exact (set_state_no_jump P a a' s hg h).2

/-- every animator reachable by any history of `advance`/`set_state` is `Good` -/
theorem good_run (P : List (Val α) → Prop) (a a' : Animator α) (ops : List (AnimOp α)) (hg : Good P a) (h : a.run ops = .ok a') :
    Good P a' := by
  induction ops generalizing a with
  | nil => simp [Animator.run] at h; subst h; exact hg
  | cons op ops ih =>
    simp only [Animator.run] at h
    split at h
    · rename_i a1 h1; exact ih a1 (good_step P a a1 op hg h1) h
    · simp at h

/-- **The property.** Whatever sequence of advances and state changes came before, calling `set_state`
never changes `current_values` at the moment of the call. -/
theorem no_jump_after_any_history (P : List (Val α) → Prop) (timelines : List (Option (Merged α))) (s0 : Nat) (v0 : List (Val α))
    (hP : P v0) (hok : ∀ m, some m ∈ timelines → TlOK P m)
    (ops : List (AnimOp α)) (a a' : Animator α) (s : Nat)
    (hrun : (Animator.new timelines s0 v0).run ops = .ok a) (hset : a.setState s = .ok a') :
    a'.values = a.values :=
  (set_state_no_jump P a a' s (good_run P _ a ops (good_initial P timelines s0 v0 hP hok) hrun) hset).1

/-- for `P` = "has `n` slots": a timeline that obeys the blend law is `TlOK` (the blend law survives
`start_with` because the latest `start_with` replaces earlier ones; `update` keeps the number of slots) -/
theorem tlOK_of_blend_law (n : Nat) (m : Merged α)
    (h : BlendOK (fun v => v.length = n) m) : TlOK (fun v => v.length = n) m := by
  intro ws hws
  have hfold : ∀ (ws : List (List (Val α))) (m0 : Merged α), (∀ w ∈ ws, w.length = n) →
      BlendOK (fun v => v.length = n) m0 → BlendOK (fun v => v.length = n) (ws.foldl (fun acc w => acc.startWith w) m0) := by
    intro ws
    induction ws with
    | nil => intro m0 _ h0; exact h0
    | cons w rest ih =>
      intro m0 hw h0
      simp only [List.foldl_cons]
      apply ih _ (fun x hx => hw x (by simp [hx]))
      intro v hv
      rw [merged_startWith_last_wins m0 w v (by rw [hw w (by simp), hv])]
      exact h0 v hv
  refine ⟨hfold ws m hws h, ?_⟩
  intro v t r hv hr
  rw [merged_update_length _ _ _ _ hr]; exact hv

end C04
