import MinaProofs.Lemmas.AnimInv
/-!
# C04 — A state change never makes the animated values jump

Model: `MinaModel/Animator.lean` (`set_state` with the repaired pause bookkeeping, fix ba53243).
Generic in the number system. The one arithmetic fact needed is the *blend law* of each state's
timeline (`BlendOK n`): started from `v` and evaluated at time 0 it reproduces `v`. That law is what
"built-in easings, distinct keyframe positions per property, values representable in f32" buy: at ℚ it
follows from C10.`start_value_until_delay` for every property with keyframes, and slots without
keyframes are untouched (C08). It is preserved by `start_with`.

`Good n a` = the animator invariant (`AnimInv`) + `n` value slots + every timeline obeys the blend law.
-/
namespace C04

variable {α : Type} [Num α]

/-- setting the state the animator is already in changes nothing at all -/
theorem set_same_state_noop (a : Animator α) : a.setState a.state = .ok a := by
  simp [Animator.setState]

structure Good (n : Nat) (a : Animator α) : Prop where
  inv : AnimInv a
  len : a.values.length = n
  blend : ∀ s tl, a.timeline? s = some tl → BlendOK n tl

theorem merged_startWith_last_wins (m : Merged α) (v w : List (Val α)) (hl : v.length = w.length) :
    (m.startWith v).startWith w = m.startWith w := by
  simp only [Merged.startWith, List.map_map]
  congr 1
  apply List.map_congr_left
  intro tl _
  exact C09.startWith_last_wins tl v w hl

/-- the blend law survives `start_with` -/
theorem blendOK_startWith (n : Nat) (m : Merged α) (w : List (Val α)) (hw : w.length = n) (h : BlendOK n m) :
    BlendOK n (m.startWith w) := by
  intro v hv
  rw [merged_startWith_last_wins m w v (by rw [hw, hv])]
  exact h v hv

theorem merged_update_length (m : Merged α) (tgt r : List (Val α)) (time : α) (h : m.update tgt time = .ok r) :
    r.length = tgt.length := by
  unfold Merged.update at h
  generalize m.timelines = tls at h
  induction tls generalizing tgt with
  | nil => simp [Merged.update.go] at h; subst h; rfl
  | cons tl rest ih =>
    simp only [Merged.update.go] at h
    split at h
    · rename_i t' ht'
      rw [ih _ h, C08.update_length tl _ _ _ ht']
    · simp at h

/-- the freshly built animator is `Good` -/
theorem good_initial (n : Nat) (timelines : List (Option (Merged α))) (s0 : Nat) (v0 : List (Val α))
    (hlen : v0.length = n)
    (hblend : ∀ m, some m ∈ timelines → BlendOK n m) : Good n (Animator.new timelines s0 v0) := by
  have base_tl : ∀ s tl, (⟨timelines, s0, v0, none, 0⟩ : Animator α).timeline? s = some tl → BlendOK n tl := by
    intro s tl h
    exact hblend tl (C08.timeline?_mem _ s tl h)
  obtain ⟨b1, b2, b3, b4, b5, b6⟩ := blendNext_spec (⟨timelines, s0, v0, none, 0⟩ : Animator α) s0
  unfold Animator.new
  refine ⟨⟨?_, ?_⟩, by rw [b1]; exact hlen, ?_⟩
  · intro tl htl
    rw [b2] at htl
    rw [b6] at htl
    cases h0 : (⟨timelines, s0, v0, none, 0⟩ : Animator α).timeline? s0 with
    | none => rw [h0] at htl; simp at htl
    | some tl0 =>
      rw [h0] at htl
      simp only [Option.map_some, Option.some.injEq] at htl
      subst htl
      rw [b1, b4]
      exact base_tl s0 tl0 h0 v0 hlen
  · intro ps pos hp; rw [b3] at hp; simp at hp
  · intro s tl htl
    by_cases hs : s = s0
    · subst hs
      rw [b6] at htl
      cases h0 : (⟨timelines, s, v0, none, 0⟩ : Animator α).timeline? s with
      | none => rw [h0] at htl; simp at htl
      | some tl0 =>
        rw [h0] at htl
        simp only [Option.map_some, Option.some.injEq] at htl
        subst htl
        exact blendOK_startWith n tl0 v0 hlen (base_tl s tl0 h0)
    · rw [b5 s hs] at htl
      exact base_tl s tl htl

/-- **No jump.** `set_state` leaves `current_values` exactly as they were — in every `Good` animator,
i.e. after any history (see `good_run`) — and the animator stays `Good`. -/
theorem set_state_no_jump (n : Nat) (a a' : Animator α) (s : Nat) (hg : Good n a) (h : a.setState s = .ok a') :
    a'.values = a.values ∧ Good n a' := by
  obtain ⟨hv, hinv, htls⟩ := setState_spec a a' s hg.inv n hg.len hg.blend h
  refine ⟨hv, hinv, by rw [hv]; exact hg.len, ?_⟩
  intro s' tl' htl'
  obtain ⟨tl, htl, hcase⟩ := htls s' tl' htl'
  rcases hcase with rfl | rfl
  · exact hg.blend s' tl' htl
  · exact blendOK_startWith n tl a.values hg.len (hg.blend s' tl htl)

theorem good_advanceNs (n : Nat) (a a' : Animator α) (ns : Nat) (hg : Good n a) (h : a.advanceNs ns = .ok a') :
    Good n a' := by
  have hinv := inv_advanceNs a a' ns hg.inv h
  unfold Animator.advanceNs at h
  split at h
  · simp at h
  · obtain ⟨h1, h2, h3, h4, h5⟩ := updateValues_spec _ a' h
    refine ⟨hinv, ?_, ?_⟩
    · cases htl : (({ a with stateNs := a.stateNs + ns } : Animator α).timeline? a.state) with
      | none =>
        have : ({ a with stateNs := a.stateNs + ns } : Animator α).timeline? ({ a with stateNs := a.stateNs + ns } : Animator α).state = none := htl
        rw [this] at h5; rw [h5]; exact hg.len
      | some tl =>
        have : ({ a with stateNs := a.stateNs + ns } : Animator α).timeline? ({ a with stateNs := a.stateNs + ns } : Animator α).state = some tl := htl
        rw [this] at h5
        rw [merged_update_length tl _ _ _ h5]; exact hg.len
    · intro s tl htl
      apply hg.blend s tl
      unfold Animator.timeline? at htl ⊢; rw [h1] at htl; exact htl

theorem good_step (n : Nat) (a a' : Animator α) (op : AnimOp α) (hg : Good n a) (h : a.step op = .ok a') : Good n a' := by
  cases op with
  | advanceNs ns => exact good_advanceNs n a a' ns hg h
  | advance secs =>
    simp only [Animator.step, Animator.advance] at h
    split at h
    · exact good_advanceNs n a a' _ hg h
    · simp at h
  | setState s => exact (set_state_no_jump n a a' s hg h).2

/-- every animator reachable by any history of `advance`/`set_state` is `Good` -/
theorem good_run (n : Nat) (a a' : Animator α) (ops : List (AnimOp α)) (hg : Good n a) (h : a.run ops = .ok a') :
    Good n a' := by
  induction ops generalizing a with
  | nil => simp [Animator.run] at h; subst h; exact hg
  | cons op ops ih =>
    simp only [Animator.run] at h
    split at h
    · rename_i a1 h1; exact ih a1 (good_step n a a1 op hg h1) h
    · simp at h

/-- **The property.** Whatever sequence of advances and state changes came before, calling `set_state`
never changes `current_values` at the moment of the call. -/
theorem no_jump_after_any_history (n : Nat) (timelines : List (Option (Merged α))) (s0 : Nat) (v0 : List (Val α))
    (hlen : v0.length = n) (hblend : ∀ m, some m ∈ timelines → BlendOK n m)
    (ops : List (AnimOp α)) (a a' : Animator α) (s : Nat)
    (hrun : (Animator.new timelines s0 v0).run ops = .ok a) (hset : a.setState s = .ok a') :
    a'.values = a.values :=
  (set_state_no_jump n a a' s (good_run n _ a ops (good_initial n timelines s0 v0 hlen hblend) hrun) hset).1

end C04
