import MinaProofs.Lemmas.Sort
/-!
# C11 — The order in which keyframes are added does not matter

Model: `Timeline.build` (= `TimelineBuilderArguments::from` + the derive-generated `build`), with the
repaired code in which the boundary times are those of the *sorted* keyframes (fix 0c5d3a1; on the
pinned tree the statement is false — witness in `corpus/C11/`).
-/
namespace C11

/-- adding the same keyframes (at pairwise distinct positions) in any permutation yields the *same built
timeline* — hence identical results at all times, identical metadata, identical everything -/
theorem build_perm_invariant (fields : List (AnimField ℚ)) (cfg : Config ℚ) (kfs' : List (Keyframe ℚ))
    (hp : cfg.keyframes.Perm kfs') (hd : cfg.keyframes.Pairwise (fun a b => a.time ≠ b.time)) :
    Timeline.build fields { cfg with keyframes := kfs' } = Timeline.build fields cfg := by
  simp only [Timeline.build]
  rw [sortKfs_perm_invariant _ _ hp hd]

theorem update_perm_invariant (fields : List (AnimField ℚ)) (cfg : Config ℚ) (kfs' : List (Keyframe ℚ))
    (hp : cfg.keyframes.Perm kfs') (hd : cfg.keyframes.Pairwise (fun a b => a.time ≠ b.time))
    (target : List (Val ℚ)) (time : ℚ) :
    (Timeline.build fields { cfg with keyframes := kfs' }).update target time =
      (Timeline.build fields cfg).update target time := by
  rw [build_perm_invariant fields cfg kfs' hp hd]

/-- the sort the builder applies is stable-sorted, a permutation of the input, and canonical -/
theorem sorted_and_perm (l : List (Keyframe ℚ)) : (sortKfs l).Pairwise kfLe ∧ (sortKfs l).Perm l :=
  ⟨sortKfs_sorted l, sortKfs_perm l⟩

/-- the boundary times handed to the binary search are sorted (what the repaired line guarantees) -/
theorem boundary_sorted (fields : List (AnimField ℚ)) (cfg : Config ℚ) :
    (Timeline.build fields cfg).boundary.Pairwise (· ≤ ·) := by
  simp only [Timeline.build]
  rw [List.pairwise_map]
  exact sortKfs_sorted cfg.keyframes

/-! Non-vacuity: the witness of the repaired defect — 50 %, 100 %, 0 % — builds the same timeline
as 0 %, 50 %, 100 %. -/
example :
    let k (t v : ℚ) : Keyframe ℚ := ⟨t, none, [some (.num v)]⟩
    let cfg : Config ℚ := { (Config.default : Config ℚ) with keyframes := [k (1/2) 100, k 1 0, k 0 0] }
    Timeline.build [⟨0, .num 0⟩] { cfg with keyframes := [k 0 0, k (1/2) 100, k 1 0] } = Timeline.build [⟨0, .num 0⟩] cfg := by
  intro k cfg
  apply build_perm_invariant
  · simp only [cfg]
    exact List.perm_append_comm (l₁ := [_, _]) (l₂ := [_])
  · simp only [cfg, k]; norm_num [List.pairwise_cons]

end C11
