import MinaProofs.Props.C04
/-!
# C05 — Animator values follow the documented blend/pause/resume rules for any history

Stated as a refinement of the concrete animator to the *documented rules*: after any history the state
is `Good` (C04), whose `AnimInv` is the first sentence of the property — `current_values` is the current
state's timeline evaluated at the time spent in that state (a fixpoint of its `update` there), and that
timeline was started from the values held when the state was entered (`enter_blends_from_current`).
The one-step rules below are the second sentence; `good_run` (C04) lifts them over all histories.
Generic in the number system.
-/
namespace C05

variable {α : Type} [Num α]

/-- `current_state` reports the last state set -/
theorem current_state_is_last_set (a a' : Animator α) (s : Nat) (h : a.setState s = .ok a') : a'.state = s := by
  unfold Animator.setState at h
  split at h
  · rename_i heq; simp at h; subst h; have : s = a.state := by simpa using heq
    exact this.symm
  · obtain ⟨_, h2, _, _, _⟩ := updateValues_spec _ a' h
    rw [h2]
    unfold Animator.switchTo; split <;> rfl

/-- `advance` does not change the state, and adds exactly the elapsed nanoseconds to the time in state -/
theorem advance_clock (a a' : Animator α) (ns : Nat) (h : a.advanceNs ns = .ok a') :
    a'.state = a.state ∧ a'.stateNs = a.stateNs + ns ∧ a'.paused = a.paused := by
  unfold Animator.advanceNs at h
  split at h
  · simp at h
  · obtain ⟨_, h2, h3, h4, _⟩ := updateValues_spec _ a' h
    exact ⟨h2, h4, h3⟩

/-- after any history, `current_values` is the current state's timeline evaluated at the time spent in
that state (first sentence of the property), by C04.`good_run` -/
theorem values_follow_timeline (P : List (Val α) → Prop) (timelines : List (Option (Merged α))) (s0 : Nat) (v0 : List (Val α))
    (hlen : P v0) (hblend : ∀ m, some m ∈ timelines → C04.TlOK P m)
    (ops : List (AnimOp α)) (a : Animator α) (hrun : (Animator.new timelines s0 v0).run ops = .ok a)
    (tl : Merged α) (htl : a.timeline? a.state = some tl) :
    tl.update a.values (Num.secsOfNanos a.stateNs) = .ok a.values :=
  (C04.good_run P _ a ops (C04.good_initial P timelines s0 v0 hlen hblend) hrun).inv.current tl htl

/-- entering a state (not a resume) starts its timeline from the values held at that moment, with the
clock at zero -/
theorem enter_blends_from_current (a : Animator α) (s : Nat) (tl : Merged α) (htl : a.timeline? s = some tl) :
    (a.enter s).timeline? s = some (tl.startWith a.values) ∧ (a.enter s).stateNs = 0 := by
  obtain ⟨n1, _, _, n4, _⟩ := notePause_spec a s
  obtain ⟨_, _, _, _, _, b6⟩ := blendNext_spec (a.notePause s) s
  refine ⟨?_, rfl⟩
  have : (a.enter s).timeline? s = ((a.notePause s).blendNext s).timeline? s := rfl
  rw [this, b6, n1]
  have : (a.notePause s).timeline? s = a.timeline? s := by unfold Animator.timeline?; rw [n4]
  rw [this, htl]; rfl

/-- entering a state without a timeline, coming from an animated one, freezes the values and remembers
the interrupted animation and its position -/
theorem pause_is_remembered (a a' : Animator α) (s : Nat) (hne : s ≠ a.state)
    (hwas : (a.timeline? a.state).isSome = true) (hwill : a.timeline? s = none) (hres : a.resumePos s = none)
    (h : a.setState s = .ok a') :
    a'.paused = some (a.state, a.stateNs) ∧ a'.values = a.values := by
  unfold Animator.setState at h
  have : (s == a.state) = false := by simpa using hne
  simp only [this, Bool.false_eq_true, if_false, Animator.switchTo, hres] at h
  obtain ⟨h1, h2, h3, h4, h5⟩ := updateValues_spec _ a' h
  obtain ⟨n1, _, _, n4, n5⟩ := notePause_spec a s
  obtain ⟨b1, _, b3, _, _, b6⟩ := blendNext_spec (a.notePause s) s
  constructor
  · rw [h3]
    show ((a.notePause s).blendNext s).paused = _
    rw [b3, n5, hwill]; simp [hwas]
  · have htl : ({ a.enter s with state := s } : Animator α).timeline? s = none := by
      show ((a.notePause s).blendNext s).timeline? s = none
      rw [b6]
      have : (a.notePause s).timeline? s = a.timeline? s := by unfold Animator.timeline?; rw [n4]
      rw [this, hwill]; rfl
    have : ({ a.enter s with state := s } : Animator α).timeline? ({ a.enter s with state := s } : Animator α).state = none := htl
    rw [this] at h5
    rw [h5]
    show ((a.notePause s).blendNext s).values = _
    rw [b1, n1]

/-- returning to the interrupted state resumes it at the remembered position -/
theorem resume_restores_position (a a' : Animator α) (s pos : Nat) (hne : s ≠ a.state)
    (hp : a.paused = some (s, pos)) (h : a.setState s = .ok a') : a'.stateNs = pos ∧ a'.state = s := by
  have hres : a.resumePos s = some pos := by simp [Animator.resumePos, hp]
  unfold Animator.setState at h
  have : (s == a.state) = false := by simpa using hne
  simp only [this, Bool.false_eq_true, if_false, Animator.switchTo, hres] at h
  obtain ⟨_, h2, _, h4, _⟩ := updateValues_spec _ a' h
  exact ⟨h4, h2⟩

/-- passing through further un-animated states keeps the remembered animation -/
theorem pause_survives_unanimated (a a' : Animator α) (s : Nat) (hne : s ≠ a.state)
    (hwas : a.timeline? a.state = none) (hwill : a.timeline? s = none) (hres : a.resumePos s = none)
    (h : a.setState s = .ok a') : a'.paused = a.paused := by
  unfold Animator.setState at h
  have : (s == a.state) = false := by simpa using hne
  simp only [this, Bool.false_eq_true, if_false, Animator.switchTo, hres] at h
  obtain ⟨_, _, h3, _, _⟩ := updateValues_spec _ a' h
  obtain ⟨_, _, _, _, n5⟩ := notePause_spec a s
  obtain ⟨_, _, b3, _, _, _⟩ := blendNext_spec (a.notePause s) s
  rw [h3]
  show ((a.notePause s).blendNext s).paused = _
  rw [b3, n5, hwas, hwill]; simp

/-- entering any *other animated* state discards the remembered position, so that a later return blends
afresh (this is the repaired behaviour) -/
theorem pause_discarded_on_other_animated (a a' : Animator α) (s : Nat) (hne : s ≠ a.state)
    (hwill : (a.timeline? s).isSome = true) (hres : a.resumePos s = none)
    (h : a.setState s = .ok a') : a'.paused = none := by
  unfold Animator.setState at h
  have : (s == a.state) = false := by simpa using hne
  simp only [this, Bool.false_eq_true, if_false, Animator.switchTo, hres] at h
  obtain ⟨_, _, h3, _, _⟩ := updateValues_spec _ a' h
  obtain ⟨_, _, _, _, n5⟩ := notePause_spec a s
  obtain ⟨_, _, b3, _, _, _⟩ := blendNext_spec (a.notePause s) s
  rw [h3]
  show ((a.notePause s).blendNext s).paused = _
  rw [b3, n5]; simp [hwill]

/-- … and a remembered pause for another state only exists while the current state is un-animated
(part of the invariant, over any history) -/
theorem pause_only_while_unanimated (P : List (Val α) → Prop) (timelines : List (Option (Merged α))) (s0 : Nat) (v0 : List (Val α))
    (hlen : P v0) (hblend : ∀ m, some m ∈ timelines → C04.TlOK P m)
    (ops : List (AnimOp α)) (a : Animator α) (hrun : (Animator.new timelines s0 v0).run ops = .ok a)
    (ps pos : Nat) (hp : a.paused = some (ps, pos)) (hne : ps ≠ a.state) : a.timeline? a.state = none :=
  ((C04.good_run P _ a ops (C04.good_initial P timelines s0 v0 hlen hblend) hrun).inv.paused ps pos hp hne).1

end C05
