import MinaProofs.Lemmas.Prepare
import MinaProofs.Props.C01
/-!
# C10 — A substituted start value only affects the first forward pass

Model: `start_with` = `Timeline.startWith` / `SubTl.overrideStart`; `prepare_frame` enables the
override only while the position is `NotStarted` or `Active` on the first forward pass.

Proved in full generality: the twin identity whenever the override is disabled (reverse pass, later
cycles, after the end) — generic in the number system; the characterisation of when it is disabled;
that beyond the first segment the value does not depend on the substituted value even when enabled.
Proved under the explicit hypothesis that no other keyframe defines the property at 0 %
(`NoDupAtZero`, as a statement about the frames) and for endpoint-fixing easings: up to the delay the
value is exactly `v`. The full statement without that hypothesis is false of the code (two 0 % keyframes
for one property): `start_value_refuted_dup_zero` (known finding F-C10).
-/
namespace C10
open Spec

section generic
variable {α : Type} [Num α]

/-- during a reverse pass, in every later cycle and after the end (= whenever `prepare_frame` disables the
override) a timeline and its `start_with` twin produce identical results -/
theorem twin_when_override_disabled (tl : Timeline α) (v tgt : List (Val α)) (time : α)
    (t : α) (idx : Nat) (hp : prepareFrame tl.ts tl.boundary time = some (t, idx, false)) :
    (tl.startWith v).update tgt time = tl.update tgt time := by
  unfold Timeline.update
  have : prepareFrame (tl.startWith v).ts (tl.startWith v).boundary time = some (t, idx, false) := hp
  rw [this, hp]
  simp only [Timeline.startWith]
  generalize tl.subs = subs
  induction subs generalizing tgt with
  | nil => rfl
  | cons p rest ih =>
    obtain ⟨i, s⟩ := p
    simp only [List.map_cons, applySubs]
    cases hvi : v[i]? with
    | none =>
      simp only [applySubs]
      cases s.valueAt t idx false with
      | none => exact ih tgt
      | some r => cases r with
        | ok w => exact ih _
        | error e => rfl
    | some w =>
      simp only [applySubs, overrideStart_valueAt_false]
      cases s.valueAt t idx false with
      | none => exact ih tgt
      | some r => cases r with
        | ok w => exact ih _
        | error e => rfl

end generic

/-- when the override is disabled, stated on positions -/
theorem override_disabled_phases (p : Pos ℚ) :
    (posOvr p).2 = false ↔ (∃ t rep rev, p = .active t rep rev ∧ (rep = true ∨ rev = true)) ∨ (∃ t, p = .ended t) :=
  override_disabled_iff p

/-- even while the override is enabled, `v` only influences the stretch from 0 % to the property's next
frame: on every later segment the value is that of the un-substituted twin -/
theorem only_first_segment (ks : List (PKeyframe ℚ)) (hok : KfOK ks) (d : Val ℚ) (e0 : Easing)
    (hdata : cssReals ks e0 ≠ []) (v : Val ℚ) (s : ℚ) (hs0 : 0 ≤ s) (hs1 : s ≤ 1)
    (idx : Nat) (hidx : HintOK ks s idx)
    (m : Nat) (hm : 1 ≤ m) (f g : Frame ℚ) (hf : (cssFrames ks d e0)[m]? = some f) (hg : (cssFrames ks d e0)[m + 1]? = some g)
    (hlt : f.time < s) (hgt : s < g.time) :
    (builtSub ks d e0 (some v)).valueAt s idx true = (builtSub ks d e0 none).valueAt s idx true := by
  rw [C01.interpolation ks hok d e0 hdata (some v) true s hs0 hs1 idx hidx m f g hf hg hlt hgt,
      C01.interpolation ks hok d e0 hdata none true s hs0 hs1 idx hidx m f g hf hg hlt hgt]
  have : ∀ sub : SubTl ℚ, gFrame sub m true f = f := by
    intro sub; unfold gFrame
    have : (true && m == 0) = false := by simp; omega
    rw [this]; rfl
  rw [this, this]

/-- up to the delay (position 0 %, override enabled) the value is exactly the substituted `v` — provided
no second keyframe defines the property at 0 % (the frame after frame 0 is at a positive position) -/
theorem start_value_until_delay (ks : List (PKeyframe ℚ)) (hok : KfOK ks) (d : Val ℚ) (e0 : Easing)
    (hdata : cssReals ks e0 ≠ []) (v : Val ℚ) (idx : Nat) (hidx : HintOK ks 0 idx)
    (S : Val ℚ → Prop) (hS : Lerpable S)
    (hSf : ∀ f ∈ (builtSub ks d e0 (some v)).frames, S f.value ∧ FixesEnds f.easing) (hSv : S v)
    (hnodup : ∀ f1, (cssFrames ks d e0)[1]? = some f1 → 0 < f1.time) :
    (builtSub ks d e0 (some v)).valueAt 0 idx true = some (.ok v) := by
  obtain ⟨hfr, _⟩ := builtSub_frames ks d e0 (some v)
  obtain ⟨hsorted, hbnd⟩ := frames_sorted ks hok d e0
  have hcss := frames_eq_css ks hok d e0
  -- frame 0 exists and sits at position 0: every bracket the lookup returns at s = 0 starts at a frame
  -- with time ≤ 0, frames are sorted and non-negative
  have hex : ∃ (m : Nat) (f : Frame ℚ), (SubTl.fromKeyframes ks d e0).frames[m]? = some f ∧ f.time ≤ 0 := by
    cases valueAt_bracket ks hok d e0 hdata (some v) 0 le_rfl zero_le_one idx hidx true with
    | seg m f g hf _ h1 _ _ => exact ⟨m, f, by rw [← hfr]; exact hf, h1⟩
    | last m f hf _ h1 _ => exact ⟨m, f, by rw [← hfr]; exact hf, h1⟩
  obtain ⟨m, f, hf, hft⟩ := hex
  obtain ⟨hm, rfl⟩ := List.getElem?_eq_some_iff.1 hf
  have hlen : 0 < (SubTl.fromKeyframes ks d e0).frames.length := by omega
  set f0 := (SubTl.fromKeyframes ks d e0).frames[0] with hf0def
  have hf0 : (builtSub ks d e0 (some v)).frames[0]? = some f0 := by rw [hfr]; exact List.getElem?_eq_getElem hlen
  have hf0t : f0.time = 0 := by
    have h0 := (hbnd f0 (List.getElem_mem hlen)).1
    have hmono : f0.time ≤ (SubTl.fromKeyframes ks d e0).frames[m].time := by
      rcases Nat.eq_zero_or_pos m with rfl | hpos
      · exact le_rfl
      · exact List.pairwise_iff_getElem.1 hsorted 0 m hlen hm hpos
    linarith
  have key := value_at_frame_time ks hok d e0 hdata (some v) true 0 le_rfl zero_le_one idx hidx S hS hSf
    (by intro w hw; simp only [Option.some.injEq] at hw; subst hw; exact hSv) 0 f0 hf0 hf0t
    (by
      intro i f hf ht
      by_contra hi
      have hi' : 1 ≤ i := Nat.one_le_iff_ne_zero.2 hi
      rw [hfr] at hf
      obtain ⟨him, rfl⟩ := List.getElem?_eq_some_iff.1 hf
      have h1lt : 1 < (SubTl.fromKeyframes ks d e0).frames.length := by omega
      have hpos := hnodup ((SubTl.fromKeyframes ks d e0).frames[1]) (by rw [← hcss]; exact List.getElem?_eq_getElem h1lt)
      have : (SubTl.fromKeyframes ks d e0).frames[1].time ≤ (SubTl.fromKeyframes ks d e0).frames[i].time := by
        rcases Nat.lt_or_eq_of_le hi' with h | h
        · exact List.pairwise_iff_getElem.1 hsorted 1 i h1lt him h
        · subst h; exact le_rfl
      linarith)
  rw [key]
  -- the frame the lookup sees at index 0 is the override frame, whose value is v
  have : (gFrame (builtSub ks d e0 (some v)) 0 true f0).value = v := by
    unfold gFrame
    simp only [Bool.and_self, beq_self_eq_true, if_true]
    have : (builtSub ks d e0 (some v)).startOverride = some ⟨f0.time, v, f0.easing⟩ := by
      have hh : (SubTl.fromKeyframes ks d e0).frames.head? = some f0 := by
        rw [List.head?_eq_getElem?]; exact List.getElem?_eq_getElem hlen
      simp only [builtSub, SubTl.overrideStart, hh]
    rw [this]
  rw [this]

/-- The full statement ("for all timelines") is false of the code: with two 0 % keyframes defining the
property (values 10 and 20), `start_with(5)` and a time before the delay produce 20, not 5. -/
theorem start_value_refuted_dup_zero :
    let ks : List (PKeyframe ℚ) := [⟨0, some (.num 10), none⟩, ⟨0, some (.num 20), none⟩, ⟨1, some (.num 30), none⟩]
    (match (builtSub ks (.num 0) Easing.default (some (.num 5))).valueAt 0 (searchIdx (ks.map (·.time)) 0) true with
      | some (.ok (.num x)) => decide (x = 20)
      | _ => false) = true := by
  decide +kernel

end C10
