import MinaProofs.Lemmas.Prepare
import MinaProofs.Props.C01
/-!
# C02 — Keyframe, start and end values are reached exactly and then held

Model at ℚ. Ingredients: the lookup theorem (`value_at_frame_time`), C13 (built-in easings fix 0 and 1),
C14 (lerp is exact at 0 and 1, integers included), C03 (where the position is at which time).
-/
namespace C02
open Spec

/-- **A keyframe's value is reached exactly.** When the position coincides with a frame `F[j]` of the
property (a keyframe defining it, or the synthetic 0 % / 100 % frame) and no other frame sits at that
position, the produced value *is* that frame's value (the substituted start value for frame 0 while the
override is enabled) — for every admissible search result, for floats and for integers in range. -/
theorem keyframe_value_reached (ks : List (PKeyframe ℚ)) (hok : KfOK ks) (d : Val ℚ) (e0 : Easing)
    (hdata : cssReals ks e0 ≠ []) (ov : Option (Val ℚ)) (ovr : Bool) (s : ℚ) (hs0 : 0 ≤ s) (hs1 : s ≤ 1)
    (idx : Nat) (hidx : HintOK ks s idx)
    (S : Val ℚ → Prop) (hS : Lerpable S)
    (hSf : ∀ f ∈ (builtSub ks d e0 ov).frames, S f.value ∧ FixesEnds f.easing) (hSo : ∀ v, ov = some v → S v)
    (j : Nat) (fj : Frame ℚ) (hj : (builtSub ks d e0 ov).frames[j]? = some fj) (hsj : fj.time = s)
    (huniq : ∀ i f, (builtSub ks d e0 ov).frames[i]? = some f → f.time = s → i = j) :
    (builtSub ks d e0 ov).valueAt s idx ovr = some (.ok (gFrame (builtSub ks d e0 ov) j ovr fj).value) :=
  value_at_frame_time ks hok d e0 hdata ov ovr s hs0 hs1 idx hidx S hS hSf hSo j fj hj hsj huniq

/-- the hypotheses on values and easings are met by floats, by integers of one kind within its range,
and by every built-in easing -/
theorem hypotheses_satisfiable :
    Lerpable (fun v => ∃ x, v = .num x) ∧
    (∀ k : Gen.IntKind, Lerpable (fun v => ∃ n, v = .int k n ∧ k.lo ≤ n ∧ n ≤ k.hi)) ∧
    (∀ id : Gen.EasingId, FixesEnds (.builtin id)) :=
  ⟨lerpable_num, lerpable_int, builtin_fixesEnds⟩

/-- at any time up to the delay the position is 0 % (and the start override is enabled) -/
theorem zero_percent_until_delay (ts : TimeScale ℚ) (hd : 0 < ts.duration) (t : ℚ) (ht : t ≤ ts.delay) :
    posOvr (ts.position t) = (0, true) := by
  rcases lt_or_eq_of_le ht with hlt | heq
  · have := (C03.not_started_iff ts t).2 hlt
    cases hp : ts.position t with
    | notStarted => rfl
    | active _ _ _ => rw [hp] at this; simp [Pos.isNotStarted] at this
    | ended _ => rw [hp] at this; simp [Pos.isNotStarted] at this
  · subst heq
    have h0 : (fmod (0 : ℚ) ts.duration : ℚ) = 0 := by
      rw [fmod_nonneg le_rfl hd]; simp
    have hcp : ∀ b, ts.cyclePos 0 b = .active 0 b false := by
      intro b
      unfold TimeScale.cyclePos
      simp only [zero_div, lit_rat]
      split
      · norm_num
      · rfl
    unfold TimeScale.position
    simp only [sub_self, lit_rat, Nat.cast_zero, lt_self_iff_false, if_false]
    have hloop : ts.loopPos 0 = .active 0 false false := by
      unfold TimeScale.loopPos
      simp only [h0, zero_div, lit_rat, Nat.cast_zero, Nat.cast_one]
      norm_num
      exact hcp false
    cases ts.repeat_ with
    | none =>
      simp only [if_neg (not_lt.2 hd.le), hcp]; rfl
    | times n =>
      have : ¬ ts.duration * ((n + 1 : Nat) : ℚ) < 0 := by
        have : (0 : ℚ) < ((n + 1 : Nat) : ℚ) := by positivity
        nlinarith
      simp only [if_neg this, hloop]; rfl
    | infinite => simp only [hloop]; rfl

/-- at the end of every forward pass the 100 % position is shown (0 % at the end of a reverse pass): the
position never wraps to 0 % before the end value has been shown -/
theorem end_of_each_pass (ts : TimeScale ℚ) (hd : 0 < ts.duration) (hr : ts.repeat_ ≠ .none) (k : Nat) (hk : 1 ≤ k)
    (hne : (ts.position (ts.delay + ts.duration * k)).isEnded = false) :
    (ts.position (ts.delay + ts.duration * k)).value = if ts.reverse then 0 else 1 :=
  C03.hold_at_cycle_end ts hd hr k hk hne

/-- after the total duration the position is terminal — 100 %, or the original 0 % for reversing
timelines — the override is off, and nothing depends on the time any more -/
theorem after_end_constant (tl : Timeline ℚ) (hne : tl.boundary ≠ []) (T : ℚ) (hT : tl.ts.totalDuration = some T)
    (t1 t2 : ℚ) (h1 : T < t1) (h2 : T < t2) (hdelay : tl.ts.delay ≤ T) (tgt : List (Val ℚ)) :
    tl.update tgt t1 = tl.update tgt t2 ∧
    prepareFrame tl.ts tl.boundary t1 =
      some ((if tl.ts.reverse then 0 else 1), searchIdx tl.boundary (if tl.ts.reverse then 0 else 1), false) := by
  have hend : ∀ t, T < t → posOvr (tl.ts.position t) = ((if tl.ts.reverse then 0 else 1), false) := by
    intro t ht
    have he : (tl.ts.position t).isEnded = true :=
      (C03.metadata_agrees tl.ts t (by linarith)).2 ⟨T, hT, ht⟩
    have hv := C03.ended_value tl.ts t he
    cases hp : tl.ts.position t with
    | notStarted => rw [hp] at he; simp [Pos.isEnded] at he
    | active _ _ _ => rw [hp] at he; simp [Pos.isEnded] at he
    | ended x =>
      rw [hp] at hv
      simp only [Pos.value] at hv
      simp only [posOvr, hv]
  have e1 := hend t1 h1
  have e2 := hend t2 h2
  constructor
  · unfold Timeline.update
    rw [prepareFrame_eq _ _ hne, prepareFrame_eq _ _ hne, e1, e2]
  · rw [prepareFrame_eq _ _ hne, e1]

/-- exactly at the total duration the position already equals the terminal one (the code is still
`Active` there) -/
theorem at_total_position (ts : TimeScale ℚ) (hd : 0 < ts.duration) (T : ℚ) (hT : ts.totalDuration = some T) :
    (ts.position T).value = if ts.reverse then 0 else 1 := by
  rw [C03.total_duration] at hT
  cases hr : ts.repeat_ with
  | infinite => rw [hr] at hT; simp at hT
  | none =>
    rw [hr] at hT; simp only [Option.some.injEq] at hT; subst hT
    have hne : (ts.position (ts.delay + ts.duration * 1)).isEnded = false := by
      cases he : (ts.position (ts.delay + ts.duration * 1)).isEnded with
      | false => rfl
      | true => have := (C03.ended_iff ts _).1 he; rw [hr] at this; simp at this
    rw [C03.active_value ts _ (by nlinarith) hne, hr]
    simp only [add_sub_cancel_left, mul_one, div_self hd.ne', tri]
    split <;> norm_num
  | times n =>
    rw [hr] at hT; simp only [Option.some.injEq] at hT; subst hT
    have hcast : ts.delay + ts.duration * ((n : ℚ) + 1) = ts.delay + ts.duration * ((n + 1 : Nat) : ℚ) := by push_cast; ring
    rw [hcast]
    apply C03.hold_at_cycle_end ts hd (by rw [hr]; simp) (n + 1) (by omega)
    cases he : (ts.position (ts.delay + ts.duration * ((n + 1 : Nat) : ℚ))).isEnded with
    | false => rfl
    | true =>
      have := (C03.ended_iff ts _).1 he
      rw [hr] at this
      simp only [add_sub_cancel_left] at this
      push_cast at this
      linarith [this.2]

end C02
