import MinaProofs.Props.C13Rounded
import MinaProofs.Props.C14Rounded
import MinaModel.SubTimeline
/-!
# C02 under every faithful rounding: keyframe values are reached *exactly*

`interpolate` (the model of `interpolate_value`) at the position of the segment's starting keyframe returns that
keyframe's value, and at the position of its ending keyframe the ending value — exactly, for float and integer
properties, for every built-in easing, under any faithful rounding.  The chain is: `(t − t₀)/d` rounds to exactly 0
(resp. `d/d` to exactly 1), the easing fixes 0 and 1 exactly (C13Rounded), and `a·(1−x)+b·x` returns the endpoint
exactly (C14Rounded).  Together with the lookup theorem (`C02.keyframe_value_reached`, which says *which* segment is
used) this is the "exactly for integers, to within a few ulps for floats" clause with zero ulps.
-/

namespace C02
variable {ρ : ℚ → ℚ}

/-- a value whose float (or integer magnitude) is representable -/
def ValRep : Val (Rd ρ) → Prop
  | .num x => x.Rep
  | .int k n => ρ (n.natAbs : ℚ) = (n.natAbs : ℚ) ∧ k.lo ≤ n ∧ n ≤ k.hi

/-- both values are floats, or integers of the same primitive kind (what a typed struct field guarantees) -/
def SameKind : Val (Rd ρ) → Val (Rd ρ) → Prop
  | .num _, .num _ => True
  | .int k _, .int k' _ => k = k'
  | _, _ => False

theorem val_lerp_zero (F : Faithful ρ) (a b : Val (Rd ρ)) (x : Rd ρ) (hx : x.val = 0) (ha : ValRep a)
    (hk : SameKind a b) : a.lerp b x = .ok a := by
  cases a <;> cases b <;> simp only [SameKind] at hk
  · simp only [Val.lerp, C14.lerp_at_zero_any_rounding F _ _ _ ha hx]
  · subst hk
    simp only [Val.lerp, beq_self_eq_true, if_true, C14.lerpInt_at_zero_any_rounding F _ _ _ _ hx ha.1 ha.2]
    rfl

theorem val_lerp_one (F : Faithful ρ) (a b : Val (Rd ρ)) (x : Rd ρ) (hx : x.val = 1) (hb : ValRep b)
    (hk : SameKind a b) : a.lerp b x = .ok b := by
  cases a <;> cases b <;> simp only [SameKind] at hk
  · simp only [Val.lerp, C14.lerp_at_one_any_rounding F _ _ _ hb hx]
  · subst hk
    simp only [Val.lerp, beq_self_eq_true, if_true, C14.lerpInt_at_one_any_rounding F _ _ _ _ hx hb.1 hb.2]
    rfl

/-- at the starting keyframe's position the segment yields the starting value exactly -/
theorem interpolate_at_start_any_rounding (F : Faithful ρ) (a b : Frame (Rd ρ)) (t : Rd ρ) (ht : t.val = a.time.val)
    (id : Gen.EasingId) (he : a.easing = .builtin id) (ha : ValRep a.value) (hk : SameKind a.value b.value) :
    interpolate a b t = .ok a.value := by
  unfold interpolate
  dsimp only
  split
  · rfl
  · apply val_lerp_zero F _ _ _ _ ha hk
    rw [he]
    apply C13.ease_zero_any_rounding F
    simp only [Rd.div_val, Rd.sub_val, ht, sub_self, F.zero, zero_div]

/-- at the ending keyframe's position the segment yields the ending value exactly -/
theorem interpolate_at_end_any_rounding (F : Faithful ρ) (a b : Frame (Rd ρ)) (t : Rd ρ) (ht : t.val = b.time.val)
    (id : Gen.EasingId) (he : a.easing = .builtin id) (hb : ValRep b.value) (hk : SameKind a.value b.value)
    (hd : ρ (b.time.val - a.time.val) ≠ 0) :
    interpolate a b t = .ok b.value := by
  unfold interpolate
  dsimp only
  split
  · rename_i h
    rw [Rd.beq_iff, Rd.sub_val, Rd.lit_val, Nat.cast_zero, F.zero] at h
    exact absurd h hd
  · apply val_lerp_one F _ _ _ _ hb hk
    rw [he]
    apply C13.ease_one_any_rounding F
    simp only [Rd.div_val, Rd.sub_val, ht, div_self hd, F.one]

end C02
