import MinaModel.TimeScale
/-!
# C18 / C07 — the end boundary in IEEE binary32 (findings F-C18b, F-C07b)

The theorems of C18, C07 and C03 are about exact arithmetic. On the *same model term* evaluated at core
Lean's `Float32` (kernel evaluation, no `native_decide`) the two end tests the code uses disagree at the
reported end of a timeline whose timings do not add exactly: "finished" is `t ≥ delay + duration·(n+1)`
(`is_ended`, bevy `animate`), "terminal" is `t − delay > duration·(n+1)` (`TimeScale::get_position`).
These are the witnesses replayed on the implementation by `corpus/C18/f-c18b-*.ops`.
-/
namespace C18

/-- duration 0.05 s, delay 0.1 s, `Repeat::Times(2)`, not reversing -/
def wrapTs : TimeScale Float32 := ⟨dec 1 1, dec 5 2, .times 2, false⟩

/-- at `t = 0.25 = duration()` the timeline is "finished" (`t ≥ duration()`), yet the position is *not* terminal:
it is the beginning (< 0.001) of a further, repeating cycle — the component snaps to the first keyframe -/
theorem end_boundary_wraps_f32 :
    (match wrapTs.totalDuration with | some d => decide (d ≤ dec 25 2) | none => false) = true ∧
    (match wrapTs.position (dec 25 2) with | .active t true false => decide (t < dec 1 3) | _ => false) = true := by
  decide +kernel

/-- duration 0.001 s, delay 0.5 s, no repeat, reversing -/
def shortTs : TimeScale Float32 := ⟨dec 5 1, dec 1 3, .none, true⟩

/-- at `t = 0.501 = duration()` the timeline is "finished", yet the position is still on the reversing half,
strictly above the terminal 0 -/
theorem end_boundary_short_f32 :
    (match shortTs.totalDuration with | some d => decide (d ≤ dec 501 3) | none => false) = true ∧
    (match shortTs.position (dec 501 3) with | .active t false true => decide (lit 0 < t) | _ => false) = true := by
  decide +kernel

/-- … while with timings that add exactly (duration 0.5 s, delay 0.25 s, `Times(2)`) the position at
`t = duration()` is the held end of the last cycle, as in exact arithmetic (`C03.hold_at_cycle_end`) -/
theorem end_boundary_exact_f32 :
    let ts : TimeScale Float32 := ⟨dec 25 2, dec 5 1, .times 2, false⟩
    (match ts.totalDuration with | some d => d.toBits == (dec 175 2 : Float32).toBits | none => false) = true ∧
    (match ts.position (dec 175 2) with | .active t _ false => t.toBits == (lit 1 : Float32).toBits | _ => false) = true := by
  decide +kernel

end C18
