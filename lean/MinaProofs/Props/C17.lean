import MinaProofs.Props.C08
import MinaModel.Macro.Derive
/-!
# C17 — `derive(Animate)` yields a correct timeline API for every struct shape

Model: `MinaModel/Macro/Derive.lean` — `expandDerive` from a struct shape (any number of fields, any
types, any subset marked `#[animate]`, any visibility, optional `#[animate(remote = "…")]`) to a
description of the generated API. The generated `update` is `applySubs` over the animated fields, i.e.
`Timeline.build` with exactly these fields, so it evaluates per C01 and leaves every other field alone
(C08); the accessors are the time-scale getters of C03.`metadata_as_configured`.
-/
namespace C17

/-- the animated fields are the marked ones, or all of them when none is marked -/
theorem anim_fields_rule (fields : List DField) :
    (fields.any (·.animate) = true → animFields fields = fields.filter (·.animate)) ∧
    (fields.any (·.animate) = false → animFields fields = fields) := by
  unfold animFields
  constructor
  · intro h
    have : (fields.filter (·.animate)).isEmpty = false := by
      obtain ⟨f, hf, ha⟩ := List.any_eq_true.1 h
      cases hfl : fields.filter (·.animate) with
      | nil => have := List.mem_filter.2 ⟨hf, ha⟩; rw [hfl] at this; simp at this
      | cons _ _ => rfl
    simp [this]
  · intro h
    have : fields.filter (·.animate) = [] := by
      rw [List.filter_eq_nil_iff]
      intro f hf
      have := List.any_eq_false.1 h f hf
      simpa using this
    simp [this]

/-- animated fields are always a sub-list of the struct's fields, in declaration order -/
theorem anim_fields_sublist (fields : List DField) : (animFields fields).Sublist fields := by
  unfold animFields
  dsimp only
  split
  · exact List.Sublist.refl _
  · exact List.filter_sublist

section output
variable (inp : DeriveInput) (out : DeriveOutput) (h : expandDerive inp = .ok out)
include h

/-- the generated keyframe builder has exactly one setter per animated field; `keyframe_from` copies
exactly the animated fields of the given value, and so does `values_from`; `update` can assign, and
`start_with` override, exactly those fields -/
theorem one_setter_per_animated_field :
    out.setters = (animFields inp.fields).map (·.name) ∧
    out.keyframeFromCopies = (animFields inp.fields).map (·.name) ∧
    out.valuesFromCopies = (animFields inp.fields).map (·.name) ∧
    out.updateAssigns = (animFields inp.fields).map (·.name) ∧
    out.startAssigns = (animFields inp.fields).map (·.name) ∧
    out.animated = (animFields inp.fields).map fun f => (f.name, f.ty) := by
  unfold expandDerive at h
  split at h <;> try (simp at h)
  split at h
  · simp at h
  · simp only [Except.ok.injEq] at h; subst h; exact ⟨rfl, rfl, rfl, rfl, rfl, rfl⟩

/-- a field that is not animated gets no setter, is not copied, and is never assigned by `update` -/
theorem excluded_field_untouched (f : DField) (hf : f ∈ inp.fields) (hex : f ∉ animFields inp.fields)
    (hnames : (inp.fields.map (·.name)).Nodup) :
    f.name ∉ out.setters ∧ f.name ∉ out.updateAssigns ∧ f.name ∉ out.keyframeFromCopies := by
  obtain ⟨h1, h2, _, h4, _, _⟩ := one_setter_per_animated_field inp out h
  have key : f.name ∉ (animFields inp.fields).map (·.name) := by
    intro hmem
    obtain ⟨g, hg, hgn⟩ := List.mem_map.1 hmem
    have hg' : g ∈ inp.fields := (anim_fields_sublist inp.fields).subset hg
    have : g = f := by
      -- distinct field names: same name, same field
      have := List.inj_on_of_nodup_map hnames hg' hf hgn
      exact this
    exact hex (this ▸ hg)
  rw [h1, h4, h2]; exact ⟨key, key, key⟩

/-- names of the generated items, and the remote target: `#[animate(remote = "a::b::T")]` makes `T` the
`Timeline::Target` (and the type `keyframe_from` reads), names the items `T…`, and emits the dead-code
guard; without it the struct itself is the target -/
theorem generated_names :
    ∃ remote, applyAttrs inp.attrs none = .ok remote ∧ out.remotePath = remote.getD inp.name ∧
      (let rn := match remote with | some p => lastSegment p | none => inp.name
       out.timelineName = rn ++ "Timeline" ∧ out.dataName = rn ++ "KeyframeData" ∧
       out.builderName = rn ++ "KeyframeBuilder" ∧ out.fakeAccess = (inp.name != rn)) ∧
      out.targetName = inp.name ∧ out.vis = inp.vis := by
  unfold expandDerive at h
  split at h <;> try (simp at h)
  split at h
  · simp at h
  · rename_i remote hr
    simp only [Except.ok.injEq] at h; subst h
    exact ⟨remote, hr, rfl, ⟨rfl, rfl, rfl, rfl⟩, rfl, rfl⟩

end output

/-- only structs with named fields are supported; unknown struct-level attributes are refused -/
theorem unsupported_rejected (inp : DeriveInput) :
    (inp.kind ≠ .named → ∃ e, expandDerive inp = .error e) ∧
    (∀ a ∈ inp.attrs, a.name ≠ "remote" → inp.kind = .named → ∃ e, expandDerive inp = .error e) := by
  constructor
  · intro hk
    unfold expandDerive
    cases hkind : inp.kind <;> first | exact absurd hkind hk | exact ⟨_, rfl⟩
  · intro a ha hne hk
    unfold expandDerive
    rw [hk]
    simp only
    have : ∀ (l : List AnimAttr) (cur : Option String), a ∈ l → ∃ e, applyAttrs l cur = .error e := by
      intro l
      induction l with
      | nil => intro _ h; simp at h
      | cons b rest ih =>
        intro cur hmem
        simp only [applyAttrs]
        by_cases hb : (b.name == "remote") = true
        · rw [if_pos hb]
          by_cases hs : b.isString = true
          · rw [if_pos hs]
            rcases List.mem_cons.1 hmem with rfl | hrest
            · exact absurd (by simpa using hb) hne
            · exact ih _ hrest
          · rw [if_neg hs]; exact ⟨_, rfl⟩
        · rw [if_neg hb]; exact ⟨_, rfl⟩
    obtain ⟨e, he⟩ := this inp.attrs none ha
    rw [he]; exact ⟨_, rfl⟩

/-- the generated `update` is `applySubs` over the animated fields: built with `Timeline.build` from
exactly those fields, a field outside the list is never modified (C08), for every time and phase -/
theorem generated_update_touches_only_animated {α : Type} [Num α] (animated : List (AnimField α)) (cfg : Config α)
    (target res : List (Val α)) (time : α) (h : (Timeline.build animated cfg).update target time = .ok res)
    (i : Nat) (hi : i ∉ animated.map (·.idx)) : res[i]? = target[i]? := by
  apply C08.update_untouched _ _ _ _ h
  rw [C08.build_animated_indices]; exact hi

/-! Non-vacuity: a struct with a marked subset (the shape `Q5` of the harness). -/
example : expandDerive ⟨"Q5", "pub", .named,
      [⟨"a", "f32", true⟩, ⟨"b", "f32", false⟩, ⟨"c", "u8", true⟩, ⟨"d", "i32", false⟩, ⟨"e", "f64", true⟩], []⟩ =
    .ok { targetName := "Q5", remotePath := "Q5", timelineName := "Q5" ++ "Timeline", dataName := "Q5" ++ "KeyframeData",
          builderName := "Q5" ++ "KeyframeBuilder", vis := "pub", animated := [("a", "f32"), ("c", "u8"), ("e", "f64")],
          setters := ["a", "c", "e"], keyframeFromCopies := ["a", "c", "e"], valuesFromCopies := ["a", "c", "e"],
          updateAssigns := ["a", "c", "e"], startAssigns := ["a", "c", "e"], fakeAccess := ("Q5" != "Q5") } := by
  rfl

end C17
