import MinaProofs.Props.C03Rounded
import MinaProofs.Lemmas.Rne
/-!
# C03 for binary32's own rounding

`rne24` is round-to-nearest-even with 24 significant bits and unbounded exponent — the rounding binary32 applies to
every result in its normal range — and `Faithful.rne24` proves it faithful.  So the `…_any_rounding` theorem holds
for it outright, with no hypothesis about the rounding left.
-/
namespace C03

/-- **in binary32 arithmetic (every operation correctly rounded to nearest-even, normal range) the position lies in
[0,1]** for every repeat / reverse shape, delay and time -/
theorem pos_in_unit_binary32 (ts : TimeScale (Rd rne24)) (hd : 0 < ts.duration.val) (hdr : ts.duration.Rep) (t : Rd rne24) :
    0 ≤ valR (ts.position t) ∧ valR (ts.position t) ≤ 1 :=
  pos_in_unit_any_rounding Faithful.rne24 ts hd hdr t

/-- non-vacuity: 0.3 is not representable, its rounding is; delayed, reversing, infinitely repeating -/
example : let d : Rd rne24 := ⟨rne24 (3 / 10)⟩
    let ts : TimeScale (Rd rne24) := ⟨⟨rne24 (1 / 3)⟩, d, .infinite, true⟩
    0 ≤ valR (ts.position ⟨77 / 3⟩) ∧ valR (ts.position ⟨77 / 3⟩) ≤ 1 := by
  intro d ts
  refine pos_in_unit_binary32 ts ?_ (rne24_idem _) _
  exact rne24_pos (by norm_num)

end C03
