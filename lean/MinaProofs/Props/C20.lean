import MinaProofs.Props.C07
/-!
# C20 — Valid configurations never panic or produce non-finite values

The model returns `Except Panic _` at every point where the Rust code can panic (checked integer
conversion, `Duration::from_secs_f32`, `Duration +=`); the `u32` addition of the unrepaired code is gone
(fix f18722c). Theorems: where each of those is `.ok`.

What a theorem about the model cannot exhibit: optimiser- or target-dependent float behaviour (FMA
contraction, x87) and the debug-vs-release difference itself — those are covered by running every suite
against both build profiles and requiring identical output (correspondence part of this check).
-/
namespace C20

section generic
variable {α : Type} [Num α]

def isNum : Val α → Prop
  | .num _ => True
  | .int _ _ => False

/-- float interpolation cannot panic -/
theorem interpolate_num_ok (a b : Frame α) (t : α) (ha : isNum a.value) (hb : isNum b.value) :
    ∃ v, interpolate a b t = .ok v ∧ isNum v := by
  unfold interpolate
  dsimp only
  split
  · exact ⟨a.value, rfl, ha⟩
  · cases hav : a.value with
    | int k n => rw [hav] at ha; exact ha.elim
    | num x =>
      cases hbv : b.value with
      | int k n => rw [hbv] at hb; exact hb.elim
      | num y => exact ⟨_, rfl, trivial⟩

/-- a float-valued property never panics in `value_at`, whatever the position, hint and override flag -/
theorem valueAt_num_ok (s : SubTl α) (t : α) (idx : Nat) (ovr : Bool)
    (hf : ∀ f ∈ s.frames, isNum f.value) (ho : ∀ f, s.startOverride = some f → isNum f.value) :
    s.valueAt t idx ovr = none ∨ ∃ v, s.valueAt t idx ovr = some (.ok v) ∧ isNum v := by
  have hget : ∀ i f, s.getFrame i ovr = some f → isNum f.value := by
    intro i f h
    unfold SubTl.getFrame at h
    split at h
    · split at h
      · simp only [Option.some.injEq] at h; subst h; exact ho _ ‹_›
      · exact hf f (List.mem_of_getElem? h)
    · exact hf f (List.mem_of_getElem? h)
  unfold SubTl.valueAt
  split
  · exact Or.inl rfl
  · cases hb : s.boundingFrames (clamp01 t) idx ovr with
    | none => left; simp only [hb]
    | some p =>
      obtain ⟨a, b⟩ := p
      right
      have hab : isNum a.value ∧ isNum b.value := by
        unfold SubTl.boundingFrames at hb
        split at hb
        · simp at hb
        · split at hb
          · simp at hb
          · rename_i i _ fa hfa
            split at hb
            · split at hb
              · split at hb
                · rename_i p hp
                  simp only [Option.some.injEq, Prod.mk.injEq] at hb
                  rw [← hb.1, ← hb.2]; exact ⟨hget _ _ hp, hget _ _ hfa⟩
                · simp at hb
              · simp at hb
            · split at hb
              · simp only [Option.some.injEq, Prod.mk.injEq] at hb
                rw [← hb.1, ← hb.2]; exact ⟨hget _ _ hfa, hget _ _ hfa⟩
              · split at hb
                · rename_i nx hnx
                  simp only [Option.some.injEq, Prod.mk.injEq] at hb
                  rw [← hb.1, ← hb.2]; exact ⟨hget _ _ hfa, hf nx (List.mem_of_getElem? hnx)⟩
                · simp at hb
      obtain ⟨v, hv, hn⟩ := interpolate_num_ok a b (clamp01 t) hab.1 hab.2
      exact ⟨v, by simp only [hb, hv], hn⟩

/-- hence evaluating a timeline whose animated properties are all float-valued never panics -/
theorem update_never_panics_float (tl : Timeline α) (tgt : List (Val α)) (time : α)
    (h : ∀ p ∈ tl.subs, (∀ f ∈ p.2.frames, isNum f.value) ∧ (∀ f, p.2.startOverride = some f → isNum f.value)) :
    ∃ r, tl.update tgt time = .ok r := by
  unfold Timeline.update
  split
  · exact ⟨tgt, rfl⟩
  · rename_i t idx ovr _
    generalize tl.subs = subs at h
    induction subs generalizing tgt with
    | nil => exact ⟨tgt, rfl⟩
    | cons p rest ih =>
      obtain ⟨i, s⟩ := p
      simp only [applySubs]
      have hrest : ∀ q ∈ rest, (∀ f ∈ q.2.frames, isNum f.value) ∧ (∀ f, q.2.startOverride = some f → isNum f.value) :=
        fun q hq => h q (by simp [hq])
      rcases valueAt_num_ok s t idx ovr (h (i, s) (by simp)).1 (h (i, s) (by simp)).2 with hn | ⟨v, hv, _⟩
      · rw [hn]; exact ih tgt hrest
      · rw [hv]; exact ih _ hrest

end generic

/-- integer properties: inside a segment, with a non-overshooting built-in easing and both end values
inside the type's range, the checked conversion succeeds (and the result lies between the end values) -/
theorem segment_int_ok (k : Gen.IntKind) (m n : Int) (e : Gen.EasingId) (hb : C13.isBack e = false)
    (ft gt s : ℚ) (hlt : ft < gt) (h1 : ft ≤ s) (h2 : s ≤ gt)
    (hm : k.lo ≤ m ∧ m ≤ k.hi) (hn : k.lo ≤ n ∧ n ≤ k.hi) :
    ∃ r, interpolate (⟨ft, .int k m, .builtin e⟩ : Frame ℚ) ⟨gt, .int k n, .builtin e⟩ s = .ok (.int k r) ∧
      min m n ≤ r ∧ r ≤ max m n := by
  have hx0 : 0 ≤ (s - ft) / (gt - ft) := div_nonneg (by linarith) (by linarith)
  have hx1 : (s - ft) / (gt - ft) ≤ 1 := (div_le_one (by linarith)).2 (by linarith)
  obtain ⟨he0, he1⟩ := C13.ease_in_unit e hb _ hx0 hx1
  obtain ⟨r, hr, hlo, hhi⟩ := C14.lerpInt_between k m n _ he0 he1 hm hn
  refine ⟨r, ?_, hlo, hhi⟩
  unfold interpolate
  have hd : ¬ ((gt - ft == (lit 0 : ℚ)) = true) := by
    simp only [lit_rat, Nat.cast_zero, beq_iff_eq]; intro h; linarith
  simp only [hd, if_false]
  rw [C14.val_lerp_int, hr]; rfl

/-- `advance(dt)` with a non-negative finite `dt` converts without panic (until the clock would pass
`u64::MAX` seconds) -/
theorem advance_conversion_ok (q : ℚ) (h0 : 0 ≤ q) (hbig : q * 1000000000 < 2 ^ 64 * 1000000000 - 1) :
    ∃ ns, (Num.nanosOfSecs q : Except Panic Nat) = .ok ns := by
  simp only [nanosOfSecs_rat, RatNum.nanosOfSecs, if_neg (not_lt.2 h0)]
  have hfl : (q * 1000000000).floor + 1 < 2 ^ 64 * 1000000000 := by
    have h1 := Int.floor_le (q * 1000000000)
    rw [rat_floor_eq]
    have : ((⌊q * 1000000000⌋ : Int) : ℚ) < 2 ^ 64 * 1000000000 - 1 := lt_of_le_of_lt h1 hbig
    have : (⌊q * 1000000000⌋ : Int) < 2 ^ 64 * 1000000000 - 1 := by exact_mod_cast this
    omega
  have hre : RatNum.roundEven (q * 1000000000) ≤ (q * 1000000000).floor + 1 := by
    unfold RatNum.roundEven; dsimp only; split
    · omega
    · split
      · omega
      · split <;> omega
  have hnn : 0 ≤ RatNum.roundEven (q * 1000000000) := by
    have hf : 0 ≤ (q * 1000000000).floor := by rw [rat_floor_eq]; exact Int.floor_nonneg.2 (by positivity)
    unfold RatNum.roundEven; dsimp only; split
    · exact hf
    · split
      · omega
      · split <;> omega
  have : ¬ ((RatNum.roundEven (q * 1000000000)).toNat ≥ 2 ^ 64 * 1000000000) := by
    have : ((RatNum.roundEven (q * 1000000000)).toNat : Int) = RatNum.roundEven (q * 1000000000) := Int.toNat_of_nonneg hnn
    omega
  rw [if_neg this]
  exact ⟨_, rfl⟩

/-- every repeat count — including 0 and the largest `u32` — has a well-defined total duration and a
position in [0,1] at every time (C03, no restriction on the count) -/
theorem any_repeat_count (ts : TimeScale ℚ) (hd : 0 < ts.duration) (t : ℚ) :
    0 ≤ (ts.position t).value ∧ (ts.position t).value ≤ 1 := C03.pos_in_unit ts hd t

/-! ### the same model term on real binary32, at the boundary repeat counts (kernel evaluation) -/

def finiteBits (x : Float32) : Bool := F32.isFiniteBits x

/-- `get_duration` is finite and `get_position` yields a finite position for the boundary repeat counts
0, 1, 2²⁴±1, 2³¹, 2³²−2 and 2³²−1 (the last one panicked / wrapped before fix f18722c) -/
theorem boundary_repeat_counts_f32 :
    ([0, 1, 16777215, 16777217, 2147483648, 4294967294, 4294967295] : List Nat).all (fun n =>
      let ts : TimeScale Float32 := ⟨lit 1, lit 2, .times n, false⟩
      (match ts.totalDuration with | some d => finiteBits d | none => false) &&
      (match ts.position (lit 5) with | .active t _ _ => finiteBits t | .ended t => finiteBits t | .notStarted => true)) = true := by
  decide +kernel

end C20
