import MinaProofs.Lemmas.Writes
import MinaProofs.Props.C08
/-!
# C12 — A merged timeline is an ordered overlay with aggregate timing

Model: `MinaModel/Merged.lean`. Update/start_with theorems are generic in the number system; the
aggregate-timing theorems are at ℚ (they speak of minima and maxima). A total duration is
`Option ℚ` with `none` = infinite.
-/
namespace C12

section generic
variable {α : Type} [Num α]

/-- evaluating a merged timeline = applying its components in order to the same target at the same time -/
theorem merged_update_fold (tls : List (Timeline α)) (tgt : List (Val α)) (time : α) :
    (Merged.mk tls).update tgt time =
      tls.foldl (fun acc tl => match acc with | .ok t => tl.update t time | .error p => .error p) (.ok tgt) := by
  unfold Merged.update
  induction tls generalizing tgt with
  | nil => rfl
  | cons tl rest ih =>
    simp only [Merged.update.go, List.foldl_cons]
    cases h : tl.update tgt time with
    | ok t' => exact ih t'
    | error p =>
      simp only
      clear ih
      induction rest with
      | nil => rfl
      | cons _ _ ih2 => simpa using ih2

theorem merged_update_cons (tl : Timeline α) (rest : List (Timeline α)) (tgt : List (Val α)) (time : α) :
    (Merged.mk (tl :: rest)).update tgt time =
      match tl.update tgt time with
      | .ok t' => (Merged.mk rest).update t' time
      | .error p => .error p := by
  simp only [Merged.update, Merged.update.go]
  cases tl.update tgt time <;> rfl

/-- the writes of a whole merged timeline: the components' writes, concatenated in order -/
def mergedWrites (tls : List (Timeline α)) (time : α) : Except Panic (List (Nat × Val α)) :=
  match tls with
  | [] => .ok []
  | tl :: rest =>
    match tl.writes time with
    | .ok W => (mergedWrites rest time).map (W ++ ·)
    | .error p => .error p

theorem merged_update_eq_writes (tls : List (Timeline α)) (tgt : List (Val α)) (time : α) :
    (Merged.mk tls).update tgt time = (mergedWrites tls time).map (fun W => applyWrites W tgt) := by
  induction tls generalizing tgt with
  | nil => rfl
  | cons tl rest ih =>
    rw [merged_update_cons, update_eq_writes]
    simp only [mergedWrites]
    cases hw : tl.writes time with
    | error p => rfl
    | ok W =>
      simp only [Except.map]
      rw [ih]
      cases mergedWrites rest time with
      | error p => rfl
      | ok W' => simp [Except.map, applyWrites_append]

/-- later components win on shared properties: if the last component produces a value for slot `k`,
that is the value in the result, whatever the earlier components wrote -/
theorem later_wins (init : List (Timeline α)) (last : Timeline α) (tgt r : List (Val α)) (time : α)
    (h : (Merged.mk (init ++ [last])).update tgt time = .ok r)
    (W : List (Nat × Val α)) (hW : last.writes time = .ok W) (k : Nat) (v : Val α) (hk : lastWrite W k = some v)
    (hlen : k < tgt.length) : r[k]? = some v := by
  rw [merged_update_eq_writes] at h
  have hm : ∀ (l : List (Timeline α)), mergedWrites (l ++ [last]) time =
      (mergedWrites l time).map (· ++ W) := by
    intro l
    induction l with
    | nil => simp [mergedWrites, hW, Except.map]
    | cons t rest ih =>
      simp only [List.cons_append, mergedWrites]
      cases t.writes time with
      | error p => rfl
      | ok Wt =>
        simp only [ih]
        cases mergedWrites rest time with
        | error p => rfl
        | ok Wr => simp [Except.map]
  rw [hm] at h
  cases hi : mergedWrites init time with
  | error p => rw [hi] at h; simp [Except.map] at h
  | ok Wi =>
    rw [hi] at h
    simp only [Except.map, Except.ok.injEq] at h
    subst h
    rw [applyWrites_getElem?, if_pos hlen, lastWrite_append, hk]

/-- `start_with` reaches every component -/
theorem startWith_reaches_all (m : Merged α) (v : List (Val α)) :
    (m.startWith v).timelines = m.timelines.map (·.startWith v) := rfl

/-- wrapping a single timeline changes nothing about it -/
theorem singleton_transparent (tl : Timeline α) (tgt v : List (Val α)) (time : α) :
    (Merged.mk [tl]).update tgt time = tl.update tgt time ∧
    (Merged.mk [tl]).delay = tl.delay ∧ (Merged.mk [tl]).duration = tl.duration ∧
    (Merged.mk [tl]).repeat_ = tl.repeat_ ∧ (Merged.mk [tl]).cycleDuration = tl.cycleDuration ∧
    ((Merged.mk [tl]).startWith v).timelines = [tl.startWith v] := by
  refine ⟨?_, rfl, rfl, rfl, rfl, rfl⟩
  simp only [Merged.update, Merged.update.go]
  cases tl.update tgt time <;> rfl

/-- an empty merge touches nothing and reports zero delay, zero duration, no repeat, no cycle -/
theorem empty_merge (tgt : List (Val α)) (time : α) :
    (Merged.mk ([] : List (Timeline α))).update tgt time = .ok tgt ∧
    (Merged.mk ([] : List (Timeline α))).duration = some (lit 0) ∧
    (Merged.mk ([] : List (Timeline α))).repeat_ = .none ∧
    (Merged.mk ([] : List (Timeline α))).cycleDuration = none := ⟨rfl, rfl, rfl, rfl⟩

end generic

/-! ### aggregate timing (ℚ) -/

theorem foldl_min_le (xs : List ℚ) (x : ℚ) :
    (∀ y ∈ x :: xs, xs.foldl (fun m y => if y < m then y else m) x ≤ y) ∧
    xs.foldl (fun m y => if y < m then y else m) x ∈ x :: xs := by
  induction xs generalizing x with
  | nil => simp
  | cons z zs ih =>
    simp only [List.foldl_cons]
    obtain ⟨h1, h2⟩ := ih (if z < x then z else x)
    constructor
    · intro y hy
      have hle : zs.foldl (fun m y => if y < m then y else m) (if z < x then z else x) ≤ (if z < x then z else x) :=
        h1 _ (by simp)
      rcases List.mem_cons.1 hy with rfl | hy
      · exact le_trans hle (by split <;> [exact le_of_lt ‹_›; exact le_rfl])
      · rcases List.mem_cons.1 hy with rfl | hy
        · exact le_trans hle (by split <;> [exact le_rfl; exact not_lt.1 ‹_›])
        · exact h1 y (by simp [hy])
    · rcases List.mem_cons.1 h2 with h | h
      · rw [h]; split <;> simp
      · simp [h]

/-- delay = the smallest component delay -/
theorem merged_delay_min (tl : Timeline ℚ) (rest : List (Timeline ℚ)) :
    (∀ t ∈ tl :: rest, (Merged.mk (tl :: rest)).delay ≤ t.delay) ∧
    ∃ t ∈ tl :: rest, (Merged.mk (tl :: rest)).delay = t.delay := by
  simp only [Merged.delay, List.map_cons, minFirst, Option.getD_some]
  obtain ⟨h1, h2⟩ := foldl_min_le (rest.map (·.delay)) tl.delay
  constructor
  · intro t ht
    apply h1
    rcases List.mem_cons.1 ht with rfl | ht
    · simp
    · simp only [List.mem_cons, List.mem_map]; right; exact ⟨t, ht, rfl⟩
  · rcases List.mem_cons.1 h2 with h | h
    · exact ⟨tl, by simp, h⟩
    · obtain ⟨t, ht, hte⟩ := List.mem_map.1 h
      exact ⟨t, by simp [ht], hte.symm⟩

/-- order on total durations with `none` = ∞ -/
def durLe (a b : Option ℚ) : Prop :=
  match a, b with
  | _, none => True
  | none, some _ => False
  | some x, some y => x ≤ y

theorem durLe_refl (a : Option ℚ) : durLe a a := by cases a <;> simp [durLe]

theorem durLe_trans {a b c : Option ℚ} (h1 : durLe a b) (h2 : durLe b c) : durLe a c := by
  cases a <;> cases b <;> cases c <;> simp_all [durLe]
  exact le_trans h1 h2

theorem durLt_iff (a b : Option ℚ) : durLt a b = true ↔ ¬ durLe b a := by
  cases a <;> cases b <;> simp [durLt, durLe]

theorem foldl_dur_max (xs : List (Option ℚ)) (x : Option ℚ) :
    (∀ y ∈ x :: xs, durLe y (xs.foldl (fun mx y => if durLt y mx then mx else y) x)) ∧
    xs.foldl (fun mx y => if durLt y mx then mx else y) x ∈ x :: xs := by
  induction xs generalizing x with
  | nil => simp [durLe_refl]
  | cons z zs ih =>
    simp only [List.foldl_cons]
    obtain ⟨h1, h2⟩ := ih (if durLt z x then x else z)
    have hx : durLe x (if durLt z x = true then x else z) ∧ durLe z (if durLt z x = true then x else z) := by
      by_cases h : durLt z x = true
      · rw [if_pos h]
        refine ⟨durLe_refl _, ?_⟩
        have := (durLt_iff z x).1 h
        cases z <;> cases x <;> simp_all [durLe]
        exact le_of_lt this
      · rw [if_neg h]
        refine ⟨?_, durLe_refl _⟩
        have : ¬ ¬ durLe x z := fun hn => h ((durLt_iff z x).2 hn)
        exact not_not.1 this
    constructor
    · intro y hy
      have hm := h1 _ (List.mem_cons_self)
      rcases List.mem_cons.1 hy with rfl | hy
      · exact durLe_trans hx.1 hm
      · rcases List.mem_cons.1 hy with rfl | hy
        · exact durLe_trans hx.2 hm
        · exact h1 y (by simp [hy])
    · rcases List.mem_cons.1 h2 with h | h
      · rw [h]; split <;> simp
      · simp [h]

/-- total duration = the largest component duration (infinite if any is) -/
theorem merged_duration_max (tl : Timeline ℚ) (rest : List (Timeline ℚ)) :
    (∀ t ∈ tl :: rest, durLe t.duration (Merged.mk (tl :: rest)).duration) ∧
    ∃ t ∈ tl :: rest, (Merged.mk (tl :: rest)).duration = t.duration := by
  simp only [Merged.duration, List.map_cons]
  obtain ⟨h1, h2⟩ := foldl_dur_max (rest.map (·.duration)) tl.duration
  constructor
  · intro t ht
    apply h1
    rcases List.mem_cons.1 ht with rfl | ht
    · simp
    · simp only [List.mem_cons, List.mem_map]; right; exact ⟨t, ht, rfl⟩
  · rcases List.mem_cons.1 h2 with h | h
    · exact ⟨tl, by simp, h⟩
    · obtain ⟨t, ht, hte⟩ := List.mem_map.1 h
      exact ⟨t, by simp [ht], hte.symm⟩

theorem merged_duration_infinite_iff (tl : Timeline ℚ) (rest : List (Timeline ℚ)) :
    (Merged.mk (tl :: rest)).duration = none ↔ ∃ t ∈ tl :: rest, t.duration = none := by
  obtain ⟨h1, t0, ht0, he⟩ := merged_duration_max tl rest
  constructor
  · intro h; exact ⟨t0, ht0, by rw [← he, h]⟩
  · rintro ⟨t, ht, hn⟩
    have := h1 t ht
    rw [hn] at this
    cases hd : (Merged.mk (tl :: rest)).duration with
    | none => rfl
    | some d => rw [hd] at this; simp [durLe] at this

/-- the rank the repaired `Ord for Repeat` sorts by: Infinite above every finite count -/
def repeatRank (r : Repeat) : Nat × Nat := (if r = .infinite then 1 else 0, r.ordinal)

theorem repeat_lt_iff (a b : Repeat) : Repeat.lt a b = true ↔ (repeatRank a).1 < (repeatRank b).1 ∨
    ((repeatRank a).1 = (repeatRank b).1 ∧ (repeatRank a).2 < (repeatRank b).2) := by
  unfold Repeat.lt repeatRank
  simp only [beq_iff_eq, Bool.or_eq_true, decide_eq_true_eq, Bool.and_eq_true]

def rankLe (a b : Nat × Nat) : Prop := a.1 < b.1 ∨ (a.1 = b.1 ∧ a.2 ≤ b.2)

theorem foldl_repeat_max (xs : List Repeat) (x : Repeat) :
    (∀ y ∈ x :: xs, rankLe (repeatRank y) (repeatRank (xs.foldl (fun mx y => if Repeat.lt y mx then mx else y) x))) ∧
    xs.foldl (fun mx y => if Repeat.lt y mx then mx else y) x ∈ x :: xs := by
  induction xs generalizing x with
  | nil => simp [rankLe]
  | cons z zs ih =>
    simp only [List.foldl_cons]
    obtain ⟨h1, h2⟩ := ih (if Repeat.lt z x then x else z)
    have hx : rankLe (repeatRank x) (repeatRank (if Repeat.lt z x = true then x else z)) ∧
        rankLe (repeatRank z) (repeatRank (if Repeat.lt z x = true then x else z)) := by
      by_cases h : Repeat.lt z x = true
      · rw [if_pos h]
        have := (repeat_lt_iff z x).1 h
        refine ⟨Or.inr ⟨rfl, le_rfl⟩, ?_⟩
        rcases this with h | ⟨h, h'⟩
        · exact Or.inl h
        · exact Or.inr ⟨h, le_of_lt h'⟩
      · rw [if_neg h]
        refine ⟨?_, Or.inr ⟨rfl, le_rfl⟩⟩
        have hn : ¬ ((repeatRank z).1 < (repeatRank x).1 ∨ ((repeatRank z).1 = (repeatRank x).1 ∧ (repeatRank z).2 < (repeatRank x).2)) :=
          fun hh => h ((repeat_lt_iff z x).2 hh)
        unfold rankLe
        omega
    have htrans : ∀ {a b c : Nat × Nat}, rankLe a b → rankLe b c → rankLe a c := by
      intro a b c; unfold rankLe; omega
    constructor
    · intro y hy
      have hm := h1 _ (List.mem_cons_self)
      rcases List.mem_cons.1 hy with rfl | hy
      · exact htrans hx.1 hm
      · rcases List.mem_cons.1 hy with rfl | hy
        · exact htrans hx.2 hm
        · exact h1 y (by simp [hy])
    · rcases List.mem_cons.1 h2 with h | h
      · rw [h]; split <;> simp
      · simp [h]

/-- repeat = the largest component repeat (Infinite above every finite count — no restriction on the
count, thanks to fix 442e70b) -/
theorem merged_repeat_max (tl : Timeline ℚ) (rest : List (Timeline ℚ)) :
    (∀ t ∈ tl :: rest, rankLe (repeatRank t.repeat_) (repeatRank (Merged.mk (tl :: rest)).repeat_)) ∧
    ∃ t ∈ tl :: rest, (Merged.mk (tl :: rest)).repeat_ = t.repeat_ := by
  simp only [Merged.repeat_, List.map_cons]
  obtain ⟨h1, h2⟩ := foldl_repeat_max (rest.map (·.repeat_)) tl.repeat_
  constructor
  · intro t ht
    apply h1
    rcases List.mem_cons.1 ht with rfl | ht
    · simp
    · simp only [List.mem_cons, List.mem_map]; right; exact ⟨t, ht, rfl⟩
  · rcases List.mem_cons.1 h2 with h | h
    · exact ⟨tl, by simp, h⟩
    · obtain ⟨t, ht, hte⟩ := List.mem_map.1 h
      exact ⟨t, by simp [ht], hte.symm⟩

/-- a cycle duration is reported only when all components agree, and then it is theirs -/
theorem merged_cycle_common (tl : Timeline ℚ) (rest : List (Timeline ℚ)) (c : ℚ) :
    (Merged.mk (tl :: rest)).cycleDuration = some c ↔ ∀ t ∈ tl :: rest, t.cycleDuration = some c := by
  simp only [Merged.cycleDuration, List.map_cons, Timeline.cycleDuration]
  have key : ∀ (f : Option ℚ → Option ℚ → Option ℚ)
      (hf1 : ∀ a b, f (some a) (some b) = if a = b then some a else none) (hf2 : ∀ b, f none b = none)
      (xs : List (Timeline ℚ)) (acc : Option ℚ),
      (xs.map (fun t => some t.ts.duration)).foldl f acc = some c ↔ acc = some c ∧ ∀ t ∈ xs, t.ts.duration = c := by
    intro f hf1 hf2 xs
    induction xs with
    | nil => intro acc; simp
    | cons t ts ih =>
      intro acc
      simp only [List.map_cons, List.foldl_cons, ih, List.mem_cons, forall_eq_or_imp]
      cases acc with
      | none => simp [hf2]
      | some a =>
        rw [hf1]
        by_cases hab : a = t.ts.duration
        · subst hab; simp
        · rw [if_neg hab]
          constructor
          · rintro ⟨h, _⟩; simp at h
          · rintro ⟨h1, h2, _⟩
            simp only [Option.some.injEq] at h1
            exact absurd (h1.trans h2.symm) hab
  rw [key]
  · simp only [Option.some.injEq, List.mem_cons, forall_eq_or_imp]
  · intro a b
    by_cases hab : a = b
    · simp [hab]
    · simp [hab]
  · intro b; cases b <;> rfl

end C12
