import MinaProofs.Lemmas.Writes
/-!
# C09 — A timeline is a pure, repeatable function of time

In the model `Timeline.update` *is* a function of `(timeline value, target, time)`; that the
implementation has no hidden per-call state is what the correspondence run decides (interleaved
`upd`/`start`/`clone` sessions must match this function bit for bit). What is proved here are the laws
the property lists beyond functionality. Generic in the number system (`[Num α]`).
-/
namespace C09

variable {α : Type} [Num α]

/-- evaluating twice is idempotent -/
theorem update_idempotent (tl : Timeline α) (tgt r : List (Val α)) (time : α)
    (h : tl.update tgt time = .ok r) : tl.update r time = .ok r := by
  rw [update_eq_writes] at h ⊢
  cases hw : tl.writes time with
  | error e => rw [hw] at h; simp [Except.map] at h
  | ok W =>
    rw [hw] at h
    simp only [Except.map, Except.ok.injEq] at h ⊢
    subst h
    exact applyWrites_idem W tgt

/-- the result is independent of the previous contents of the slots the timeline writes:
two targets that agree everywhere else give the same result -/
theorem update_ignores_prior_animated (tl : Timeline α) (t1 t2 : List (Val α)) (time : α)
    (hl : t1.length = t2.length)
    (hagree : ∀ k, k ∉ tl.subs.map Prod.fst → t1[k]? = t2[k]?)
    (hsame : ∀ W, tl.writes time = .ok W → ∀ k, k ∈ tl.subs.map Prod.fst → lastWrite W k = none → t1[k]? = t2[k]?) :
    tl.update t1 time = tl.update t2 time := by
  rw [update_eq_writes, update_eq_writes]
  cases hw : tl.writes time with
  | error e => rfl
  | ok W =>
    simp only [Except.map, Except.ok.injEq]
    apply applyWrites_congr W t1 t2 hl
    intro k hk
    by_cases hm : k ∈ tl.subs.map Prod.fst
    · exact hsame W hw k hm hk
    · exact hagree k hm

/-- whether a slot is written, and with what, does not depend on the target at all -/
theorem written_value_independent_of_target (tl : Timeline α) (t1 t2 r1 r2 : List (Val α)) (time : α)
    (hl : t1.length = t2.length) (h1 : tl.update t1 time = .ok r1) (h2 : tl.update t2 time = .ok r2)
    (k : Nat) (W : List (Nat × Val α)) (hw : tl.writes time = .ok W) (v : Val α) (hk : lastWrite W k = some v) :
    r1[k]? = r2[k]? := by
  rw [update_eq_writes, hw] at h1 h2
  simp only [Except.map, Except.ok.injEq] at h1 h2
  subst h1; subst h2
  rw [applyWrites_getElem?, applyWrites_getElem?, hl, hk]

/-- the latest `start_with` fully replaces earlier ones -/
theorem startWith_last_wins (tl : Timeline α) (v w : List (Val α)) (hl : v.length = w.length) :
    (tl.startWith v).startWith w = tl.startWith w := by
  simp only [Timeline.startWith, List.map_map]
  congr 1
  apply List.map_congr_left
  intro p _
  obtain ⟨i, s⟩ := p
  simp only [Function.comp]
  by_cases hi : i < v.length
  · have hi' : i < w.length := hl ▸ hi
    simp only [List.getElem?_eq_getElem hi, List.getElem?_eq_getElem hi', overrideStart_overrideStart]
  · have hi' : ¬ i < w.length := hl ▸ hi
    simp only [List.getElem?_eq_none (not_lt.1 hi), List.getElem?_eq_none (not_lt.1 hi')]

/-- … without affecting delay, cycle duration, total duration or repeat -/
theorem startWith_keeps_metadata (tl : Timeline α) (v : List (Val α)) :
    (tl.startWith v).delay = tl.delay ∧ (tl.startWith v).cycleDuration = tl.cycleDuration ∧
    (tl.startWith v).duration = tl.duration ∧ (tl.startWith v).repeat_ = tl.repeat_ ∧
    (tl.startWith v).boundary = tl.boundary := ⟨rfl, rfl, rfl, rfl, rfl⟩

/-- and `update` never changes the timeline (it does not even return one): only `start_with` does -/
theorem merged_startWith_keeps_metadata (m : Merged α) (v : List (Val α)) :
    (m.startWith v).delay = m.delay ∧ (m.startWith v).duration = m.duration ∧
    (m.startWith v).repeat_ = m.repeat_ ∧ (m.startWith v).cycleDuration = m.cycleDuration := by
  simp only [Merged.startWith, Merged.delay, Merged.duration, Merged.repeat_, Merged.cycleDuration, List.map_map]
  refine ⟨?_, ?_, ?_, ?_⟩ <;> rfl

end C09
