import MinaProofs.Lemmas.Rounded
/-!
# C03 under every faithful rounding: the position never leaves [0,1]

`TimeScale.position` — the very term that runs at `Float32` against `TimeScale::get_position` — instantiated at
rounded arithmetic.  For every faithful rounding, every repeat / reverse shape, every delay and every time the
normalised position is in `[0,1]`: `time / duration ≤ 1` survives rounding because rounding is monotone and fixes 1,
the float remainder is below the (representable) divisor, and the reversing fold `(1 − r)·2` with `r > ½` stays below
1 because rounding fixes ½.  Hypotheses: cycle duration positive and representable (it is a stored `f32`).
-/

namespace C03
variable {ρ : ℚ → ℚ}

/-- the normalised position a `Pos` stands for -/
def valR : Pos (Rd ρ) → ℚ
  | .notStarted => 0
  | .active t _ _ => t.val
  | .ended t => t.val

theorem cyclePos_in_unit (F : Faithful ρ) (ts : TimeScale (Rd ρ)) (hd : 0 < ts.duration.val) (c : Rd ρ) (b : Bool)
    (h0 : 0 ≤ c.val) (h1 : c.val ≤ ts.duration.val) :
    0 ≤ valR (ts.cyclePos c b) ∧ valR (ts.cyclePos c b) ≤ 1 := by
  have r0 : 0 ≤ ρ (c.val / ts.duration.val) := F.nonneg (div_nonneg h0 hd.le)
  have r1 : ρ (c.val / ts.duration.val) ≤ 1 := F.le_one ((div_le_one hd).2 h1)
  have hhalf : ((lit 1 : Rd ρ) / lit 2).val = 1 / 2 := by
    simp only [Rd.div_val, Rd.lit_val, Nat.cast_one, Nat.cast_ofNat, F.one, F.two, F.half]
  unfold TimeScale.cyclePos
  dsimp only
  split
  · split
    · rename_i hlt
      rw [Rd.lt_iff, hhalf, Rd.div_val] at hlt
      simp only [valR, Rd.mul_val, Rd.sub_val, Rd.div_val, Rd.lit_val, Nat.cast_one, Nat.cast_ofNat, F.one, F.two]
      have a0 : 0 ≤ ρ (1 - ρ (c.val / ts.duration.val)) := F.nonneg (by linarith)
      have a1 : ρ (1 - ρ (c.val / ts.duration.val)) ≤ 1 / 2 := F.le_half (by linarith)
      exact ⟨F.nonneg (by linarith), F.le_one (by linarith)⟩
    · rename_i hlt
      rw [Rd.lt_iff, hhalf, Rd.div_val] at hlt
      simp only [valR, Rd.mul_val, Rd.div_val, Rd.lit_val, Nat.cast_ofNat, F.two]
      exact ⟨F.nonneg (by linarith), F.le_one (by linarith)⟩
  · simp only [valR, Rd.div_val]
    exact ⟨r0, r1⟩

theorem loopPos_in_unit (F : Faithful ρ) (ts : TimeScale (Rd ρ)) (hd : 0 < ts.duration.val) (hdr : ts.duration.Rep)
    (c : Rd ρ) (h0 : 0 ≤ c.val) :
    0 ≤ valR (ts.loopPos c) ∧ valR (ts.loopPos c) ≤ 1 := by
  unfold TimeScale.loopPos
  dsimp only
  have fb := fmod_bounds h0 hd
  split
  · exact cyclePos_in_unit F ts hd _ _ hd.le le_rfl
  · apply cyclePos_in_unit F ts hd
    · rw [Rd.fmod_val]; exact F.nonneg fb.1
    · rw [Rd.fmod_val]; exact F.le_rep hdr fb.2.le

theorem ended_in_unit (F : Faithful ρ) (ts : TimeScale (Rd ρ)) :
    0 ≤ valR ts.positionEnded ∧ valR ts.positionEnded ≤ 1 := by
  unfold TimeScale.positionEnded
  split <;> simp [valR, F.zero, F.one]

/-- **the position lies in [0,1] for every faithful rounding** — every repeat/reverse shape, every delay, every time -/
theorem pos_in_unit_any_rounding (F : Faithful ρ) (ts : TimeScale (Rd ρ)) (hd : 0 < ts.duration.val)
    (hdr : ts.duration.Rep) (t : Rd ρ) :
    0 ≤ valR (ts.position t) ∧ valR (ts.position t) ≤ 1 := by
  unfold TimeScale.position
  dsimp only
  split
  · simp [valR]
  · rename_i h
    rw [Rd.lt_iff, Rd.lit_val, Nat.cast_zero, F.zero] at h
    have hc : 0 ≤ (t - ts.delay).val := not_lt.1 h
    split
    · split
      · exact ended_in_unit F ts
      · rename_i h2
        rw [Rd.lt_iff] at h2
        exact cyclePos_in_unit F ts hd _ _ hc (not_lt.1 h2)
    · split
      · exact ended_in_unit F ts
      · exact loopPos_in_unit F ts hd hdr _ hc
    · exact loopPos_in_unit F ts hd hdr _ hc

/-- non-vacuity: a delayed, reversing, repeat-2 time scale with an inexact-looking duration, in exact arithmetic -/
example : let ts : TimeScale (Rd (fun x => x)) := ⟨⟨1/3⟩, ⟨7/10⟩, .times 2, true⟩
    0 ≤ valR (ts.position ⟨5/4⟩) ∧ valR (ts.position ⟨5/4⟩) ≤ 1 :=
  pos_in_unit_any_rounding Faithful.id _ (by norm_num) rfl _

end C03

namespace C03
/-- non-vacuity with a *lossy* rounding (nearest multiple of 2⁻¹⁰): the time scale's stored duration is a grid point -/
example : let ts : TimeScale (Rd (fixedRound 10)) := ⟨⟨1/3⟩, ⟨3/4⟩, .infinite, true⟩
    0 ≤ valR (ts.position ⟨77/3⟩) ∧ valR (ts.position ⟨77/3⟩) ≤ 1 :=
  pos_in_unit_any_rounding (Faithful.fixed 10 (by norm_num)) _ (by norm_num)
    (by show fixedRound 10 (3/4) = 3/4
        have := fixedRound_of_int 10 768
        norm_num at this ⊢; exact this) _
end C03
