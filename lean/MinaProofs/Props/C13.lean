import MinaProofs.Lemmas.RatNum
import MinaModel.Easing
import MinaModel.Spec.Published
/-!
# C13 — Easing curves have fixed endpoints, stay in range, and match their definitions

Model: `MinaModel/Easing.lean` at `α = ℚ`; the 29 variants and their control points are the table
regenerated from `core/src/easing.rs` on every run (`Gen.EasingId`), so each statement below is
re-checked against the constants the code has *now*.

The last sentence of the property (equality with the CSS *timing function* evaluated at horizontal
position x) is false of the unchanged code: `calc(x)` is lyon's `y(t)` at parameter `t = x`
(`ease_is_parametric`), and `timing_function_refuted` exhibits, for every one of the 28 curves, a
rational point where the two differ (known finding F-C13). Everything else is proved.
-/
namespace C13
open Gen

/-- the Bernstein form of what the code computes -/
theorem bezY_poly (c1 c2 t : ℚ) :
    bezY c1 c2 t = 3 * c1 * (1 - t) ^ 2 * t + 3 * c2 * (1 - t) * t ^ 2 + t ^ 3 := by
  simp only [bezY, lit_rat]; push_cast; ring

theorem bezY_zero (c1 c2 : ℚ) : bezY c1 c2 0 = 0 := by rw [bezY_poly]; ring
theorem bezY_one (c1 c2 : ℚ) : bezY c1 c2 1 = 1 := by rw [bezY_poly]; ring

/-- every built-in easing maps 0 to 0 … -/
theorem ease_zero (e : EasingId) : (Easing.builtin e).calc (0 : ℚ) = 0 := by
  simp only [Easing.calc]; split <;> simp [bezY_zero]
/-- … and 1 to 1, exactly (whatever the control points in the table are) -/
theorem ease_one (e : EasingId) : (Easing.builtin e).calc (1 : ℚ) = 1 := by
  simp only [Easing.calc]; split <;> simp [bezY_one]

/-- `Linear` is the identity -/
theorem linear_is_id (x : ℚ) : (Easing.builtin .linear).calc x = x := by
  simp [Easing.calc, EasingId.curve]

/-- a custom easing is used as given -/
theorem custom_used_as_given (n : Nat) (x : ℚ) : (Easing.custom n).calc x = customEasing n x := rfl

/-- what the code computes: the curve's y at parameter `t = x` -/
theorem ease_is_parametric (e : EasingId) (x1 y1 x2 y2 : Int) (h : e.curve = some (x1, y1, x2, y2)) (x : ℚ) :
    (Easing.builtin e).calc x = bezY (ctrl y1) (ctrl y2) x := by
  simp [Easing.calc, h]

theorem ctrl_rat (i : Int) : (ctrl i : ℚ) = (i : ℚ) / 10 ^ easingScaleExp := by
  cases i with
  | ofNat n => simp [ctrl]
  | negSucc n => simp [ctrl, Int.negSucc_eq]; ring

/-! ### the table -/

theorem mem_all (e : EasingId) : e ∈ EasingId.all := by cases e <;> decide

def isBack (e : EasingId) : Bool := Spec.backFamily.contains e.name

/-- the generated table equals the published control points -/
theorem easingTable_eq_published :
    EasingId.all.map (fun e => (e.name, e.curve)) = Spec.published ∧ easingScaleExp = Spec.publishedScaleExp := by
  decide

/-- non-Back curves have ordered control ordinates in [0, 1] -/
theorem nonBack_control_ys_ordered :
    ∀ e ∈ EasingId.all, isBack e = false → ∀ c, e.curve = some c → 0 ≤ c.2.1 ∧ c.2.1 ≤ c.2.2.2 ∧ c.2.2.2 ≤ (10 : Int) ^ easingScaleExp := by
  decide

/-! ### range and monotonicity (Bernstein form with ordered control ordinates) -/

theorem bezY_in_unit (c1 c2 t : ℚ) (h0 : 0 ≤ c1) (h2 : c2 ≤ 1) (h1 : c1 ≤ c2) (ht0 : 0 ≤ t) (ht1 : t ≤ 1) :
    0 ≤ bezY c1 c2 t ∧ bezY c1 c2 t ≤ 1 := by
  rw [bezY_poly]
  have hc2 : 0 ≤ c2 := le_trans h0 h1
  have hs : 0 ≤ 1 - t := by linarith
  constructor
  · positivity
  · have e : 1 - (3 * c1 * (1 - t) ^ 2 * t + 3 * c2 * (1 - t) * t ^ 2 + t ^ 3)
        = (1 - t) ^ 3 + 3 * (1 - c1) * (1 - t) ^ 2 * t + 3 * (1 - c2) * (1 - t) * t ^ 2 := by ring
    have h1c1 : 0 ≤ 1 - c1 := by linarith
    have h1c2 : 0 ≤ 1 - c2 := by linarith
    have : 0 ≤ (1 - t) ^ 3 + 3 * (1 - c1) * (1 - t) ^ 2 * t + 3 * (1 - c2) * (1 - t) * t ^ 2 := by positivity
    linarith

theorem bezY_mono (c1 c2 s t : ℚ) (h0 : 0 ≤ c1) (h2 : c2 ≤ 1) (h1 : c1 ≤ c2)
    (hs0 : 0 ≤ s) (hst : s ≤ t) (ht1 : t ≤ 1) : bezY c1 c2 s ≤ bezY c1 c2 t := by
  rw [bezY_poly, bezY_poly]
  have hs1 : s ≤ 1 := le_trans hst ht1
  have ht0 : 0 ≤ t := le_trans hs0 hst
  have key : (3 * c1 * (1 - t) ^ 2 * t + 3 * c2 * (1 - t) * t ^ 2 + t ^ 3)
      - (3 * c1 * (1 - s) ^ 2 * s + 3 * c2 * (1 - s) * s ^ 2 + s ^ 3)
      = (t - s) * (c1 * ((1 - s) ^ 2 + (1 - s) * (1 - t) + (1 - t) ^ 2)
                    + (c2 - c1) * (s * (3 - 2 * s - t) + t * (3 - 2 * t - s))
                    + (1 - c2) * (t ^ 2 + t * s + s ^ 2)) := by ring
  have hs' : 0 ≤ 1 - s := by linarith
  have ht' : 0 ≤ 1 - t := by linarith
  have A1 : 0 ≤ (1 - s) ^ 2 + (1 - s) * (1 - t) + (1 - t) ^ 2 := by positivity
  have A2 : 0 ≤ s * (3 - 2 * s - t) + t * (3 - 2 * t - s) := by
    have : 0 ≤ 3 - 2 * s - t := by linarith
    have : 0 ≤ 3 - 2 * t - s := by linarith
    positivity
  have A3 : 0 ≤ t ^ 2 + t * s + s ^ 2 := by positivity
  have hc21 : 0 ≤ c2 - c1 := by linarith
  have h1c2 : 0 ≤ 1 - c2 := by linarith
  have hts : 0 ≤ t - s := by linarith
  have : 0 ≤ (t - s) * (c1 * ((1 - s) ^ 2 + (1 - s) * (1 - t) + (1 - t) ^ 2)
                    + (c2 - c1) * (s * (3 - 2 * s - t) + t * (3 - 2 * t - s))
                    + (1 - c2) * (t ^ 2 + t * s + s ^ 2)) := by positivity
  linarith


theorem ctrl_bounds (y : Int) (h0 : 0 ≤ y) (h1 : y ≤ (10 : Int) ^ easingScaleExp) :
    0 ≤ (ctrl y : ℚ) ∧ (ctrl y : ℚ) ≤ 1 := by
  rw [ctrl_rat]
  have hp : (0 : ℚ) < 10 ^ easingScaleExp := by positivity
  have h0' : (0 : ℚ) ≤ y := by exact_mod_cast h0
  have h1' : (y : ℚ) ≤ 10 ^ easingScaleExp := by exact_mod_cast h1
  exact ⟨div_nonneg h0' hp.le, (div_le_one hp).2 h1'⟩

theorem ctrl_mono (a b : Int) (h : a ≤ b) : (ctrl a : ℚ) ≤ ctrl b := by
  rw [ctrl_rat, ctrl_rat]
  have hp : (0 : ℚ) < 10 ^ easingScaleExp := by positivity
  have : (a : ℚ) ≤ b := by exact_mod_cast h
  exact div_le_div_of_nonneg_right this hp.le

/-- every built-in easing except the Back family stays within [0,1] on [0,1] … -/
theorem ease_in_unit (e : EasingId) (hb : isBack e = false) (x : ℚ) (h0 : 0 ≤ x) (h1 : x ≤ 1) :
    0 ≤ (Easing.builtin e).calc x ∧ (Easing.builtin e).calc x ≤ 1 := by
  cases hc : e.curve with
  | none => simp [Easing.calc, hc, h0, h1]
  | some c =>
    obtain ⟨x1, y1, x2, y2⟩ := c
    have ht := nonBack_control_ys_ordered e (mem_all e) hb _ hc
    simp only at ht
    rw [ease_is_parametric e x1 y1 x2 y2 hc]
    have b1 := ctrl_bounds y1 ht.1 (le_trans ht.2.1 ht.2.2)
    have b2 := ctrl_bounds y2 (le_trans ht.1 ht.2.1) ht.2.2
    exact bezY_in_unit _ _ x b1.1 b2.2 (ctrl_mono _ _ ht.2.1) h0 h1

/-- … and is non-decreasing there -/
theorem ease_mono (e : EasingId) (hb : isBack e = false) (s t : ℚ) (hs : 0 ≤ s) (hst : s ≤ t) (ht : t ≤ 1) :
    (Easing.builtin e).calc s ≤ (Easing.builtin e).calc t := by
  cases hc : e.curve with
  | none => simp [Easing.calc, hc, hst]
  | some c =>
    obtain ⟨x1, y1, x2, y2⟩ := c
    have hto := nonBack_control_ys_ordered e (mem_all e) hb _ hc
    simp only at hto
    rw [ease_is_parametric e x1 y1 x2 y2 hc, ease_is_parametric e x1 y1 x2 y2 hc]
    have b1 := ctrl_bounds y1 hto.1 (le_trans hto.2.1 hto.2.2)
    have b2 := ctrl_bounds y2 (le_trans hto.1 hto.2.1) hto.2.2
    exact bezY_mono _ _ s t b1.1 b2.2 (ctrl_mono _ _ hto.2.1) hs hst ht

/-! ### mirrors -/

/-- control points of `o` are the point-mirror (about (½,½)) of those of `i`, both coordinates -/
def mirrored (i o : EasingId) : Bool :=
  match i.curve, o.curve with
  | some (a, b, c, d), some (a', b', c', d') =>
    let S : Int := 10 ^ easingScaleExp
    a' == S - c && b' == S - d && c' == S - a && d' == S - b
  | none, none => true
  | _, _ => false

theorem table_pairs_mirrored :
    Spec.inOutPairs.all (fun p => match EasingId.ofName? p.1, EasingId.ofName? p.2 with
      | some i, some o => mirrored i o | _, _ => false) = true := by decide

theorem table_self_mirrored :
    Spec.selfMirrored.all (fun n => match EasingId.ofName? n with
      | some e => mirrored e e | none => false) = true := by decide

theorem bezY_mirror (c1 c2 x : ℚ) : bezY (1 - c2) (1 - c1) x = 1 - bezY c1 c2 (1 - x) := by
  rw [bezY_poly, bezY_poly]; ring

theorem ctrl_sub (y : Int) : (ctrl ((10 : Int) ^ easingScaleExp - y) : ℚ) = 1 - ctrl y := by
  rw [ctrl_rat, ctrl_rat]
  have hp : (10 : ℚ) ^ easingScaleExp ≠ 0 := by positivity
  push_cast; field_simp

/-- each In/Out pair is the point mirror of the other; each InOut curve is its own mirror
(apply with `table_pairs_mirrored` / `table_self_mirrored`) -/
theorem mirrored_point_mirror (i o : EasingId) (h : mirrored i o = true) (x : ℚ) :
    (Easing.builtin o).calc x = 1 - (Easing.builtin i).calc (1 - x) := by
  unfold mirrored at h
  cases hi : i.curve with
  | none =>
    cases ho : o.curve with
    | none => simp [Easing.calc, hi, ho]
    | some c => rw [hi, ho] at h; simp at h
  | some ci =>
    cases ho : o.curve with
    | none => rw [hi, ho] at h; simp at h
    | some co =>
      obtain ⟨a, b, c, d⟩ := ci
      obtain ⟨a', b', c', d'⟩ := co
      rw [hi, ho] at h
      simp only [Bool.and_eq_true, beq_iff_eq] at h
      obtain ⟨⟨⟨_, hb⟩, _⟩, hd⟩ := h
      rw [ease_is_parametric o a' b' c' d' ho, ease_is_parametric i a b c d hi, hb, hd, ctrl_sub, ctrl_sub, bezY_mirror]

/-! ### the clause the code does not satisfy (F-C13) -/

/-- at the curve point with parameter ¼ — horizontal position `X = Bx(¼)`, height `By(¼)` — the code
returns `By(X)`; `true` iff that differs from the height of the curve there -/
def timingMismatch (e : EasingId) : Bool :=
  match e.curve with
  | none => false
  | some (x1, y1, x2, y2) =>
    let X : ℚ := bezY (ctrl x1) (ctrl x2) (1 / 4)
    (Easing.builtin e).calc X != bezY (ctrl y1) (ctrl y2) (1 / 4)

/-- For every one of the 28 Bezier curves the value the code produces at horizontal position
`X = Bx(¼)` is *not* the curve's height over `X`: `calc` is the parametric sample, not the CSS
timing function. (Known finding F-C13; the negation of the property's last sentence.) -/
theorem timing_function_refuted :
    (EasingId.all.filter (fun e => e.curve.isSome)).all timingMismatch = true := by decide +kernel


/-! ### the same model term on real binary32 (kernel evaluation, complete over the table) -/

/-- in IEEE binary32 every built-in easing maps +0.0 to +0.0 and 1.0 to 1.0 bit-exactly -/
theorem endpoints_exact_f32 :
    EasingId.all.all (fun e =>
      ((Easing.builtin e).calc (lit 0 : Float32)).toBits == (lit 0 : Float32).toBits &&
      ((Easing.builtin e).calc (lit 1 : Float32)).toBits == (lit 1 : Float32).toBits) = true := by
  decide +kernel

/-! Non-vacuity: the table has 29 entries, 26 of them non-Back Bezier-or-linear curves. -/
example : EasingId.all.length = 29 ∧ (EasingId.all.filter (fun e => !isBack e)).length = 26 := by decide

end C13
