import MinaProofs.Props.C15
/-!
# C16 — `animator!` produces exactly the animator the builder API would

Model: `MinaModel/Macro/Animator.lean` (`expandAnimator` = `expand_animator`, arm bodies through the
`timeline!` token model). What is compared is the animator *configuration* (initial state, initial
values, timeline per state); behaviour over every history then follows from equality of configurations
and C05. Generic in the number system.
-/
namespace C16

variable {α : Type} [Num α]

/-- `default(state, values)` sets the initial state and the initial values: omitted ⇒ the type's `Default`
(`none_`), an expression is used as is, an inline list assigns exactly the listed fields on top of
`Default` -/
theorem defaults_as_documented (inp : AnimatorInput) (ex : AnimatorExpansion α)
    (h : expandAnimator (α := α) inp = .ok ex) :
    ex.run.initialState = inp.defaults.map (·.1) ∧
    ex.run.initialValues = (match inp.defaults with | some (_, v) => v | none => .none_) := by
  unfold expandAnimator at h
  cases ha : expandArms (α := α) inp.arms with
  | error e => rw [ha] at h; simp at h
  | ok ons =>
    rw [ha] at h
    simp only [Except.ok.injEq] at h
    subst h
    refine ⟨rfl, ?_⟩
    simp only [AnimatorExpansion.run]
    cases inp.defaults with
    | none => rfl
    | some p => rfl

/-- the `.on` calls: every arm contributes one call per listed state, all with the *same* expansion, in
source order -/
theorem arms_in_order (arms : List (List String × Sentence)) (ons : List (String × Expansion α))
    (h : expandArms (α := α) arms = .ok ons) :
    ∃ exs : List (Expansion α), exs.length = arms.length ∧
      (∀ i (hi : i < arms.length) (hj : i < exs.length), expandSentence (α := α) (arms[i]).2 = .ok (exs[i])) ∧
      ons = ((arms.zip exs).map fun (a, ex) => a.1.map fun st => (st, ex)).flatten := by
  induction arms generalizing ons with
  | nil => simp [expandArms] at h; subst h; exact ⟨[], rfl, by simp, rfl⟩
  | cons a rest ih =>
    obtain ⟨states, s⟩ := a
    simp only [expandArms] at h
    cases hs : expandSentence (α := α) s with
    | error e => rw [hs] at h; simp at h
    | ok ex =>
      rw [hs] at h
      simp only at h
      cases hr : expandArms (α := α) rest with
      | error e => rw [hr] at h; simp at h
      | ok more =>
        rw [hr] at h
        simp only [Except.ok.injEq] at h
        subst h
        obtain ⟨exs, hl, hall, heq⟩ := ih more hr
        refine ⟨ex :: exs, by simp [hl], ?_, ?_⟩
        · intro i hi hj
          cases i with
          | zero => simpa using hs
          | succ j => simpa using hall j (by simpa using hi) (by simpa using hj)
        · simp [heq]

/-- `A | B => …` installs the same timeline for each listed state -/
theorem multi_state_arm_same_timeline (states : List String) (s : Sentence) (ons : List (String × Expansion α))
    (h : expandArms (α := α) [(states, s)] = .ok ons) :
    ∃ ex, expandSentence (α := α) s = .ok ex ∧ ons = states.map fun st => (st, ex) := by
  simp only [expandArms] at h
  cases hs : expandSentence (α := α) s with
  | error e => rw [hs] at h; simp at h
  | ok ex =>
    rw [hs] at h
    simp only [Except.ok.injEq, List.append_nil] at h
    exact ⟨ex, rfl, h.symm⟩

/-- states not mentioned in any arm have no timeline -/
theorem unmentioned_state_has_no_timeline (ex : AnimatorExpansion α) (st : String)
    (h : ∀ p ∈ ex.ons, p.1 ≠ st) : ex.run.timelineOf st = none := by
  simp only [AnimatorExpansion.run]
  have : ex.ons.reverse.find? (·.1 == st) = none := by
    rw [List.find?_eq_none]
    intro p hp
    have := h p (List.mem_reverse.1 hp)
    simpa using this
  rw [this]; rfl

/-- when a state is mentioned in several arms the last one wins (`EnumMap` assignment) -/
theorem last_arm_wins (ons : List (String × Expansion α)) (st : String) (e : Expansion α)
    (ex : AnimatorExpansion α) (hons : ex.ons = ons ++ [(st, e)]) :
    ex.run.timelineOf st = some e := by
  simp [AnimatorExpansion.run, hons]

/-- a bracketed arm installs a merged timeline of its members in order; a plain arm a single timeline:
by C15.`merged_list_in_order` / `single_member_list`, since arm bodies are `timeline!` sentences. The word
`default` as a keyframe body is passed through as `values_from(pos, &default_values)` (`KfVals.default_`),
which the derive-generated builder (C17.`values_from_copies_animated_fields`) turns into the initial
values of every animated field. -/
theorem default_keyframe_passed_through (pre post : List Arg) (p : KfPos) :
    (collect (pre ++ .keyframe p .default_ :: post)).keyframes =
      (collect pre).keyframes ++ (p, .default_) :: (collect post).keyframes := by
  have h1 := (C15.last_duplicate_wins (pre ++ .keyframe p .default_ :: post)).2.2.2.2.2
  have h2 := (C15.last_duplicate_wins pre).2.2.2.2.2
  have h3 := (C15.last_duplicate_wins post).2.2.2.2.2
  rw [h1, h2, h3]
  simp [List.filterMap_append]

/-- an ill-formed arm body rejects the whole block -/
theorem illformed_arm_rejects (pre post : List (List String × Sentence)) (states : List String) (s : Sentence)
    (e : MacroErr) (hbad : expandSentence (α := α) s = .error e)
    (hpre : ∃ ons, expandArms (α := α) pre = .ok ons) (d : Option (String × DefaultValues)) :
    ∃ e', expandAnimator (α := α) ⟨d, pre ++ (states, s) :: post⟩ = .error e' := by
  obtain ⟨ons, hp⟩ := hpre
  have : ∀ (l : List (List String × Sentence)) (o : List (String × Expansion α)), expandArms (α := α) l = .ok o →
      ∃ e', expandArms (α := α) (l ++ (states, s) :: post) = .error e' := by
    intro l
    induction l with
    | nil => intro o _; exact ⟨e, by simp [expandArms, hbad]⟩
    | cons a rest ih =>
      intro o ho
      obtain ⟨sts, sen⟩ := a
      simp only [expandArms] at ho
      cases hs : expandSentence (α := α) sen with
      | error e2 => rw [hs] at ho; simp at ho
      | ok ex =>
        rw [hs] at ho
        cases hr : expandArms (α := α) rest with
        | error e2 => rw [hr] at ho; simp at ho
        | ok more =>
          obtain ⟨e', he'⟩ := ih more hr
          exact ⟨e', by simp [expandArms, hs, he']⟩
  obtain ⟨e', he'⟩ := this pre ons hp
  exact ⟨e', by simp [expandAnimator, he']⟩

end C16
