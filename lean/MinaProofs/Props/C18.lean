import MinaProofs.Lemmas.RatNum
import MinaModel.Bevy
/-!
# C18 — Bevy Animator: time is conserved and the target lands on the final values

Model: `animateStep` (`bevy/src/animator.rs::animate`, with the repair 3ddfc7e), generic in the number
system. A frame *decides* on the position it sees at its start (`pos = secs a.posNs`) and then adds the
frame's delta: this one-frame lag is granted by the property ("a position at most one frame old",
"no later than one frame after") and is part of every statement below.
Multi-frame statements are by induction over arbitrary lists of frame deltas (`runFrames`).
-/
namespace C18

variable {α : Type} [Num α]

def rank : AnimState → Nat
  | .none => 0 | .waiting => 1 | .playing => 2 | .ended => 3

theorem eq_ended_of_rank {s : AnimState} (h : rank .ended ≤ rank s) : s = .ended := by
  cases s <;> simp [rank] at h ⊢

/-! ### the state machine of one frame -/

theorem stepState_forward (s : AnimState) (d e : Bool) : rank s ≤ rank (stepState s d e).1 := by
  cases s <;> cases d <;> cases e <;> decide

theorem stepState_changed_iff (s : AnimState) (d e : Bool) : (stepState s d e).2 = true ↔ (stepState s d e).1 ≠ s := by
  cases s <;> cases d <;> cases e <;> decide

theorem stepState_never_none (s : AnimState) (d e : Bool) : (stepState s d e).1 ≠ .none := by
  cases s <;> cases d <;> cases e <;> decide

/-- Waiting at the end of the frame only if the delay was not yet reached -/
theorem stepState_waiting (s : AnimState) (d e : Bool) (h : (stepState s d e).1 = .waiting) : d = false := by
  cases s <;> cases d <;> cases e <;> simp_all [stepState]

/-- Ended at the end of the frame iff it already was, or the total duration was reached -/
theorem stepState_ended_iff (s : AnimState) (d e : Bool) : (stepState s d e).1 = .ended ↔ s = .ended ∨ e = true := by
  cases s <;> cases d <;> cases e <;> decide

/-! ### one frame -/

/-- a disabled animator changes nothing -/
theorem disabled_noop (a : BAnimator α) (comp : List (Val α)) (δ : Nat) (h : a.enabled = false) :
    animateStep a comp δ = .ok (a, comp, []) := by
  simp [animateStep, h]

/-- everything one successful frame does, for an enabled animator with a timeline -/
theorem step_spec (a a' : BAnimator α) (comp comp' : List (Val α)) (evs : List AnimState) (δ : Nat) (tl : Merged α)
    (hen : a.enabled = true) (htl : a.timeline = some tl) (h : animateStep a comp δ = .ok (a', comp', evs)) :
    let pos : α := Num.secsOfNanos a.posNs
    let st := stepState a.state (decide (tl.delay ≤ pos)) (geDur pos tl.duration)
    a'.state = st.1 ∧ a'.enabled = true ∧ a'.timeline = some tl ∧
    a'.posNs = (if st.1 = .ended then a.posNs else a.posNs + δ) ∧
    evs = (if st.2 then [st.1] else []) ∧
    (if a.state = .playing ∨ (geDur pos tl.duration = true ∧ a.state ≠ .ended)
      then tl.update comp pos = .ok comp' else comp' = comp) := by
  intro pos st
  unfold animateStep at h
  simp only [hen, Bool.not_true, Bool.false_eq_true, if_false, htl] at h
  split at h
  · simp at h
  · rename_i c hc
    split at h
    · simp at h
    · simp only [Except.ok.injEq, Prod.mk.injEq] at h
      obtain ⟨ha, hcomp, hev⟩ := h
      subst ha; subst hcomp
      refine ⟨rfl, rfl, rfl, ?_, ?_, ?_⟩
      · by_cases hs : st.1 = .ended
        · simp [st, pos] at hs ⊢; try simp [hs]
        · simp [st, pos] at hs ⊢; try simp [hs]
      · exact hev.symm
      · by_cases hev2 : (a.state == AnimState.playing || geDur pos tl.duration && a.state != AnimState.ended) = true
        · have : a.state = .playing ∨ (geDur pos tl.duration = true ∧ a.state ≠ .ended) := by
            simpa using hev2
          rw [if_pos this]
          simp only [pos] at hev2
          rw [if_pos hev2] at hc
          exact hc
        · have : ¬ (a.state = .playing ∨ (geDur pos tl.duration = true ∧ a.state ≠ .ended)) := by
            simpa using hev2
          rw [if_neg this]
          simp only [pos] at hev2
          rw [if_neg hev2] at hc
          simp only [Except.ok.injEq] at hc
          exact hc.symm

section frame_theorems
variable (a a' : BAnimator α) (comp comp' : List (Val α)) (evs : List AnimState) (δ : Nat) (tl : Merged α)
  (hen : a.enabled = true) (htl : a.timeline = some tl) (h : animateStep a comp δ = .ok (a', comp', evs))
include hen htl h

/-- **time is conserved**: the position grows by exactly the frame's delta while waiting or playing, and
stops growing once ended -/
theorem position_conserved :
    (a'.state ≠ .ended → a'.posNs = a.posNs + δ) ∧ (a'.state = .ended → a'.posNs = a.posNs) := by
  obtain ⟨h1, _, _, h4, _, _⟩ := step_spec a a' comp comp' evs δ tl hen htl h
  rw [h1]
  constructor
  · intro hne; rw [h4, if_neg hne]
  · intro he; rw [h4, if_pos he]

/-- the state only moves forward None → Waiting → Playing → Ended -/
theorem state_forward_only : rank a.state ≤ rank a'.state := by
  obtain ⟨h1, _⟩ := step_spec a a' comp comp' evs δ tl hen htl h
  rw [h1]; exact stepState_forward _ _ _

/-- Waiting only while the position (the frame decided on) is before the delay -/
theorem waiting_implies_before_delay (hw : a'.state = .waiting) :
    ¬ (tl.delay ≤ (Num.secsOfNanos a.posNs : α)) := by
  obtain ⟨h1, _⟩ := step_spec a a' comp comp' evs δ tl hen htl h
  rw [h1] at hw
  have := stepState_waiting _ _ _ hw
  simpa using this

/-- becomes Ended no later than the frame that sees the position at/after the total duration, and never
before: Ended at the end of the frame iff it already was or `pos ≥ duration` -/
theorem ended_iff : a'.state = .ended ↔ a.state = .ended ∨ geDur (Num.secsOfNanos a.posNs : α) tl.duration = true := by
  obtain ⟨h1, _⟩ := step_spec a a' comp comp' evs δ tl hen htl h
  rw [h1]; exact stepState_ended_iff _ _ _

/-- never Ended for infinitely repeating timelines -/
theorem never_ended_infinite (hinf : tl.duration = none) (hne : a.state ≠ .ended) : a'.state ≠ .ended := by
  intro he
  rcases (ended_iff a a' comp comp' evs δ tl hen htl h).1 he with h1 | h1
  · exact hne h1
  · simp [geDur, hinf] at h1

/-- on the frame that reports Ended for the first time the target was evaluated at a position at/after
the total duration — i.e. it holds the timeline's terminal values (C02) — even if Playing was skipped -/
theorem ended_target_terminal (he : a'.state = .ended) (hne : a.state ≠ .ended) :
    geDur (Num.secsOfNanos a.posNs : α) tl.duration = true ∧ tl.update comp (Num.secsOfNanos a.posNs) = .ok comp' := by
  obtain ⟨_, _, _, _, _, h6⟩ := step_spec a a' comp comp' evs δ tl hen htl h
  have hd : geDur (Num.secsOfNanos a.posNs : α) tl.duration = true := by
    rcases (ended_iff a a' comp comp' evs δ tl hen htl h).1 he with h1 | h1
    · exact absurd h1 hne
    · exact h1
  rw [if_pos (Or.inr ⟨hd, hne⟩)] at h6
  exact ⟨hd, h6⟩

/-- while Playing the component is the timeline evaluated at the position the frame started with
(one frame old by the time the frame is over) -/
theorem playing_target (hp : a.state = .playing) : tl.update comp (Num.secsOfNanos a.posNs) = .ok comp' := by
  obtain ⟨_, _, _, _, _, h6⟩ := step_spec a a' comp comp' evs δ tl hen htl h
  rw [if_pos (Or.inl hp)] at h6
  exact h6

/-- once Ended, further frames leave the component alone -/
theorem ended_target_untouched (he : a.state = .ended) : comp' = comp := by
  obtain ⟨_, _, _, _, _, h6⟩ := step_spec a a' comp comp' evs δ tl hen htl h
  have : ¬ (a.state = .playing ∨ (geDur (Num.secsOfNanos a.posNs : α) tl.duration = true ∧ a.state ≠ .ended)) := by
    rw [he]; simp
  rw [if_neg this] at h6
  exact h6

/-- each state change is announced by exactly one event, carrying the state the animator has at the end
of that frame; no change, no event -/
theorem one_event_per_changing_frame : evs = if a'.state ≠ a.state then [a'.state] else [] := by
  obtain ⟨h1, _, _, _, h5, _⟩ := step_spec a a' comp comp' evs δ tl hen htl h
  rw [h5, h1]
  by_cases hc : (stepState a.state (decide (tl.delay ≤ (Num.secsOfNanos a.posNs : α))) (geDur (Num.secsOfNanos a.posNs) tl.duration)).2 = true
  · rw [if_pos hc, if_pos ((stepState_changed_iff _ _ _).1 hc)]
  · have : ¬ ((stepState a.state (decide (tl.delay ≤ (Num.secsOfNanos a.posNs : α))) (geDur (Num.secsOfNanos a.posNs) tl.duration)).1 ≠ a.state) :=
      fun hn => hc ((stepState_changed_iff _ _ _).2 hn)
    rw [if_neg hc, if_neg this]

end frame_theorems

/-! ### any schedule of frame deltas -/

/-- run the `animate` system over a list of frame deltas (no reset / re-targeting in between);
returns the final animator, component and all events in order -/
def runFrames (a : BAnimator α) (comp : List (Val α)) : List Nat → Except Panic (BAnimator α × List (Val α) × List AnimState)
  | [] => .ok (a, comp, [])
  | δ :: ds =>
    match animateStep a comp δ with
    | .error p => .error p
    | .ok (a1, c1, e1) =>
      match runFrames a1 c1 ds with
      | .error p => .error p
      | .ok (a2, c2, e2) => .ok (a2, c2, e1 ++ e2)

/-- exactly one `Ended` event per run: over any schedule, an enabled animator with a timeline announces
`Ended` at most once, and exactly once iff it goes from not-ended to ended -/
theorem exactly_one_ended_per_run (a a' : BAnimator α) (comp comp' : List (Val α)) (evs : List AnimState) (ds : List Nat)
    (tl : Merged α) (hen : a.enabled = true) (htl : a.timeline = some tl)
    (h : runFrames a comp ds = .ok (a', comp', evs)) :
    (evs.filter (· == .ended)).length = (if a.state ≠ .ended ∧ a'.state = .ended then 1 else 0) ∧
    rank a.state ≤ rank a'.state ∧ a'.enabled = true ∧ a'.timeline = some tl := by
  induction ds generalizing a comp comp' evs with
  | nil =>
    simp only [runFrames, Except.ok.injEq, Prod.mk.injEq] at h
    obtain ⟨rfl, _, rfl⟩ := h
    refine ⟨?_, le_rfl, hen, htl⟩
    by_cases he : a.state = .ended <;> simp [he]
  | cons δ ds ih =>
    simp only [runFrames] at h
    cases h1 : animateStep a comp δ with
    | error p => rw [h1] at h; simp at h
    | ok r1 =>
      obtain ⟨a1, c1, e1⟩ := r1
      rw [h1] at h
      simp only at h
      cases h2 : runFrames a1 c1 ds with
      | error p => rw [h2] at h; simp at h
      | ok r2 =>
        obtain ⟨a2, c2, e2⟩ := r2
        rw [h2] at h
        simp only [Except.ok.injEq, Prod.mk.injEq] at h
        obtain ⟨rfl, _, rfl⟩ := h
        obtain ⟨s1, s2, s3, _, _, _⟩ := step_spec a a1 comp c1 e1 δ tl hen htl h1
        obtain ⟨ih1, ih2, ih3, ih4⟩ := ih a1 c1 c2 e2 s2 s3 h2
        have hev := one_event_per_changing_frame a a1 comp c1 e1 δ tl hen htl h1
        have hfw := state_forward_only a a1 comp c1 e1 δ tl hen htl h1
        refine ⟨?_, le_trans hfw ih2, ih3, ih4⟩
        rw [List.filter_append, List.length_append, ih1, hev]
        -- case analysis on where (if at all) the run crosses into Ended
        by_cases ha : a.state = .ended
        · have ha1 : a1.state = .ended := by
            have : rank a.state ≤ rank a1.state := hfw
            rw [ha] at this
            cases hs : a1.state <;> rw [hs] at this <;> simp [rank] at this ⊢
          have ha2 : a2.state = .ended := by
            have : rank a1.state ≤ rank a2.state := ih2
            rw [ha1] at this
            cases hs : a2.state <;> rw [hs] at this <;> simp [rank] at this ⊢
          rw [ha1, ha, ha2]; simp
        · by_cases ha1 : a1.state = .ended
          · have ha2 : a2.state = .ended := eq_ended_of_rank (by rw [← ha1]; exact ih2)
            have ha' : ¬ (AnimState.ended = a.state) := fun h => ha h.symm
            simp [ha, ha1, ha2, ha']
          · by_cases hch : a1.state ≠ a.state
            · simp [ha, ha1, hch]
            · simp [ha, ha1, hch]

/-- a reached `Ended` state is kept, and the position never moves again, over any further schedule -/
theorem ended_is_final (a a' : BAnimator α) (comp comp' : List (Val α)) (evs : List AnimState) (ds : List Nat)
    (tl : Merged α) (hen : a.enabled = true) (htl : a.timeline = some tl) (he : a.state = .ended)
    (h : runFrames a comp ds = .ok (a', comp', evs)) :
    a'.state = .ended ∧ a'.posNs = a.posNs ∧ comp' = comp ∧ evs = [] := by
  induction ds generalizing a comp comp' evs with
  | nil =>
    simp only [runFrames, Except.ok.injEq, Prod.mk.injEq] at h
    obtain ⟨rfl, rfl, rfl⟩ := h
    exact ⟨he, rfl, rfl, rfl⟩
  | cons δ ds ih =>
    simp only [runFrames] at h
    cases h1 : animateStep a comp δ with
    | error p => rw [h1] at h; simp at h
    | ok r1 =>
      obtain ⟨a1, c1, e1⟩ := r1
      rw [h1] at h
      simp only at h
      cases h2 : runFrames a1 c1 ds with
      | error p => rw [h2] at h; simp at h
      | ok r2 =>
        obtain ⟨a2, c2, e2⟩ := r2
        rw [h2] at h
        simp only [Except.ok.injEq, Prod.mk.injEq] at h
        obtain ⟨rfl, rfl, rfl⟩ := h
        obtain ⟨_, s2, s3, _, _, _⟩ := step_spec a a1 comp c1 e1 δ tl hen htl h1
        have he1 : a1.state = .ended := (ended_iff a a1 comp c1 e1 δ tl hen htl h1).2 (Or.inl he)
        have hp1 := (position_conserved a a1 comp c1 e1 δ tl hen htl h1).2 he1
        have hc1 := ended_target_untouched a a1 comp c1 e1 δ tl hen htl h1 he
        have hev := one_event_per_changing_frame a a1 comp c1 e1 δ tl hen htl h1
        obtain ⟨i1, i2, i3, i4⟩ := ih a1 c1 c2 e2 s2 s3 he1 h2
        refine ⟨i1, by rw [i2, hp1], by rw [i3, hc1], ?_⟩
        rw [hev, i4, he1, he]; simp

/-- while it never ends (e.g. an infinitely repeating timeline), the position is the sum of all deltas -/
theorem position_is_sum_of_deltas (a a' : BAnimator α) (comp comp' : List (Val α)) (evs : List AnimState) (ds : List Nat)
    (tl : Merged α) (hen : a.enabled = true) (htl : a.timeline = some tl) (hne : a'.state ≠ .ended)
    (h : runFrames a comp ds = .ok (a', comp', evs)) : a'.posNs = a.posNs + ds.sum := by
  induction ds generalizing a comp comp' evs with
  | nil =>
    simp only [runFrames, Except.ok.injEq, Prod.mk.injEq] at h
    obtain ⟨rfl, _, _⟩ := h; simp
  | cons δ ds ih =>
    simp only [runFrames] at h
    cases h1 : animateStep a comp δ with
    | error p => rw [h1] at h; simp at h
    | ok r1 =>
      obtain ⟨a1, c1, e1⟩ := r1
      rw [h1] at h
      simp only at h
      cases h2 : runFrames a1 c1 ds with
      | error p => rw [h2] at h; simp at h
      | ok r2 =>
        obtain ⟨a2, c2, e2⟩ := r2
        rw [h2] at h
        simp only [Except.ok.injEq, Prod.mk.injEq] at h
        obtain ⟨rfl, rfl, _⟩ := h
        obtain ⟨_, s2, s3, _, _, _⟩ := step_spec a a1 comp c1 e1 δ tl hen htl h1
        have hne1 : a1.state ≠ .ended := by
          intro he1
          exact hne (ended_is_final a1 a2 c1 c2 e2 ds tl s2 s3 he1 h2).1
        have hp1 := (position_conserved a a1 comp c1 e1 δ tl hen htl h1).1 hne1
        rw [ih a1 c1 c2 e2 s2 s3 h2, hp1, List.sum_cons]; omega

end C18

namespace C18
variable {α : Type} [Num α]

/-- **entities do not interfere**: in an App with any number of animated entities, a frame does to the k-th entity
exactly what it would do if that entity were alone (same delta, same system order) -/
theorem frameAll_get (ws : List (World α)) (δ : Nat) (cf qf : Bool)
    (rs : List (World α × List AnimState × List AnimState)) (h : frameAll ws δ cf qf = .ok rs) :
    rs.length = ws.length ∧ ∀ k (hk : k < ws.length) (hk' : k < rs.length), frame ws[k] δ cf qf = .ok rs[k] := by
  induction ws generalizing rs with
  | nil =>
    simp only [frameAll, Except.ok.injEq] at h
    subst h
    exact ⟨rfl, fun k hk => absurd hk (by simp)⟩
  | cons w rest ih =>
    unfold frameAll at h
    cases hw : frame w δ cf qf with
    | error p => rw [hw] at h; simp at h
    | ok r =>
      rw [hw] at h
      cases hr : frameAll rest δ cf qf with
      | error p => rw [hr] at h; simp at h
      | ok rs' =>
        rw [hr] at h
        simp only [Except.ok.injEq] at h
        subst h
        obtain ⟨hl, hg⟩ := ih rs' hr
        refine ⟨by simp [hl], ?_⟩
        intro k hk hk'
        cases k with
        | zero => simpa using hw
        | succ k => simpa using hg k (by simpa using hk) (by simpa using hk')

/-- a frame of the App fails (a panic of the implementation) only if the frame of one of its entities does -/
theorem frameAll_error (ws : List (World α)) (δ : Nat) (cf qf : Bool) (p : Panic)
    (h : frameAll ws δ cf qf = .error p) : ∃ w ∈ ws, frame w δ cf qf = .error p := by
  induction ws with
  | nil => simp [frameAll] at h
  | cons w rest ih =>
    unfold frameAll at h
    cases hw : frame w δ cf qf with
    | error q => rw [hw] at h; simp only [Except.error.injEq] at h; subst h; exact ⟨w, by simp, hw⟩
    | ok r =>
      rw [hw] at h
      cases hr : frameAll rest δ cf qf with
      | error q =>
        rw [hr] at h; simp only [Except.error.injEq] at h; subst h
        obtain ⟨w', hm, hf⟩ := ih hr
        exact ⟨w', by simp [hm], hf⟩
      | ok rs' => rw [hr] at h; simp at h

end C18
