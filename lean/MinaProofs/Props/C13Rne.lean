import MinaProofs.Props.C13Rounded
import MinaProofs.Lemmas.Rne
/-! # C13 for binary32's own rounding (`rne24`, proved faithful in `Lemmas/Rne.lean`) -/
namespace C13

/-- in binary32 arithmetic every built-in easing maps 0 to 0 and 1 to 1 exactly -/
theorem ease_endpoints_binary32 (id : Gen.EasingId) :
    ((Easing.builtin id).calc (lit 0 : Rd rne24)).val = 0 ∧ ((Easing.builtin id).calc (lit 1 : Rd rne24)).val = 1 :=
  ⟨ease_zero_any_rounding Faithful.rne24 id _ (by simp [Faithful.rne24.zero]),
   ease_one_any_rounding Faithful.rne24 id _ (by simp [Faithful.rne24.one])⟩

end C13
