import MinaProofs.Lemmas.Rounded
import MinaModel.Easing
/-!
# C13 under every faithful rounding: every built-in easing maps 0 to 0 and 1 to 1 *exactly*

lyon's `y(t) = from.y·(1−t)³ + c₁·3·(1−t)²·t + c₂·3·(1−t)·t² + to.y·t³` with `from.y = 0`, `to.y = 1`, evaluated in
the code's operation order with a rounding after every operation: at `t = 0` every product contains an exact zero,
at `t = 1` every product but the last does and the last is `1·1`.  No property of the control points is used, so the
statement covers the Back family and any `CubicBezierEasing` a user constructs.
-/

namespace C13
variable {ρ : ℚ → ℚ}

theorem bezY_zero_any_rounding (F : Faithful ρ) (c1 c2 t : Rd ρ) (ht : t.val = 0) : (bezY c1 c2 t).val = 0 := by
  unfold bezY
  simp only [Rd.add_val, Rd.mul_val, Rd.sub_val, Rd.lit_val, ht, Nat.cast_one, Nat.cast_zero, F.one, F.zero,
    sub_zero, mul_one, mul_zero, add_zero, F.idem]

theorem bezY_one_any_rounding (F : Faithful ρ) (c1 c2 t : Rd ρ) (ht : t.val = 1) : (bezY c1 c2 t).val = 1 := by
  unfold bezY
  simp only [Rd.add_val, Rd.mul_val, Rd.sub_val, Rd.lit_val, ht, Nat.cast_one, Nat.cast_zero, F.one, F.zero,
    sub_self, mul_one, mul_zero, zero_add, add_zero]

/-- every built-in easing (all 29 rows of the table generated from `easing.rs`) fixes 0 exactly … -/
theorem ease_zero_any_rounding (F : Faithful ρ) (id : Gen.EasingId) (x : Rd ρ) (hx : x.val = 0) :
    ((Easing.builtin id).calc x).val = 0 := by
  unfold Easing.calc
  dsimp only
  split
  · exact hx
  · exact bezY_zero_any_rounding F _ _ _ hx

/-- … and 1 exactly -/
theorem ease_one_any_rounding (F : Faithful ρ) (id : Gen.EasingId) (x : Rd ρ) (hx : x.val = 1) :
    ((Easing.builtin id).calc x).val = 1 := by
  unfold Easing.calc
  dsimp only
  split
  · exact hx
  · exact bezY_one_any_rounding F _ _ _ hx

end C13
