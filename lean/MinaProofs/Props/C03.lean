import MinaProofs.Lemmas.TimeScale
import MinaModel.Timeline
/-!
# C03 — Delay/repeat/reverse map time to a bounded, periodic, mirrored position

Model: `MinaModel/TimeScale.lean` (`TimeScale.position` = `get_position`, `totalDuration` =
`get_duration`) at `α = ℚ`. `Pos.value` is the normalised position `prepare_frame` feeds to the
keyframe search (0 while not started). Hypothesis throughout: cycle duration > 0, as in the property.
No bound on the repeat count or on the time.
-/
namespace C03

variable (ts : TimeScale ℚ)

/-- 0 % while time < delay: `NotStarted` exactly when `t < delay` -/
theorem not_started_iff (t : ℚ) : (ts.position t).isNotStarted = true ↔ t < ts.delay := by
  unfold TimeScale.position
  simp only [lit_rat, Nat.cast_zero]
  split
  · rename_i h; simp [Pos.isNotStarted]; linarith
  · rename_i h
    have hn : ¬ t < ts.delay := by intro h'; apply h; linarith
    simp only [hn, iff_false]
    split
    · split
      · simp [TimeScale.positionEnded, Pos.isNotStarted]
      · simp [cyclePos_started]
    · split
      · simp [TimeScale.positionEnded, Pos.isNotStarted]
      · simp [loopPos_started]
    · simp [loopPos_started]

/-- the position always lies in [0,1] — every repeat/reverse shape, every time -/
theorem pos_in_unit (hd : 0 < ts.duration) (t : ℚ) :
    0 ≤ (ts.position t).value ∧ (ts.position t).value ≤ 1 := by
  unfold TimeScale.position
  simp only [lit_rat, Nat.cast_zero]
  have hend : 0 ≤ ts.positionEnded.value ∧ ts.positionEnded.value ≤ 1 := by
    unfold TimeScale.positionEnded; split <;> simp [Pos.value]
  split
  · simp [Pos.value]
  · rename_i h
    have hc : 0 ≤ t - ts.delay := not_lt.1 h
    have hloop : 0 ≤ (ts.loopPos (t - ts.delay)).value ∧ (ts.loopPos (t - ts.delay)).value ≤ 1 := by
      rw [loopPos_value]
      have b := loopCycle_bounds hd hc
      exact tri_in_unit _ _ (div_nonneg b.1 hd.le) ((div_le_one hd).2 b.2)
    split
    · split
      · exact hend
      · rename_i h2
        rw [cyclePos_value]
        exact tri_in_unit _ _ (div_nonneg hc hd.le) ((div_le_one hd).2 (not_lt.1 h2))
    · split
      · exact hend
      · exact hloop
    · exact hloop

/-- terminal exactly when the time since the delay exceeds cycle × (repeats + 1); never for Infinite -/
theorem ended_iff (t : ℚ) :
    (ts.position t).isEnded = true ↔
      match ts.repeat_ with
      | .none => 0 ≤ t - ts.delay ∧ ts.duration < t - ts.delay
      | .times n => 0 ≤ t - ts.delay ∧ ts.duration * ((n : ℚ) + 1) < t - ts.delay
      | .infinite => False := by
  unfold TimeScale.position
  simp only [lit_rat, Nat.cast_zero]
  split
  · rename_i h
    have : ¬ 0 ≤ t - ts.delay := not_le.2 h
    cases ts.repeat_ <;> simp [Pos.isEnded, this]
  · rename_i h
    have hc : 0 ≤ t - ts.delay := not_lt.1 h
    cases hr : ts.repeat_ with
    | none =>
      simp only [hc, true_and]
      split
      · rename_i h2; simp [TimeScale.positionEnded, Pos.isEnded, h2]
      · rename_i h2; simp [cyclePos_not_ended, h2]
    | times n =>
      simp only [hc, true_and]
      split
      · rename_i h2; simp only [TimeScale.positionEnded, Pos.isEnded, true_iff]; push_cast at h2; exact h2
      · rename_i h2; simp only [loopPos_not_ended, Bool.false_eq_true, false_iff]; push_cast at h2; exact h2
    | infinite => simp [loopPos_not_ended]

/-- once terminal the position is 100 %, or the original 0 % when reversing -/
theorem ended_value (t : ℚ) (h : (ts.position t).isEnded = true) :
    (ts.position t).value = if ts.reverse then 0 else 1 := by
  unfold TimeScale.position at h ⊢
  simp only [lit_rat, Nat.cast_zero] at h ⊢
  split at h
  · simp [Pos.isEnded] at h
  · rename_i hn
    rw [if_neg hn]
    cases hr : ts.repeat_ with
    | none =>
      rw [hr] at h; simp only at h ⊢
      split at h
      · rename_i h2; rw [if_pos h2]; unfold TimeScale.positionEnded; split <;> simp [Pos.value]
      · simp [cyclePos_not_ended] at h
    | times n =>
      rw [hr] at h; simp only at h ⊢
      split at h
      · rename_i h2; rw [if_pos h2]; unfold TimeScale.positionEnded; split <;> simp [Pos.value]
      · simp [loopPos_not_ended] at h
    | infinite => rw [hr] at h; simp [loopPos_not_ended] at h

/-- closed form of the position while active: the triangular fold of the cycle ratio, with the
hold-at-the-end rule on exact cycle multiples (stated, not hidden, in `loopCycle`) -/
theorem active_value (t : ℚ) (h0 : ts.delay ≤ t) (hne : (ts.position t).isEnded = false) :
    (ts.position t).value =
      match ts.repeat_ with
      | .none => tri ts.reverse ((t - ts.delay) / ts.duration)
      | _ => tri ts.reverse (loopCycle ts.duration (t - ts.delay) / ts.duration) := by
  unfold TimeScale.position at hne ⊢
  simp only [lit_rat, Nat.cast_zero] at hne ⊢
  have hn : ¬ t - ts.delay < 0 := by linarith
  rw [if_neg hn] at hne ⊢
  cases hr : ts.repeat_ with
  | none =>
    rw [hr] at hne; simp only at hne ⊢
    split at hne
    · simp [TimeScale.positionEnded, Pos.isEnded] at hne
    · rename_i h2; rw [if_neg h2, cyclePos_value]
  | times n =>
    rw [hr] at hne; simp only at hne ⊢
    split at hne
    · simp [TimeScale.positionEnded, Pos.isEnded] at hne
    · rename_i h2; rw [if_neg h2, loopPos_value]
  | infinite => simp only; rw [loopPos_value]

/-- rises linearly over one cycle (first cycle, not reversing) -/
theorem linear_first_cycle (hd : 0 < ts.duration) (hrev : ts.reverse = false) (c : ℚ)
    (h0 : 0 ≤ c) (h1 : c < ts.duration) :
    (ts.position (ts.delay + c)).value = c / ts.duration := by
  have hne : (ts.position (ts.delay + c)).isEnded = false := by
    cases he : (ts.position (ts.delay + c)).isEnded with
    | false => rfl
    | true =>
      have := (ended_iff ts (ts.delay + c)).1 he
      cases hr : ts.repeat_ with
      | none => rw [hr] at this; simp only [add_sub_cancel_left] at this; linarith [this.2]
      | times n =>
        rw [hr] at this; simp only [add_sub_cancel_left] at this
        have hn : (0 : ℚ) ≤ n := Nat.cast_nonneg n
        nlinarith [this.2]
      | infinite => rw [hr] at this; exact this.elim
  rw [active_value ts _ (by linarith) hne]
  have hfm : (fmod c ts.duration : ℚ) = c := by
    rw [fmod_nonneg h0 hd]
    have : ⌊c / ts.duration⌋ = 0 := by
      rw [Int.floor_eq_iff]; constructor
      · simpa using div_nonneg h0 hd.le
      · simpa using (div_lt_one hd).2 h1
    rw [this]; simp
  have hlc : loopCycle ts.duration c = c := by
    unfold loopCycle
    rw [hfm]
    have : ¬ (1 : ℚ) ≤ c / ts.duration := not_le.2 ((div_lt_one hd).2 h1)
    simp [this]
  cases hr : ts.repeat_ <;> simp [tri, hrev, hlc]

/-- when reversing: rises over the first half of the cycle and falls symmetrically over the second -/
theorem triangular_first_cycle (hd : 0 < ts.duration) (hrev : ts.reverse = true) (c : ℚ)
    (h0 : 0 ≤ c) (h1 : c < ts.duration) :
    (ts.position (ts.delay + c)).value =
      if c / ts.duration ≤ 1 / 2 then 2 * (c / ts.duration) else 2 * (1 - c / ts.duration) := by
  have hne : (ts.position (ts.delay + c)).isEnded = false := by
    cases he : (ts.position (ts.delay + c)).isEnded with
    | false => rfl
    | true =>
      have := (ended_iff ts (ts.delay + c)).1 he
      cases hr : ts.repeat_ with
      | none => rw [hr] at this; simp only [add_sub_cancel_left] at this; linarith [this.2]
      | times n =>
        rw [hr] at this; simp only [add_sub_cancel_left] at this
        have hn : (0 : ℚ) ≤ n := Nat.cast_nonneg n
        nlinarith [this.2]
      | infinite => rw [hr] at this; exact this.elim
  rw [active_value ts _ (by linarith) hne]
  have hfm : (fmod c ts.duration : ℚ) = c := by
    rw [fmod_nonneg h0 hd]
    have : ⌊c / ts.duration⌋ = 0 := by
      rw [Int.floor_eq_iff]; constructor
      · simpa using div_nonneg h0 hd.le
      · simpa using (div_lt_one hd).2 h1
    rw [this]; simp
  have hlc : loopCycle ts.duration c = c := by
    unfold loopCycle
    rw [hfm]
    have : ¬ (1 : ℚ) ≤ c / ts.duration := not_le.2 ((div_lt_one hd).2 h1)
    simp [this]
  have key : tri true (c / ts.duration) = if c / ts.duration ≤ 1 / 2 then 2 * (c / ts.duration) else 2 * (1 - c / ts.duration) := by
    unfold tri; simp only [if_true]
    split <;> rename_i h
    · rw [if_neg (not_le.2 h)]; ring
    · rw [if_pos (not_lt.1 h)]; ring
  cases hr : ts.repeat_ <;> simp only [add_sub_cancel_left, hrev, hlc, key]

/-- the triangular wave is symmetric: ratio r and 1 − r give the same position -/
theorem tri_mirror (r : ℚ) : tri true r = tri true (1 - r) := by
  unfold tri; simp only [if_true]
  rcases lt_trichotomy r (1 / 2) with h | h | h
  · rw [if_neg (by linarith), if_pos (by linarith)]; ring
  · subst h; norm_num
  · rw [if_pos h, if_neg (by linarith)]

/-- falls symmetrically: within the first cycle, `delay + c` and `delay + (cycle − c)` show the same position -/
theorem mirror_first_cycle (hd : 0 < ts.duration) (hrev : ts.reverse = true) (c : ℚ)
    (h0 : 0 < c) (h1 : c < ts.duration) :
    (ts.position (ts.delay + c)).value = (ts.position (ts.delay + (ts.duration - c))).value := by
  rw [triangular_first_cycle ts hd hrev c h0.le h1,
      triangular_first_cycle ts hd hrev (ts.duration - c) (by linarith) (by linarith)]
  have e : (ts.duration - c) / ts.duration = 1 - c / ts.duration := by field_simp
  rw [e]
  rcases lt_trichotomy (c / ts.duration) (1 / 2) with h | h | h
  · rw [if_pos h.le, if_neg (by linarith)]; ring
  · rw [h]; norm_num
  · rw [if_neg (by linarith), if_pos (by linarith)]

theorem fmod_add_period {c d : ℚ} (hc : 0 ≤ c) (hd : 0 < d) : (fmod (c + d) d : ℚ) = fmod c d := by
  rw [fmod_nonneg (by linarith) hd, fmod_nonneg hc hd]
  have : (c + d) / d = c / d + 1 := by field_simp
  rw [this, Int.floor_add_one]; push_cast; ring

/-- repeats with a period equal to the cycle duration: away from exact cycle multiples (where the
hold rule shows the end value instead), and while neither instant is terminal -/
theorem periodic (hd : 0 < ts.duration) (hr : ts.repeat_ ≠ .none) (t : ℚ) (h0 : ts.delay ≤ t)
    (hrem : (fmod (t - ts.delay) ts.duration : ℚ) ≠ 0)
    (hne : (ts.position (t + ts.duration)).isEnded = false) (hne0 : (ts.position t).isEnded = false) :
    (ts.position (t + ts.duration)).value = (ts.position t).value := by
  rw [active_value ts _ (by linarith) hne, active_value ts _ h0 hne0]
  have e : t + ts.duration - ts.delay = (t - ts.delay) + ts.duration := by ring
  have hc : 0 ≤ t - ts.delay := by linarith
  have hl : loopCycle ts.duration (t + ts.duration - ts.delay) = loopCycle ts.duration (t - ts.delay) := by
    unfold loopCycle
    rw [e, fmod_add_period hc hd]
    simp [hrem]
  cases hrr : ts.repeat_ with
  | none => exact absurd hrr hr
  | times n => simp only [hl]
  | infinite => simp only [hl]

/-- the end of every pass shows the end position before any wrap: at `delay + k·cycle`, `k ≥ 1`,
the cycle ratio is 1 (position 100 %, or 0 % at the end of a reverse pass), never 0 -/
theorem hold_at_cycle_end (hd : 0 < ts.duration) (hr : ts.repeat_ ≠ .none) (k : Nat) (hk : 1 ≤ k)
    (hne : (ts.position (ts.delay + ts.duration * k)).isEnded = false) :
    (ts.position (ts.delay + ts.duration * k)).value = if ts.reverse then 0 else 1 := by
  rw [active_value ts _ (by have : (0:ℚ) ≤ k := Nat.cast_nonneg k; nlinarith) hne]
  have hk' : (1 : ℚ) ≤ k := by exact_mod_cast hk
  have hfm : (fmod (ts.duration * k) ts.duration : ℚ) = 0 := by
    rw [fmod_nonneg (by nlinarith) hd]
    have : ts.duration * k / ts.duration = ((k : ℤ) : ℚ) := by field_simp; push_cast; ring
    rw [this, Int.floor_intCast]; push_cast; ring
  have hq : (1 : ℚ) ≤ ts.duration * k / ts.duration := by
    have : ts.duration * k / ts.duration = k := by field_simp
    rw [this]; exact hk'
  have hl : loopCycle ts.duration (ts.delay + ts.duration * k - ts.delay) = ts.duration := by
    unfold loopCycle
    simp only [add_sub_cancel_left, hfm, hq]
    simp
  have h1 : ts.duration / ts.duration = 1 := div_self hd.ne'
  cases hrr : ts.repeat_ with
  | none => exact absurd hrr hr
  | times n => simp only [hl, h1, tri]; split <;> norm_num
  | infinite => simp only [hl, h1, tri]; split <;> norm_num

/-- the reported total duration is `delay + cycle × (repeats + 1)`, infinite for infinite repeat -/
theorem total_duration :
    ts.totalDuration = match ts.repeat_ with
      | .none => some (ts.delay + ts.duration * 1)
      | .times n => some (ts.delay + ts.duration * ((n : ℚ) + 1))
      | .infinite => none := by
  unfold TimeScale.totalDuration
  cases ts.repeat_ <;> simp [Repeat.ordinal]

/-- … and agrees with the behaviour: terminal exactly when the time is past the reported total -/
theorem metadata_agrees (t : ℚ) (h0 : ts.delay ≤ t) :
    (ts.position t).isEnded = true ↔ ∃ T, ts.totalDuration = some T ∧ T < t := by
  rw [ended_iff, total_duration]
  have hc : 0 ≤ t - ts.delay := by linarith
  cases ts.repeat_ with
  | none => simp only [hc, true_and, Option.some.injEq, exists_eq_left']; constructor <;> intro h <;> linarith
  | times n => simp only [hc, true_and, Option.some.injEq, exists_eq_left']; constructor <;> intro h <;> linarith
  | infinite => simp

/-- the built timeline reports exactly what the builder was given -/
theorem metadata_as_configured (fields : List (AnimField ℚ)) (cfg : Config ℚ) :
    (Timeline.build fields cfg).delay = cfg.delay ∧
    (Timeline.build fields cfg).cycleDuration = some cfg.duration ∧
    (Timeline.build fields cfg).repeat_ = cfg.repeat_ ∧
    (Timeline.build fields cfg).duration =
      (TimeScale.mk cfg.delay cfg.duration cfg.repeat_ cfg.reverse).totalDuration := by
  simp [Timeline.build, Timeline.delay, Timeline.cycleDuration, Timeline.repeat_, Timeline.duration]

/-! Non-vacuity: a delayed, reversing, repeat-2 time scale meets every hypothesis above. -/
example : let ts : TimeScale ℚ := ⟨1, 2, .times 2, true⟩
    0 < ts.duration ∧ ts.repeat_ ≠ .none ∧ (ts.position (1 + 2 * 1)).isEnded = false ∧
    (ts.position (1 + 2 * 1)).value = 0 ∧ (ts.position 8).isEnded = true := by
  refine ⟨by norm_num, by simp, ?_, ?_, ?_⟩ <;> decide +kernel

end C03
