import MinaProofs.Lemmas.Timeline
/-!
# C08 — Properties a timeline does not animate are never touched

Model: `Timeline.update` / `applySubs` (the derive-generated `update`), `Merged.update`, the animator.
These theorems are *generic in the number system* (`[Num α]`): they hold for the model at ℚ and at
`Float32` alike — no arithmetic is involved, only which slots can be written.
A target is the list of all fields of the struct; `tl.subs` pairs each animated field's index with its
sub-timeline.
-/
namespace C08

variable {α : Type} [Num α]

/-- the animated indices of a built timeline are exactly the fields handed to the builder -/
theorem build_animated_indices (fields : List (AnimField α)) (cfg : Config α) :
    (Timeline.build fields cfg).subs.map Prod.fst = fields.map (·.idx) := build_subs_fst fields cfg

/-- a field that is not animated (excluded from the derive, or simply not among the timeline's
sub-timelines) is never modified — at every time, in every phase -/
theorem update_untouched (tl : Timeline α) (target res : List (Val α)) (time : α)
    (h : tl.update target time = .ok res) (i : Nat) (hi : i ∉ tl.subs.map Prod.fst) :
    res[i]? = target[i]? := by
  unfold Timeline.update at h
  split at h
  · simp at h; subst h; rfl
  · exact applySubs_untouched _ _ _ _ _ _ h i hi

theorem update_length (tl : Timeline α) (target res : List (Val α)) (time : α)
    (h : tl.update target time = .ok res) : res.length = target.length := by
  unfold Timeline.update at h
  split at h
  · simp at h; subst h; rfl
  · exact applySubs_length _ _ _ _ _ _ h

/-- a timeline with no keyframes modifies nothing at all -/
theorem no_keyframes_noop (fields : List (AnimField α)) (cfg : Config α) (h : cfg.keyframes = [])
    (target : List (Val α)) (time : α) : (Timeline.build fields cfg).update target time = .ok target := by
  simp [Timeline.update, Timeline.build, h, sortKfs, prepareFrame]

/-- an animated field for which no keyframe has a value is never modified either (its sub-timeline is
empty), whatever the other fields do; `j` is the field's position in the animated-field list -/
theorem property_without_keyframe_untouched (fields : List (AnimField α)) (cfg : Config α)
    (hnd : (fields.map (·.idx)).Nodup) (j : Nat) (hj : j < fields.length)
    (hno : ∀ k ∈ cfg.keyframes, k.vals.getD j none = none)
    (target res : List (Val α)) (time : α) (h : (Timeline.build fields cfg).update target time = .ok res) :
    res[(fields[j]).idx]? = target[(fields[j]).idx]? := by
  unfold Timeline.update at h
  split at h
  · simp at h; subst h; rfl
  · refine applySubs_untouched' _ _ _ _ _ _ h _ ?_
    intro p hp hpi
    simp only [Timeline.build, List.mem_map] at hp
    obtain ⟨⟨f, j'⟩, hmem, rfl⟩ := hp
    simp only at hpi ⊢
    have hj' := List.mem_zipIdx hmem
    simp only [Nat.zero_add, Nat.sub_zero] at hj'
    obtain ⟨_, hlt, hf⟩ := hj'
    -- distinct indices: f.idx = fields[j].idx forces j' = j
    have hjj : j' = j := by
      have h1 : (fields.map (·.idx))[j']'(by simpa using hlt) = (fields.map (·.idx))[j]'(by simpa using hj) := by
        simp only [List.getElem_map]; rw [← hf]; exact hpi
      exact (List.Nodup.getElem_inj_iff hnd).1 h1
    subst hjj
    rw [fromKeyframes_empty_of_noValue]
    · exact empty_valueAt _ _ _
    · intro k hk
      simp only [List.mem_map] at hk
      obtain ⟨k0, hk0, rfl⟩ := hk
      exact hno k0 ((mem_sortKfs k0 _).1 hk0)

/-- merged timelines: a field none of the components animates is never modified -/
theorem merged_untouched (m : Merged α) (target res : List (Val α)) (time : α)
    (h : m.update target time = .ok res) (i : Nat)
    (hi : ∀ tl ∈ m.timelines, i ∉ tl.subs.map Prod.fst) : res[i]? = target[i]? := by
  unfold Merged.update at h
  generalize m.timelines = tls at h hi
  induction tls generalizing target with
  | nil => simp [Merged.update.go] at h; subst h; rfl
  | cons tl rest ih =>
    simp only [Merged.update.go] at h
    split at h
    · rename_i tgt' htl
      rw [ih _ h (fun t ht => hi t (by simp [ht])), update_untouched tl _ _ _ htl i (hi tl (by simp))]
    · simp at h

/-- "not animated by any state's timeline" -/
def notAnimated (a : Animator α) (i : Nat) : Prop :=
  ∀ m ∈ a.timelines, ∀ mg, m = some mg → ∀ tl ∈ mg.timelines, i ∉ tl.subs.map Prod.fst

theorem timeline?_mem (a : Animator α) (s : Nat) (tl : Merged α) (h : a.timeline? s = some tl) :
    some tl ∈ a.timelines := by
  unfold Animator.timeline? at h
  split at h
  · rename_i m hm
    simp at h; subst h
    exact List.mem_of_getElem? hm
  · simp at h

theorem notAnimated_blendNext (a : Animator α) (s i : Nat) (h : notAnimated a i) : notAnimated (a.blendNext s) i := by
  unfold Animator.blendNext
  split
  · rename_i tl htl
    intro m hm mg hmg t ht
    simp only at hm
    rcases List.mem_or_eq_of_mem_set hm with hm' | hm'
    · exact h m hm' mg hmg t ht
    · subst hm'
      simp only [Option.some.injEq] at hmg; subst hmg
      simp only [Merged.startWith, List.mem_map] at ht
      obtain ⟨t0, ht0, rfl⟩ := ht
      rw [startWith_subs_fst]
      exact h _ (timeline?_mem a s tl htl) tl rfl t0 ht0
  · exact h

theorem blendNext_values (a : Animator α) (s : Nat) : (a.blendNext s).values = a.values := by
  unfold Animator.blendNext; split <;> rfl

theorem notePause_values (a : Animator α) (s : Nat) :
    (a.notePause s).values = a.values ∧ (a.notePause s).timelines = a.timelines := by
  unfold Animator.notePause; dsimp only; split
  · exact ⟨rfl, rfl⟩
  · split <;> exact ⟨rfl, rfl⟩

theorem switchTo_values (a : Animator α) (s i : Nat) (h : notAnimated a i) :
    (a.switchTo s).values = a.values ∧ notAnimated (a.switchTo s) i := by
  unfold Animator.switchTo
  split
  · exact ⟨rfl, h⟩
  · simp only [Animator.enter]
    refine ⟨by rw [blendNext_values, (notePause_values a s).1], ?_⟩
    have : notAnimated (a.notePause s) i := by unfold notAnimated; rw [(notePause_values a s).2]; exact h
    exact notAnimated_blendNext _ s i this

theorem updateValues_untouched (a a' : Animator α) (i : Nat) (h : notAnimated a i)
    (hu : a.updateValues = .ok a') : a'.values[i]? = a.values[i]? ∧ a'.timelines = a.timelines := by
  unfold Animator.updateValues at hu
  split at hu
  · rename_i tl htl
    split at hu
    · rename_i v hv
      simp at hu; subst hu
      exact ⟨merged_untouched tl _ _ _ hv i (h _ (timeline?_mem a _ tl htl) tl rfl), rfl⟩
    · simp at hu
  · simp at hu; subst hu; exact ⟨rfl, rfl⟩

/-- one operation leaves such a field alone (and keeps it un-animated) -/
theorem step_untouched (a a' : Animator α) (op : AnimOp α) (i : Nat) (h : notAnimated a i)
    (hs : a.step op = .ok a') : a'.values[i]? = a.values[i]? ∧ notAnimated a' i := by
  have key : ∀ (b : Animator α), notAnimated b i → ∀ b', b.updateValues = .ok b' →
      b'.values[i]? = b.values[i]? ∧ notAnimated b' i := by
    intro b hb b' hb'
    obtain ⟨h1, h2⟩ := updateValues_untouched b b' i hb hb'
    exact ⟨h1, by unfold notAnimated; rw [h2]; exact hb⟩
  have hadv : ∀ ns, a.advanceNs ns = .ok a' → a'.values[i]? = a.values[i]? ∧ notAnimated a' i := by
    intro ns hns
    unfold Animator.advanceNs at hns
    split at hns
    · simp at hns
    · exact key { a with stateNs := a.stateNs + ns } h a' hns
  cases op with
  | advanceNs ns => exact hadv ns hs
  | advance secs =>
    simp only [Animator.step, Animator.advance] at hs
    split at hs
    · exact hadv _ hs
    · simp at hs
  | setState s =>
    simp only [Animator.step, Animator.setState] at hs
    split at hs
    · simp at hs; subst hs; exact ⟨rfl, h⟩
    · obtain ⟨hv, hn⟩ := switchTo_values a s i h
      have := key _ hn a' hs
      rw [hv] at this; exact this

/-- in a state animator such properties keep whatever value they had, over any history -/
theorem animator_untouched (a a' : Animator α) (ops : List (AnimOp α)) (i : Nat) (h : notAnimated a i)
    (hr : a.run ops = .ok a') : a'.values[i]? = a.values[i]? := by
  induction ops generalizing a with
  | nil => simp [Animator.run] at hr; subst hr; rfl
  | cons op ops ih =>
    simp only [Animator.run] at hr
    split at hr
    · rename_i a1 h1
      obtain ⟨hv, hn⟩ := step_untouched a a1 op i h h1
      rw [ih a1 hn hr, hv]
    · simp at hr

end C08
