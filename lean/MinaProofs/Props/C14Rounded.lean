import MinaProofs.Lemmas.Rounded
/-!
# C14 under every faithful rounding: the endpoint laws are exact

`lerp(a,b,0) = a` and `lerp(a,b,1) = b` hold *exactly* — not merely in exact arithmetic — for the form
`a·(1−x) + b·x` the code uses, under any arithmetic that rounds each operation faithfully, as long as the
endpoints themselves are representable (the property's own hypothesis "values exactly representable in f32").
The alternative form `a + x·(b−a)` would not have the second law.  Integer types follow through the checked
conversion.  (`lerp(a,a,x) = a` is *not* among them: it fails by one rounding in binary32 — finding F-C14.)
-/

namespace C14
variable {ρ : ℚ → ℚ}

/-- `lerp(a,b,x) = a` whenever `x` is (a value equal to) zero -/
theorem lerp_at_zero_any_rounding (F : Faithful ρ) (a b x : Rd ρ) (ha : a.Rep) (hx : x.val = 0) :
    lerp a b x = a := by
  apply Rd.ext'
  unfold lerp
  simp only [Rd.add_val, Rd.mul_val, Rd.sub_val, Rd.lit_val, hx, Nat.cast_one, F.one, sub_zero, mul_one, mul_zero,
    F.zero, add_zero, F.idem]
  exact ha

/-- `lerp(a,b,x) = b` whenever `x` is (a value equal to) one -/
theorem lerp_at_one_any_rounding (F : Faithful ρ) (a b x : Rd ρ) (hb : b.Rep) (hx : x.val = 1) :
    lerp a b x = b := by
  apply Rd.ext'
  unfold lerp
  simp only [Rd.add_val, Rd.mul_val, Rd.sub_val, Rd.lit_val, hx, Nat.cast_one, F.one, sub_self, mul_one, mul_zero,
    F.zero, zero_add, F.idem]
  exact hb

/-- an integer whose magnitude is representable converts exactly (`iN as f32`) -/
theorem ofInt_val (i : Int) (h : ρ (i.natAbs : ℚ) = (i.natAbs : ℚ)) : (Num.ofInt i : Rd ρ).val = (i : ℚ) := by
  cases i with
  | ofNat n => simpa [Num.ofInt] using h
  | negSucc n =>
    have : ((Int.negSucc n).natAbs : ℚ) = ((n + 1 : Nat) : ℚ) := by simp [Int.natAbs]
    rw [this] at h
    simp only [Num.ofInt, Rd.neg_val, Rd.lit_val, h, Int.negSucc_eq]
    push_cast; ring

/-- a representable integer stays representable under the sign -/
theorem ofInt_rep (F : Faithful ρ) (i : Int) (h : ρ (i.natAbs : ℚ) = (i.natAbs : ℚ)) : (Num.ofInt i : Rd ρ).Rep := by
  unfold Rd.Rep
  cases i with
  | ofNat n => simp only [Num.ofInt, Rd.lit_val]; exact F.idem _
  | negSucc n => simp only [Num.ofInt, Rd.neg_val, Rd.lit_val, F.odd, F.idem]

theorem round_ofInt (i : Int) (h : ρ (i.natAbs : ℚ) = (i.natAbs : ℚ)) (hi : ρ (i : ℚ) = (i : ℚ)) :
    Num.toInt? (Num.round (Num.ofInt i : Rd ρ)) = some i := by
  show RatNum.toInt? (ρ (RatNum.round (Num.ofInt i : Rd ρ).val)) = some i
  rw [ofInt_val i h, round_eq_roundInt, roundInt_intCast, hi, toInt_intCast]

theorem rho_int (F : Faithful ρ) (i : Int) (h : ρ (i.natAbs : ℚ) = (i.natAbs : ℚ)) : ρ (i : ℚ) = (i : ℚ) := by
  rcases Int.natAbs_eq i with e | e
  · have : (i : ℚ) = ((i.natAbs : ℚ)) := by rw [e]; simp
    rw [this]; exact h
  · have : (i : ℚ) = -((i.natAbs : ℚ)) := by rw [e]; simp
    rw [this, F.odd, h]

/-- integer `lerp(a,b,0) = a`, exactly and without panic, for every integer kind, when `a` is in the kind's range and
its magnitude is representable (for binary32: `|a| ≤ 2^24`, or any other exactly representable integer) -/
theorem lerpInt_at_zero_any_rounding (F : Faithful ρ) (k : Gen.IntKind) (a b : Int) (x : Rd ρ) (hx : x.val = 0)
    (ha : ρ (a.natAbs : ℚ) = (a.natAbs : ℚ)) (hr : k.lo ≤ a ∧ a ≤ k.hi) :
    lerpInt k a b x = .ok a := by
  unfold lerpInt
  have e : lerp (Num.ofInt a : Rd ρ) (Num.ofInt b) x = Num.ofInt a :=
    lerp_at_zero_any_rounding F _ _ _ (ofInt_rep F a ha) hx
  simp only [e, round_ofInt a ha (rho_int F a ha), hr, and_self, if_true]

/-- integer `lerp(a,b,1) = b`, exactly and without panic -/
theorem lerpInt_at_one_any_rounding (F : Faithful ρ) (k : Gen.IntKind) (a b : Int) (x : Rd ρ) (hx : x.val = 1)
    (hb : ρ (b.natAbs : ℚ) = (b.natAbs : ℚ)) (hr : k.lo ≤ b ∧ b ≤ k.hi) :
    lerpInt k a b x = .ok b := by
  unfold lerpInt
  have e : lerp (Num.ofInt a : Rd ρ) (Num.ofInt b) x = Num.ofInt b :=
    lerp_at_one_any_rounding F _ _ _ (ofInt_rep F b hb) hx
  simp only [e, round_ofInt b hb (rho_int F b hb), hr, and_self, if_true]

/-- the hypotheses are satisfiable at a non-trivial instance: exact arithmetic, `i8` full range -/
example : lerpInt Gen.IntKind.i8 (-128) 127 (⟨1⟩ : Rd (fun x => x)) = .ok 127 :=
  lerpInt_at_one_any_rounding Faithful.id Gen.IntKind.i8 (-128) 127 _ rfl rfl (by decide)

end C14
