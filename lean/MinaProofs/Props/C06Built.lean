import MinaProofs.Lemmas.StableWrites
/-!
# C06, closed form for builder-built timelines

For every state animator whose states carry merges of builder-built timelines (any animated value kinds,
any easings, any repeat/reverse/delay; duration > 0 and keyframe positions in [0, 1]) and after **any**
history of `advance` / `set_state`: `advance(a); advance(b)` and `advance(a + b)` yield the identical
animator record. The `StableWrites` hypothesis of `C06.advance_add` is discharged by
`builtLike_fixedIdx` (lookup theorem + position ∈ [0, 1]). Arithmetic: exact (ℚ); the clock is whole
nanoseconds.
-/
namespace C06

/-- a merge whose members all descend from `Timeline.build` by `start_with` calls -/
def BuiltMerged (m : Merged ℚ) : Prop := ∀ tl ∈ m.timelines, ∃ cfg, BuiltCfg cfg ∧ BuiltLike cfg tl

theorem builtMerged_startWith (m : Merged ℚ) (w : List (Val ℚ)) (h : BuiltMerged m) : BuiltMerged (m.startWith w) := by
  intro tl htl
  simp only [Merged.startWith, List.mem_map] at htl
  obtain ⟨tl0, h0, rfl⟩ := htl
  obtain ⟨cfg, hc, hb⟩ := h tl0 h0
  exact ⟨cfg, hc, startWith_builtLike cfg tl0 w hb⟩

/-- the slots a built merge writes do not depend on the time -/
theorem builtMerged_stable (m : Merged ℚ) (h : BuiltMerged m) : StableWrites m := by
  apply stableWrites_of_fixedIdx
  intro tl htl
  obtain ⟨cfg, hc, hb⟩ := h tl htl
  exact builtLike_fixedIdx hc tl hb

/-- the position handed to the keyframes is always inside [0, 1] (used above; also C03's range claim) -/
theorem position_in_unit (ts : TimeScale ℚ) (hd : 0 < ts.duration) (t : ℚ) :
    0 ≤ (ts.position t).value ∧ (ts.position t).value ≤ 1 := position_value_unit ts hd t

/-- the states' timelines as the builder produces them: each a merge of `Timeline.build fields cfg` -/
def BuiltAnimatorCfg (timelines : List (Option (Merged ℚ))) : Prop :=
  ∀ m, some m ∈ timelines → ∃ parts : List (List (AnimField ℚ) × Config ℚ),
    (∀ p ∈ parts, BuiltCfg p.2) ∧ m = Merged.mk (parts.map fun p => Timeline.build p.1 p.2)

/-- **The property (frame-rate independence), hypothesis-free for built timelines.** After any history, two
advances equal one advance by the sum — the whole record, not only the values. -/
theorem advance_add_built (timelines : List (Option (Merged ℚ))) (s0 : Nat) (v0 : List (Val ℚ))
    (hcfg : BuiltAnimatorCfg timelines) (ops : List (AnimOp ℚ)) (a : Animator ℚ)
    (hrun : (Animator.new timelines s0 v0).run ops = .ok a)
    (m n : Nat) (a1 a2 a12 : Animator ℚ)
    (h1 : a.advanceNs m = .ok a1) (h2 : a1.advanceNs n = .ok a2) (h12 : a.advanceNs (m + n) = .ok a12) :
    a2 = a12 := by
  have hq : ∀ s tl, a.timeline? s = some tl → BuiltMerged tl := by
    apply run_closed BuiltMerged builtMerged_startWith ops _ a hrun
    apply new_closed BuiltMerged builtMerged_startWith
    intro mm hm
    obtain ⟨parts, hp, rfl⟩ := hcfg mm hm
    intro tl htl
    simp only [List.mem_map] at htl
    obtain ⟨p, hpm, rfl⟩ := htl
    exact ⟨p.2, hp p hpm, build_builtLike p.1 p.2⟩
  exact advance_add a a1 a2 a12 m n (fun tl htl => builtMerged_stable tl (hq _ tl htl)) h1 h2 h12

/-- whether an evaluation succeeds does not depend on the target (only integer-range checks on the timeline's
own frames can fail), so a step that succeeds from `a` also succeeds from the intermediate animator -/
theorem advance_continue_ok {α : Type} [Num α] (a a1 c : Animator α) (m k : Nat)
    (h1 : a.advanceNs m = .ok a1) (hone : a.advanceNs (m + k) = .ok c) : ∃ c1, a1.advanceNs k = .ok c1 := by
  have spec1 : a1.timelines = a.timelines ∧ a1.state = a.state ∧ a1.stateNs = a.stateNs + m := by
    unfold Animator.advanceNs at h1
    split at h1
    · simp at h1
    · obtain ⟨x1, x2, _, x4, _⟩ := updateValues_spec _ a1 h1
      exact ⟨x1, x2, x4⟩
  obtain ⟨e1, e2, e3⟩ := spec1
  unfold Animator.advanceNs at hone ⊢
  split at hone
  · simp at hone
  rename_i hlt
  rw [if_neg (by rw [e3]; omega)]
  unfold Animator.updateValues at hone ⊢
  have htl : ({ a1 with stateNs := a1.stateNs + k } : Animator α).timeline? ({ a1 with stateNs := a1.stateNs + k } : Animator α).state
      = ({ a with stateNs := a.stateNs + (m + k) } : Animator α).timeline? ({ a with stateNs := a.stateNs + (m + k) } : Animator α).state := by
    unfold Animator.timeline?
    simp only [e1, e2]
  rw [htl]
  cases hc : ({ a with stateNs := a.stateNs + (m + k) } : Animator α).timeline? ({ a with stateNs := a.stateNs + (m + k) } : Animator α).state with
  | none => exact ⟨_, rfl⟩
  | some tl =>
    rw [hc] at hone
    simp only at hone ⊢
    have hT : a1.stateNs + k = a.stateNs + (m + k) := by rw [e3]; omega
    rw [hT]
    obtain ⟨tls⟩ := tl
    rw [C12.merged_update_eq_writes] at hone ⊢
    cases hw : C12.mergedWrites tls (Num.secsOfNanos (a.stateNs + (m + k)) : α) with
    | error e => rw [hw] at hone; simp [Except.map] at hone
    | ok W => exact ⟨_, rfl⟩

/-- **any partition of an interval into whole-nanosecond steps gives the same animator as the single step** -/
theorem partition_independent (a : Animator ℚ) (hq : ∀ s tl, a.timeline? s = some tl → BuiltMerged tl)
    (steps : List Nat) (b c : Animator ℚ)
    (hsteps : a.run (steps.map AnimOp.advanceNs) = .ok b) (hone : a.advanceNs steps.sum = .ok c)
    (hne : steps ≠ []) : b = c := by
  induction steps generalizing a c with
  | nil => exact absurd rfl hne
  | cons m rest ih =>
    simp only [List.map_cons, Animator.run, Animator.step] at hsteps
    cases h1 : a.advanceNs m with
    | error e => rw [h1] at hsteps; simp at hsteps
    | ok a1 =>
      rw [h1] at hsteps
      simp only at hsteps
      by_cases hr : rest = []
      · subst hr
        simp only [List.map_nil, Animator.run, Except.ok.injEq] at hsteps
        simp only [List.sum_cons, List.sum_nil, Nat.add_zero] at hone
        rw [h1] at hone; simp only [Except.ok.injEq] at hone
        rw [← hsteps, ← hone]
      · have hq1 : ∀ s tl, a1.timeline? s = some tl → BuiltMerged tl :=
          step_closed BuiltMerged builtMerged_startWith a a1 (.advanceNs m) h1 hq
        simp only [List.sum_cons] at hone
        obtain ⟨c1, hc1⟩ := advance_continue_ok a a1 c m rest.sum h1 hone
        have := ih a1 hq1 c1 hsteps hc1 hr
        rw [this]
        exact advance_add a a1 c1 c m rest.sum (fun tl htl => builtMerged_stable tl (hq _ tl htl)) h1 hc1 hone

/-! Non-vacuity: a two-member merge with integer-kind and float properties, custom easing, infinite repeat. -/
example : BuiltAnimatorCfg [none, some (Merged.mk [Timeline.build [⟨0, .num 0⟩, ⟨1, .int .u8 0⟩]
    { easing := .custom 2, delay := -1, duration := 3, repeat_ := .infinite, reverse := true,
      keyframes := [⟨1 / 2, none, [some (.num 1), some (.int .u8 200)]⟩, ⟨1 / 2, none, [none, some (.int .u8 7)]⟩] }])] := by
  intro m hm
  simp only [List.mem_cons, Option.some.injEq, List.mem_nil_iff, or_false, reduceCtorEq, false_or] at hm
  subst hm
  refine ⟨[(_, _)], ?_, rfl⟩
  intro p hp
  simp only [List.mem_singleton] at hp
  subst hp
  refine ⟨by norm_num, ?_⟩
  intro k hk
  simp only [List.mem_cons, List.mem_nil_iff, or_false] at hk
  rcases hk with rfl | rfl <;> norm_num

end C06
