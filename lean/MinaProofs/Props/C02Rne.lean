import MinaProofs.Props.C02Rounded
import MinaProofs.Lemmas.Rne
/-! # C02 for binary32's own rounding (`rne24`, proved faithful in `Lemmas/Rne.lean`) -/
namespace C02

/-- in binary32 arithmetic a segment yields its starting keyframe's value exactly at its start … -/
theorem interpolate_at_start_binary32 (a b : Frame (Rd rne24)) (t : Rd rne24) (ht : t.val = a.time.val)
    (id : Gen.EasingId) (he : a.easing = .builtin id) (ha : ValRep a.value) (hk : SameKind a.value b.value) :
    interpolate a b t = .ok a.value :=
  interpolate_at_start_any_rounding Faithful.rne24 a b t ht id he ha hk

/-- … and its ending keyframe's value exactly at its end (the difference of two distinct representable positions in
`[0,1]` does not round to zero; stated as the hypothesis `hd`) -/
theorem interpolate_at_end_binary32 (a b : Frame (Rd rne24)) (t : Rd rne24) (ht : t.val = b.time.val)
    (id : Gen.EasingId) (he : a.easing = .builtin id) (hb : ValRep b.value) (hk : SameKind a.value b.value)
    (hd : rne24 (b.time.val - a.time.val) ≠ 0) :
    interpolate a b t = .ok b.value :=
  interpolate_at_end_any_rounding Faithful.rne24 a b t ht id he hb hk hd

/-- the hypothesis `hd` holds whenever the two positions differ: `rne24` never rounds a non-zero number to zero -/
theorem rne24_ne_zero {x : ℚ} (hx : x ≠ 0) : rne24 x ≠ 0 := by
  rcases lt_or_gt_of_ne hx with h | h
  · have := rne24_pos (x := -x) (by linarith); rw [rne24_neg] at this; linarith
  · exact (rne24_pos h).ne'

end C02
