#!/usr/bin/env python3
"""Systematic single-edit mutants of /repo's non-test source (a self-test of the checks, see DESIGN.md §0.7).

usage: gen_mutants.py [--repo /repo] > mutants.jsonl

Each output line: {"id","file","line","col","old","new","op","props"}.  `props` is the list of properties whose
anchored code lives in that file (the checks that are expected to notice).  Only code outside `#[cfg(test)]`
modules, comments, doc comments, attributes and string literals is mutated.
"""
import json, os, re, sys

FILES = {
    "core/src/time_scale.rs": ["C03", "C02", "C07", "C20", "C10"],
    "core/src/timeline_helpers.rs": ["C01", "C02", "C10", "C08", "C09"],
    "core/src/timeline.rs": ["C12", "C11", "C01", "C07", "C09", "C08"],
    "core/src/animator.rs": ["C05", "C04", "C06", "C07", "C08"],
    "core/src/interpolation.rs": ["C14", "C20"],
    "core/src/easing.rs": ["C13"],
    "core/src/glam.rs": ["C14"],
    "macros/src/fn_timeline.rs": ["C15"],
    "macros/src/fn_animator.rs": ["C16"],
    "macros/src/derive_animate.rs": ["C17", "C08"],
    "bevy/src/animator.rs": ["C18"],
    "bevy/src/selection.rs": ["C19"],
    "bevy/src/lib.rs": ["C18", "C19"],
}

# (regex on code, replacement template, operator name); applied per match, one mutant per match
OPS = [
    (r"(?<=\s)<=(?=\s)", "<", "rel"), (r"(?<=\s)>=(?=\s)", ">", "rel"),
    (r"(?<=\s)<(?=\s)", "<=", "rel"), (r"(?<=\s)>(?=\s)", ">=", "rel"),
    (r"(?<=\s)<(?=\s)", ">", "relflip"), (r"(?<=\s)>(?=\s)", "<", "relflip"),
    (r"(?<=\s)==(?=\s)", "!=", "eq"), (r"(?<=\s)!=(?=\s)", "==", "eq"),
    (r"(?<=\s)\+(?=\s)", "-", "arith"), (r"(?<=\s)-(?=\s)", "+", "arith"),
    (r"(?<=\s)\*(?=\s)", "/", "arith"), (r"(?<=\s)/(?=\s)", "*", "arith"), (r"(?<=\s)%(?=\s)", "/", "arith"),
    (r"(?<=\s)\+=(?=\s)", "-=", "arith"),
    (r"&&", "||", "bool"), (r"\|\|", "&&", "bool"),
    (r"\btrue\b", "false", "const"), (r"\bfalse\b", "true", "const"),
    (r"(?<![\w.])0\.0\b", "1.0", "const"), (r"(?<![\w.])1\.0\b", "0.0", "const"), (r"(?<![\w.])0\.5\b", "0.25", "const"),
    (r"(?<![\w.])2\.0\b", "1.0", "const"), (r"(?<![\w.])0\.01\b", "0.1", "const"), (r"(?<![\w.])0\.001\b", "0.01", "const"),
    (r"(?<![\w.])(\d+)\.(\d+)(?=[,)\s])", None, "ctrl"),           # any other decimal: nudge last digit
    (r"(?<![\w.])1\b(?![.\w])", "2", "const"), (r"(?<![\w.])0\b(?![.\w])", "1", "const"),
    (r"\.min\(", ".max(", "minmax"), (r"\.max\(", ".min(", "minmax"), (r"\.min_by\(", ".max_by(", "minmax"), (r"\.max_by\(", ".min_by(", "minmax"),
    (r"\.first\(\)", ".last()", "ends"), (r"\.last\(\)", ".first()", "ends"),
    (r"\.is_some\(\)", ".is_none()", "opt"), (r"\.is_none\(\)", ".is_some()", "opt"),
    (r"\.is_empty\(\)", ".len() == 1", "opt"),
    (r"(?<=[\s(])!(?=[\w(])", "", "neg"),
    (r"\bPlaying\b", "Waiting", "enum"), (r"\bWaiting\b", "Playing", "enum"),
    (r"\bfloor\b", "ceil", "round"), (r"\bround\b", "floor", "round"),
]


def code_mask(src):
    """list of booleans per character: True where the character is ordinary code (not comment / string / attribute)"""
    n = len(src); mask = [True] * n; i = 0
    while i < n:
        if src.startswith("//", i):
            j = src.find("\n", i); j = n if j < 0 else j
            for k in range(i, j): mask[k] = False
            i = j; continue
        if src.startswith("/*", i):
            j = src.find("*/", i); j = n if j < 0 else j + 2
            for k in range(i, j): mask[k] = False
            i = j; continue
        if src[i] == '"':
            j = i + 1
            while j < n and src[j] != '"':
                j += 2 if src[j] == "\\" else 1
            for k in range(i, min(j + 1, n)): mask[k] = False
            i = j + 1; continue
        if src.startswith("#[", i) or src.startswith("#![", i):
            depth = 0; j = i
            while j < n:
                if src[j] == "[": depth += 1
                if src[j] == "]":
                    depth -= 1
                    if depth == 0: break
                j += 1
            for k in range(i, min(j + 1, n)): mask[k] = False
            i = j + 1; continue
        i += 1
    return mask


def test_mod_start(src):
    m = re.search(r"#\[cfg\(test\)\]\s*mod\s+\w+", src)
    return m.start() if m else len(src)


def main():
    repo = "/repo"
    if "--repo" in sys.argv: repo = sys.argv[sys.argv.index("--repo") + 1]
    k = edits(repo)
    deletions(repo, k)


def edits(repo):
    k = 0
    for rel, props in FILES.items():
        src = open(os.path.join(repo, rel)).read()
        end = test_mod_start(src)
        mask = code_mask(src)
        line_starts = [0]
        for i, c in enumerate(src):
            if c == "\n": line_starts.append(i + 1)
        import bisect
        seen = set()
        for rx, rep, op in OPS:
            for m in re.finditer(rx, src[:end]):
                if not all(mask[m.start():m.end()]): continue
                ln = bisect.bisect_right(line_starts, m.start())
                line_text = src[line_starts[ln - 1]: src.find("\n", m.start())]
                s = line_text.strip()
                if s.startswith(("use ", "pub use", "impl<", "impl ", "pub fn", "fn ", "pub struct", "struct ", "where", "type ", "pub trait", "trait ", "pub enum", "enum ")) and op in ("rel", "relflip", "arith"):
                    continue
                if "->" in line_text and op in ("rel", "relflip") and m.group(0) == ">": continue
                if op == "arith" and m.group(0) == "+" and re.search(r"[A-Z>]\w*\s*\+\s*(?:[A-Z'?]|std::|core::)", line_text): continue   # trait bounds
                if "=>" in line_text and m.group(0) == ">" and src[m.start() - 1] == "=": continue
                new = rep
                if rep is None:
                    a, b = m.group(1), m.group(2)
                    if m.group(0) in ("0.0", "1.0", "0.5", "2.0", "0.01", "0.001"): continue
                    d = int(b[-1]); new = f"{a}.{b[:-1]}{(d + 1) % 10 if d != 9 else 8}"
                key = (m.start(), new)
                if key in seen: continue
                seen.add(key)
                if rel.endswith("easing.rs") and op in ("ctrl", "const") and "cubic_bezier(" in line_text:
                    # control points: keep y-coordinates (2nd, 4th argument) of every fourth curve only; x-coordinates do not
                    # influence the parametric y(t) the code computes
                    args_before = line_text[: m.start() - line_starts[ln - 1]].split("cubic_bezier(")[-1].count(",")
                    if args_before % 2 == 0 or ln % 4 != 0: continue
                k += 1
                print(json.dumps(dict(id=f"M{k:04d}", file=rel, line=ln, col=m.start() - line_starts[ln - 1], start=m.start(), end=m.end(),
                                      old=m.group(0), new=new, op=op, props=props, text=s[:160])))
    return k


def deletions(repo, k0):
    """statement deletion: whole single-line statements `x = ..;`, `x.push(..);`, `self.f = ..;`, `x += ..;` inside fn bodies"""
    k = k0
    for rel, props in FILES.items():
        src = open(os.path.join(repo, rel)).read()
        end = test_mod_start(src)
        pos = 0
        for ln, line in enumerate(src[:end].split("\n"), 1):
            s = line.strip()
            start = pos + (len(line) - len(line.lstrip())); stop = pos + len(line)
            pos += len(line) + 1
            if not s.endswith(";") or s.startswith(("let ", "use ", "pub ", "return", "//", "#", "type ", "static ", "const ", "fn ", "}", ")", "]", ".", "break", "continue")): continue
            if s.count("(") != s.count(")") or s.count("{") != s.count("}"): continue
            if not re.match(r"[\w.\[\]*]+(\s*[-+]?=\s|\.\w+\()", s): continue
            k += 1
            print(json.dumps(dict(id=f"M{k:04d}", file=rel, line=ln, col=0, start=start, end=stop, old=src[start:stop], new="", op="delete", props=props, text=s[:160])))


if __name__ == "__main__":
    main()
