#!/usr/bin/env python3
"""Mutation campaign: apply each single-edit mutant to a private copy of /repo, and see whether the quick checks
of the properties anchored in the mutated file notice.  (Self-test of the machinery; DESIGN.md §0.7.)

usage: run_mutants.py <mutants.jsonl> <results.jsonl> [--workers N] [--root /root/mut] [--only ID,ID..] [--all-props]

Each worker runs in its own mount namespace (`unshare -m`) with a private copy of /repo bind-mounted on /repo and a
private copy of /verif (with its build output) bind-mounted on /verif, so the registered commands run unmodified and
/repo itself is never touched.  For each mutant:
  1. apply the edit; `cargo build` the owning crate (mutants that do not compile are dropped);
  2. run the pinned test suite of the affected crates (result recorded: a mutant the tests kill is not "realistic");
  3. run `./check <P>` for every property P anchored in the file; record VIOLATION / exit status per property.
"""
import json, os, subprocess, sys, time, shutil

CRATE_OF = {"core/": "mina_core", "macros/": "mina_macros", "bevy/": "bevy_mina", "src/": "mina"}


def sh(cmd, cwd=None, timeout=None, env=None):
    import signal
    p = subprocess.Popen(cmd, cwd=cwd, shell=isinstance(cmd, str), stdout=subprocess.PIPE, stderr=subprocess.STDOUT, text=True, env=env, start_new_session=True)
    try:
        out, _ = p.communicate(timeout=timeout)
        return p.returncode, out
    except subprocess.TimeoutExpired:
        try: os.killpg(p.pid, signal.SIGKILL)
        except Exception: pass
        try: p.wait(timeout=10)
        except Exception: pass
        return 124, "timeout"


def worker(idx, nworkers, mutants_path, results_path, all_props):
    """runs inside the namespace: /repo and /verif are private copies"""
    env = dict(os.environ, CARGO_NET_OFFLINE="true", CARGO_TARGET_DIR=f"/repo/target")
    muts = [json.loads(l) for l in open(mutants_path)]
    done = set()
    for rp in (results_path, results_path.rsplit(".w", 1)[0]):
      if os.path.exists(rp):
        for l in open(rp):
            try: done.add(json.loads(l)["id"])
            except Exception: pass
    for k, m in enumerate(muts):
        if k % nworkers != idx or m["id"] in done: continue
        t0 = time.time()
        sh("git checkout -q -- . && git clean -fdq -e target", cwd="/repo")
        path = os.path.join("/repo", m["file"])
        src = open(path).read()
        if src[m["start"]:m["end"]] != m["old"]:
            rec = dict(id=m["id"], status="stale");
        else:
            open(path, "w").write(src[:m["start"]] + m["new"] + src[m["end"]:])
            crate = next(v for k2, v in CRATE_OF.items() if m["file"].startswith(k2))
            rc, out = sh(["cargo", "build", "--offline", "--quiet", "-p", crate], cwd="/repo", env=env, timeout=1800)
            if rc != 0:
                rec = dict(id=m["id"], status="no-compile")
            else:
                pk = "-p mina_core -p mina -p mina_macros" if crate != "bevy_mina" else "-p bevy_mina"
                rc, out = sh(f"cargo test --offline --no-fail-fast {pk} 2>&1 | grep -E '^test result|FAILED|failed' | head -20", cwd="/repo", env=env, timeout=600)
                if rc == 124: out = "FAILED (timeout: the test suite hangs)"
                tests_ok = ("FAILED" not in out and "failed" not in out.replace("0 failed", "")) and "test result" in out
                rec = dict(id=m["id"], status="ok", tests_pass=tests_ok, checks={})
                if tests_ok or all_props:
                    for p in m["props"]:
                        rc, out = sh(["./check", p], cwd="/verif", timeout=2400)
                        viol = [l for l in out.splitlines() if l.startswith("VIOLATION")]
                        summary = [l for l in out.splitlines() if l.startswith(p + " [")]
                        rec["checks"][p] = dict(rc=rc, violation=(viol[0][:200] if viol else None), summary=(summary[0][:220] if summary else out[-300:]))
                    rec["detected"] = [p for p, c in rec["checks"].items() if c["violation"]]
        rec.update(file=m["file"], line=m["line"], old=m["old"], new=m["new"], op=m["op"], text=m["text"], secs=round(time.time() - t0, 1))
        with open(results_path, "a") as f:
            f.write(json.dumps(rec) + "\n")
        print(f"[w{idx}] {rec['id']} {rec['status']} tests={rec.get('tests_pass')} detected={rec.get('detected')} {rec['secs']}s", flush=True)
    sh("git checkout -q -- .", cwd="/repo")


def main():
    a = sys.argv[1:]
    if a and a[0] == "--worker":
        worker(int(a[1]), int(a[2]), a[3], a[4], a[5] == "1"); return
    mutants, results = os.path.abspath(a[0]), os.path.abspath(a[1])
    n = int(a[a.index("--workers") + 1]) if "--workers" in a else 4
    root = a[a.index("--root") + 1] if "--root" in a else "/root/mut"
    allp = "1" if "--all-props" in a else "0"
    if "--only" in a:
        ids = set(a[a.index("--only") + 1].split(","))
        sel = [l for l in open(mutants) if json.loads(l)["id"] in ids]
        mutants = os.path.join(root, "only.jsonl"); os.makedirs(root, exist_ok=True); open(mutants, "w").writelines(sel)
    procs = []
    for i in range(n):
        w = os.path.join(root, f"w{i}")
        os.makedirs(w, exist_ok=True)
        subprocess.run(["rsync", "-a", "--delete", "--exclude", "/target", "/repo/", w + "/repo/"], check=True)
        subprocess.run(["rsync", "-a", "--delete", "--exclude", "/work", "--exclude", "/replays", "/verif/", w + "/verif/"], check=True)
        subprocess.run("git checkout -q -- . ", shell=True, cwd=w + "/repo")
        cmd = f"mount --bind {w}/repo /repo && mount --bind {w}/verif /verif && cd /verif && exec python3 /verif/mutation/run_mutants.py --worker {i} {n} {mutants} {results}.w{i} {allp}"
        procs.append(subprocess.Popen(["unshare", "-m", "sh", "-c", cmd], stdout=open(os.path.join(root, f"w{i}.log"), "a"), stderr=subprocess.STDOUT))
    for p in procs: p.wait()
    with open(results, "a") as out:
        for i in range(n):
            pth = f"{results}.w{i}"
            if os.path.exists(pth):
                out.write(open(pth).read()); os.remove(pth)
    print("done")


if __name__ == "__main__":
    main()
