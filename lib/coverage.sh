#!/bin/sh
# Which regions of /repo's sources do the correspondence runs execute?  (A measurement of generator quality, not a check:
# DESIGN.md §0.7.)  Builds the three harness crates with the nightly toolchain and -C instrument-coverage into
# harness/*/target-cov, runs the quick-tier suites, and prints llvm-cov's report plus every line never executed.
# usage: lib/coverage.sh [n-per-suite]      (writes work/cov/report.txt)
set -e
cd "$(dirname "$0")/.."
N=${1:-400}
TOOLS=$(ls -d "$HOME"/.rustup/toolchains/nightly-x86_64-unknown-linux-gnu/lib/rustlib/x86_64-unknown-linux-gnu/bin)
# (instrumented build scripts and proc macros write profiles where they run: send them to the scratch directory,
# never into /repo)
export CARGO_NET_OFFLINE=true RUSTFLAGS="-C instrument-coverage" LLVM_PROFILE_FILE="$PWD/work/cov/build-%p-%m.profraw"
mkdir -p work/cov; rm -f work/cov/*.profraw
for c in core_harness macro_harness bevy_harness; do
  (cd harness/$c && CARGO_TARGET_DIR="$PWD/target-cov" cargo +nightly build --offline --quiet 2>/dev/null)
done
unset RUSTFLAGS; rm -f work/cov/build-*.profraw
run() { # crate suite n
  bin=harness/$1/target-cov/debug/$1
  $bin gen $2 1 $3 > work/cov/$2.ops
  LLVM_PROFILE_FILE=work/cov/$1.$2.profraw $bin run < work/cov/$2.ops > /dev/null
}
for s in num lerp ease pos tl merged anim anim6 ext; do run core_harness $s $N || true; done
for f in corpus/*/*.ops; do LLVM_PROFILE_FILE=work/cov/core_harness.corpus.%p.profraw harness/core_harness/target-cov/debug/core_harness run < $f > /dev/null 2>&1 || true; done
for s in mtl manim mderive; do run macro_harness $s $((N * 5)); done
run bevy_harness bevy $((N / 2))
: > work/cov/report.txt
for c in core_harness macro_harness bevy_harness; do
  $TOOLS/llvm-profdata merge -sparse work/cov/$c.*.profraw -o work/cov/$c.profdata
  echo "== $c" >> work/cov/report.txt
  $TOOLS/llvm-cov report harness/$c/target-cov/debug/$c -instr-profile=work/cov/$c.profdata --ignore-filename-regex='(\.cargo|rustc|/verif/)' >> work/cov/report.txt 2>/dev/null
  echo "-- lines never executed" >> work/cov/report.txt
  $TOOLS/llvm-cov show harness/$c/target-cov/debug/$c -instr-profile=work/cov/$c.profdata --ignore-filename-regex='(\.cargo|rustc|/verif/)' 2>/dev/null | grep -E "^/repo|^\s+[0-9]+\|\s+0\|" >> work/cov/report.txt
done
cat work/cov/report.txt
