"""Per-property plans: which theorems, which correspondence suites, which floors and oracles."""
import struct
from pipeline import Suite

PLANS = {}


def f32(bits):
    return struct.unpack("<f", struct.pack("<I", int(bits) & 0xFFFFFFFF))[0]


def rec_c14_same_rounding(f):
    """F-C14: lerp(a,a,x) differs from a only by binary32 rounding of a*(1-x)+a*x (≤ 2 ulp of a)."""
    w = f.get("op", "").split(" ")
    if len(w) != 5 or w[0] != "lerp" or w[2] != w[3]: return False
    if f["got"].startswith("panic"): return False
    try:
        if w[1] == "f32":
            a, got = f32(w[2]), f32(f["got"])
        else:
            a, got = int(w[2]), int(f["got"])
    except ValueError:
        return False
    return a == a and abs(got - a) <= abs(a) * 2.0 ** -22


PLANS["C14"] = dict(
    suites=[Suite("lerp", 6000, 400000), Suite("lerp8", 0, 1, chunks_thorough=1)],
    floors={"quick": {"op:lerp": 3000, "panic:int-range": 5, "op:vec": 100, "op:lerp64": 100}},
    kernel_modules=["MinaKernel.C14Table"],
    recognisers={"c14_same_rounding": rec_c14_same_rounding},
    assumptions=["values exactly representable in f32 (the property's own hypothesis); Quat/DQuat delegate to glam's own lerp and are not modelled"],
)
