"""Per-property plans: which theorems, which correspondence suites, which floors and oracles."""
import struct
from pipeline import Suite

PLANS = {}


def f32(bits):
    return struct.unpack("<f", struct.pack("<I", int(bits) & 0xFFFFFFFF))[0]


def rec_c14_same_rounding(f):
    """F-C14: lerp(a,a,x) differs from a only by binary32 rounding of a*(1-x)+a*x (≤ 2 ulp of a)."""
    w = f.get("op", "").split(" ")
    if len(w) != 5 or w[0] != "lerp" or w[2] != w[3]: return False
    if f["got"].startswith("panic"): return False
    try:
        if w[1] == "f32":
            a, got = f32(w[2]), f32(f["got"])
        else:
            a, got = int(w[2]), int(f["got"])
    except ValueError:
        return False
    return a == a and abs(got - a) <= abs(a) * 2.0 ** -22


PLANS["C14"] = dict(
    suites=[Suite("lerp", 6000, 400000), Suite("lerp8", 0, 1, chunks_thorough=1)],
    floors={"quick": {"op:lerp": 3000, "panic:int-range": 5, "op:vec": 100, "op:lerp64": 100, "op:quat": 250, "op:dquat": 250}},
    kernel_modules=["MinaKernel"],
    recognisers={"c14_same_rounding": rec_c14_same_rounding},
    assumptions=["values exactly representable in f32 (the property's own hypothesis)"],
)


# ---------------------------------------------------------------------------------------------------
# C13
import os, random
import pipeline as P

EASINGS = ["Linear", "Ease", "In", "Out", "InOut", "InSine", "OutSine", "InOutSine", "InQuad", "OutQuad", "InOutQuad",
           "InCubic", "OutCubic", "InOutCubic", "InQuart", "OutQuart", "InOutQuart", "InQuint", "OutQuint", "InOutQuint",
           "InExpo", "OutExpo", "InOutExpo", "InCirc", "OutCirc", "InOutCirc", "InBack", "OutBack", "InOutBack"]


def bits_of(x):
    return struct.unpack("<I", struct.pack("<f", x))[0]


def ulps_apart(a_bits, b_bits):
    def key(b):
        b = int(b)
        return -(b & 0x7FFFFFFF) if b & 0x80000000 else b
    return abs(key(a_bits) - key(b_bits))


def run_pair(prop, tag, ops, profiles):
    """run ops on the implementation (first profile) and on the model driver; returns (impl_lines, model_lines)"""
    os.makedirs(os.path.join(P.WORK, prop), exist_ok=True)
    base = os.path.join(P.WORK, prop, tag)
    open(base + ".ops", "w").write("\n".join(ops) + "\n")
    P.run_stream(P.harness_bin(profiles[0]), ["run"], base + ".ops", base + ".impl")
    P.run_stream(P.MODEL_EXE, [], base + ".ops", base + ".model")
    return P.read_lines(base + ".impl"), P.read_lines(base + ".model"), base + ".ops"


def extra_c13(prop, tier, seed, profiles):
    """Spec oracles: (a) the implementation equals the *published* curve evaluated parametrically, bit for
    bit (what the code is documented to compute, with the hand-transcribed constants — independent of the
    generated table); (b) the implementation against the true CSS timing function (F-C13)."""
    rng = random.Random(seed)
    n = 64 if tier == "quick" else 4096
    ops = []
    for name in EASINGS:
        xs = [0.0, 1.0, 0.5, 0.25, 0.75] + [rng.random() for _ in range(n)]
        toks = " ".join(str(bits_of(x)) for x in xs)
        ops += [f"ease {name} {toks}", f"easepub {name} {toks}", f"timing {name} {toks}"]
    impl, model, path = run_pair(prop, f"spec.{tier}", ops, profiles)
    fails, checked, hist = [], 0, {}
    for k, name in enumerate(EASINGS):
        xs = ops[3 * k].split(" ")[2:]
        got = impl[3 * k].split(" ")
        pub = model[3 * k + 1].split(" ")
        tim = model[3 * k + 2].split(" ")
        for x, g, p, t in zip(xs, got, pub, tim):
            checked += 2
            if g != p:
                fails.append(dict(line=3 * k, directive=f"spec parametric-published {name}", op=f"ease {name} {x}", got=g, want=p, ops=[f"ease {name} {x}", f"easepub {name} {x}"], parametric=p))
            elif ulps_apart(g, t) > 8 and abs(f32(g) - f32(t)) > 1e-6:
                hist["timing-mismatch"] = hist.get("timing-mismatch", 0) + 1
                fails.append(dict(line=3 * k, directive=f"spec timing-function {name}", op=f"ease {name} {x}", got=g, want=t, ops=[f"ease {name} {x}", f"timing {name} {x}"], parametric=p))
    # dense sweeps (digest comparison model vs implementation)
    sweeps = []
    one = 0x3F800000
    if tier == "thorough":
        for name in EASINGS:
            sweeps.append(f"easesweep {name} 0 {one // 64 + 1} 64")
            sweeps.append(f"easesweep {name} 0 1048576 1")
            sweeps.append(f"easesweep {name} {one - 1048575} 1048576 1")
    else:
        for name in EASINGS:
            sweeps.append(f"easesweep {name} 0 65536 16257")
            sweeps.append(f"easesweep {name} {one - 4095} 4096 1")
    si, sm, _ = run_pair(prop, f"sweep.{tier}", sweeps, profiles)
    problems = []
    evals = 0
    for o, a, b in zip(sweeps, si, sm):
        evals += int(o.split(" ")[3])
        if a != b:
            problems.append(f"correspondence broken: sweep digest differs for `{o}`")
    return dict(checked=checked, fails=fails, evaluations=evals + checked // 2, hist=hist, problems=problems,
                notes=[f"{len(sweeps)} sweep ops, {evals} x-values digested on both sides"])


def rec_c13_parametric(f):
    """F-C13: the implementation returns the published curve's y at *parameter* t=x (bit-exactly), which is
    not the timing function at horizontal position x."""
    return f.get("directive", "").startswith("spec timing-function") and f.get("parametric") == f.get("got")


PLANS["C13"] = dict(
    suites=[Suite("ease", 1500, 100000)],
    floors={"quick": {"op:ease": 1000}},
    extra=extra_c13,
    recognisers={"c13_parametric": rec_c13_parametric},
    assumptions=["published control points transcribed by hand in lean/MinaModel/Spec/Published.lean (T6)",
                 "lyon_geom 1.0 CubicBezierSegment::y(t) operation order transcribed in MinaModel/Easing.lean (validated bit-exactly)"],
)


# ---------------------------------------------------------------------------------------------------
# C03

from fractions import Fraction


def f32_round(q):
    """correctly rounded (nearest-even) binary32 of an exact rational, as a Python float"""
    q = Fraction(q)
    if q == 0: return 0.0
    neg = q < 0
    q = abs(q)
    num, den = q.numerator, q.denominator
    e = num.bit_length() - den.bit_length() - 23
    def scaled(e):
        return (num, den << e) if e >= 0 else (num << -e, den)
    n, d = scaled(e)
    if n // d >= 1 << 24: e += 1
    elif n // d < 1 << 23: e -= 1
    e = max(e, -149)
    n, d = scaled(e)
    m, r = divmod(n, d)
    if 2 * r > d or (2 * r == d and m % 2 == 1): m += 1
    v = Fraction(m) * (Fraction(2) ** e)
    x = float(v) if v < Fraction(2) ** 128 else float("inf")
    return -x if neg else x


def parse_pos(tok):
    if tok == "N": return ("N", None, None)
    if tok[0] == "E": return ("E", f32(tok[1:]), None)
    v, fl = tok[1:].split(":")
    return ("A", f32(v), fl)


def extra_c03(prop, tier, seed, profiles):
    """Relational oracles on the implementation's `get_position` outputs alone: range, NotStarted iff
    t < delay, terminal iff past cycle x (repeats+1), terminal value, and the sweeps (model-vs-code digests)."""
    n = 1500 if tier == "quick" else 60000
    path = os.path.join(P.WORK, prop, f"oracle.{tier}.ops")
    os.makedirs(os.path.dirname(path), exist_ok=True)
    P.gen_ops("pos", seed + 77, n, path)
    out = path[:-4] + ".impl"
    P.run_stream(P.harness_bin(profiles[0]), ["run"], path, out)
    ops, impl = P.read_lines(path), P.read_lines(out)
    fails, checked = [], 0
    for L, (op, o) in enumerate(zip(ops, impl)):
        w = op.split(" ")
        if w[0] != "pos": continue
        dur, delay, rep, rev = f32(w[1]), f32(w[2]), w[3], w[4] == "1"
        toks = o.split(" ")
        total, res = toks[0], toks[1:]
        for tb, r in zip(w[5:], res):
            t = f32(tb)
            kind, v, fl = parse_pos(r)
            checked += 1
            bad = None
            c = f32_round(Fraction(t) - Fraction(delay))
            if (kind == "N") != bool(c < 0): bad = "NotStarted iff time < delay"
            elif kind != "N" and not (0.0 <= v <= 1.0): bad = "position in [0,1]"
            elif kind == "E" and v != (0.0 if rev else 1.0): bad = "terminal position is 100% (0% when reversing)"
            elif kind == "E" and rep == "i": bad = "never terminal for infinite repeat"
            elif kind != "N" and rep != "i":
                cycles = f32_round(1 if rep == "n" else int(rep) + 1)
                limit = f32_round(Fraction(dur) * Fraction(cycles))
                if (kind == "E") != bool(c > limit): bad = "terminal iff time since delay > cycle x (repeats+1)"
            if bad:
                fails.append(dict(line=L, directive=f"relational {bad}", op=f"pos {w[1]} {w[2]} {w[3]} {w[4]} {tb}", got=r, want=bad, ops=[f"pos {w[1]} {w[2]} {w[3]} {w[4]} {tb}"]))
    # sweeps: consecutive f32 bit patterns around phase boundaries + strided whole axis
    rng = random.Random(seed)
    sweeps = []
    ncfg = 6 if tier == "quick" else 64
    width = 1 << (12 if tier == "quick" else 20)
    for _ in range(ncfg):
        dur = rng.choice([1.0, 0.5, 2.0, 3.0, 0.3, 10.0, 0.7, 1e-3, 123.456, 0.1])
        delay = rng.choice([0.0, 1.0, 0.1, 2.5, 0.333, 1e-3])
        rep = rng.choice(["n", "i", "0", "1", "2", "3", "7"])
        rev = rng.choice([0, 1])
        cfg = f"{bits_of(dur)} {bits_of(delay)} {rep} {rev}"
        k = rng.choice([0, 1, 2, 3])
        for centre in (delay, delay + dur * k, delay + dur * (k + 0.5), delay + dur * (1 if rep in "ni" else int(rep) + 1)):
            cb = bits_of(centre)
            sweeps.append(f"possweep {cfg} {max(0, cb - width // 2)} {width} 1")
        sweeps.append(f"possweep {cfg} 0 {(0x7F800000 // 65521) if tier == 'thorough' else 4096} {65521 if tier == 'thorough' else 520000}")
    si, sm, _ = run_pair(prop, f"sweep.{tier}", sweeps, profiles)
    problems, evals = [], 0
    for o, a, b in zip(sweeps, si, sm):
        evals += int(o.split(" ")[6])
        if a != b: problems.append(f"correspondence broken: sweep digest differs for `{o}`")
    return dict(checked=checked, fails=fails, evaluations=evals, problems=problems, notes=[f"{len(sweeps)} position sweeps, {evals} times digested on both sides"])


PLANS["C03"] = dict(
    suites=[Suite("pos", 3000, 200000), Suite("tl", 150, 4000)],
    floors={"quick": {"pos:N": 500, "pos:E": 500, "pos:A00": 500, "pos:A10": 500, "pos:A01": 200, "pos:A11": 200, "op:prep": 2000}},
    extra=extra_c03,
    assumptions=["cycle duration > 0, finite delay (the property's hypotheses)"],
)


# ---------------------------------------------------------------------------------------------------
# timeline-level properties decided on the `tl` / `merged` suites

TL_FLOORS = {"quick": {"op:upd": 5000, "op:tl": 300, "op:start": 50, "op:clone": 50}}

PLANS["C08"] = dict(
    suites=[Suite("tl", 400, 30000), Suite("merged", 150, 10000), Suite("anim", 200, 10000)],
    floors=TL_FLOORS,
    assumptions=["the derive-generated update is modelled by applySubs over the animated-field list (validated on three derive shapes incl. a #[animate] subset and a remote proxy)"],
)
PLANS["C09"] = dict(
    suites=[Suite("tl", 500, 40000), Suite("merged", 100, 5000)],
    floors=TL_FLOORS,
    assumptions=["history-independence of the implementation is decided by the differential run (every output of an interleaved session equals the model's pure function), not by a theorem"],
)
PLANS["C11"] = dict(
    suites=[Suite("tl", 500, 40000), Suite("tlw", 150, 6000)],
    floors=TL_FLOORS,
    assumptions=["keyframe positions are non-negative and not NaN (total_cmp then agrees with <); -0.0 is excluded"],
)
PLANS["C12"] = dict(
    suites=[Suite("merged", 400, 30000), Suite("pos", 60, 3000)],     # `pos` carries the Repeat ordering ops (repcmp)
    floors={"quick": {"op:merge": 300, "op:updchain": 1000, "op:upd": 2000, "op:repcmp": 48}},
    assumptions=[],
)

PLANS["C01"] = dict(
    suites=[Suite("tl", 600, 50000), Suite("merged", 100, 3000), Suite("sub", 300, 10000)],
    floors=TL_FLOORS,
    assumptions=["keyframes as the builder hands them over: sorted (C11), positions in [0,1]; exact arithmetic — the binary32 evaluation of the same model term is what is compared with the code"],
)
# `big`: timelines of 255…70 001 keyframes (index widths), see gen_big
PLANS["C02"] = dict(
    suites=[Suite("tl", 600, 50000), Suite("pos", 500, 20000), Suite("big", 3, 16, chunks_thorough=8)],
    floors=TL_FLOORS,
    assumptions=["easings that fix 0 and 1 (all built-ins, C13); values whose lerp is exact at 0 and 1 (floats; integers of one kind within its range, C14)"],
)


def rec_c10_dup_zero(f):
    """F-C10: two 0% keyframes define the property; the override replaces frame 0 only"""
    return bool(f.get("dup0"))


PLANS["C10"] = dict(
    suites=[Suite("tl", 600, 50000), Suite("merged", 100, 3000), Suite("sub", 600, 40000)],
    floors={"quick": dict(TL_FLOORS["quick"], **{"op:subat": 15000})},
    recognisers={"c10_dup_zero": rec_c10_dup_zero},
    assumptions=["start_value_until_delay: no second keyframe defines the property at 0 % (NoDupAtZero) and endpoint-fixing easings; the unrestricted statement is refuted (F-C10)"],
)


# ---------------------------------------------------------------------------------------------------
# C01: implementation against the declarative CSS reading evaluated in exact arithmetic

def extra_c01(prop, tier, seed, profiles):
    n = 250 if tier == "quick" else 12000
    base = os.path.join(P.WORK, prop, f"spec.{tier}")
    os.makedirs(os.path.dirname(base), exist_ok=True)
    P.gen_ops("tl", seed + 101, n, base + ".gen")
    ops = P.read_lines(base + ".gen")
    impl_ops, spec_ops, keep = [], [], []
    shapes = {}
    exact = False
    cur_tl, cur_start = None, None
    for op in ops:
        w = op.split(" ")
        if w[0] == "shape":
            shapes[w[1]] = [t.split(":") for t in w[2:]]
        if w[0] == "reset": exact = False
        if op == "# exactcfg": exact = True
        if w[0] in ("reset", "shape"):
            impl_ops.append(op); spec_ops.append(op); keep.append(None); continue
        if exact and w[0] == "tl" and w[1] == "0":
            cur_tl, cur_start = w, None
            impl_ops.append(op); spec_ops.append("q" + op); keep.append(None)
        elif exact and w[0] == "start" and w[1] == "0":
            cur_start = w
            impl_ops.append(op); spec_ops.append("q" + op); keep.append(None)
        elif exact and w[0] == "upd" and w[1] == "0" and cur_tl is not None:
            impl_ops.append(op); spec_ops.append("q" + op); keep.append((cur_tl, cur_start))
        else:
            impl_ops.append("#"); spec_ops.append("#"); keep.append(None)
    open(base + ".impl.ops", "w").write("\n".join(impl_ops) + "\n")
    open(base + ".spec.ops", "w").write("\n".join(spec_ops) + "\n")
    P.run_stream(P.harness_bin(profiles[0]), ["run"], base + ".impl.ops", base + ".impl")
    P.run_stream(P.MODEL_EXE, [], base + ".spec.ops", base + ".spec")
    impl, spec = P.read_lines(base + ".impl"), P.read_lines(base + ".spec")
    fails, checked, determined = [], 0, 0
    for L, kept in enumerate(keep):
        if kept is None: continue
        tlw, startw = kept
        a, b = impl[L], spec[L]
        if a.startswith("panic") or b.startswith(("bad", "panic")): continue
        fields = shapes[tlw[2]]
        anim = [i for i, f in enumerate(fields) if f[1] == "a"]
        nkf = int(tlw[8])
        # per-field magnitude of the keyframe values (for the rounding allowance)
        mag = {i: 1.0 for i in anim}
        q = 9
        for _ in range(nkf):
            for j, fi in enumerate(anim):
                tok = tlw[q + 2 + j]
                if tok != "-":
                    v = abs(f32(tok)) if fields[fi][0] in ("f32", "f64") else abs(int(tok))
                    mag[fi] = max(mag[fi], v)
            q += 2 + len(anim)
        # the value given to the latest start_with takes part in the first segment too
        if startw is not None:
            for fi in anim:
                tok = startw[2 + fi]
                v = abs(f32(tok)) if fields[fi][0] in ("f32", "f64") else abs(int(tok))
                if v == v and v != float("inf"): mag[fi] = max(mag[fi], v)
        av, bv = a.split(" "), b.split(" ")
        uw = impl_ops[L].split(" ")
        for fi in anim:
            if bv[fi] == "-" or bv[fi].startswith("panic"): continue
            determined += 1
            checked += 1
            if fields[fi][0] in ("f32", "f64"):
                x, y = f32(av[fi].split("!")[0]), f32(bv[fi])
                start_mag = abs(f32(uw[3 + fi]))
                ok = abs(x - y) <= 4e-6 * max(mag[fi], abs(y), start_mag if start_mag == start_mag else 0, 1.0) + 1e-30 or (x != x and y != y)
            else:
                ok = abs(int(av[fi]) - int(bv[fi])) <= max(1, 4e-6 * max(mag[fi], abs(int(bv[fi]))))
            if not ok:
                fails.append(dict(line=L, directive=f"spec css-value field {fi}", op=impl_ops[L], got=av[fi], want=bv[fi],
                                  ops=[o for o in impl_ops[max(0, L - 60):L + 1] if not o == "#"]))
    return dict(checked=checked, fails=fails, evaluations=checked, hist={"spec-determined-fields": determined},
                notes=[f"{checked} (timeline, time, field) values compared with the exact CSS reading (Spec.timelineValues at ℚ)"])


PLANS["C01"]["extra"] = extra_c01
PLANS["C01"]["floors"] = {"quick": dict(TL_FLOORS["quick"], **{"spec-determined-fields": 2000})}


# ---------------------------------------------------------------------------------------------------
# animator properties

def extra_c07(prop, tier, seed, profiles):
    """On the implementation alone: is_ended is monotone between state changes, true iff no timeline or
    time >= duration is what the model comparison covers; once ended, values rest (checked on dyadic
    configurations, where no float rounding separates `t >= duration()` from the terminal position)."""
    n = 300 if tier == "quick" else 15000
    path = os.path.join(P.WORK, prop, f"oracle.{tier}.ops")
    os.makedirs(os.path.dirname(path), exist_ok=True)
    P.gen_ops("anim", seed + 707, n, path)
    out = path[:-4] + ".impl"
    P.run_stream(P.harness_bin(profiles[0]), ["run"], path, out)
    ops, impl = P.read_lines(path), P.read_lines(out)
    fails, checked = [], 0
    exact, prev = False, None
    ended_run = 0       # consecutive `adv` outputs (since the last state change) that reported ended
    first_ended_ns = None
    hist = {"ended-seen": 0, "rest-checked": 0, "rest-checked-inexact": 0}
    tls, merges, state_slots = {}, {}, []
    hist["ended-iff-checked"] = 0
    def total_of(slot):
        """(total duration as an exact rational or None for infinite, ulp) of the timeline in a slot; None if unknown"""
        if slot in merges:
            parts = [total_of(c) for c in merges[slot]]
            if any(p is None for p in parts): return None
            if not parts: return (Fraction(0), Fraction(1, 2 ** 40))
            if any(p[0] is None for p in parts): return (None, max(p[1] for p in parts))
            return (max(p[0] for p in parts), max(p[1] for p in parts))
        if slot in tls:
            t = tl_timing(tls[slot])
            return None if t is None else (t[1], t[2])
        return None
    def ended_iff(L, o):
        """is_ended ⇔ the state has no timeline or the time in the state is at least the timeline's total duration
        (exact rationals, 4 ulps of slack at the threshold: binary32 sums round, DESIGN §10 / F-C07b)"""
        try:
            meta = o.split(" | ")[1].split(" ")
            st, ended, ns = int(meta[0]), meta[1] == "1", int(meta[2])
        except (IndexError, ValueError):
            return
        if st >= len(state_slots): return
        tok = state_slots[st]
        if tok == "-":
            hist["ended-iff-checked"] += 1
            if not ended: fails.append(dict(line=L, directive="relational is_ended is true when the current state has no timeline", op=ops[L], got=o, want="ended", ops=P.block_of(ops, L)))
            return
        tot = total_of(tok)
        if tot is None: return
        total, ulp = tot
        p = secs_f32_of_ns(ns)
        hist["ended-iff-checked"] += 1
        if ended and (total is None or p < total - 4 * ulp):
            fails.append(dict(line=L, directive="relational is_ended only when the time in the state has reached the total duration (never for an infinite component)", op=ops[L], got=o, want=f"not ended: time {float(p)} total {'inf' if total is None else float(total)}", ops=P.block_of(ops, L)))
        if not ended and total is not None and p > total + 4 * ulp:
            fails.append(dict(line=L, directive="relational is_ended as soon as the time in the state is at least the total duration", op=ops[L], got=o, want=f"ended: time {float(p)} total {float(total)}", ops=P.block_of(ops, L)))
    for L, (op, o) in enumerate(zip(ops, impl)):
        w = op.split(" ")
        if w[0] == "reset": tls, merges, state_slots = {}, {}, []
        if w[0] == "tl": tls[w[1]] = w
        if w[0] == "merge": merges[w[1]] = w[3:3 + int(w[2])]
        if w[0] == "anim" and w[1] == "0":
            ns_ = int(w[3]); state_slots = w[len(w) - ns_:]
        if w[0] in ("anim", "set", "adv") and len(w) > 1 and w[1] == "0" and not o.startswith(("panic", "bad")):
            ended_iff(L, o)
        if w[0] == "reset": exact, prev, ended_run = False, None, 0
        elif op == "# exactcfg": exact = True
        elif w[0] in ("anim", "set"):
            if w[0] == "set" and prev is not None and o == prev[0]:
                continue                      # set_state to the current state: nothing happened
            prev = None if o.startswith(("panic", "bad")) else (o, L)
            ended_run = 0
            if prev is not None:
                # a state entered (or resumed) exactly at its end instant: this observation is the first ended one
                try:
                    sm = o.split(" | ")[1].split(" ")
                    if sm[1] == "1": first_ended_ns = int(sm[2])
                except (IndexError, ValueError):
                    pass
        elif w[0] == "adv" and w[1] == "0":
            if o.startswith(("panic", "bad")): prev = None; continue
            vals, meta = o.split(" | ")
            ended = meta.split(" ")[1] == "1"
            if ended: hist["ended-seen"] += 1
            if prev is not None:
                pv, pm = prev[0].split(" | ")
                pended = pm.split(" ")[1] == "1"
                if pended:
                    checked += 1
                    if not ended:
                        fails.append(dict(line=L, directive="relational ended stays true under further advances", op=op, got=o, want=prev[0], ops=P.block_of(ops, L)))
                    elif exact:
                        hist["rest-checked"] += 1
                        if vals != pv:
                            fails.append(dict(line=L, directive="relational values rest once ended", op=op, got=o, want=prev[0], ops=P.block_of(ops, L)))
                    else:
                        # timings whose sums are inexact in binary32: `t >= duration()` and the time scale's own end
                        # test can disagree at the first ended instant (finding F-C07b); from the second on, values rest
                        hist["rest-checked-inexact"] += 1
                        if vals != pv:
                            f = dict(line=L, directive="relational values rest once ended", op=op, got=o, want=prev[0], ops=P.block_of(ops, L))
                            # the observation that was not yet at rest lies within 4 ulps (binary32) of the first ended time
                            pns = int(pm.split(" ")[2])
                            if first_ended_ns is not None and pns <= first_ended_ns * (1 + 2.0 ** -21) + 1: f["inexact_timing"] = True
                            fails.append(f)
            if ended and ended_run == 0: first_ended_ns = int(meta.split(" ")[2])
            ended_run = ended_run + 1 if ended else 0
            prev = (o, L)
    return dict(checked=checked, fails=fails, evaluations=checked, hist=hist)


ANIM_FLOORS = {"quick": {"op:adv": 800, "op:set": 300, "op:anim": 100}}
PLANS["C04"] = dict(suites=[Suite("anim", 500, 30000)], floors=ANIM_FLOORS,
                    assumptions=["blend law of each timeline (BlendOK): built-in easings, per-property distinct keyframe positions, values exactly representable in f32 — the property's own hypotheses"])
PLANS["C05"] = dict(suites=[Suite("anim", 500, 30000), Suite("merged", 100, 4000)], floors=ANIM_FLOORS,
                    assumptions=["internal time and pause record observed through the verif-hooks snapshot"])
PLANS["C06"] = dict(suites=[Suite("anim6", 250, 15000), Suite("anim", 200, 8000)], floors={"quick": {"op:adv": 1500, "op:set": 200}},
                    assumptions=["StableWrites: the set of slots a timeline writes does not depend on time (true of built timelines)"])
PLANS["C07"] = dict(suites=[Suite("anim", 500, 30000), Suite("merged", 100, 4000)], floors=ANIM_FLOORS, extra=extra_c07,
                    assumptions=["values-rest is stated for every component strictly past its end; at the end instant itself the position already equals the terminal one (C02.at_total_position)"])
PLANS["C07"]["recognisers"] = {"c07b_inexact_timing": lambda f: bool(f.get("inexact_timing"))}
PLANS["C07"]["floors"] = {"quick": dict(ANIM_FLOORS["quick"], **{"ended-seen": 200, "rest-checked": 50})}


def extra_c05(prop, tier, seed, profiles):
    """The documented rules as a tiny abstract machine (current state, nanoseconds in state, remembered
    pause), run in Python next to the implementation's observable state + verif-hooks snapshot."""
    n = 300 if tier == "quick" else 15000
    path = os.path.join(P.WORK, prop, f"oracle.{tier}.ops")
    os.makedirs(os.path.dirname(path), exist_ok=True)
    P.gen_ops("anim", seed + 505, n, path)
    out = path[:-4] + ".impl"
    P.run_stream(P.harness_bin(profiles[0]), ["run"], path, out)
    ops, impl = P.read_lines(path), P.read_lines(out)
    fails, checked = [], 0
    st = None
    for L, (op, o) in enumerate(zip(ops, impl)):
        w = op.split(" ")
        if w[0] == "reset": st = None
        elif w[0] == "anim" and w[1] == "0":
            nstates = int(w[3])
            animated = [t != "-" for t in w[-nstates:]]
            st = dict(cur=int(w[4]), ns=0, paused=None, animated=animated)
        elif st is not None and w[0] in ("adv", "set") and w[1] == "0":
            if o.startswith(("panic", "bad")): st = None; continue
            if w[0] == "adv":
                q = Fraction(f32(w[2])) * 1000000000
                fl = q.numerator // q.denominator
                r = q - fl
                ns = fl + (1 if (r > Fraction(1, 2) or (r == Fraction(1, 2) and fl % 2 == 1)) else 0)
                st["ns"] += ns
            else:
                s = int(w[2])
                if s != st["cur"]:
                    if st["paused"] is not None and st["paused"][0] == s:
                        st["cur"], st["ns"] = s, st["paused"][1]
                    else:
                        was, will = st["animated"][st["cur"]], st["animated"][s]
                        if was and not will: st["paused"] = (st["cur"], st["ns"])
                        elif will: st["paused"] = None
                        st["cur"], st["ns"] = s, 0
            meta = o.split(" | ")[1].split(" ")
            want = [str(st["cur"]), meta[1], str(st["ns"]), "-" if st["paused"] is None else f"{st['paused'][0]}@{st['paused'][1]}"]
            checked += 1
            if meta != want:
                fails.append(dict(line=L, directive="spec documented blend/pause/resume rules (state, ns in state, remembered pause)", op=op, got=" ".join(meta), want=" ".join(want), ops=P.block_of(ops, L)))
                st = None
    return dict(checked=checked, fails=fails, evaluations=checked)


PLANS["C05"]["extra"] = extra_c05


# ---------------------------------------------------------------------------------------------------
# C20

def rec_c20b_overshoot(f):
    """F-C20b: an overshooting (Back-family) easing drives an integer property at/near its type's bounds
    outside the range; the checked conversion panics as documented under `# Panics` of Lerp."""
    if f.get("got") != "panic:int-range": return False
    tls = [o for o in f.get("ops", []) if o.startswith("tl ")]
    return bool(tls) and any("Back" in t for t in tls)


def extra_c20(prop, tier, seed, profiles):
    """valid-but-extreme configurations: no panic, no NaN/inf out of finite inputs (implementation alone);
    identical output in debug and release is checked by the runner for every suite."""
    n = 1500 if tier == "quick" else 60000
    path = os.path.join(P.WORK, prop, f"oracle.{tier}.ops")
    os.makedirs(os.path.dirname(path), exist_ok=True)
    P.gen_ops("ext", seed + 2020, n, path)
    fails, checked = [], 0
    hist = {"ext-pos-values": 0, "ext-upd-values": 0}
    outs = {}
    for prof in profiles:
        out = path[:-4] + f".{prof}"
        P.run_stream(P.harness_bin(prof), ["run"], path, out)
        outs[prof] = P.read_lines(out)
    ops = P.read_lines(path)
    impl = outs[profiles[0]]
    def finite(tok):
        try: b = int(tok.split("!")[0])
        except ValueError: return True
        return (b >> 23) & 0xFF != 0xFF
    for L, (op, o) in enumerate(zip(ops, impl)):
        w = op.split(" ")
        if not op or op.startswith("#") or w[0] in ("reset", "shape"): continue
        checked += 1
        for prof in profiles[1:]:
            if outs[prof][L] != o:
                fails.append(dict(line=L, directive=f"relational debug and release agree ({profiles[0]} vs {prof})", op=op, got=o, want=outs[prof][L], ops=P.block_of(ops, L)))
        if o.startswith("panic"):
            fails.append(dict(line=L, directive="oracle valid configuration never panics", op=op, got=o, want="no panic", ops=P.block_of(ops, L)))
            continue
        if w[0] == "pos":
            toks = o.split(" ")
            if toks[0] != "inf" and not finite(toks[0]):
                fails.append(dict(line=L, directive="oracle total duration finite", op=op, got=toks[0], want="finite", ops=[op]))
            for r in toks[1:]:
                if r == "N": continue
                hist["ext-pos-values"] += 1
                v = r[1:].split(":")[0]
                x = f32(v)
                if not (finite(v) and 0.0 <= x <= 1.0):
                    fails.append(dict(line=L, directive="oracle position finite and in [0,1]", op=op, got=r, want="[0,1]", ops=[op])); break
        elif w[0] == "upd":
            for k, tok in enumerate(o.split(" ")):
                hist["ext-upd-values"] += 1
                if k in (0, 1, 6) and not finite(tok):
                    fails.append(dict(line=L, directive="oracle finite inputs never become NaN/inf", op=op, got=tok, want="finite", ops=P.block_of(ops, L))); break
    return dict(checked=checked, fails=fails, evaluations=checked, hist=hist)


PLANS["C20"] = dict(
    suites=[Suite("ext", 800, 40000), Suite("pos", 800, 30000), Suite("tl", 150, 8000), Suite("anim", 150, 8000), Suite("merged", 60, 3000), Suite("lerp", 1500, 50000), Suite("big", 3, 16, chunks_thorough=8)],
    floors={"quick": {"ext-pos-values": 20000, "ext-upd-values": 2000, "op:pos": 700}},
    extra=extra_c20,
    recognisers={"c20b_overshoot": rec_c20b_overshoot},
    profiles_must_agree=True,
    assumptions=["valid configuration: cycle duration > 0, finite delay ≥ 0, positions in [0,1], total duration representable in f32 (delay + cycle×(repeats+1) ≤ f32::MAX), finite values",
                 "FMA contraction / x87 and other optimiser- or target-dependent float behaviour cannot be exhibited by the model; covered only by the two-profile run on this machine (partial)"],
)


# ---------------------------------------------------------------------------------------------------
# bevy (C18, C19): relational oracles on the real App's observable state, frame by frame

def parse_bevy(o):
    # an App may hold several entities (` ## `-separated): the relational rules are judged on entity 0, the others are
    # there to interfere if the systems let them (they are compared with the model line by line)
    o = o.split(" ## ")[0]
    parts = o.split(" | ")
    p = parts[0].split(" ")
    d = dict(state=int(p[0]), pos=int(p[1]), enabled=p[2] == "1", comp=(p[3], p[4]),
             key=None if parts[1] == "key=-" else int(parts[1][4:]),
             ev=[int(x) for x in parts[2][3:].split(",") if x], q=None)
    if parts[3] != "-":
        q = parts[3].split(" ")
        d["q"] = dict(state=int(q[0]), pos=int(q[1]), comp=q[2])
    return d


def extra_bevy(prop, tier, seed, profiles):
    n = 250 if tier == "quick" else 12000
    path = os.path.join(P.WORK, prop, f"oracle.{tier}.ops")
    os.makedirs(os.path.dirname(path), exist_ok=True)
    bbin = P.harness_bin("debug", P.BEVY, "bevy_harness")
    P.gen_ops("bevy", seed + (18 if prop == "C18" else 19), n, path, gen_bin=bbin)
    # corpus witnesses first (the relational rules below run on them too)
    import glob as _glob
    pre = []
    for cp in sorted(_glob.glob(os.path.join(P.VERIF, "corpus", prop, "*.ops"))):
        pre += ["reset"] + [l for l in P.read_lines(cp) if l.strip()]
    if pre:
        body = P.read_lines(path)
        open(path, "w").write("\n".join(pre + ["reset"] + body))
    out = path[:-4] + ".impl"
    P.run_stream(bbin, ["run"], path, out)
    ops, impl = P.read_lines(path), P.read_lines(out)
    fails, checked = [], 0
    hist = {"frames": 0, "ended-frames": 0, "key-changes-by-chain": 0, "setkey-switches": 0, "two-animator-apps": 0}
    prev, cfg, dirty, chain_pending, stale, key_set = None, None, False, None, False, False
    cur_slot, last_frame = "-", None
    clock_paused, clock_speed = False, 1.0
    reinserted, pending_ext = False, []
    blk_dyadic, blk_mag, blk_tls = True, 1.0, {}
    frame_key, other_ext, nframes = None, False, 0     # selector key at the end of the last frame; non-setkey external op since
    moved_in_frame = False                             # the chain moved the key during the last frame (select may see it only in the next one)
    hist.update({"restart-checked": 0, "stop-checked": 0, "reassign-checked": 0})
    def fail(L, what, got, want=""):
        fails.append(dict(line=L, directive=f"relational {what}", op=ops[L], got=got, want=want, ops=P.block_of(ops, L)))
    for L, (op, o) in enumerate(zip(ops, impl)):
        w = op.split(" ")
        if w[0] == "reset": prev, blk_dyadic, blk_mag, blk_tls = None, True, 1.0, {}
        if w[0] == "tl":
            blk_tls[w[1]] = w
            # timings that are small multiples of 2^-10 add and subtract exactly in binary32; elsewhere `position >=
            # delay + duration` and `position - delay > duration` can disagree by one rounding (numerical scope, DESIGN §10)
            for tok in (w[3], w[4]):
                if tok != "-":
                    x = f32(tok)
                    if not (x == x and abs(x) < 1024 and (x * 1024) == int(x * 1024)): blk_dyadic = False
            for tok in w[9:]:
                if tok.isdigit():
                    x = abs(f32(tok))
                    if x == x and x != float("inf"): blk_mag = max(blk_mag, x)
        if w[0] == "evalat" and prop == "C18":
            # while Playing the component equals the timeline evaluated at a position at most one frame old: the frame
            # evaluates at the position it started with, when it started in state Playing
            lf = last_frame
            if lf and not o.startswith(("panic", "bad")) and lf["before"]["state"] == 2 and lf["before"]["enabled"] and cfg and cfg["sel"] == "none" \
                    and int(w[2]) == lf["before"]["pos"] and w[1] == cur_slot:
                checked += 1
                hist["playing-value-checked"] = hist.get("playing-value-checked", 0) + 1
                if tuple(o.split(" ")) != lf["after"]["comp"]:
                    fail(L, "while Playing the component equals the timeline evaluated at the position of one frame ago", " ".join(lf["after"]["comp"]), o)
            continue
        if w[0] == "terminal" and prop == "C18" and prev is not None and not o.startswith(("panic", "bad")):
            # Ended => the component holds the terminal values of the timeline that ended
            if prev["state"] == 3 and not stale:
                checked += 1
                hist["terminal-checked"] = hist.get("terminal-checked", 0) + 1
                if tuple(o.split(" ")) != prev["comp"]:
                    fail(L, "whenever Ended, the target holds the timeline's terminal values", " ".join(prev["comp"]), o)
                    # F-C18b: with timings whose sums are inexact in binary32 the animator decides Ended on
                    # `position >= delay + total` while the time scale compares `position - delay > total`
                    # ... which can only matter when the position at which Ended was decided lies within a few ulps
                    # of the reported duration of that timeline
                    tlw = blk_tls.get(w[1])
                    if not blk_dyadic and tlw is not None and near_duration(tlw, prev["pos"]): fails[-1]["inexact_timing"] = True
            continue
        if w[0] == "tpause": clock_paused = w[1] == "1"; continue
        if w[0] == "tspeed": clock_speed = struct.unpack("<d", struct.pack("<Q", int(w[1])))[0]; continue
        if w[0] not in ("bapp", "frame", "setkey", "enable", "breset", "settl", "setpos", "setcomp", "reinsel"): continue
        if w[-1].startswith("@") and w[-1] != "@0": continue      # an operation on another entity of the App
        if o.startswith(("panic", "bad")): prev = None; continue
        cur = parse_bevy(o)
        if w[0] == "bapp":
            cur_slot, last_frame = w[3], None
            clock_paused, clock_speed = False, 1.0
            cfg = dict(has_q=w[8] != "none", chain=w[7], sel=w[5])
            if cfg["has_q"]: hist["two-animator-apps"] += 1
            prev, dirty, key_set, stale = cur, False, False, False
            frame_key, other_ext, nframes, moved_in_frame = None, False, 0, False
            continue
        if prev is None: prev = cur; frame_key, other_ext, nframes, moved_in_frame = None, False, 0, False; continue
        if w[0] in ("enable", "breset", "settl", "setpos", "setcomp", "reinsel"): other_ext = True
        if w[0] == "settl": cur_slot = w[1]
        if w[0] == "reinsel" and cfg is not None and cfg["sel"] != "none":
            cfg["sel"] = w[1]    # the selector was replaced
            reinserted = not any(x in ("enable", "breset", "settl", "setpos") for x in pending_ext)
        if w[0] in ("enable", "breset", "settl", "setpos", "setkey"): pending_ext.append(w[0]); reinserted = False if w[0] != "setkey" else reinserted
        if w[0] == "setcomp" and prev["state"] == 3: stale = True   # a foreign write after the end is not undone by the animator
        if w[0] == "settl" and prev["state"] == 3: stale = True   # re-targeting while Ended does not restart (documented)
        if w[0] == "breset": stale = False
        if w[0] != "frame":
            # an external operation: the next frame is not bound by the forward-only rule
            if w[0] == "setkey" and cur["key"] != prev["key"]: key_set = True
            dirty = True
            # keep what the last *frame* announced: chain_animations reads it in the next frame
            prev = dict(cur, ev=prev["ev"], frame_state=prev.get("frame_state", prev["state"]), own_end=prev.get("own_end", False))
            continue
        delta = frame_delta(int(w[1]), clock_paused, clock_speed)      # what Time::delta() reports for this frame
        if delta != int(w[1]): hist["scaled-or-paused-frames"] = hist.get("scaled-or-paused-frames", 0) + 1
        hist["frames"] += 1
        checked += 1
        if prop == "C18":
            if not prev["enabled"]:
                if (cur["state"], cur["pos"], cur["comp"]) != (prev["state"], prev["pos"], prev["comp"]) and not key_set and not (cfg["sel"] != "none"):
                    fail(L, "a disabled animator changes nothing", o, impl[L - 1])
            elif cur["state"] in (1, 2):
                base = 0 if (cfg["sel"] != "none" and cur["pos"] == delta and prev["pos"] != 0 and False) else prev["pos"]
                # a selector may have reset the animator this frame (position restarts from 0)
                if cur["pos"] != prev["pos"] + delta and cur["pos"] != delta:
                    fail(L, "position grows by exactly the frame delta while waiting/playing", o, str(prev["pos"] + delta))
            elif cur["state"] == 3:
                hist["ended-frames"] += 1
                if prev["state"] == 3 and not dirty and cfg["sel"] == "none":
                    if cur["pos"] != prev["pos"]: fail(L, "position stops growing once ended", o, str(prev["pos"]))
                    if cur["comp"] != prev["comp"]: fail(L, "component rests once ended", o, str(prev["comp"]))
            tim = tl_timing(blk_tls.get(cur_slot)) if cfg["sel"] == "none" else None
            if tim and prev["enabled"] and not (stale and prev["state"] == 3):
                # the state the frame decides on is a function of the position it started with (p), the delay and the
                # total duration D = delay + cycle x (repeats + 1) of the timeline in place; exact rationals, with 4 ulps
                # of slack at the two thresholds (binary32 sums round: DESIGN §10, F-C18b)
                delay_q, total_q, ulp = tim
                p_q = secs_f32_of_ns(prev["pos"])
                hist["state-rule-checked"] = hist.get("state-rule-checked", 0) + 1
                if cur["state"] == 1 and not p_q < delay_q + 4 * ulp:
                    fail(L, "Waiting only while the position is before the delay", o, f"position {float(p_q)} delay {float(delay_q)}")
                if cur["state"] == 3 and prev["state"] != 3:
                    if total_q is None:
                        fail(L, "never Ended for an infinitely repeating timeline", o, impl[L - 1])
                    elif p_q < total_q - 4 * ulp:
                        fail(L, "Ended never before the position reaches the total duration", o, f"position {float(p_q)} total {float(total_q)}")
                if total_q is not None and prev["state"] != 3 and cur["state"] != 3 and p_q > total_q + 4 * ulp:
                    fail(L, "Ended no later than one frame after the position reaches the total duration", o, f"position {float(p_q)} total {float(total_q)}")
                if prev["state"] in (0, 1) and cur["state"] == 1 and p_q > delay_q + 4 * ulp:
                    pass   # (covered by the Waiting rule above)
            if not dirty and cfg["sel"] == "none" and prev["enabled"]:
                if cur["state"] < prev["state"]:
                    fail(L, "state only moves forward None->Waiting->Playing->Ended", o, impl[L - 1])
                if not cfg["has_q"]:
                    want = [cur["state"]] if cur["state"] != prev["state"] else []
                    if cur["ev"] != want:
                        fail(L, "one event per state change carrying the end-of-frame state", o, str(want))
        else:  # C19
            # a key assignment that really changes the key (relative to the last frame) restarts / stops the animator;
            # re-assigning the key of the last frame restarts nothing. Only judged when no Ended event is pending
            # (the chain cannot move the key in this frame) and nothing else touched the animator.
            if cfg["sel"] != "none" and nframes >= 1 and frame_key is not None and prev["enabled"] and not other_ext and not moved_in_frame \
                    and 3 not in prev["ev"] and prev["key"] is not None and cur["key"] == prev["key"]:
                slots = cfg["sel"].split(",")
                k = prev["key"]
                if k != frame_key:
                    if k < len(slots) and slots[k] != "-":
                        hist["restart-checked"] += 1
                        if cur["state"] == 0 or (cur["state"] in (1, 2) and cur["pos"] != delta):
                            fail(L, "changing the key plays that key's timeline from its beginning", o, f"state in 1..3 and position {delta}")
                    else:
                        hist["stop-checked"] += 1
                        if cur["state"] != 0 or cur["comp"] != prev["comp"]:
                            fail(L, "a key without a timeline stops animation and leaves the component alone", o, "state 0, component " + " ".join(prev["comp"]))
                elif dirty and prev["state"] in (1, 2) and cur["state"] in (1, 2):
                    hist["reassign-checked"] += 1
                    if cur["pos"] != prev["pos"] + delta:
                        fail(L, "re-assigning the current key does not restart anything", o, str(prev["pos"] + delta))
            # the same while the animator is disabled: the selector still installs the new key's timeline and rewinds the
            # animator (nothing advances while disabled), so that it plays from its beginning once enabled again
            if cfg["sel"] != "none" and nframes >= 1 and frame_key is not None and not prev["enabled"] and not other_ext and not moved_in_frame \
                    and 3 not in prev["ev"] and prev["key"] is not None and cur["key"] == prev["key"] and prev["key"] != frame_key:
                slots = cfg["sel"].split(",")
                k = prev["key"]
                if k < len(slots) and slots[k] != "-":
                    hist["restart-disabled-checked"] = hist.get("restart-disabled-checked", 0) + 1
                    if cur["pos"] != 0:
                        fail(L, "changing the key of a disabled animator rewinds it (the new key's timeline will play from its beginning)", o, "position 0")
            if key_set and prev["key"] != frame_key and prev["enabled"] and not moved_in_frame and cur["key"] == prev["key"] and 3 not in prev["ev"]:
                # (the key now differs from the key at the end of the last frame: assignments that cancel out, k -> j -> k
                # between two frames, are not a key change as far as the systems can see)
                # (when the chain moved the key during the last frame, what select_animation has already seen is
                # order-dependent, so "the key changed" is not well defined for this frame)
                hist["setkey-switches"] += 1
                if cur["comp"] != prev["comp"]:
                    fail(L, "changing the key does not make the component jump", o, str(prev["comp"]))
            # a selector inserted over the old one has not been applied yet: its key's timeline plays from the beginning (or,
            # without a timeline for the key, animation stops) in the next frame, whatever the old selector had applied
            if reinserted and prev["enabled"] and 3 not in prev["ev"] and 3 not in cur["ev"] and prev["key"] is not None and cur["key"] == prev["key"]:
                slots = cfg["sel"].split(",")
                k = prev["key"]
                hist["reinsert-checked"] = hist.get("reinsert-checked", 0) + 1
                if k < len(slots) and slots[k] != "-":
                    if cur["state"] == 0 or (cur["state"] in (1, 2) and cur["pos"] != delta):
                        fail(L, "a newly inserted selector plays its key's timeline from the beginning", o, f"state in 1..3 and position {delta}")
                elif cur["state"] != 0:
                    fail(L, "a newly inserted selector whose key has no timeline stops animation", o, "state 0")
            # positive direction: the governed animator ended in the last frame (its own transition to Ended, announced by
            # an Ended event) while key k was active, nothing but key assignments happened since, the key is still k at the
            # start of this frame and the chain maps k -> k' (last entry for k wins, HashMap insert): this frame moves the
            # selector to k'.  (chain_animations reads the events of frame M in frame M+1.)
            if cfg["chain"] != "none" and prev.get("own_end") and prev["enabled"] and not other_ext and prev["key"] is not None \
                    and prev["key"] == frame_key and prev["ev"].count(3) == 1 and 3 not in cur["ev"]:
                # (exactly one Ended event pending for the entity and none sent in this frame: a second one — the other
                # animator's, finding F-C19, which the chain may even read in the frame it is sent — would advance the chain again)
                cmap = {}
                for pair in cfg["chain"].split(","):
                    a, b2 = pair.split(">"); cmap[int(a)] = int(b2)
                k = prev["key"]
                if k in cmap and cmap[k] != k:
                    hist["chain-advance-checked"] = hist.get("chain-advance-checked", 0) + 1
                    if dirty: hist["chain-advance-after-reassign"] = hist.get("chain-advance-after-reassign", 0) + 1
                    # the chain may map k' onwards only on a further Ended event, so after one frame the key is exactly k'
                    if cur["key"] != cmap[k]:
                        fail(L, "when the governed animator ends while key k is active and the chain maps k to k', the selector moves to k'", o, f"key={cmap[k]}")
            if cur["key"] != prev["key"] and cur["key"] is not None:
                # the key moved during a frame: only chain_animations can do that, and only on an Ended event
                hist["key-changes-by-chain"] += 1
                own_end = 3 in prev["ev"] and prev["state"] == 3 and (not cfg["has_q"] or prev["q"]["state"] != 3 or True)
                p_ended_recently = prev.get("frame_state", prev["state"]) == 3 or prev["state"] == 3 or cur["state"] == 3
                q_ended = cfg["has_q"] and (3 in prev["ev"] or 3 in cur["ev"])
                if not (3 in prev["ev"] or 3 in cur["ev"]):
                    fail(L, "chain fires only on an Ended event", o, impl[L - 1])
                elif not p_ended_recently and q_ended:
                    f = dict(line=L, directive="relational chain fires only when its own animator ended", op=ops[L], got=o, want=impl[L - 1], ops=P.block_of(ops, L), other_animator=True)
                    fails.append(f)
        last_frame = dict(before=prev, after=cur)
        reinserted, pending_ext = False, []
        moved_in_frame = cur["key"] != prev["key"]
        own_end = prev["state"] != 3 and cur["state"] == 3 and 3 in cur["ev"]
        prev, dirty, key_set = dict(cur, frame_state=cur["state"], own_end=own_end), False, False
        frame_key, other_ext, nframes = cur["key"], False, nframes + 1
    return dict(checked=checked, fails=fails, evaluations=checked, hist=hist)


def frame_delta(raw_ns, paused, speed):
    """bevy_time 0.11: delta = 0 when paused, raw_delta.mul_f64(speed) when the relative speed is not 1, else raw_delta"""
    from fractions import Fraction
    if paused: return 0
    if speed == 1.0: return raw_ns
    secs = float(raw_ns // 10 ** 9) + float(raw_ns % 10 ** 9) / 1e9          # Duration::as_secs_f64
    q = Fraction(speed * secs) * 10 ** 9                                       # Duration::from_secs_f64: nearest-even ns
    fl = q.numerator // q.denominator
    r = q - fl
    return fl + 1 if (r > Fraction(1, 2) or (r == Fraction(1, 2) and fl % 2 == 1)) else fl


def secs_f32_of_ns(ns):
    """Duration::as_secs_f32 = secs as f32 + nanos as f32 / 1e9, in binary32 (exact rational result)"""
    from fractions import Fraction
    secs, nanos = divmod(int(ns), 10 ** 9)
    q = f32_round(f32_round(Fraction(nanos)) / f32_round(Fraction(10 ** 9)))
    return f32_round(f32_round(Fraction(secs)) + q)


def tl_timing(tlw):
    """(delay, total duration or None for infinite, ulp of the total) of a `tl` line, as exact rationals"""
    from fractions import Fraction
    if tlw is None: return None
    try:
        dur = Fraction(f32(tlw[3])) if tlw[3] != "-" else Fraction(1)
        delay = Fraction(f32(tlw[4])) if tlw[4] != "-" else Fraction(0)
    except (ValueError, OverflowError):
        return None
    rep = tlw[5]
    if rep == "i": return delay, None, max(abs(delay), Fraction(1, 10 ** 30)) * Fraction(1, 2 ** 23)
    n = 0 if rep in ("-", "n") else int(rep)
    total = delay + dur * (n + 1)
    return delay, total, max(abs(total), Fraction(1, 10 ** 30)) * Fraction(1, 2 ** 23)


def near_duration(tlw, pos_ns):
    """is the position (ns) within 4 ulps of the binary32 total duration delay + duration*(n+1) of `tl` line tlw?"""
    from fractions import Fraction
    dur = f32(tlw[3]) if tlw[3] != "-" else 1.0
    delay = f32(tlw[4]) if tlw[4] != "-" else 0.0
    rep = tlw[5]
    if rep in ("i",): return False
    n = 0 if rep in ("-", "n") else int(rep)
    if not (dur == dur and delay == delay): return False
    total = float(f32_round(Fraction(dur) * (n + 1)))
    D = float(f32_round(Fraction(total) + Fraction(delay)))
    pos = float(f32_round(Fraction(pos_ns, 10 ** 9)))
    ulp = max(abs(D), 1e-30) * 2.0 ** -23
    return abs(pos - D) <= 4 * ulp


def rec_c18b_inexact_timing(f):
    """F-C18b: Ended reported while the component is not at the terminal values, in a scenario whose timings do
    not add exactly in binary32 (input class)."""
    return bool(f.get("inexact_timing"))


def rec_c19_other_animator(f):
    """F-C19: the chain fired on the Ended event of another animator (different component type) on the
    same entity — AnimationStateChanged carries only the entity."""
    return bool(f.get("other_animator"))


BEVY_FLOORS = {"quick": {"op:frame": 3000, "op:bapp": 150, "frames": 2000}}
PLANS["C18"] = dict(suites=[Suite("bevy", 300, 15000, crate="bevy")], floors={"quick": dict(BEVY_FLOORS["quick"], **{"ended-frames": 200})}, extra=extra_bevy,
                    recognisers={"c18b_inexact_timing": rec_c18b_inexact_timing},
                    assumptions=["bevy's scheduler, change detection and event buffering are abstracted (one entity; events of frame N readable in frame N+1; the order of systems bevy leaves unordered is a parameter and the implementation must follow one order consistently) and exercised by the real App with a hand-driven Time",
                                 "the timeline in place when Ended was reached (set_timeline while Ended does not restart, as documented)"])
PLANS["C19"] = dict(suites=[Suite("bevy", 300, 15000, crate="bevy")], floors={"quick": dict(BEVY_FLOORS["quick"], **{"key-changes-by-chain": 8, "two-animator-apps": 30})}, extra=extra_bevy,
                    recognisers={"c19_other_animator": rec_c19_other_animator},
                    assumptions=["as C18; both relative orders of chain_animations/select_animation and of animate<Q>/chain_animations are modelled"])


# ---------------------------------------------------------------------------------------------------
# macros (C15, C16, C17): the documented reading, re-implemented independently here, against the
# implementation's normalised expansion record

import re as _re


def lex_lit(text):
    """(neg, mantissa, exp10, suffix, kind) of a Rust numeric literal's text, or None"""
    mb = _re.fullmatch(r"b'(?:\\x([0-9a-fA-F]{2})|([^\\']))'([A-Za-z_][A-Za-z0-9_]*)?", text)
    if mb:   # a byte literal counts as a number (its value), but not as an *integer* literal (no repeat counts)
        return dict(mant=int(mb.group(1), 16) if mb.group(1) else ord(mb.group(2)), exp10=0, suffix=mb.group(3) or "", kind="byte", neg=False)
    mr = _re.fullmatch(r"0(x)([0-9a-fA-F_]+?)([g-zG-Z_][A-Za-z0-9_]*)?|0(o|b)([0-9_]+)([A-Za-z_][A-Za-z0-9_]*)?", text)
    if mr and text[:2] in ("0x", "0o", "0b"):
        # radix-prefixed integer literals: the value counts (syn keeps it in base 10)
        if mr.group(1): digits, suf, base = mr.group(2), mr.group(3), 16
        else: digits, suf, base = mr.group(5), mr.group(6), {"o": 8, "b": 2}[mr.group(4)]
        digits = digits.replace("_", "")
        if digits: return dict(mant=int(digits, base), exp10=0, suffix=suf or "", kind="int", neg=False)
    m = _re.fullmatch(r"(\d[\d_]*)(?:\.(\d[\d_]*)?)?(?:[eE]([+-]?\d[\d_]*))?([A-Za-z_][A-Za-z0-9_]*)?", text)
    if not m: return None
    ip = m.group(1).replace("_", "")
    has_dot = "." in text[: len(text) - len(m.group(4) or "")]
    fp = (m.group(2) or "").replace("_", "")
    ex = int((m.group(3) or "0").replace("_", ""))
    kind = "float" if (has_dot or m.group(3) is not None) else "int"
    return dict(mant=int(ip + fp), exp10=ex - len(fp), suffix=m.group(4) or "", kind=kind, neg=False)


def lit_f32(l):
    q = Fraction(l["mant"]) * (Fraction(10) ** l["exp10"])
    v = f32_round(q)
    return -v if l["neg"] else v


def f32_mul(a, b):
    import math
    r = f32_round(Fraction(a) * Fraction(b))
    if r == 0.0:   # the sign of a zero product is the xor of the signs
        return -0.0 if (math.copysign(1.0, a) * math.copysign(1.0, b)) < 0 else 0.0
    return r


def py_tokens(ws):
    toks, i = [], 0
    while i < len(ws):
        t = ws[i]
        if t == "O:-" and i + 1 < len(ws) and ws[i + 1].startswith("L:"):
            l = lex_lit(ws[i + 1][2:])
            if l is not None and l["kind"] != "byte":
                l["neg"] = True
                toks.append(("lit", l)); i += 2; continue
        if t.startswith("L:"):
            toks.append(("lit", lex_lit(t[2:])))
        elif t.startswith("P:"): toks.append(("path", t[2:]))
        elif t.startswith("B:"):
            fs = [f if "=" in f else f"{f}={f}" for f in t[2:].split(";") if f]     # `{ x }` is `{ x: x }`
            # named fields only: `{ 0: 1.0 }` (a tuple-index member) is rejected by the macro
            toks.append(("braces", fs) if all(f and not f[0].isdigit() for f in fs) else ("other", t))
        elif t.startswith("O:"): toks.append(("other", t))
        else: toks.append((t, None))
        i += 1
    return toks


class Reject(Exception):
    pass


def py_kfvals(toks, i):
    if i < len(toks) and toks[i][0] == "default": return "D", i + 1
    if i < len(toks) and toks[i][0] == "braces": return "&".join(toks[i][1]), i + 1
    raise Reject()


def py_config(toks, i):
    """documented reading of one configuration starting at token i; returns (record string, next index)"""
    c = dict(dur=None, delay=None, ease=None, rep=None, rev=False, kfs=[])
    def secs(l):
        if l is None or l["kind"] not in ("int", "float", "byte"): raise Reject()
        return l
    while i < len(toks) and toks[i][0] != ",":
        k, v = toks[i]
        if k in ("for", "after"):
            if i + 1 >= len(toks) or toks[i + 1][0] != "lit" or toks[i + 1][1] is None: raise Reject()
            c["dur" if k == "for" else "delay"] = toks[i + 1][1]; i += 2
        elif k == "reverse": c["rev"] = True; i += 1
        elif k == "infinite": c["rep"] = "i"; i += 1
        elif k in ("from", "to"):
            vals, i = py_kfvals(toks, i + 1)
            c["kfs"].append((0.0 if k == "from" else 1.0, vals))
        elif k == "lit":
            if v is None:
                # a non-numeric literal has an empty suffix: accepted only as `<lit> %`, which then fails as non-numeric
                raise Reject()
            if v["suffix"] in ("s", "ms"): c["dur"] = v; i += 1
            elif v["suffix"] == "x":
                if v["kind"] != "int": raise Reject()
                c["rep"] = v; i += 1
            elif v["suffix"] == "":
                if i + 1 < len(toks) and toks[i + 1][0] == "%":
                    vals, i = py_kfvals(toks, i + 2)
                    c["kfs"].append((f32_mul(lit_f32(v), f32_round(Fraction(1, 100))), vals))
                else: raise Reject()
            else: raise Reject()
        elif k == "path": c["ease"] = v; i += 1
        elif k == "default": c["ease"] = "default"; i += 1
        else: raise Reject()
    def seconds(l):
        if l is None: return "-"
        unit = {"s": f32_round(1), "ms": f32_round(Fraction(1, 1000))}.get(l["suffix"])
        if unit is None: raise Reject()
        return str(bits_of(f32_mul(lit_f32(l), unit)))
    dur, delay = seconds(c["dur"]), seconds(c["delay"])
    if c["rep"] is None: rep = "-"
    elif c["rep"] == "i": rep = "i"
    else:
        l = c["rep"]
        if l["exp10"] != 0 or l["neg"] or l["mant"] > 4294967295: raise Reject()
        rep = str(l["mant"])
    kfs = ",".join(f"{bits_of(p)}:{v}" for p, v in c["kfs"])
    return f"tl[dur={dur};delay={delay};ease={c['ease'] or '-'};rep={rep};rev={1 if c['rev'] else 0};kf={kfs}]", i


def py_sentence(ws):
    try:
        if ws and ws[0] == "[" and ws[-1] == "]":
            toks = py_tokens(ws[1:-1])
            recs, i = [], 0
            while True:
                r, i = py_config(toks, i)
                recs.append(r)
                if i >= len(toks): break
                i += 1  # the comma
            return recs[0] if len(recs) == 1 else "merged[" + "|".join(recs) + "]"
        toks = py_tokens(ws)
        r, i = py_config(toks, 0)
        if i < len(toks): raise Reject()
        return r
    except Reject:
        return "reject"


def py_animator(ws):
    d = ws[0]
    if d == "D:none": state, defaults = "-", "none"
    else:
        body = d[2:]
        if ":E:" in body: state, e = body.split(":E:", 1); defaults = "expr:" + e
        elif ":I:" in body: state, fs = body.split(":I:", 1); defaults = "inline:" + "&".join((f if "=" in f else f"{f}={f}") for f in fs.split(";") if f)
        else: state, defaults = body, "none"
    ons, i = [], 1
    while i < len(ws):
        j = i + 1
        while j < len(ws) and ws[j] != "ARM": j += 1
        states, body = ws[i + 1].split("|"), ws[i + 3: j]
        rec = py_sentence(body)
        if rec == "reject": return "reject"
        ons += [f"{s}:{rec}" for s in states]
        i = j
    return f"anim[state={state};defaults={defaults};on={','.join(ons)}]"


def py_derive(w):
    vis = {"pub": "pub", "crate": "pub(crate)"}.get(w[0], "")
    if w[1] != "named": return "reject"
    name, remote = w[2], None
    if w[3] != "none":
        for a in w[3].split(","):
            n, v = a.split("=", 1)
            k, text = v.split(":", 1)
            if n != "remote" or k != "S": return "reject"
            remote = text
    fields = []
    for f in w[4:]:
        n, rest = f.split(":", 1)
        ty, a = rest.rsplit(":", 1)
        fields.append((n, ty.replace("~", "::"), a in ("a", "A")))   # A / N: the field also carries other attributes
    anim = [f for f in fields if f[2]] or fields
    rn = remote.split("::")[-1] if remote else name
    names = ",".join(f[0] for f in anim)
    return (f"derive[target={name};remote={rn};vfromty={remote or name};tl={rn}Timeline;data={rn}KeyframeData;builder={rn}KeyframeBuilder;"
            f"vis={vis};anim={','.join(f'{n}:{t}' for n, t, _ in anim)};setters={names};kfrom={names};vfrom={names};upd={names};start={names};fake={0 if rn == name else 1};"
            f"init={','.join(f'{n}<{n}' for n, _, _ in anim)}]")


def extra_macro(prop, tier, seed, profiles):
    suite = {"C15": "mtl", "C16": "manim", "C17": "mderive"}[prop]
    n = 3000 if tier == "quick" else 150000
    path = os.path.join(P.WORK, prop, f"oracle.{tier}.ops")
    os.makedirs(os.path.dirname(path), exist_ok=True)
    mbin = P.harness_bin("debug", P.MACRO, "macro_harness")
    P.gen_ops(suite, seed + 1500, n, path, gen_bin=mbin)
    out = path[:-4] + ".impl"
    P.run_stream(mbin, ["run"], path, out)
    ops, impl = P.read_lines(path), P.read_lines(out)
    fails, checked = [], 0
    hist = {"accepted": 0, "rejected": 0, "merged": 0}
    for L, (op, o) in enumerate(zip(ops, impl)):
        w = [x for x in op.split(" ") if x]
        if not w or w[0] != suite: continue
        want = {"mtl": py_sentence, "manim": py_animator, "mderive": py_derive}[suite](w[1:])
        checked += 1
        if o == "reject": hist["rejected"] += 1
        else: hist["accepted"] += 1
        if "merged[" in o: hist["merged"] += 1
        if o != want:
            fails.append(dict(line=L, directive=f"spec documented reading of the {suite} input", op=op, got=o, want=want, ops=[op]))
    res = dict(checked=checked, fails=fails, evaluations=checked, hist=hist, notes=[], problems=[])
    if prop in ("C15", "C16"):
        # compiled program family: rustc + the real proc macro vs builder calls rendered from the Lean model's reading
        import compiled
        cf = compiled.compiled_family(prop, tier, seed)
        res["checked"] += cf["checked"]; res["evaluations"] += cf["evaluations"]
        res["fails"] += cf["fails"]; res["hist"].update(cf["hist"])
        res["notes"] += cf["notes"]; res["problems"] += cf["problems"]
    return res


# floors sit at about half of what seed 1 reaches: they are there to notice a generator that stops reaching a branch, not to
# constrain the random stream of other seeds
MACRO_FLOORS = {"quick": {"accepted": 700, "rejected": 120}}
PLANS["C15"] = dict(suites=[Suite("mtl", 4000, 200000, crate="macro")], floors={"quick": dict(MACRO_FLOORS["quick"], **{"merged": 100, "compiled-cases": 25})}, extra=extra_macro,
                    assumptions=["the model starts at token level; syn's tokenisation and literal parsing are exercised by the correspondence (real source text, real parser), not modelled; hex/octal/binary literal forms are outside the generated grammar",
                                 "quote! emission and rustc's compilation of the emitted code are exercised by the compiled program family (lib/compiled.py: generated sentences really compiled through the macro and compared with builder calls rendered from the model's reading), not modelled"])
PLANS["C16"] = dict(suites=[Suite("manim", 3000, 150000, crate="macro")], floors={"quick": dict(MACRO_FLOORS["quick"], **{"compiled-cases": 18})}, extra=extra_macro,
                    assumptions=["the outer block structure (default clause, arms) is taken as parsed; arm bodies go through the timeline! token model"])
def extra_c08_derive(prop, tier, seed, profiles):
    """C08 on the derive: the generated `update` / `start_with` touch exactly the animated fields — an excluded field, or a
    field of another name, is never assigned.  Judged on the implementation's expansion record alone."""
    n = 2000 if tier == "quick" else 60000
    path = os.path.join(P.WORK, prop, f"derive.{tier}.ops")
    os.makedirs(os.path.dirname(path), exist_ok=True)
    mbin = P.harness_bin("debug", P.MACRO, "macro_harness")
    P.gen_ops("mderive", seed + 808, n, path, gen_bin=mbin)
    out = path[:-4] + ".impl"
    P.run_stream(mbin, ["run"], path, out)
    ops, impl = P.read_lines(path), P.read_lines(out)
    fails, checked = [], 0
    hist = {"derive-accepted": 0, "derive-with-excluded-fields": 0}
    def part(rec, key):
        m = _re.search(r"(?:\[|;)" + key + r"=([^;\]]*)", rec)
        return m.group(1) if m else None
    for L, (op, o) in enumerate(zip(ops, impl)):
        w = [x for x in op.split(" ") if x]
        if not w or w[0] != "mderive": continue
        want = py_derive(w[1:])
        if want == "reject" or not o.startswith("derive["): continue
        checked += 1
        hist["derive-accepted"] += 1
        if any(f.rsplit(":", 1)[1] in ("n", "N") for f in w[5:]) and any(f.rsplit(":", 1)[1] in ("a", "A") for f in w[5:]):
            hist["derive-with-excluded-fields"] += 1
        for key in ("upd", "start", "init"):
            if part(o, key) != part(want, key):
                fails.append(dict(line=L, directive=f"spec the generated {key} list touches exactly the animated fields", op=op, got=f"{key}={part(o, key)}", want=f"{key}={part(want, key)}", ops=[op]))
                break
    return dict(checked=checked, fails=fails, evaluations=checked, hist=hist)


PLANS["C08"]["extra"] = extra_c08_derive
PLANS["C08"]["crates"] = ["macro"]
PLANS["C17"] = dict(suites=[Suite("mderive", 3000, 150000, crate="macro"), Suite("tl", 200, 10000)], floors=MACRO_FLOORS, extra=extra_macro,
                    assumptions=["behaviour of the derived API is exercised on the three derive shapes compiled into the core harness (all fields, #[animate] subset, remote proxy) and, in the thorough tier, on generated program families"])
