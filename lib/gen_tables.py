#!/usr/bin/env python3
"""Translator for the parts of focustense/mina that are *data*.

Parses /repo's current sources and rewrites lean/MinaModel/Gen/*.lean, so every theorem that mentions
these tables is re-elaborated and re-checked against what the code says now.
If a pattern cannot be found the script does not guess: it exits 3 and names the table.
"""
import os, re, sys, json

REPO = os.environ.get("MINA_REPO", "/repo")
OUT = os.path.join(os.path.dirname(os.path.abspath(__file__)), "..", "lean", "MinaModel", "Gen")


class TieBroken(Exception):
    def __init__(self, table, why):
        super().__init__(f"{table}: {why}")
        self.table = table
        self.why = why


def read(rel):
    with open(os.path.join(REPO, rel)) as f:
        return f.read()


def strip_comments(src):
    src = re.sub(r"/\*.*?\*/", "", src, flags=re.S)
    return "\n".join(l.split("//")[0] for l in src.splitlines())


LEAN_RESERVED = {"in", "from", "to", "at", "do", "if", "then", "else", "fun", "end", "open", "where", "with"}


def lean_name(variant):
    n = variant[0].lower() + variant[1:]
    return n + "_" if n in LEAN_RESERVED else n


def parse_dec(tok, table):
    """Rust float literal -> (neg, digits, exp10) exactly as written."""
    m = re.fullmatch(r"\s*(-?)\s*(\d+)\.(\d*)(?:f32)?\s*", tok)
    if not m:
        m2 = re.fullmatch(r"\s*(-?)\s*(\d+)(?:f32)?\s*", tok)
        if not m2:
            raise TieBroken(table, f"unsupported literal {tok!r}")
        return (m2.group(1) == "-", int(m2.group(2)), 0)
    neg, ip, fp = m.group(1) == "-", m.group(2), m.group(3)
    return (neg, int(ip + fp), len(fp))


def gen_easing():
    T = "EasingTable"
    src = strip_comments(read("core/src/easing.rs"))
    m = re.search(r"pub enum Easing\s*\{(.*?)\n\}", src, flags=re.S)
    if not m:
        raise TieBroken(T, "enum Easing not found")
    body = re.sub(r"#\[[^\]]*\]", "", m.group(1))
    variants = [v.strip() for v in body.split(",") if v.strip()]
    default_variant = None
    dm = re.search(r"#\[default\]\s*(\w+)", m.group(1))
    if dm:
        default_variant = dm.group(1)
    builtins = [v for v in variants if "(" not in v]
    customs = [v for v in variants if "(" in v]
    if customs != ["Custom(Box<dyn EasingFunction>)"]:
        raise TieBroken(T, f"unexpected non-unit variants {customs}")
    # match arms
    am = re.search(r"impl EasingFunction for Easing\s*\{\s*fn calc\(&self, x: f32\) -> f32\s*\{\s*match self\s*\{(.*?)\n\s*\}\s*\}\s*\}", src, flags=re.S)
    if not am:
        raise TieBroken(T, "impl EasingFunction for Easing / match self not found")
    arms = {}
    for a in re.finditer(r"Self::(\w+)(\(\w+\))?\s*=>\s*([^,]+),", am.group(1)):
        arms[a.group(1)] = a.group(3).strip()
    if arms.get("Custom") != "custom.calc(x)":
        raise TieBroken(T, f"Custom arm is {arms.get('Custom')!r}")
    # statics
    statics = {}
    lm = re.search(r"lazy_static!\s*\{(.*?)\n\}", src, flags=re.S)
    if not lm:
        raise TieBroken(T, "lazy_static! block not found")
    for s in re.finditer(r"static ref (\w+)\s*:\s*(\w+)\s*=\s*([^;]+);", lm.group(1)):
        statics[s.group(1)] = (s.group(2), s.group(3).strip())
    # the helper and the evaluation
    if not re.search(r"fn cubic_bezier\(x1: f32, y1: f32, x2: f32, y2: f32\) -> CubicBezierEasing\s*\{\s*CubicBezierEasing::new\(x1, y1, x2, y2\)\s*\}", src):
        raise TieBroken(T, "fn cubic_bezier changed")
    if not re.search(r"from: Point::new\(0\.0, 0\.0\),\s*to: Point::new\(1\.0, 1\.0\),\s*ctrl1: Point::new\(x1, y1\),\s*ctrl2: Point::new\(x2, y2\),", src):
        raise TieBroken(T, "CubicBezierEasing::new changed")
    if not re.search(r"impl EasingFunction for CubicBezierEasing\s*\{\s*fn calc\(&self, x: f32\) -> f32\s*\{\s*self\.segment\.y\(x\)\s*\}", src):
        raise TieBroken(T, "CubicBezierEasing::calc changed")
    if not re.search(r"impl EasingFunction for LinearEasing\s*\{\s*fn calc\(&self, x: f32\) -> f32\s*\{\s*x\s*\}", src):
        raise TieBroken(T, "LinearEasing::calc changed")
    rows = []
    maxexp = 0
    for v in builtins:
        arm = arms.get(v)
        if arm is None:
            raise TieBroken(T, f"no match arm for {v}")
        am2 = re.fullmatch(r"(\w+)\.calc\(x\)", arm)
        if not am2 or am2.group(1) not in statics:
            raise TieBroken(T, f"arm for {v} is {arm!r}")
        ty, init = statics[am2.group(1)]
        if ty == "LinearEasing" and init == "LinearEasing":
            rows.append((v, None))
            continue
        cm = re.fullmatch(r"cubic_bezier\(([^,]+),([^,]+),([^,]+),([^,]+)\)", init)
        if ty != "CubicBezierEasing" or not cm:
            raise TieBroken(T, f"static for {v} is {ty} = {init}")
        pts = [parse_dec(cm.group(i), T) for i in range(1, 5)]
        maxexp = max(maxexp, *(p[2] for p in pts))
        rows.append((v, pts))
    scale = max(maxexp, 2)

    def norm(p):
        neg, digits, e = p
        val = digits * 10 ** (scale - e)
        return -val if neg else val

    out = []
    out.append("/-! GENERATED by lib/gen_tables.py from core/src/easing.rs — do not edit. -/")
    out.append("namespace Gen\n")
    out.append("/-- the built-in variants of `enum Easing`, in declaration order -/")
    out.append("inductive EasingId where")
    for v in builtins:
        out.append(f"  | {lean_name(v)}")
    out.append("deriving Repr, DecidableEq, Inhabited\n")
    out.append(f"/-- all control-point coordinates below are integers in units of 10^-{scale} -/")
    out.append(f"def easingScaleExp : Nat := {scale}\n")
    out.append("def EasingId.all : List EasingId := [" + ", ".join("." + lean_name(v) for v in builtins) + "]\n")
    out.append("/-- `none` = `LinearEasing`; `some (x1, y1, x2, y2)` = `cubic_bezier(x1, y1, x2, y2)` -/")
    out.append("def EasingId.curve : EasingId → Option (Int × Int × Int × Int)")
    for v, pts in rows:
        if pts is None:
            out.append(f"  | .{lean_name(v)} => none")
        else:
            a, b, c, d = (norm(p) for p in pts)
            out.append(f"  | .{lean_name(v)} => some ({a}, {b}, {c}, {d})")
    out.append("")
    out.append("def EasingId.name : EasingId → String")
    for v in builtins:
        out.append(f"  | .{lean_name(v)} => \"{v}\"")
    out.append("")
    out.append("def EasingId.ofName? (s : String) : Option EasingId := EasingId.all.find? (·.name == s)\n")
    if default_variant is None or default_variant not in builtins:
        raise TieBroken(T, "#[default] variant not found")
    out.append(f"/-- `#[default]` of `enum Easing` -/\ndef defaultEasing : EasingId := .{lean_name(default_variant)}\n")
    out.append("end Gen")
    return "\n".join(out) + "\n"


INT_BOUNDS = {
    "i8": (-2**7, 2**7 - 1), "i16": (-2**15, 2**15 - 1), "i32": (-2**31, 2**31 - 1), "i64": (-2**63, 2**63 - 1),
    "u8": (0, 2**8 - 1), "u16": (0, 2**16 - 1), "u32": (0, 2**32 - 1), "u64": (0, 2**64 - 1),
    "usize": (0, 2**64 - 1), "isize": (-2**63, 2**63 - 1), "i128": (-2**127, 2**127 - 1), "u128": (0, 2**128 - 1),
}


def gen_lerp_types():
    T = "LerpTypes"
    src = strip_comments(read("core/src/interpolation.rs"))
    m = re.search(r"impl_lerp_for_integer_types!\s*\{([^}]*)\}", src)
    if not m:
        raise TieBroken(T, "impl_lerp_for_integer_types! invocation not found")
    kinds = [k.strip() for k in m.group(1).split(",") if k.strip()]
    for k in kinds:
        if k not in INT_BOUNDS:
            raise TieBroken(T, f"unknown integer type {k}")
    body = re.search(r"macro_rules! impl_lerp_for_integer_types\s*\{(.*?)\n\}", src, flags=re.S)
    want = [r"let result_f32 = \(\*self as f32\)\.lerp\(&\(\*y1 as f32\), x\);",
            r"Self::from_f32\(result_f32\.round\(\)\)\s*\.expect\("]
    for w in want:
        if not body or not re.search(w, body.group(1)):
            raise TieBroken(T, "integer lerp body changed")
    if not re.search(r"impl Lerp for f32\s*\{\s*fn lerp\(&self, y1: &Self, x: f32\) -> Self\s*\{\s*self \* \(1\.0 - x\) \+ y1 \* x\s*\}", src):
        raise TieBroken(T, "f32 lerp body changed")
    if not re.search(r"\(\*self as f32 \* \(1\.0 - x\) \+ \*y1 as f32 \* x\) as f64", src):
        raise TieBroken(T, "f64 lerp body changed")
    g = strip_comments(read("core/src/glam.rs"))
    vecs = []
    for n in (2, 3, 4):
        mm = re.search(r"impl_lerp%d!\s*\{([^}]*)\}" % n, g)
        if not mm:
            raise TieBroken(T, f"impl_lerp{n}! invocation not found")
        for t in mm.group(1).split(","):
            t = t.strip()
            if t:
                vecs.append((t, n))
    scalar = {"Vec": "f32", "DVec": "f64", "IVec": "i32", "UVec": "u32", "I64Vec": "i64", "U64Vec": "u64"}
    out = ["/-! GENERATED by lib/gen_tables.py from core/src/interpolation.rs and core/src/glam.rs — do not edit. -/",
           "namespace Gen\n",
           "/-- the integer types given to `impl_lerp_for_integer_types!` -/",
           "inductive IntKind where"]
    for k in kinds:
        out.append(f"  | {k}")
    out.append("deriving Repr, DecidableEq, Inhabited\n")
    out.append("def IntKind.all : List IntKind := [" + ", ".join("." + k for k in kinds) + "]\n")
    out.append("def IntKind.lo : IntKind → Int")
    for k in kinds:
        out.append(f"  | .{k} => {INT_BOUNDS[k][0]}")
    out.append("\ndef IntKind.hi : IntKind → Int")
    for k in kinds:
        out.append(f"  | .{k} => {INT_BOUNDS[k][1]}")
    out.append("\ndef IntKind.name : IntKind → String")
    for k in kinds:
        out.append(f"  | .{k} => \"{k}\"")
    out.append("\ndef IntKind.ofName? (s : String) : Option IntKind := IntKind.all.find? (·.name == s)\n")
    out.append("/-- glam vector types with a component-wise `Lerp` impl: (name, arity, scalar type) -/")
    out.append("def glamVectors : List (String × Nat × String) := [")
    rows = []
    for t, n in vecs:
        base = re.sub(r"\d+A?$", "", t)
        if base not in scalar:
            raise TieBroken(T, f"unknown glam type {t}")
        rows.append(f"  (\"{t}\", {n}, \"{scalar[base]}\")")
    out.append(",\n".join(rows) + "]\n")
    out.append("end Gen")
    return "\n".join(out) + "\n"


def gen_defaults():
    T = "Defaults"
    src = strip_comments(read("core/src/timeline.rs"))
    m = re.search(r"impl<Data: Clone \+ Debug> Default for TimelineConfiguration<Data>\s*\{\s*fn default\(\) -> Self\s*\{\s*Self\s*\{(.*?)\}\s*\}\s*\}", src, flags=re.S)
    if not m:
        raise TieBroken(T, "Default for TimelineConfiguration not found")
    fields = dict((a.strip(), b.strip()) for a, b in (x.split(":", 1) for x in m.group(1).split(",") if ":" in x))
    want = {"default_easing": "Easing::default()", "keyframes": "Vec::new()"}
    for k, v in want.items():
        if fields.get(k) != v:
            raise TieBroken(T, f"TimelineConfiguration default {k} = {fields.get(k)!r}")
    delay = parse_dec(fields.get("delay_seconds", "?"), T)
    dur = parse_dec(fields.get("duration_seconds", "?"), T)
    rep = fields.get("repeat")
    rev = fields.get("reverse")
    if rep not in ("Repeat::None", "Repeat::Infinite") or rev not in ("true", "false"):
        raise TieBroken(T, f"repeat/reverse defaults {rep!r} {rev!r}")
    # create_timescale argument order and TimeScale::new parameter order
    ts = strip_comments(read("core/src/time_scale.rs"))
    if not re.search(r"TimeScale::new\(\s*self\.duration_seconds,\s*self\.delay_seconds,\s*self\.repeat,\s*self\.reverse,?\s*\)", src):
        raise TieBroken(T, "create_timescale argument order changed")
    if not re.search(r"pub fn new\(duration: f32, delay: f32, repeat: Repeat, reverse: bool\) -> Self\s*\{\s*Self\s*\{\s*duration,\s*delay,\s*repeat,\s*reverse,?\s*\}", ts):
        raise TieBroken(T, "TimeScale::new changed")
    # `impl Default for TimeScale`
    tm = re.search(r"impl Default for TimeScale\s*\{\s*fn default\(\) -> Self\s*\{\s*Self\s*\{(.*?)\}\s*\}\s*\}", ts, flags=re.S)
    if not tm:
        raise TieBroken(T, "Default for TimeScale not found")
    tsf = dict((a.strip(), b.strip()) for a, b in (x.split(":", 1) for x in tm.group(1).split(",") if ":" in x))
    ts_delay = parse_dec(tsf.get("delay", "?"), T)
    ts_dur = parse_dec(tsf.get("duration", "?"), T)
    ts_rep, ts_rev = tsf.get("repeat"), tsf.get("reverse")
    if ts_rep not in ("Repeat::None", "Repeat::Infinite") or ts_rev not in ("true", "false"):
        raise TieBroken(T, f"TimeScale default repeat/reverse {ts_rep!r} {ts_rev!r}")
    om = re.search(r"fn as_ordinal\(&self\) -> (\w+)\s*\{\s*match self\s*\{(.*?)\}\s*\}", src, flags=re.S)
    if not om:
        raise TieBroken(T, "Repeat::as_ordinal not found")
    arms = dict((a.strip(), b.strip()) for a, b in (x.split("=>") for x in om.group(2).split(",") if "=>" in x))
    if arms.get("Repeat::None") != "0" or arms.get("Repeat::Times(value)") not in ("*value", "*value as u64"):
        raise TieBroken(T, f"as_ordinal arms {arms}")
    inf = arms.get("Repeat::Infinite")
    infv = {"u32::MAX": 2**32 - 1, "u64::MAX": 2**64 - 1}.get(inf)
    if infv is None:
        raise TieBroken(T, f"as_ordinal Infinite arm {inf!r}")

    def dec(p):
        neg, d, e = p
        return f"({'true' if neg else 'false'}, {d}, {e})"
    out = ["/-! GENERATED by lib/gen_tables.py from core/src/timeline.rs and core/src/time_scale.rs — do not edit. -/",
           "namespace Gen\n",
           "/-- `Default for TimelineConfiguration`: (negative?, digits, decimal exponent) -/",
           f"def defaultDelay : Bool × Nat × Nat := {dec(delay)}",
           f"def defaultDuration : Bool × Nat × Nat := {dec(dur)}",
           f"def defaultRepeatInfinite : Bool := {'true' if rep == 'Repeat::Infinite' else 'false'}",
           f"def defaultReverse : Bool := {rev}",
           f"/-- `Repeat::Infinite.as_ordinal()` -/\ndef infiniteOrdinal : Nat := {infv}",
           "/-- `Default for TimeScale` (the doc-hidden helper's own default) -/",
           f"def tsDefaultDelay : Bool × Nat × Nat := {dec(ts_delay)}",
           f"def tsDefaultDuration : Bool × Nat × Nat := {dec(ts_dur)}",
           f"def tsDefaultRepeatInfinite : Bool := {'true' if ts_rep == 'Repeat::Infinite' else 'false'}",
           f"def tsDefaultReverse : Bool := {ts_rev}",
           "\nend Gen"]
    return "\n".join(out) + "\n"


def gen_macro_consts():
    T = "MacroConsts"
    src = strip_comments(read("macros/src/fn_timeline.rs"))
    m = re.search(r"fn seconds_multiplier\(num_lit: &NumericLit\) -> Result<f32>\s*\{\s*match num_lit\.suffix\(\)\s*\{(.*?)\n\s*\}\s*\}", src, flags=re.S)
    if not m:
        raise TieBroken(T, "fn seconds_multiplier not found")
    mult = []
    for a in re.finditer(r'"(\w*)"\s*=>\s*Ok\(([^)]+)\)', m.group(1)):
        mult.append((a.group(1), parse_dec(a.group(2), T)))
    if not mult or not re.search(r"_\s*=>\s*Err\(", m.group(1)):
        raise TieBroken(T, "seconds_multiplier arms changed")
    km = re.search(r"let normalized_time = match &config\.position\s*\{(.*?)\};", src, flags=re.S)
    if not km:
        raise TieBroken(T, "keyframe position match not found")
    body = km.group(1)
    fm = re.search(r"KeyframePositionArgument::From\(_\)\s*=>\s*([\d.]+)", body)
    tm = re.search(r"KeyframePositionArgument::To\(_\)\s*=>\s*([\d.]+)", body)
    pm = re.search(r"KeyframePositionArgument::Percent\(lit, _\)\s*=>\s*lit\.as_f32\(\)\?\s*\*\s*([\d.]+)", body)
    if not (fm and tm and pm):
        raise TieBroken(T, "From/To/Percent arms changed")
    sm = re.search(r'match lit\.suffix\(\)\s*\{\s*((?:"\w+"\s*\|?\s*)+)=>\s*config\.duration = Some\(input\.parse\(\)\?\),\s*"(\w+)"\s*=>\s*config\.repeat = Some\(input\.parse\(\)\?\),\s*""\s*if lookahead_input\.peek\(Token!\[%\]\)\s*=>\s*config\.keyframes\.push\(input\.parse\(\)\?\),', src)
    if not sm:
        raise TieBroken(T, "suffix dispatch in TimelineConfig::parse changed")
    dur_suffixes = re.findall(r'"(\w+)"', sm.group(1))
    rep_suffix = sm.group(2)
    # the peek order of the argument loop
    order = re.findall(r"input\.peek\((Token!\[for\]|kw::after|kw::reverse|kw::infinite|kw::from|Lit)\)", src[src.index("impl Parse for TimelineConfig"):])
    if order[:6] != ["Token![for]", "kw::after", "kw::reverse", "kw::infinite", "kw::from", "Lit"]:
        raise TieBroken(T, f"argument loop order changed: {order[:6]}")
    for need in [r"times: u32 = lit_int\.base10_parse\(\)\?", r"\.repeat\(::mina::Repeat::Times\(#times\)\)", r"\.repeat\(::mina::Repeat::Infinite\)",
                 r"config\.reverse\.map\(\|_\| quote! \{ \.reverse\(true\) \}\)", r"if config\.timelines\.len\(\) == 1",
                 r"duration\.value\.as_f32\(\)\? \* seconds_multiplier\(&duration\.value\)\?", r"delay\.value\.as_f32\(\)\? \* seconds_multiplier\(&delay\.value\)\?"]:
        if not re.search(need, src):
            raise TieBroken(T, f"expansion pattern missing: {need}")
    def d(p):
        neg, digits, e = p
        if neg: raise TieBroken(T, "negative constant")
        return f"({digits}, {e})"
    out = ["/-! GENERATED by lib/gen_tables.py from macros/src/fn_timeline.rs — do not edit. -/", "namespace Gen\n",
           "/-- `seconds_multiplier`: suffix ↦ factor as (digits, decimal exponent) -/",
           "def secondsMultipliers : List (String × (Nat × Nat)) := [" + ", ".join(f'("{s}", {d(p)})' for s, p in mult) + "]",
           "/-- literal suffixes the argument loop reads as a duration / as a repeat count -/",
           "def durationSuffixes : List String := [" + ", ".join(f'"{s}"' for s in dur_suffixes) + "]",
           f'def repeatSuffix : String := "{rep_suffix}"',
           f"def fromPosition : Nat × Nat := {d(parse_dec(fm.group(1), T))}",
           f"def toPosition : Nat × Nat := {d(parse_dec(tm.group(1), T))}",
           f"def percentFactor : Nat × Nat := {d(parse_dec(pm.group(1), T))}",
           "\nend Gen"]
    return "\n".join(out) + "\n"


TABLES = {"EasingTable": gen_easing, "LerpTypes": gen_lerp_types, "Defaults": gen_defaults, "MacroConsts": gen_macro_consts}


def main():
    os.makedirs(OUT, exist_ok=True)
    broken = []
    for name, fn in TABLES.items():
        path = os.path.join(OUT, name + ".lean")
        try:
            text = fn()
        except TieBroken as e:
            broken.append({"table": e.table, "why": e.why})
            continue
        except Exception as e:  # parser crash = broken tie, not a guess
            broken.append({"table": name, "why": f"parser error: {e!r}"})
            continue
        old = open(path).read() if os.path.exists(path) else None
        if old != text:
            with open(path, "w") as f:
                f.write(text)
    print(json.dumps({"broken": broken}))
    sys.exit(3 if broken else 0)


if __name__ == "__main__":
    main()
