#!/usr/bin/env python3
"""Writes MANIFEST.json from the claims table below (kept in one place so it stays valid)."""
import json, os
V = os.path.dirname(os.path.dirname(os.path.abspath(__file__)))

CLAIMS = {
 "C20": dict(
   text="The model returns Except Panic at every point where the Rust code can panic. Theorems: float-valued properties never panic in value_at/update for any position, hint or override (generic in the number system); integer properties do not panic inside a segment for every non-overshooting built-in easing with in-range end values (C13 range + C14 checked conversion); advance(dt) converts without panic for every non-negative dt below the u64-seconds clock limit; every repeat count incl. u32::MAX has a position in [0,1] at every time; kernel-evaluated binary32 table at the boundary repeat counts (0, 1, 2^24±1, 2^31, 2^32−2, 2^32−1). Correspondence: every suite runs against debug (overflow checks on) and release builds, outputs must be identical to each other and to the profile-independent model; dedicated extreme-value suite (subnormal/huge durations and delays, times to f32::MAX, ±1–2 ulp at every phase boundary) with no-panic / finite-output oracles on the implementation.",
   note="Partial where the truth lives in the toolchain: FMA contraction, x87, optimiser-dependent float behaviour cannot be exhibited by the model — only the two-profile run on this machine covers them. F-C20a fixed (f18722c); F-C20b (overshooting easing × integer property at bounds) recorded as documented behaviour.",
   technique="Lean 4 theorems (Except-typed model: where panics cannot occur) + decide +kernel Float32 table + two-profile bit-exact correspondence on extreme inputs", design="§7 C20"),
 "C04": dict(
   text="Theorems, generic in the number system, by induction over arbitrary advance/set_state histories: the animator invariant (values are a fixpoint of the current timeline at the time in state; a remembered pause for another state exists only while the current state is un-animated and the values are a fixpoint of the paused timeline at the remembered position) holds initially and is preserved by every operation; under it and the blend law of each timeline (preserved by start_with) set_state leaves current_values exactly unchanged in both the resume and the blend branch; setting the current state is the identity on the whole record. Holds for the repaired pause bookkeeping (fix ba53243; pre-fix witness in corpus/). Correspondence: histories over 2–5 states from a pool of timeline shapes (finite, delayed, repeating, reversing, infinite, merged, none), model-vs-code after every op including the hook snapshot; exact before/after set_state equality on the implementation.",
   note="The blend law (start_with(v) then evaluation at 0 gives v) is a hypothesis of the theorem; it is the property's own scope (built-in easings, distinct positions per property, representable values) and follows at ℚ from C10.start_value_until_delay per property. Trusted: Lean kernel, sampled tie.",
   technique="Lean 4 theorems (invariant by induction over operation histories) + bit-exact correspondence + exact no-jump oracle", design="§7 C04"),
 "C05": dict(
   text="Theorems: after any history the values are the current state's timeline evaluated at the time spent in the state (invariant, by induction over histories), the timeline entered is started from the values held at entry with the clock at zero, current_state is the last state set, advance adds exactly the elapsed nanoseconds; one-step rules for pause (remembered with position), resume (restores the position), passing through further un-animated states (pause kept), entering another animated state (pause discarded — repaired behaviour), and a pause for another state exists only while the current state is un-animated. Correspondence: model-vs-code after every op with the internal time and pause record (verif-hooks snapshot); independent abstract machine of the documented rules run against the implementation's observable state.",
   note="Stated as invariant + one-step rules rather than a separate refinement map. Trusted: Lean kernel, sampled tie, hook is read-only.",
   technique="Lean 4 theorems (invariant + step rules) + differential validation incl. hook snapshot + abstract-machine oracle", design="§7 C05"),
 "C06": dict(
   text="Theorems: advance(0) is the identity on the whole record in every reachable animator; two advances move the nanosecond clock exactly like one advance by the sum; advance(a);advance(b) = advance(a+b) as whole records when the written slot set is time-independent (values are recomputed from absolute time; write-list argument); inserting a zero-length advance anywhere in a history changes nothing; whole-nanosecond step sizes convert and add exactly (ℚ). Correspondence: anim6 suite drives twin animators with a partition of each interval (1–6 exact binary steps) and with the whole interval, interleaved with state changes; outputs must be identical (implementation alone) and equal to the model.",
   note="For step sizes not exactly representable the property allows float rounding; those are compared model-vs-code bit-exactly only. Trusted: Lean kernel, sampled tie.",
   technique="Lean 4 theorems (clock arithmetic in Nat nanoseconds, write-list overwrite argument) + twin-schedule oracle", design="§7 C06"),
 "C07": dict(
   text="Theorems at ℚ: is_ended iff no timeline or time in state ≥ total duration; never while any merged component repeats infinitely; the duration compared is the maximum over components (C12); once true it stays true under further advances; once every component is past its end a further advance leaves current_values unchanged (terminal values; uses C02.after_end_constant and the animator invariant). Correspondence: advances landing exactly on, and next to, the end instant; monotonicity and rest oracles on the implementation (rest on dyadic configurations).",
   note="Rounding: in binary32 `t ≥ delay+dur` and `t−delay > dur` can differ by one ulp for non-dyadic configurations (observed, bounded; not a finding) — the rest-oracle therefore runs on configurations whose arithmetic is exact. Trusted: Lean kernel, sampled tie.",
   technique="Lean 4 theorems (order arithmetic over ℚ, merged fold) + bit-exact correspondence + monotonicity/rest oracles", design="§7 C07"),
 "C01": dict(
   text="Theorems at ℚ for keyframe lists of any length (repeated positions, any presence mask, per-keyframe easings): from_keyframes builds exactly the declarative CSS reading (defining keyframes with carried easings, synthetic 0% default frame iff needed, trailing 100% frame iff needed; by induction over the fold); the rustc binary search meets the contract the lookup needs (loop invariant with fuel); the lookup theorem: for every admissible master index, value_at interpolates between the two adjacent frames bracketing the position; hence at a position strictly between consecutive frames the value is lerp of their values at the eased fraction with the start frame's easing, with/without a substituted start value; default-start and hold-end corollaries; omitted keyframes irrelevant; update writes exactly the sub-timeline value. Correspondence: derive-built timelines (3 shapes) bit-exact on boundary-directed times; spec oracle: implementation vs the CSS reading evaluated in exact arithmetic.",
   note="Keyframes sorted with positions in [0,1] (the builder sorts: C11). Exact arithmetic in theorems; binary32 validated bit-exactly. Trusted: Lean kernel, transcription of rustc's binary_search_by, sampled tie.",
   technique="Lean 4 theorems (fold induction, search loop invariant, bracket lookup theorem) + bit-exact correspondence + exact-arithmetic CSS oracle", design="§7 C01"),
 "C02": dict(
   text="Theorems at ℚ: when the position coincides with a frame of the property and no other frame sits there, the value is exactly that frame's value for every admissible search result (uses ease(0)=0, ease(1)=1 from C13 and exact lerp endpoints for floats and in-range integers from C14); position is 0% with override enabled at any time up to the delay; at delay+k·cycle the end position is shown before any wrap (hold rule); exactly at the total duration the position already equals the terminal one; after it the evaluation is constant, terminal 100% (0% when reversing), override off. Correspondence: exact-position oracles on dyadic configurations (expect directives on the implementation) and terminal-hold ladders, integer and float fields.",
   note="Float 'few ulps' clause: exact in ℚ, validated bit-exactly in binary32 on configurations where the f32 position is exact. Trusted: Lean kernel, sampled tie.",
   technique="Lean 4 theorems (corollaries of the lookup theorem + C03/C13/C14) + exact-equality oracles on the implementation", design="§7 C02"),
 "C10": dict(
   text="Theorems: (generic in the number system) whenever prepare_frame disables the override — reverse pass, later cycles, after the end, characterised exactly — a timeline and its start_with twin produce identical updates; beyond the first segment the value does not depend on the substituted value even when enabled; under NoDupAtZero and endpoint-fixing easings the value up to the delay is exactly v. The unrestricted start-value clause is refuted by a kernel-checked witness (two 0% keyframes; known finding F-C10). Correspondence: twin ops on every generated timeline, expect-oracles for the start value, F-C10 instances recognised only for duplicated 0% keyframes.",
   note="F-C10 recorded, not repaired. Trusted: Lean kernel, sampled tie.",
   technique="Lean 4 theorems (override plumbing, lookup theorem) + twin relational oracle + kernel-checked refutation", design="§7 C10"),
 "C08": dict(
   text="Theorems, generic in the number system, over the model of the derive-generated update: update only ever sets indices of animated fields (any time, any phase), a timeline with no keyframes modifies nothing, an animated field without any keyframe value is never written (its sub-timeline is empty), merged timelines likewise, and by induction over arbitrary advance/set_state histories a state animator never touches a field no timeline animates. Correspondence: sentinel values in every non-animated slot and in non-#[animate] fields of three derived shapes (all-fields, #[animate] subset, remote proxy), across all phases and extreme times; expect-oracles on the implementation output.",
   note="Trusted: Lean kernel; hand-written model tied by bit-exact differential runs (sampled). The struct-shape rule of derive(Animate) itself is C17.",
   technique="Lean 4 theorems (structural induction over subs / histories, no arithmetic) + sentinel correspondence", design="§7 C08"),
 "C09": dict(
   text="In the model update is a pure function of (timeline, target, time); proved laws: idempotence, independence of the prior contents of written slots (via a target-independent write-list normal form), latest start_with fully replaces earlier ones, start_with keeps delay/cycle/duration/repeat. That the implementation has no hidden per-call state is decided by the correspondence: interleaved update/start_with/clone sessions at non-monotone times from arbitrary prior targets must equal the model's function bit for bit, plus relational eq-oracles on the implementation alone.",
   note="History-independence of the implementation is validated differentially, not proved (stated as such). Trusted: Lean kernel, sampled tie.",
   technique="Lean 4 theorems (write-list normal form) + differential validation of history independence", design="§7 C09"),
 "C11": dict(
   text="Theorem: for keyframes at pairwise distinct positions, any permutation of the insertion order yields the identical built timeline (stable insertion sort is sorted + a permutation, and a strictly sorted permutation is unique), hence identical results at all times and identical metadata; boundary times are sorted. Holds for the repaired code (fix 0c5d3a1); the pre-fix witness is kept in corpus/ and runs first. Correspondence: every generated timeline is also built from a shuffled insertion order and compared (model vs code bit-exact; permuted vs original on the implementation).",
   note="Trusted: Lean kernel; sampled tie; positions non-negative and not NaN so total_cmp agrees with <.",
   technique="Lean 4 theorem (Perm + Pairwise uniqueness) + bit-exact correspondence with permuted twins", design="§7 C11"),
 "C12": dict(
   text="Theorems: merged update = ordered fold of component updates; write-list concatenation normal form; later components win on shared slots; start_with reaches every component; singleton transparent; empty merge is a no-op; delay = minimum, total duration = maximum (infinite iff any), repeat = maximum with Infinite above every count (no restriction thanks to fix 442e70b), cycle duration reported iff all agree. Correspondence: 0–4 real derive-built components with overlapping or disjoint masks and heterogeneous timing; sequential-application, reorder (disjoint) and aggregate-metadata oracles on the implementation.",
   note="Order-independence for disjoint property sets is checked by oracle on the implementation and model-vs-code; the Lean theorem for arbitrary permutations is not yet proved (later_wins and the fold characterisation are). Trusted: Lean kernel, sampled tie.",
   technique="Lean 4 theorems (fold/min/max characterisations over ℚ, write lists) + bit-exact correspondence + relational oracles", design="§7 C12"),
 "C13": dict(
   text="Theorems over the Lean model of easing.rs (control points regenerated from the source on every run): every built-in easing maps 0→0 and 1→1 exactly (ℚ, for any control points; and bit-exactly in binary32 by decide +kernel over all 29), every non-Back curve stays in [0,1] and is monotone on [0,1] (Bernstein factorisation, table ordering by decide), Linear is the identity, each In/Out pair is the point mirror and each InOut its own mirror (table + functional identity), custom easings used as given, generated table = published CSS/easings.net control points. The timing-function clause is refuted by a kernel-checked witness for all 28 curves (known finding F-C13). Correspondence: all 29+4 custom easings bit-exact on random and dense sweeps; spec oracles against the published parametric value and the exact timing function.",
   note="Trusted: Lean kernel; hand transcription of published control points and of lyon's y(t); differential tie sampled. F-C13 is recorded, not repaired (pinned tests fix the parametric numbers).",
   technique="Lean 4 theorems (ring/positivity/decide over generated table) + decide +kernel Float32 + bit-exact correspondence and exact-arithmetic timing-function oracle", design="§7 C13"),
 "C03": dict(
   text="Theorems over the Lean model of time_scale.rs at ℚ for every (delay, cycle>0, repeat none/n/infinite, reverse) and every time: NotStarted iff t<delay, position in [0,1], linear rise / triangular fold in the first cycle, mirror symmetry, periodicity away from exact multiples, hold-at-end rule on multiples, terminal iff time since delay > cycle×(repeats+1) and never for infinite, terminal value, reported total duration and its agreement with behaviour, builder metadata as configured. Correspondence: get_position/get_duration bit-exact on boundary-directed times (±1 ulp at every phase boundary, huge times, u32 boundary repeat counts) and through the derive-generated timeline; sweeps of consecutive f32 bit patterns around phase boundaries compared by digest; relational oracles on implementation outputs.",
   note="Trusted: Lean kernel; ℚ arithmetic in theorems (binary32 validated by the bit-exact run and sweeps); model hand-written, tie sampled.",
   technique="Lean 4 theorems (case analysis + floor arithmetic over ℚ model) + bit-exact correspondence incl. f32 bit-pattern sweeps", design="§7 C03"),
 "C14": dict(
   text="Theorems over the Lean model of interpolation.rs/glam.rs at ℚ: lerp(a,b,0)=a, lerp(a,b,1)=b, lerp(a,a,x)=a, between-ness and monotonicity for every x in [0,1], integer lerp = real interpolation rounded to nearest (ties away) with no panic across each kind's full range (kinds and bounds regenerated from the source), vectors component-wise. The same model term run at Float32 is compared bit-for-bit with the crate on generated inputs (all kinds, f64, 19 glam types, out-of-range x for the panic path); thorough adds the exhaustive 8-bit pair sweep and kernel-evaluated (decide +kernel) binary32 endpoint tables for all u8/i8 pairs.",
   note="Trusted: Lean kernel; hand-written model tied by differential execution (sampled); ℚ arithmetic in the theorems — binary32 rounding is validated, not proved, except for the kernel-evaluated tables. Known finding F-C14: lerp(a,a,x) deviates from a by f32 rounding (≤2 ulp). Quat/DQuat not modelled.",
   technique="Lean 4 theorems (induction/nlinarith over ℚ model) + bit-exact model-vs-code correspondence + decide +kernel Float32 tables", design="§7 C14"),
}

def main():
    checks = []
    for pid in sorted(CLAIMS):
        c = CLAIMS[pid]
        checks.append(dict(
            property_id=pid,
            quick_cmd=f"./check {pid} --tier quick",
            thorough_cmd=f"./check {pid} --tier thorough",
            evidence_file=f"/verif/evidence/{pid}.json",
            replay_cmd_template=f"./check {pid} --replay {{path}}",
            engine="lean-proof+correspondence",
            level_claimed=dict(category="proof", text=c["text"], design_ref=c["design"]),
            level_note=c["note"],
            technique=c["technique"],
        ))
    all_ids = [f"C{i:02d}" for i in range(1, 21)]
    na = [dict(property_id=p, reason="not yet claimed: model/theorems for this property are still being built in this session (no technique switch; see DESIGN.md §13 build order)") for p in all_ids if p not in CLAIMS]
    m = dict(
        version=1,
        setup_cmd="./setup.sh",
        hooks=dict(guard="verif-hooks", enable="cargo feature `verif-hooks` on mina / mina_core (harness crates depend on /repo by path with features=[\"verif-hooks\"]); macro sources are #[path]-included with the feature set by the harness",
                   baseline_off_cmd="cd /repo && cargo test --workspace --no-fail-fast --offline",
                   source_commits=["bfdb611"], add_only=True),
        engines=[dict(name="lean-proof+correspondence", path="/verif/check", serves_properties=sorted(CLAIMS),
                      kind_free_text="Lean 4 theorems over a generic executable model (ℚ for proofs, Float32 for execution), tables regenerated from /repo, bit-exact differential correspondence against the real crates through a line protocol")],
        checks=checks,
        notes="Fix commits in /repo: f18722c (C20), 0c5d3a1 (C11), ba53243 (C04/C05), 442e70b (C12), 3ddfc7e (C18). Known findings: known_findings.json.",
        not_applicable=na,
    )
    json.dump(m, open(os.path.join(V, "MANIFEST.json"), "w"), indent=1, ensure_ascii=False)

if __name__ == "__main__":
    main()
