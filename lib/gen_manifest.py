#!/usr/bin/env python3
"""Writes MANIFEST.json from the claims table below (kept in one place so it stays valid)."""
import json, os
V = os.path.dirname(os.path.dirname(os.path.abspath(__file__)))

CLAIMS = {
 "C15": dict(
   text="Theorems over the token-level model of the timeline! argument loop and expansion (constants regenerated from fn_timeline.rs): for every argument list of any length and order, duplicates included, the configuration denoted by the emitted builder chain equals the documented reading (expand_sound, against a hand-written spec with the documented constants); last duplicate wins; adjacent arguments of different kinds commute (any order); bracketed lists of ≥2 yield MergedTimeline::of in order, of 1 the plain timeline; each ill-formed shape (unknown suffix, missing %, non-integer repeat, keyframe without braces, missing unit) is rejected and an error in any argument rejects the sentence; kernel-evaluated binary32 tables: N%·0.01 and N ms·0.001 within 1 ulp of the correctly rounded quotient for all N ≤ 100 / ≤ 1000. Correspondence: grammar-directed sentences plus a malformed stream rendered to source text, parsed by the real syn parser and expanded by the real expand functions in-process (verif-hooks entry), the emitted builder chain interpreted into a normalised record and compared with the model; independent Python re-implementation of the documented reading as oracle on the implementation. Compiled program family: generated type-correct sentences are compiled by rustc through the real macro and compared, value by value over metadata, whole-life evaluation and start_with (animators: a fixed schedule of state changes and advances), with explicit builder calls rendered from the Lean model's reading.",
   note="syn tokenisation/literal parsing, quote! emission and rustc compilation of the emitted code are exercised (in-process expansion; compiled program families in the thorough tier), not modelled. Trusted: Lean kernel, sampled tie.",
   technique="Lean 4 theorems (fold/parse lemmas over token lists, refinement to the documented reading) + decide +kernel Float32 tables + in-process differential expansion", design="§7 C15"),
 "C16": dict(
   text="Theorems over the model of expand_animator: default(state, values) sets initial state and values exactly as documented (omitted ⇒ Default, expression as is, inline list ⇒ those fields over Default); every arm contributes one .on call per listed state, all with the same expansion, in source order; later arms for the same state win; unmentioned states have no timeline; the word default as keyframe body is passed through as values_from(pos, &default_values); an ill-formed arm rejects the block. Behaviour over every history follows from equality of configurations and C05. Correspondence: generated animator blocks (with/without default clause, inline/expression defaults, multi-state arms, merged arms, default keyframes, malformed arms) expanded by the real code in-process and compared as normalised records; independent Python reading as oracle. Compiled program family: generated type-correct sentences are compiled by rustc through the real macro and compared, value by value over metadata, whole-life evaluation and start_with (animators: a fixed schedule of state changes and advances), with explicit builder calls rendered from the Lean model's reading.",
   note="The outer block structure is taken as parsed by syn (exercised, not modelled). Trusted: Lean kernel, sampled tie.",
   technique="Lean 4 theorems (structural induction over arms) + in-process differential expansion via the verif-hooks entry", design="§7 C16"),
 "C17": dict(
   text="Theorems over the model of expand_animate for every struct shape: the animated fields are the #[animate]-marked ones or all when none is marked (always a sub-list in declaration order); one setter per animated field; keyframe_from and values_from copy exactly the animated fields; update can assign and start_with override exactly those; excluded fields get no setter and are never assigned; item names and the remote target rule; non-struct / unnamed / unknown-attribute inputs are rejected; the generated update touches only animated fields (C08) and evaluates per C01 (it is Timeline.build over exactly these fields). Correspondence: generated DeriveInputs (1–6 fields, six types, all attribute modes, visibilities, remote paths, malformed attributes, non-struct items) expanded in-process and compared as API descriptions; the three derive shapes compiled into the core harness (all fields, marked subset, remote proxy) validate behaviour bit-exactly.",
   note="rustc's compilation of the generated items is exercised on the harness shapes (and program families in the thorough tier), not modelled. Trusted: Lean kernel, sampled tie.",
   technique="Lean 4 theorems (list lemmas over struct shapes) + in-process differential expansion + compiled derive shapes", design="§7 C17"),
 "C18": dict(
   text="Theorems (generic in the number system) about the model of the animate<T> system, per frame and by induction over arbitrary lists of frame deltas: a disabled animator is a no-op; position grows by exactly the delta while not Ended and stops once Ended; position = sum of all deltas while never ended; state only moves forward; Waiting only while the decided position is before the delay; Ended at the end of a frame iff already Ended or the position had reached the total duration (not early, within one frame); never Ended for infinite timelines; on the frame that first reports Ended the target was evaluated at a position past the end, also when Playing was skipped (repair 3ddfc7e); Playing evaluates at the frame's start position; one event per state-changing frame carrying the end-of-frame state; exactly one Ended event per run; Ended is final. Correspondence: the real bevy App (plugin, ECS, events) with a hand-driven Time; delta alphabet {0, 1 ms, 16 ms, …, 60 s}; interleaved enable/disable/reset/set_timeline; per-frame state, position, component and events compared with the model; relational oracles incl. terminal-values-at-Ended on the implementation.",
   note="Bevy's scheduler, change detection and event buffering are abstracted, not verified: the model takes the order of the systems the plugin leaves unordered as a parameter and the implementation must follow one order consistently per App. One-frame lag is part of the statements (granted by the property). Trusted: Lean kernel, sampled tie.",
   technique="Lean 4 theorems (case analysis of the frame step, induction over frame schedules) + correspondence with the real bevy App + relational oracles", design="§7 C18"),
 "C19": dict(
   text="Theorems: a key change installs the key's timeline cloned and started from the component's current values with position 0 and state None, remembering the applied key; the switching frame leaves the component unchanged; a key without a timeline stops animation and leaves the component alone; re-assigning the current key is a no-op; the chain moves the key on an Ended event when it has an entry, and is silent without an Ended event or without an entry, and only ever changes the key; for a single animated component type the key moves in a frame only if the governed animator announced Ended (both system orders). The 'other animator on the entity' clause is refuted by a kernel-evaluated scenario on the model (F-C19). Correspondence: real App with selectors, chains (with/without entries, cycles), one or two animated component types; chain/no-jump oracles on the implementation; F-C19 instances recognised only when the other animator's Ended explains the firing.",
   note="F-C19 recorded (needs a public API change). Scheduler abstraction as in C18. Trusted: Lean kernel, sampled tie.",
   technique="Lean 4 theorems (step lemmas for select/chain, frame composition) + kernel-checked refutation + correspondence with the real bevy App", design="§7 C19"),
 "C20": dict(
   text="The model returns Except Panic at every point where the Rust code can panic. Theorems: float-valued properties never panic in value_at/update for any position, hint or override (generic in the number system); integer properties do not panic inside a segment for every non-overshooting built-in easing with in-range end values (C13 range + C14 checked conversion); advance(dt) converts without panic for every non-negative dt below the u64-seconds clock limit; every repeat count incl. u32::MAX has a position in [0,1] at every time; kernel-evaluated binary32 table at the boundary repeat counts (0, 1, 2^24±1, 2^31, 2^32−2, 2^32−1). Correspondence: every suite runs against debug (overflow checks on) and release builds, outputs must be identical to each other and to the profile-independent model; dedicated extreme-value suite (subnormal/huge durations and delays, times to f32::MAX, ±1–2 ulp at every phase boundary) with no-panic / finite-output oracles on the implementation.",
   note="Partial where the truth lives in the toolchain: FMA contraction, x87, optimiser-dependent float behaviour cannot be exhibited by the model — only the two-profile run on this machine covers them. F-C20a fixed (f18722c); F-C20b (overshooting easing × integer property at bounds) recorded as documented behaviour.",
   technique="Lean 4 theorems (Except-typed model: where panics cannot occur) + decide +kernel Float32 table + two-profile bit-exact correspondence on extreme inputs", design="§7 C20"),
 "C04": dict(
   text="Theorems, generic in the number system, by induction over arbitrary advance/set_state histories: the animator invariant (values are a fixpoint of the current timeline at the time in state; a remembered pause for another state exists only while the current state is un-animated and the values are a fixpoint of the paused timeline at the remembered position) holds initially and is preserved by every operation; under it and the blend law of each timeline (preserved by start_with) set_state leaves current_values exactly unchanged in both the resume and the blend branch; setting the current state is the identity on the whole record. Holds for the repaired pause bookkeeping (fix ba53243; pre-fix witness in corpus/). Correspondence: histories over 2–5 states from a pool of timeline shapes (finite, delayed, repeating, reversing, infinite, merged, none), model-vs-code after every op including the hook snapshot; exact before/after set_state equality on the implementation.",
   note="The general theorem takes the blend law of each timeline (start_with(v) then evaluation at 0 gives v) as a hypothesis; for animators whose states carry builder-built timelines over float properties (delay ≥ 0, duration > 0, distinct positions in [0,1], built-in easings, any repeat/reverse) the hypothesis is discharged (Lemmas/FloatTimeline.build_tlOK) and C04.no_jump_float_animator is hypothesis-free. The same holds for every value kind the derive supports, integers included (Lemmas/KindTimeline.build_tlOK_kind, C04.no_jump_built_animator) and for merges of several built timelines (C04.no_jump_merged_animator); custom easings that do not fix 0 and duplicate keyframe positions (finding F-C10) stay outside. Trusted: Lean kernel, sampled tie.",
   technique="Lean 4 theorems (invariant by induction over operation histories) + bit-exact correspondence + exact no-jump oracle", design="§7 C04"),
 "C05": dict(
   text="Theorems: after any history the values are the current state's timeline evaluated at the time spent in the state (invariant, by induction over histories), the timeline entered is started from the values held at entry with the clock at zero, current_state is the last state set, advance adds exactly the elapsed nanoseconds; one-step rules for pause (remembered with position), resume (restores the position), passing through further un-animated states (pause kept), entering another animated state (pause discarded — repaired behaviour), and a pause for another state exists only while the current state is un-animated. Correspondence: model-vs-code after every op with the internal time and pause record (verif-hooks snapshot); independent abstract machine of the documented rules run against the implementation's observable state.",
   note="Stated as invariant + one-step rules rather than a separate refinement map. Trusted: Lean kernel, sampled tie, hook is read-only.",
   technique="Lean 4 theorems (invariant + step rules) + differential validation incl. hook snapshot + abstract-machine oracle", design="§7 C05"),
 "C06": dict(
   text="Theorems: advance(0) is the identity on the whole record in every reachable animator; two advances move the nanosecond clock exactly like one advance by the sum; advance(a);advance(b) = advance(a+b) as whole records when the written slot set is time-independent (values are recomputed from absolute time; write-list argument), and that side condition is proved for every builder-built timeline (any value kinds, easings, merges, start_with histories: the slots written are exactly the properties with keyframes, at every time) so that after any history two advances equal one (advance_add_built) and any whole-nanosecond partition equals the single step (partition_independent); inserting a zero-length advance anywhere in a history changes nothing; whole-nanosecond step sizes convert and add exactly (ℚ). Correspondence: anim6 suite drives twin animators with a partition of each interval (1–6 exact binary steps) and with the whole interval, interleaved with state changes; outputs must be identical (implementation alone) and equal to the model.",
   note="For step sizes not exactly representable the property allows float rounding; those are compared model-vs-code bit-exactly only. Trusted: Lean kernel, sampled tie.",
   technique="Lean 4 theorems (clock arithmetic in Nat nanoseconds, write-list overwrite argument) + twin-schedule oracle", design="§7 C06"),
 "C07": dict(
   text="Theorems at ℚ: is_ended iff no timeline or time in state ≥ total duration; never while any merged component repeats infinitely; the duration compared is the maximum over components (C12); once true it stays true under further advances; once every component is past its end a further advance leaves current_values unchanged (terminal values; uses C02.after_end_constant and the animator invariant). Correspondence: advances landing exactly on, and next to, the end instant; monotonicity and rest oracles on the implementation (rest on dyadic configurations).",
   note="Rounding: in binary32 `t ≥ delay+dur` and `t−delay > dur` can differ by one ulp for non-dyadic configurations (observed, bounded; not a finding) — the rest-oracle therefore runs on configurations whose arithmetic is exact. Trusted: Lean kernel, sampled tie.",
   technique="Lean 4 theorems (order arithmetic over ℚ, merged fold) + bit-exact correspondence + monotonicity/rest oracles", design="§7 C07"),
 "C01": dict(
   text="Theorems at ℚ for keyframe lists of any length (repeated positions, any presence mask, per-keyframe easings): from_keyframes builds exactly the declarative CSS reading (defining keyframes with carried easings, synthetic 0% default frame iff needed, trailing 100% frame iff needed; by induction over the fold); the rustc binary search meets the contract the lookup needs (loop invariant with fuel); the lookup theorem: for every admissible master index, value_at interpolates between the two adjacent frames bracketing the position; hence at a position strictly between consecutive frames the value is lerp of their values at the eased fraction with the start frame's easing, with/without a substituted start value; default-start and hold-end corollaries; omitted keyframes irrelevant; update writes exactly the sub-timeline value. Correspondence: derive-built timelines (3 shapes) bit-exact on boundary-directed times; spec oracle: implementation vs the CSS reading evaluated in exact arithmetic.",
   note="Keyframes sorted with positions in [0,1] (the builder sorts: C11). Exact arithmetic in theorems; binary32 validated bit-exactly. Trusted: Lean kernel, transcription of rustc's binary_search_by, sampled tie.",
   technique="Lean 4 theorems (fold induction, search loop invariant, bracket lookup theorem) + bit-exact correspondence + exact-arithmetic CSS oracle", design="§7 C01"),
 "C02": dict(
   text="Theorems at ℚ: when the position coincides with a frame of the property and no other frame sits there, the value is exactly that frame's value for every admissible search result (uses ease(0)=0, ease(1)=1 from C13 and exact lerp endpoints for floats and in-range integers from C14); position is 0% with override enabled at any time up to the delay; at delay+k·cycle the end position is shown before any wrap (hold rule); exactly at the total duration the position already equals the terminal one; after it the evaluation is constant, terminal 100% (0% when reversing), override off. Correspondence: exact-position oracles on dyadic configurations (expect directives on the implementation) and terminal-hold ladders, integer and float fields.",
   note="Float 'few ulps' clause: exact in ℚ, validated bit-exactly in binary32 on configurations where the f32 position is exact. Trusted: Lean kernel, sampled tie.",
   technique="Lean 4 theorems (corollaries of the lookup theorem + C03/C13/C14) + exact-equality oracles on the implementation", design="§7 C02"),
 "C10": dict(
   text="Theorems: (generic in the number system) whenever prepare_frame disables the override — reverse pass, later cycles, after the end, characterised exactly — a timeline and its start_with twin produce identical updates; beyond the first segment the value does not depend on the substituted value even when enabled; under NoDupAtZero and endpoint-fixing easings the value up to the delay is exactly v. The unrestricted start-value clause is refuted by a kernel-checked witness (two 0% keyframes; known finding F-C10). Correspondence: twin ops on every generated timeline, expect-oracles for the start value, F-C10 instances recognised only for duplicated 0% keyframes.",
   note="F-C10 recorded, not repaired. Trusted: Lean kernel, sampled tie.",
   technique="Lean 4 theorems (override plumbing, lookup theorem) + twin relational oracle + kernel-checked refutation", design="§7 C10"),
 "C08": dict(
   text="Theorems, generic in the number system, over the model of the derive-generated update: update only ever sets indices of animated fields (any time, any phase), a timeline with no keyframes modifies nothing, an animated field without any keyframe value is never written (its sub-timeline is empty), merged timelines likewise, and by induction over arbitrary advance/set_state histories a state animator never touches a field no timeline animates. Correspondence: sentinel values in every non-animated slot and in non-#[animate] fields of three derived shapes (all-fields, #[animate] subset, remote proxy), across all phases and extreme times; expect-oracles on the implementation output.",
   note="Trusted: Lean kernel; hand-written model tied by bit-exact differential runs (sampled). The struct-shape rule of derive(Animate) itself is C17.",
   technique="Lean 4 theorems (structural induction over subs / histories, no arithmetic) + sentinel correspondence", design="§7 C08"),
 "C09": dict(
   text="In the model update is a pure function of (timeline, target, time); proved laws: idempotence, independence of the prior contents of written slots (via a target-independent write-list normal form), latest start_with fully replaces earlier ones, start_with keeps delay/cycle/duration/repeat. That the implementation has no hidden per-call state is decided by the correspondence: interleaved update/start_with/clone sessions at non-monotone times from arbitrary prior targets must equal the model's function bit for bit, plus relational eq-oracles on the implementation alone.",
   note="History-independence of the implementation is validated differentially, not proved (stated as such). Trusted: Lean kernel, sampled tie.",
   technique="Lean 4 theorems (write-list normal form) + differential validation of history independence", design="§7 C09"),
 "C11": dict(
   text="Theorem: for keyframes at pairwise distinct positions, any permutation of the insertion order yields the identical built timeline (stable insertion sort is sorted + a permutation, and a strictly sorted permutation is unique), hence identical results at all times and identical metadata; boundary times are sorted. Holds for the repaired code (fix 0c5d3a1); the pre-fix witness is kept in corpus/ and runs first. Correspondence: every generated timeline is also built from a shuffled insertion order and compared (model vs code bit-exact; permuted vs original on the implementation).",
   note="Trusted: Lean kernel; sampled tie; positions non-negative and not NaN so total_cmp agrees with <.",
   technique="Lean 4 theorem (Perm + Pairwise uniqueness) + bit-exact correspondence with permuted twins", design="§7 C11"),
 "C12": dict(
   text="Theorems: merged update = ordered fold of component updates; write-list concatenation normal form; later components win on shared slots; with pairwise disjoint animated properties every permutation of the members gives the same result and fails exactly when the original fails (disjoint_any_order, induction over List.Perm); start_with reaches every component; singleton transparent; empty merge is a no-op; delay = minimum, total duration = maximum (infinite iff any), repeat = maximum with Infinite above every count (no restriction thanks to fix 442e70b), cycle duration reported iff all agree. Correspondence: 0–4 real derive-built components with overlapping or disjoint masks and heterogeneous timing; sequential-application, reorder (disjoint) and aggregate-metadata oracles on the implementation.",
   note="Order-independence for disjoint property sets is both a theorem (arbitrary permutations, generic number system) and an oracle on the implementation. Trusted: Lean kernel, sampled tie.",
   technique="Lean 4 theorems (fold/min/max characterisations over ℚ, write lists) + bit-exact correspondence + relational oracles", design="§7 C12"),
 "C13": dict(
   text="Theorems over the Lean model of easing.rs (control points regenerated from the source on every run): every built-in easing maps 0→0 and 1→1 exactly (ℚ, for any control points; and bit-exactly in binary32 by decide +kernel over all 29), every non-Back curve stays in [0,1] and is monotone on [0,1] (Bernstein factorisation, table ordering by decide), Linear is the identity, each In/Out pair is the point mirror and each InOut its own mirror (table + functional identity), custom easings used as given, generated table = published CSS/easings.net control points. The timing-function clause is refuted by a kernel-checked witness for all 28 curves (known finding F-C13). Correspondence: all 29+4 custom easings bit-exact on random and dense sweeps; spec oracles against the published parametric value and the exact timing function.",
   note="Trusted: Lean kernel; hand transcription of published control points and of lyon's y(t); differential tie sampled. F-C13 is recorded, not repaired (pinned tests fix the parametric numbers).",
   technique="Lean 4 theorems (ring/positivity/decide over generated table) + decide +kernel Float32 + bit-exact correspondence and exact-arithmetic timing-function oracle", design="§7 C13"),
 "C03": dict(
   text="Theorems over the Lean model of time_scale.rs at ℚ for every (delay, cycle>0, repeat none/n/infinite, reverse) and every time: NotStarted iff t<delay, position in [0,1], linear rise / triangular fold in the first cycle, mirror symmetry, periodicity away from exact multiples, hold-at-end rule on multiples, terminal iff time since delay > cycle×(repeats+1) and never for infinite, terminal value, reported total duration and its agreement with behaviour, builder metadata as configured. Correspondence: get_position/get_duration bit-exact on boundary-directed times (±1 ulp at every phase boundary, huge times, u32 boundary repeat counts) and through the derive-generated timeline; sweeps of consecutive f32 bit patterns around phase boundaries compared by digest; relational oracles on implementation outputs.",
   note="Trusted: Lean kernel; ℚ arithmetic in theorems (binary32 validated by the bit-exact run and sweeps); model hand-written, tie sampled.",
   technique="Lean 4 theorems (case analysis + floor arithmetic over ℚ model) + bit-exact correspondence incl. f32 bit-pattern sweeps", design="§7 C03"),
 "C14": dict(
   text="Theorems over the Lean model of interpolation.rs/glam.rs at ℚ: lerp(a,b,0)=a, lerp(a,b,1)=b, lerp(a,a,x)=a, between-ness and monotonicity for every x in [0,1], integer lerp = real interpolation rounded to nearest (ties away) with no panic across each kind's full range (kinds and bounds regenerated from the source), vectors component-wise. The same model term run at Float32 is compared bit-for-bit with the crate on generated inputs (all kinds, f64, 19 glam types, out-of-range x for the panic path); thorough adds the exhaustive 8-bit pair sweep and kernel-evaluated (decide +kernel) binary32 endpoint tables for all u8/i8 pairs.",
   note="Trusted: Lean kernel; hand-written model tied by differential execution (sampled); ℚ arithmetic in the theorems — binary32 rounding is validated, not proved, except for the kernel-evaluated tables. Known finding F-C14: lerp(a,a,x) deviates from a by f32 rounding (≤2 ulp). Quat/DQuat: glam's SSE2/scalar code transcribed and checked bit for bit (x86-64).",
   technique="Lean 4 theorems (induction/nlinarith over ℚ model) + bit-exact model-vs-code correspondence + decide +kernel Float32 tables", design="§7 C14"),
}

# theorems and correspondence added in the second build session (appended to the claims above)
ADD = {
 "C02": "For every faithful rounding (Rd ρ: monotone, idempotent, odd, fixing 0, 1, 2, 3, ½ — the same generic model term instantiated at rounded arithmetic): a segment yields its starting keyframe's value exactly at its start and its ending keyframe's value exactly at its end, for float and integer properties and every built-in easing (C02Rounded). Value generator includes odd integers between 2^23 and 2^24.",
 "C03": "For every faithful rounding the position lies in [0,1] for every repeat/reverse shape, delay and time (C03Rounded.pos_in_unit_any_rounding; non-vacuity with a lossy fixed-point rounding). The generated table of `Default for TimeScale` is pinned to the documented defaults (C03Defaults).",
 "C08": "On the derive: the generated update / start_with / sub-timeline wiring lists of the real expansion touch exactly the animated fields (judged on the implementation's expansion record, field names that collide with generated names included).",
 "C12": "Merges of merges (MergedTimeline<MergedTimeline<T>>, model Merged2): evaluation and start_with equal those of the flat merge; an inner merge without a common cycle duration, or an empty one, takes the outer cycle duration away wherever it stands (C12Nested). Ord/PartialOrd/PartialEq/max of Repeat exercised directly (repcmp) against the documented order.",
 "C13": "For every faithful rounding every row of the generated easing table (any control points) maps 0 to 0 and 1 to 1 exactly (C13Rounded). Custom easings are distinct zero-sized types and are compared with the function called directly (easeraw), with a different easing evaluated at the same x immediately before.",
 "C14": "For every faithful rounding lerp(a,b,0)=a and lerp(a,b,1)=b exactly for representable endpoints, integers included through the checked conversion (C14Rounded). Quat/DQuat (glam's normalised lerp, which mina passes on): unit length for every s, endpoints a and ±b (short way round), lerp(a,a,x)=a, f64 code = f32 code in exact arithmetic (C14Quat); bit-exact correspondence on ops quat/dquat plus a spec oracle on the implementation.",
 "C18": "Apps with several animated entities: a frame does to each entity exactly what it would do if it were alone (frameAll_get, frameAll_error); the App's clock (pause, relative speed) is driven on the real Time and modelled after bevy_time 0.11. Oracles on the implementation: state rules (Waiting ⇒ before the delay, Ended iff the frame started at/after the total duration, never for infinite repeats) and `component = timeline(position one frame ago)` while Playing (op evalat).",
 "C19": "Oracle on the implementation includes the positive chain rule (own Ended + chain entry ⇒ the key advances in the next frame); the selector key type of the harness has a Hash coarser than its Eq; several entities per App.",
 "C20": "Every op of every suite is judged for totality: any unclassified panic, any debug/release difference and any op the implementation does not return from (process-group time limits) is a failing input. Timelines of up to 40 keyframes.",
}
for _k, _v in ADD.items():
    CLAIMS[_k]["text"] = CLAIMS[_k]["text"] + " Added: " + _v
ADD2 = {
 "C01": "A parameterised (non-zero-sized, boxed) custom easing: a timeline previewed, dropped and rebuilt with another parameter is eased by its own easing (twin comparison on the implementation).",
 "C02": "Suite big: timelines of 256…70 001 keyframes (one property in more keyframes than an 8- or 16-bit index counts) — exact keyframe hits and held end values on the implementation, bit-exact against the model (whose from_keyframes has a linear-time twin proved equal, @[csimp]).",
 "C03": "Built timelines: a reversing timeline of cycle 2d equals, on its first half, the forward timeline of cycle d, and mirrors on the way back (relational oracle); builders and timelines also reach the harness through Clone::clone_from.",
 "C04": "The target type Q5 has an observable Clone (a copy made while the animator is driven carries a bumped un-animated field): an animator that copies or replaces the caller's struct is seen.",
 "C06": "Observable Clone on Q5 (see C04).",
 "C08": "Through the animator: after every set_state/advance a property no timeline animates keeps the caller's value (expectation on the implementation), with an observable Clone on the target.",
 "C10": "SubTimeline driven directly (ops sub/subov/subat): arbitrary index hints, times outside [0,1], keyframes past 100 %; theorem C10Hints.valueAt_override_only_through_frame0 (any SubTl, any hint, any number system) and the same statement as an oracle on the implementation.",
 "C15": "Easing arguments that are bare identifiers of any name (a local/const/static holding an Easing) are passed through as written.",
 "C20": "Suite big with a no-panic / finite oracle on every evaluation of timelines of up to 70 001 keyframes.",
}
for _k, _v in ADD2.items():
    CLAIMS[_k]["text"] = CLAIMS[_k]["text"] + " Round 9: " + _v
ADD3 = {
 "C05": "A hand-written Timeline (DynTl) that reports a shorter or longer duration than the stretch over which its values move, inside a StateAnimator next to a plain animator over the same components: same values after the same steps.",
 "C09": "Timelines are built on threads of their own and evaluated on the main thread; a timeline evaluated twice at one instant, with a differently timed timeline evaluated at that instant in between, gives one result.",
 "C11": "Shape W72 (72 animated f64 fields: keyframe data over 1 KiB) in the permutation-twin suite.",
 "C12": "Component cycle durations one or two ulps apart: no common cycle duration.",
 "C13": "Every easing is also evaluated from eight threads at once (own clones) and compared with the single-threaded values.",
 "C16": "Field-init shorthand (`{ x }` = `{ x: x }`) in keyframe bodies and inline defaults, in the token model, the reading oracle and the compiled families.",
 "C17": "Underscore-prefixed field names in derived structs.",
 "C18": "Marathon Apps: infinitely repeating timelines driven past 65 536 s of position (600 s frames, or one 65 535 s frame then 60 Hz).",
 "C19": "Rule on the implementation: a key change on a disabled animator rewinds it, so that the new key's timeline plays from its beginning once enabled.",
 "C03": "prepare_frame is also called directly (op prep: sorted boundary lists with repeats).",
 "C04": "StateAnimatorBuilder::on receives timelines in all four forms (explicit merge, Into<MergedTimeline>, the timeline itself, the un-built configuration).",
}
for _k, _v in ADD3.items():
    CLAIMS[_k]["text"] = CLAIMS[_k]["text"] + " Round 10: " + _v
ADD4 = {
 "C01": "SubTimeline::from_keyframes is also fed a lazily filtered iterator (no exact size hint); twin comparison with the slice-fed one.",
 "C04": "Every other set_state goes through `&mut dyn StateAnimator`.",
 "C06": "Runs of 64 or 1000 steps of 0.6…1.6 ns (below and around the clock's resolution) against one step of the same number of nanoseconds.",
 "C08": "States are registered up to three times with StateAnimatorBuilder::on (the last registration wins); inside a state, a property its timeline has no keyframe for is not moved by advance (keepprev).",
 "C10": "Clone::clone_from of a SubTimeline into one with another start override (op subcf).",
 "C14": "Directed integer lerps 0 → ±2^j at x within two ulps of (k+½)/2^j: strict nearest-integer expectation for every kind.",
 "C15": "Three directed, really compiled cases of timeline! inside a macro_rules! wrapper forwarding a caller expression (hygiene).",
}
for _k, _v in ADD4.items():
    CLAIMS[_k]["text"] = CLAIMS[_k]["text"] + " Round 11: " + _v
ADD5 = {
 "C02": "Keyframes that define every animated property are, every other time, captured with the derived keyframe_from instead of setter by setter.",
 "C07": "One animator history in five ends past the end with a negative step (rejected by a panic) followed by another step.",
 "C12": "Negative finite evaluation times on merges. Not exercised: NaN / infinite evaluation times (the model is not validated there; seeded change S12-C12 is recorded as missed).",
 "C17": "Compiled shape N5 whose field names are names of locals in the generated code (normalized_time, time, index); exact keyframe hits on the derive-only shapes are also judged under C17.",
 "C18": "Not exercised: the life cycle of Bevy entities (animated component removed or inserted late) — seeded change S12-C18 is recorded as missed.",
 "C19": "Not exercised: entities despawned and their index reused — seeded change S12-C19 is recorded as missed.",
 "C20": "A user-made cubic Bézier easing at the smallest positive times and within two ulps of every phase boundary (no panic, finite).",
}
for _k, _v in ADD5.items():
    CLAIMS[_k]["text"] = CLAIMS[_k]["text"] + " Round 12: " + _v


def main():
    checks = []
    for pid in sorted(CLAIMS):
        c = CLAIMS[pid]
        checks.append(dict(
            property_id=pid,
            quick_cmd=f"./check {pid} --tier quick",
            thorough_cmd=f"./check {pid} --tier thorough",
            evidence_file=f"/verif/evidence/{pid}.json",
            replay_cmd_template=f"./check {pid} --replay {{path}}",
            engine="lean-proof+correspondence",
            level_claimed=dict(category="proof", text=c["text"], design_ref=c["design"]),
            level_note=c["note"],
            technique=c["technique"],
        ))
    all_ids = [f"C{i:02d}" for i in range(1, 21)]
    na = [dict(property_id=p, reason="not yet claimed: model/theorems for this property are still being built in this session (no technique switch; see DESIGN.md §13 build order)") for p in all_ids if p not in CLAIMS]
    m = dict(
        version=1,
        setup_cmd="./setup.sh",
        hooks=dict(guard="verif-hooks", enable="cargo feature `verif-hooks` on mina / mina_core (harness crates depend on /repo by path with features=[\"verif-hooks\"]); macro sources are #[path]-included with the feature set by the harness",
                   baseline_off_cmd="cd /repo && cargo test --workspace --no-fail-fast --offline",
                   source_commits=["bfdb611"], add_only=True),
        engines=[dict(name="lean-proof+correspondence", path="/verif/check", serves_properties=sorted(CLAIMS),
                      kind_free_text="Lean 4 theorems over a generic executable model (ℚ for proofs, Float32 for execution), tables regenerated from /repo, bit-exact differential correspondence against the real crates through a line protocol")],
        checks=checks,
        notes="Fix commits in /repo: f18722c (C20), 0c5d3a1 (C11), ba53243 (C04/C05), 442e70b (C12), 3ddfc7e (C18). Known findings: known_findings.json.",
        not_applicable=na,
    )
    json.dump(m, open(os.path.join(V, "MANIFEST.json"), "w"), indent=1, ensure_ascii=False)

if __name__ == "__main__":
    main()
