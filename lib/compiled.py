"""Compiled program families for C15 / C16 (DESIGN.md §7, §0.2 item 8).

For generated, type-correct `timeline!` / `animator!` sentences: the sentence is really compiled by rustc
through the real proc macros (`M`), next to explicit builder calls rendered from the **Lean model's**
reading of the same sentence (`R`). Both run in one binary; everything observable about the two values
(reported metadata, values over the whole life from a sentinel target, again after start_with; for
animators a fixed schedule of state changes and advances) must be identical bit for bit.

This closes the gap left by the in-process expansion path, which interprets the emitted tokens itself:
here the emitted tokens are compiled and executed."""
import os
import re
import subprocess

import pipeline as P

CRATE = os.path.join(P.VERIF, "harness", "macro_compiled")


def split_top(s, sep):
    """split at `sep` outside any [] () {}"""
    out, depth, cur = [], 0, ""
    for ch in s:
        if ch in "[({": depth += 1
        elif ch in "])}": depth -= 1
        if ch == sep and depth == 0:
            out.append(cur); cur = ""
        else:
            cur += ch
    out.append(cur)
    return out


def bits(b):
    return f"f32::from_bits({b}u32)"


def rust_of_tl(rec):
    """explicit builder calls for a `tl[..]` / `merged[..]` record; None if the record is not well-formed"""
    if rec.startswith("merged[") and rec.endswith("]"):
        parts = [rust_of_tl(p) for p in split_top(rec[7:-1], "|")]
        if any(p is None for p in parts): return None
        return "::mina::MergedTimeline::of([" + ", ".join(parts) + "])"
    m = re.fullmatch(r"tl\[dur=([^;]*);delay=([^;]*);ease=([^;]*);rep=([^;]*);rev=([^;]*);kf=(.*)\]", rec)
    if not m: return None
    dur, delay, ease, rep, rev, kfs = m.groups()
    if "?" in dur + delay + rep + rev: return None
    s = "Style::timeline()"
    if dur != "-": s += f".duration_seconds({bits(dur)})"
    if delay != "-": s += f".delay_seconds({bits(delay)})"
    if ease != "-": s += f".default_easing({ease})"
    if rep == "i": s += ".repeat(::mina::Repeat::Infinite)"
    elif rep != "-": s += f".repeat(::mina::Repeat::Times({rep}u32))"
    if rev == "1": s += ".reverse(true)"
    for kf in ([] if kfs == "" else split_top(kfs, ",")):
        pos, _, spec = kf.partition(":")
        if not pos.isdigit(): return None
        k = f"Style::keyframe({bits(pos)})"
        for item in ([] if spec == "" else split_top(spec, "&")):
            if item == "D":
                k += f".values_from({bits(pos)}, &default_values)"
            else:
                name, eq, expr = item.partition("=")
                if not eq or not re.fullmatch(r"[a-z_]+", name): return None
                k += f".{name}({expr})"
        s += f".keyframe({k})"
    return s + ".build()"


def rust_of_anim(rec):
    m = re.fullmatch(r"anim\[state=(.*?);defaults=(.*);on=(.*)\]", rec)
    if not m: return None
    state, defaults, ons = m.groups()
    if defaults == "none":
        d = "Style::default()"
    elif defaults.startswith("inline:"):
        body = ""
        for item in ([] if defaults[7:] == "" else split_top(defaults[7:], "&")):
            name, eq, expr = item.partition("=")
            if not eq: return None
            body += f" d.{name} = {expr};"
        d = "{ let mut d = Style::default();" + body + " d }"
    elif defaults.startswith("expr:"):
        d = defaults[5:]
    else:
        return None
    s = "{ let default_values = " + d + "; ::mina::StateAnimatorBuilder::new()"
    if state != "-": s += f".from_state({state})"
    s += ".from_values(default_values.clone())"
    n_on = 0
    for on in ([] if ons == "" else split_top(ons, ",")):
        mm = re.match(r"(.*?):(tl\[|merged\[)", on)
        if not mm: return None
        tl = rust_of_tl(on[len(mm.group(1)) + 1:])
        if tl is None: return None
        s += f".on({mm.group(1)}, {tl})"
        n_on += 1
    if n_on == 0: return None            # no arm: the timeline type cannot be inferred (macro and builder alike)
    return s + ".build() }"


def compiled_family(prop, tier, seed):
    """returns dict(checked, fails, hist, problems, notes)"""
    kind = {"C15": "mtl", "C16": "manim"}[prop]
    n = {"quick": 60, "thorough": 1500}[tier]
    binname = prop.lower()
    work = os.path.join(P.WORK, prop)
    os.makedirs(work, exist_ok=True)
    ops_path = os.path.join(work, f"compiled.{tier}.ops")
    mbin = P.harness_bin("debug", P.MACRO, "macro_harness")
    P.gen_ops(kind + "c", seed + 4242, n, ops_path, gen_bin=mbin)
    P.run_stream(P.MODEL_EXE, [], ops_path, ops_path + ".model")
    P.run_stream(mbin, ["render"], ops_path, ops_path + ".src")
    ops, model, src = P.read_lines(ops_path), P.read_lines(ops_path + ".model"), P.read_lines(ops_path + ".src")
    hist = {"compiled-cases": 0, "compiled-merged": 0, "compiled-skipped": 0, "compiled-dropped": 0, "compiled-panics": 0}
    cases = {}
    for i, op in enumerate(ops):
        if not op.strip(): continue
        rec = model[i] if i < len(model) else ""
        ref = rust_of_tl(rec) if kind == "mtl" else rust_of_anim(rec)
        if ref is None:
            hist["compiled-skipped"] += 1
            continue
        if kind == "mtl":
            loc = "#[allow(unused_variables)] let (x, y, alpha, size) = (11.5f32, -3.25f32, 0.625f32, 40.0f32);"   # for `{ x }` shorthand
            m = f"fn m{i}() -> String {{ {loc} obs_tl(timeline!({src[i]})) }}"
            r = f"fn r{i}() -> String {{ {loc} obs_tl({ref}) }}"
        else:
            pre = "let base_style = Style { x: 3.0, y: 4.0, alpha: 0.75, size: 12.0 }; #[allow(unused_variables)] let (x, y, alpha, size) = (11.5f32, -3.25f32, 0.625f32, 40.0f32);"
            m = f"fn m{i}() -> String {{ {pre} obs_anim(animator!({src[i]})) }}"
            r = f"fn r{i}() -> String {{ {pre} obs_anim({ref}) }}"
        cases[i] = (m, r)
    if kind == "mtl":
        # directed: `timeline!` inside a `macro_rules!` wrapper that forwards an expression of its caller — the expression
        # keeps meaning what it meant where it was written (the caller's `x`), although the wrapper has a local of that name
        loc = "#[allow(unused_variables)] let (x, y, alpha, size) = (11.5f32, -3.25f32, 0.625f32, 40.0f32);"
        wrapped = [
            ("x", "x + 1.0", "Style 2s to {{ x: ($v) }}", "Style::timeline().duration_seconds(2.0).keyframe(Style::keyframe(1.0).x(x + 1.0)).build()"),
            ("y", "y * 2.0", "Style 3s Easing::OutQuad from {{ y: ($v) }} to {{ y: 9.0 }}", "Style::timeline().duration_seconds(3.0).default_easing(Easing::OutQuad).keyframe(Style::keyframe(0.0).y(y * 2.0)).keyframe(Style::keyframe(1.0).y(9.0)).build()"),
            ("alpha", "alpha", "Style 1s 50% {{ alpha: ($v) }}", "Style::timeline().duration_seconds(1.0).keyframe(Style::keyframe(0.5).alpha(alpha)).build()"),
        ]
        for k, (name, expr, sentence, ref) in enumerate(wrapped):
            i = 900000 + k
            sent = sentence.replace("{{", "{").replace("}}", "}")
            m = (f"fn m{i}() -> String {{ {loc} macro_rules! wrap{i} {{ ($v:expr) => {{{{ #[allow(unused_variables)] let {name} = 77.0f32; "
                 f"obs_tl(timeline!({sent})) }}}} }} wrap{i}!({expr}) }}")
            r = f"fn r{i}() -> String {{ {loc} obs_tl({ref}) }}"
            cases[i] = (m, r)
            hist["compiled-wrapped"] = hist.get("compiled-wrapped", 0) + 1
    class _Lbl(list):
        """op / model / source lists that also answer for the directed cases (indices ≥ 900000)"""
        def __init__(self, base, extra): super().__init__(base); self.extra = extra
        def __getitem__(self, i): return self.extra.get(i, "") if isinstance(i, int) and i >= 900000 else super().__getitem__(i)
    directed = {i: (m + "  //  " + r) for i, (m, r) in cases.items() if i >= 900000}
    ops, model, src = _Lbl(ops, {i: "directed: timeline! inside a macro_rules! wrapper — " + d[:300] for i, d in directed.items()}), _Lbl(model, {}), _Lbl(src, directed)
    problems, notes, fails = [], [], []
    gen_path = os.path.join(CRATE, "src", f"gen_{binname}.rs")
    lock = os.path.join(CRATE, "Cargo.lock")
    if not os.path.exists(lock) and os.path.exists("/repo/Cargo.lock"):
        import shutil
        shutil.copy("/repo/Cargo.lock", lock)
    built = False
    for attempt in range(4):
        lines, where = [], {}
        for i, (m, r) in sorted(cases.items()):
            where[len(lines) + 1] = (i, "M"); lines.append(m)
            where[len(lines) + 1] = (i, "R"); lines.append(r)
        lines.append("pub fn cases() -> Vec<(usize, fn() -> String, fn() -> String)> { vec![" + ", ".join(f"({i}, m{i} as fn() -> String, r{i} as fn() -> String)" for i in sorted(cases)) + "] }")
        open(gen_path, "w").write("\n".join(lines) + "\n")
        rc, out = P.sh(["cargo", "build", "--offline", "--quiet", "--bin", binname], cwd=CRATE, timeout=300 if tier == "quick" else 3600)
        if rc == 124:
            problems.append(f"compiled family: rustc did not finish compiling the generated {kind} sentences ({out[:120]}) — a proc macro that does not terminate?")
            break
        if rc == 0:
            built = True
            break
        bad = set()
        for mm in re.finditer(rf"src/gen_{binname}\.rs:(\d+):", out):
            w = where.get(int(mm.group(1)))
            if w: bad.add(w)
        if not bad:
            problems.append(f"compiled family does not build: {out[-1200:]}")
            break
        for (i, side) in bad:
            if i in cases:
                hist["compiled-dropped"] += 1
                notes.append(f"compiled family: case {i} dropped, its {side} side does not compile: {ops[i][:160]}")
                del cases[i]
    if built and len(cases) * 4 < (len(cases) + hist["compiled-dropped"]) * 3:
        problems.append(f"compiled family: {hist['compiled-dropped']} of {len(cases) + hist['compiled-dropped']} cases do not compile")
    checked = 0
    if built:
        rc, pout = P.sh([os.path.join(CRATE, "target", "debug", binname)], timeout=300 if tier == "quick" else 3600)
        if rc == 124: problems.append("compiled family: the compiled cases did not finish running")
        res = {}
        for line in pout.split("\n"):
            w = line.split(" ", 2)
            if len(w) == 3 and w[0].isdigit() and w[1] in ("M", "R"): res[(int(w[0]), w[1])] = w[2]
        for i in sorted(cases):
            a, b = res.get((i, "M")), res.get((i, "R"))
            if a is None or b is None:
                problems.append(f"compiled family: no output for case {i}")
                continue
            checked += 1
            hist["compiled-cases"] += 1
            if "merged[" in model[i]: hist["compiled-merged"] += 1
            if a == "panic" and b == "panic": hist["compiled-panics"] += 1
            if a != b:
                fails.append(dict(line=i, directive=f"compiled {kind}: the really compiled macro behaves like the builder calls of the model's reading",
                                  op=ops[i], got=a[:600], want=b[:600], ops=[ops[i]], source=src[i], model_reading=model[i]))
    # restore the placeholder so that the crate always builds from a clean checkout state
    open(gen_path, "w").write("pub fn cases() -> Vec<(usize, fn() -> String, fn() -> String)> { Vec::new() }\n")
    notes.append(f"compiled program family: {checked} generated {kind} sentences compiled by rustc through the real macro and compared, value by value, with builder calls rendered from the Lean model's reading")
    return dict(checked=checked, fails=fails, evaluations=checked, hist=hist, problems=problems, notes=notes)
