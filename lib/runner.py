"""run_check: orchestration of one property check (DESIGN.md §4.3, §5)."""
import concurrent.futures as cf
import glob
import json
import os
import time

from pipeline import *  # noqa


def _chunks(plan, tier, seed):
    jobs = []
    for s in plan["suites"]:
        n = s.thorough if tier == "thorough" else s.quick
        if n <= 0: continue
        k = s.chunks_thorough if tier == "thorough" else 1
        k = max(1, min(k, n))
        per = (n + k - 1) // k
        for c in range(k):
            jobs.append((s.name, seed * 1000003 + c * 7919 + 1, per, f"{tier}.{c}", s.crate))
    return jobs


def run_check(prop, plan, tier, seed, replay, t0):
    os.makedirs(EVIDENCE, exist_ok=True)
    os.makedirs(os.path.join(WORK, prop), exist_ok=True)
    problems = []        # broken proof obligations / broken tie (not by themselves violations)
    notes = []
    # 1. tie, part 1: regenerate the data tables from /repo
    broken_tables = gen_tables()
    for b in broken_tables:
        problems.append(f"generated table {b['table']} no longer parses: {b['why']}")
    # 2. Lean: build the property's theorems and the model driver
    modules = plan.get("theorem_modules", [f"MinaProofs.Props.{m}" for m in prop_modules(prop)])
    targets = list(modules) + ["mina_model"]
    names = write_audit(prop)
    ok_build, log = lake_build(targets)
    if tier == "thorough" and ok_build and plan.get("kernel_modules"):
        kmods = [m for root in plan["kernel_modules"] for m in kernel_modules(root)]
        ok_build, klog = lake_build_batched(kmods)
        log += klog
        if ok_build: notes.append(f"{len(kmods)} exhaustive kernel-evaluation modules built ({', '.join(plan['kernel_modules'])})")
    broken_decls = []
    if not ok_build:
        broken_decls = sorted({decl_at(x) for x in failing_decls(log)}) or ["lake build failed"]
        problems.append("Lean build failed: " + ", ".join(broken_decls))
        # the driver may still build on its own (a proof broke, not the model)
        ok_model, log2 = lake_build(["mina_model"])
        if not ok_model:
            problems.append("model driver does not build: " + "; ".join(failing_decls(log2)))
    forb = forbidden_tokens()
    if forb:
        problems.append("forbidden tokens in Lean sources: " + "; ".join(forb[:5]))
    obligations, discharged, bad_axioms, audit_log = names, [], [], ""
    if ok_build:
        obligations, discharged, bad_axioms, audit_log = audit(prop)
        for b in bad_axioms:
            problems.append("axiom audit: " + b)
    if tier == "thorough" and ok_build and plan.get("leanchecker", True):
        for m in modules:
            rc, out = sh(["lake", "env", "leanchecker", m], cwd=LEAN, timeout=3600)
            if rc != 0:
                problems.append(f"leanchecker rejected {m}: {out[-300:]}")
            else:
                notes.append(f"leanchecker accepted {m}")
    # 3. Rust harness against the current /repo tree, hooks on, both profiles
    profiles = ["debug", "release"]
    for prof in list(profiles):
        ok, out = cargo_build(prof)
        if not ok:
            problems.append(f"harness does not build ({prof}): {out[-1500:]}")
            profiles.remove(prof)
    for crate in sorted({s.crate for s in plan["suites"]} | set(plan.get("crates", []))):
        if crate == "core": continue
        ok, out = cargo_build("debug", CRATES[crate][0])
        if not ok:
            problems.append(f"{crate} harness does not build: {out[-1500:]}")
    res = Result()
    have_model = os.path.exists(MODEL_EXE)
    violations = []
    if profiles and have_model:
        # 4. corpus first, then generated chunks
        jobs = []
        for path in sorted(glob.glob(os.path.join(VERIF, "corpus", prop, "*.ops")) + glob.glob(os.path.join(VERIF, "corpus", "all", "*.ops"))):
            jobs.append(("corpus", path))
        if replay:
            data = json.load(open(replay)) if replay.endswith(".json") else {"ops": read_lines(replay)}
            tmp = os.path.join(WORK, prop, "replay.in.ops")
            open(tmp, "w").write("\n".join(data["ops"]) + "\n")
            jobs = [("corpus", tmp)]
        chunk_jobs = [] if replay else _chunks(plan, tier, seed)
        results = []
        with cf.ThreadPoolExecutor(max_workers=NCPU) as ex:
            futs = []
            for kind, path in jobs:
                ops = [l for l in read_lines(path)]
                futs.append((f"corpus:{os.path.basename(path)}", ex.submit(run_suite_chunk, prop, "corpus", 0, 0, os.path.basename(path), profiles, ops)))
            for (suite, sd, n, tag, crate) in chunk_jobs:
                futs.append((f"{suite}:{tag}", ex.submit(run_suite_chunk, prop, suite, sd, n, tag, profiles, None, crate)))
            for name, f in futs:
                r = f.result()
                r["name"] = name
                results.append(r)
        for r in results:
            if "error" in r:
                problems.append(f"{r['name']}: {r['error']}")
                if r.get("hang"):
                    # non-termination on a concrete input: a failing input in its own right (the implementation neither
                    # accepts nor rejects / never produces the value the property speaks of)
                    res.oracle_fails.append(dict(line=r["hang"]["line"], directive="totality the implementation returns (terminates) on every op",
                                                 op=r["hang"]["ops"][-1], got=f"no result within the per-op time limit ({r['hang']['profile']} build)", want="a result", ops=r["hang"]["ops"]))
                continue
            res.evaluations += r["n_ops"]
            res.distinct |= r["distinct"]
            for k, v in r["hist"].items(): res.hist[k] = res.hist.get(k, 0) + v
            if len(res.samples) < 4: res.samples += r["samples"][:2]
            res.traces += r["traces"]
            res.oracle_checked += r["oracle_checked"]
            for d in r["diffs"]: res.diffs.append(dict(d, ops_path=r["ops_path"], chunk=r["name"]))
            for d in r["profile_diffs"]: res.profile_diffs.append(dict(d, ops_path=r["ops_path"], chunk=r["name"]))
            for d in r["oracle_fails"]: res.oracle_fails.append(dict(d, ops_path=r["ops_path"], chunk=r["name"]))
        # property-specific spec oracles (exact-arithmetic specs evaluated by the driver, etc.)
        hook = plan.get("extra")
        if hook and any(r.get("hang") for r in results):
            notes.append("property-specific oracles skipped: the implementation does not terminate on a generated op (reported as the failing input)")
            hook = None
        if hook:
            hk = hook(prop, tier, seed, profiles)
            res.oracle_checked += hk.get("checked", 0)
            res.oracle_fails += hk.get("fails", [])
            res.evaluations += hk.get("evaluations", 0)
            for k, v in hk.get("hist", {}).items(): res.hist[k] = res.hist.get(k, 0) + v
            notes += hk.get("notes", [])
            problems += hk.get("problems", [])
        import pipeline as _P
        for t in _P.TIMED_OUT:
            if not any(t[:60] in pr for pr in problems): problems.append("run killed: " + t)
        if res.diffs:
            problems.append(f"correspondence broken: model and implementation disagree on {res.hist.get('DIFF', len(res.diffs))} ops (first: {res.diffs[0]['op'][:120]!r} impl={res.diffs[0]['impl'][:80]!r} model={res.diffs[0]['model'][:80]!r})")
        if res.profile_diffs and plan.get("profiles_must_agree", True):
            problems.append(f"debug and release builds disagree on {len(res.profile_diffs)} ops")
        if not replay:
            for key, floor in plan.get("floors", {}).get(tier, plan.get("floors", {}).get("quick", {})).items():
                if res.hist.get(key, 0) < floor:
                    problems.append(f"coverage floor: branch {key} reached {res.hist.get(key, 0)} < {floor} times")
    else:
        problems.append("correspondence not run (harness or model driver unavailable)")

    # 5. known findings: recognisers explain specific oracle failures; everything else is a violation
    known = [k for k in load_known() if k["property"] == prop and k["kind"] == "finding"]
    recognisers = plan.get("recognisers", {})
    explained = {}
    unexplained = []
    def classify_fails(fails):
        for f in fails:
            hit = None
            for k in known:
                rec = recognisers.get(k["recogniser"])
                if rec and rec(f):
                    hit = k; break
            if hit: explained.setdefault(hit["id"], []).append(f)
            else: unexplained.append(f)
    classify_fails(res.oracle_fails)
    # 5b. a proof obligation or the correspondence broke but no oracle has failed yet: search harder for a concrete failing
    # input of the property before giving the verdict (fresh seeds, more ops, all cores; time-boxed)
    if problems and not unexplained and not replay and profiles and have_model:
        budget = 150 if tier == "quick" else 900
        t_search = time.time()
        searched = 0
        for rnd in range(1, 5):
            if time.time() - t_search > budget or unexplained: break
            sseed = seed + 7919 * rnd
            jobs = []
            for sname, sd, n, tag, crate in _chunks(plan, tier, sseed):
                for c in range(4):
                    jobs.append((sname, sd + 31 * c, n, f"search{rnd}.{tag}.{c}", crate))
            more = []
            with cf.ThreadPoolExecutor(max_workers=NCPU) as ex:
                futs = [ex.submit(run_suite_chunk, prop, sname, sd, n, tag, profiles[:1], None, crate) for (sname, sd, n, tag, crate) in jobs]
                for f in futs:
                    r = f.result()
                    if "error" in r: continue
                    searched += r["n_ops"]
                    for d in r["oracle_fails"]: more.append(dict(d, ops_path=r["ops_path"], chunk="search"))
            hook = plan.get("extra")
            if hook and not more and time.time() - t_search < budget:
                try:
                    hk = hook(prop, tier, sseed, profiles)
                    more += hk.get("fails", [])
                    searched += hk.get("evaluations", 0)
                except Exception as e:   # the search is best effort
                    notes.append(f"search round {rnd}: oracle hook failed: {e}")
            res.oracle_fails += more
            classify_fails(more)
        notes.append(f"failing-input search after a broken obligation: {searched} further ops/evaluations explored with fresh seeds in {time.time() - t_search:.0f}s; " + ("found a failing input" if unexplained else "none found"))
    # findings that are stated as refuted theorems + a replayed witness always print
    for k in known:
        if k.get("always_report") or k["id"] in explained:
            print(f"KNOWN-FINDING: property={prop} {k['id']} {k['what']}" + (f" [{len(explained.get(k['id'], []))} instances this run]" if k["id"] in explained else ""))

    # 6. verdict
    exit_code = 0
    if unexplained:
        f = unexplained[0]
        ops = read_lines(f["ops_path"]) if f.get("ops_path") else f.get("ops", [])
        block = block_of(ops, f["line"]) if f.get("ops_path") else ops
        rp = write_replay(prop, "oracle", dict(property=prop, kind="property oracle failed on the implementation", directive=f["directive"], got=f["got"], want=f["want"], ops=block, seed=seed, tier=tier, contradicts=plan.get("oracle_theorems", {}).get(f["directive"].split(" ")[1] if f["directive"].startswith("#") else "", obligations[:3]), n_failures=len(unexplained)))
        print(f"VIOLATION property={prop} replay={rp}")
        exit_code = 1
    elif problems:
        # a broken proof obligation or a broken correspondence, and no failing input of the property found
        payload = dict(property=prop, kind="proof obligation or correspondence no longer checks", problems=problems, broken_theorems=broken_decls, seed=seed, tier=tier)
        if res.diffs:
            d = res.diffs[0]
            ops = read_lines(d["ops_path"])
            payload["ops"] = block_of(ops, d["line"])
            payload["disagreement"] = dict(op=d["op"], impl=d["impl"], model=d["model"])
        elif res.profile_diffs:
            d = res.profile_diffs[0]
            payload["ops"] = block_of(read_lines(d["ops_path"]), d["line"])
            payload["disagreement"] = d
        rp = write_replay(prop, "broken", payload)
        print(f"VIOLATION property={prop} replay={rp} no-failing-input-found")
        for p in problems[:6]: print("  broken:", p[:600])
        exit_code = 1

    # 7. evidence
    wall = time.time() - t0
    ev = dict(
        property_id=prop, tier=tier, seed=seed, level="proof",
        coverage=dict(
            obligations=len(obligations), discharged=len(discharged),
            theorems=obligations,
            checker_cmd=f"cd lean && lake build {' '.join(modules)} && lake env lean MinaProofs/Audit/{prop}.lean  (#print axioms on every theorem; allowed: propext, Classical.choice, Quot.sound)",
            trusted_base=plan.get("trusted_base", []) + [
                "Lean 4.33 kernel; axioms per theorem audited on every run (at most propext, Classical.choice, Quot.sound); no native_decide",
                "the hand-written model is tied to /repo by bit-exact differential execution on generated inputs (sampled, not proved) and by tables regenerated from the sources",
                "exact arithmetic (ℚ) in the theorems; binary32 behaviour is validated by the correspondence run",
            ],
            evaluations=res.evaluations, distinct_nontrivial=len(res.distinct),
            rule=plan.get("rule", "ops are generated by harness/core_harness `gen` from one SplitMix64 seed; an op is non-trivial if it is not a declaration/comment and does real work (see lib/pipeline.py nontrivial); distinct = distinct op lines (hashed)"),
            samples=res.samples[:4] or [dict(theorems=obligations[:5])],
            traces_validated_against_impl=res.traces,
            oracle_checks=res.oracle_checked,
            branch_histogram={k: v for k, v in sorted(res.hist.items())},
            model_vs_impl_disagreements=len(res.diffs), debug_vs_release_disagreements=len(res.profile_diffs),
            profiles=profiles, notes=notes, problems=problems,
            known_findings=[k["id"] for k in known],
        ),
        assumptions=plan.get("assumptions", []),
        wall_s=round(wall, 2),
        violations=(1 if exit_code else 0),
    )
    # a --replay run covers one block only: its record goes next to the replay, not into the evidence directory
    ev_path = os.path.join(WORK, prop, "replay-evidence.json") if replay else os.path.join(EVIDENCE, f"{prop}.json")
    with open(ev_path, "w") as f:
        json.dump(ev, f, indent=1, default=str)
    print(f"{prop} [{tier}] theorems {len(discharged)}/{len(obligations)} checked; {res.evaluations} ops vs implementation ({len(res.diffs)} disagreements), {res.oracle_checked} oracle checks ({len(res.oracle_fails)} failed, {len(unexplained)} unexplained); {wall:.1f}s; exit {exit_code}")
    return exit_code
